"""C20 — the command line: `python -m pewlib convert|filter|stack ...` (and `pewlib.__main__.main()` with the
same argv) against PewModel/Cli.lean (mechanism `run`, specification `specRun`).

An abstract case names the sub-command, its options, where the output goes and the inputs (format, name, shape,
elements, a seed for the values).  `evaluate`
  1. writes the inputs under ctx.tmpdir() with the pluggable writers below (FORMATS),
  2. asks the library what `load` can ask about every path (is_dir, the two directory predicates, the Thermo sniffer,
     load_info) and the DRIVER (`c20.plan`: the table of `PewModel/Cli.lean`) which library loaders are candidates for
     it; calls exactly those loaders directly (the "equivalent direct library calls": data, parameters, or the
     exception class) and, for `filter`, applies the library filter directly to every field — these values are the
     abstract description sent to the driver (value = float64 bit pattern, NaN canonical).  Python never chooses a loader.
  2b. calls `pewlib.__main__.load(path)` itself for every input and compares the image it returns (or that it fails) with
     the driver's `loadMech` / `loadSpec` of that path,
  3. runs the command line (in process or as a subprocess) and observes the files it wrote or changed, loaded back
     with `io.npz.load` / `io.textimage.load` / the .vti reader of harness/c16.py; in-process runs also record, through
     thin delegating wrappers around the six library loaders, which loader delivered each input,
  4. compares with the driver's `mainRun` (model: load dispatch as the code branches, configuration overlay, run) and
     `specMain` (specification: table of supported inputs, configuration rule, `specRun`).
"""
from __future__ import annotations

import contextlib
import hashlib
import io as _io
import logging
import math
import os
import random
import subprocess
import sys
import warnings
from pathlib import Path

import numpy as np

from harness import core, gen_agilent
from harness.c16 import Malformed, read_vti  # independent .vti reader (imported, not edited)
from harness.core import Prop, outcome, tok

try:  # writers finished on branch wip-C03C04; the formats are simply not generated when a file is absent
    from harness import gen_thermo
except ImportError:  # pragma: no cover
    gen_thermo = None
try:
    from harness import gen_csvdir
except ImportError:  # pragma: no cover
    gen_csvdir = None

logging.getLogger("pewlib").addHandler(logging.NullHandler())  # the library logs warnings about optional columns
logging.getLogger("pewlib").propagate = False

NAN_TOK = tok(float("nan"))
ROOT = "R"  # the case directory in model path strings
NU_XY = True  # Nu directories with x/y columns: the loader reports an (x, y) spot spacing, stored as a SpotConfig since bcc3a26

AG_ELEMENTS = [("P", 31), ("Ca", 44), ("Fe", 56), ("Cu", 63), ("Zn", 66), ("Eu", 153), ("W", 182), ("Pb", 208)]
NPZ_ELEMENTS = ["A", "B", "C1", "Eu153", "P31", "Ca44", "Fe56", "x_y", "Zn66"]
TH_ELEMENTS = ["31P", "153Eu", "182W", "A", "Ca44", "13C", "Zn66", "238U", "7Li"]
WIN = "D:\\Agilent\\ICPMH\\1\\DATA\\verif\\"


class SyncExecutor:
    """stands in for ProcessPoolExecutor inside io.csv.load for in-process runs (pool workers are daemonic and may not
    start processes): every task runs at submit; the real pool is used by the subprocess runs"""

    def __init__(self, *a, **k):
        pass

    def __enter__(self):
        return self

    def __exit__(self, *a):
        return False

    def submit(self, fn, *a, **k):
        import concurrent.futures

        f = concurrent.futures.Future()
        try:
            f.set_result(fn(*a, **k))
        except BaseException as e:  # noqa: BLE001
            f.set_exception(e)
        return f


def ctok(x) -> int:
    x = float(x)
    return NAN_TOK if x != x else tok(x)


# ----------------------------------------------------------------------------- values
def make_values(seed, k, ne, h, w, spikes=False, nans=False, flat=False, specials=False):
    """ne grids h x w of pairwise distinct dyadic floats (positions observable); optional spikes / NaNs; `flat` replaces the
    ramp over rows and columns by fine-grained noise around one level (noise + spikes: many pixels sit near the filters' decision
    boundary)"""
    rng = random.Random(f"C20-values-{seed}-{k}")
    used = set()
    out = []
    for e in range(ne):
        g = []
        for r in range(h):
            row = []
            for c in range(w):
                if flat:
                    v = 10000.0 * k + 1000.0 * e + rng.randint(0, 1 << 22) / (1 << 19) + 50.0
                else:
                    v = 10000.0 * k + 1000.0 * e + 11.0 * r + 3.0 * c + rng.randint(0, 256) / 64 + 50.0
                if seed % 2:  # full 53-bit mantissas: text round trips need all 17 significant digits
                    v += rng.random() / 128
                if spikes and rng.random() < 0.15:
                    v += rng.choice([400.0, 777.0, -45.0])
                while v in used:
                    v += 1 / 64
                used.add(v)
                row.append(v)
            g.append(row)
        out.append(g)
    if nans:
        for e in range(ne):
            for _ in range(max(1, h * w // 5)):
                out[e][rng.randrange(h)][rng.randrange(w)] = math.nan
    if specials:  # infinities, signed zero, the smallest and the largest magnitudes (placement must not care)
        for e in range(ne):
            for v in SPECIALS:
                if rng.random() < 0.6:
                    out[e][rng.randrange(h)][rng.randrange(w)] = v
    return out


SPECIALS = [math.inf, -math.inf, -0.0, 0.0, 5e-324, -2.2250738585072014e-308, 1.7976931348623157e308, -1e300, 1e-7]


def txt(v):
    return "nan" if v != v else repr(float(v))


# ----------------------------------------------------------------------------- input formats (pluggable)
class Fmt:
    """one input format: `write` creates the file/directory at `path` from the abstract input `spec` and its values
    [element][row][col].  Which library loader reads it back is NOT decided here: the driver names the candidates
    (`c20.plan`) and `call_loader` executes them."""
    name = ""
    is_dir = False

    def available(self):
        return True

    def gen(self, rng, k, shape=None, elements=None):
        raise NotImplementedError

    def write(self, path: Path, spec, vals):
        raise NotImplementedError


def pick_shape(rng, shape, lo_h=1, lo_w=1):
    if shape is not None:
        return max(shape[0], lo_h), max(shape[1], lo_w)
    return max(rng.choice([1, 1, 2, 2, 3, 4, 5, 7]), lo_h), max(rng.choice([1, 1, 2, 3, 3, 4, 6, 8]), lo_w)


P_SPOT = 0.25  # share of the generated npz inputs whose stored configuration is a SpotConfig
# storage types an .npz can carry for its fields (every other loader returns float64).  The values written are the generated
# float64 values cast to the type (floats) or their 64-fold, rounded (integers: still pairwise distinct, far below 2^31).
DTYPES = ["f8", "f4", "i4", "i8", ">f8", ">f4", "f2", "u4", "i2"]
DTYPE_POOL = ["f4", "f4", "f4", "i4", "i8", ">f8", ">f4", "f2", "u4"]
P_DTYPE = 0.12  # share of the npz inputs of convert / filter stored in another type than float64 (stack: its own class)


def np_dtype(name):
    return np.dtype(name)


def cast_values(g, dt):
    """the generated float64 grid as an array of storage type `dt`"""
    dt = np.dtype(dt)
    a = np.array(g, dtype=np.float64)
    if dt.kind in "iu":
        with np.errstate(all="ignore"):
            a = np.where(np.isnan(a), 0.0, a)
            a = np.rint(a * 64.0) if dt.itemsize >= 4 else np.rint(a) % 30000
        return a.astype(dt)
    with np.errstate(all="ignore"):
        return a.astype(dt)


def field_dtypes(spec):
    """per element: the storage type of an npz input (`dtype`: one name for all fields, or one per field)"""
    d = spec.get("dtype") or "f8"
    names = [d] * len(spec["elements"]) if isinstance(d, str) else list(d)
    if len(names) != len(spec["elements"]):
        names = (names + ["f8"] * len(spec["elements"]))[:len(spec["elements"])]
    return names


def representable(v, dt):
    """does the storage type hold the float64 value `v` exactly (NaN: does it have a NaN)"""
    dt = np.dtype(dt)
    with np.errstate(all="ignore"), warnings.catch_warnings():
        warnings.simplefilter("ignore")
        back = np.array(v, dtype=np.float64).astype(dt).astype(np.float64)
    if v != v:
        return bool(back != back)
    return bool(back == v)

SPOT_CONFIGS = [[25.0, 40.0], [100.0, 100.0], [5.0, 2.5], [12.5, 50.0], [1.0, 3.0], [10.0, 20.0]]


def make_spot(rng, spec):
    """the npz input `spec` becomes one saved from spot-wise data (configuration class SpotConfig: x and y spacing only)"""
    spec["cfg"] = "spot"
    spec["config"] = list(rng.choice(SPOT_CONFIGS))
    return spec


def make_raster(spec):
    spec.pop("cfg", None)
    if len(spec["config"]) != 3:
        spec["config"] = [35.0, 140.0, 0.25]
    return spec


class NpzFmt(Fmt):
    name = "npz"

    def gen(self, rng, k, shape=None, elements=None):
        h, w = pick_shape(rng, shape)
        els = elements or rng.sample(NPZ_ELEMENTS, rng.choice([1, 1, 2, 2, 3, 4]))
        spec = {"fmt": "npz", "suffix": rng.choice([".npz", ".npz", ".npz", ".NPZ"]), "h": h, "w": w, "elements": els,
                "config": rng.choice([[35.0, 140.0, 0.25], [10.0, 20.0, 0.5], [12.5, 100.0, 0.1], [1.0, 3.0, 2.0]]),
                "nans": rng.random() < 0.2}
        if rng.random() < P_SPOT:  # an image saved from spot-wise data: the loader returns a SpotConfig (header class "Spot")
            make_spot(rng, spec)
        if rng.random() < 0.4:  # calibrations other than the default one (the loader returns them with the image)
            spec["calibration"] = [rng.choice(CAL_CHOICES) for _ in els]
        return spec

    def write(self, path, spec, vals):
        from pewlib import Config, Laser
        from pewlib.config import SpotConfig
        from pewlib.io import npz

        dts = field_dtypes(spec)
        data = np.empty((spec["h"], spec["w"]), dtype=[(e, np.dtype(d)) for e, d in zip(spec["elements"], dts)],
                        order="F" if spec.get("order") == "F" else "C")
        for e, g, d in zip(spec["elements"], vals, dts):
            data[e] = cast_values(g, d).reshape(spec["h"], spec["w"])
        config = SpotConfig(*spec["config"][:2]) if spec.get("cfg", "raster") == "spot" else Config(*spec["config"])
        cals = spec.get("calibration") or []
        laser = Laser(data, config=config, info={"Name": spec["stem"]},
                      calibration={e: make_calibration(c) for e, c in zip(spec["elements"], cals) if c is not None})
        with path.open("wb") as fp:  # a file object: numpy appends '.npz' to other names
            npz.save(fp, laser)



class TextFmt(Fmt):
    name = "txt"

    def gen(self, rng, k, shape=None, elements=None):
        h, w = pick_shape(rng, shape)
        return {"fmt": "txt", "suffix": rng.choice([".txt", ".text", ".csv", ".csv", ".TXT"]), "h": h, "w": w,
                "elements": ["_element_"], "delimiter": rng.choice([",", ",", ";", "\t", "lib"]), "nans": rng.random() < 0.2}

    def write(self, path, spec, vals):
        from pewlib.io import textimage

        g = np.array(vals[0], dtype=np.float64).reshape(spec["h"], spec["w"])
        if spec["delimiter"] == "lib":
            textimage.save(path, g)
        else:
            path.write_text("".join(spec["delimiter"].join(txt(v) for v in row) + "\n" for row in g))



class AgilentFmt(Fmt):
    name = "agilent"
    is_dir = True

    def gen(self, rng, k, shape=None, elements=None):
        h, w = pick_shape(rng, shape, lo_w=2)
        ne = len(elements) if elements else rng.choice([1, 2, 2, 3])
        masses = rng.sample(AG_ELEMENTS, ne)
        masses.sort(key=lambda m: m[1])
        return {"fmt": "agilent", "suffix": rng.choice([".b", ".b", ".B"]), "h": h, "w": w,
                "elements": [f"{n}{m}" for n, m in masses], "masses": [list(m) for m in masses],
                "method": rng.choice(["batch_xml", "batch_xml", "batch_csv", "acq_method_xml"]),
                "dt": rng.choice([40, 64, 100, 1024]), "nans": False}

    def write(self, path, spec, vals):
        k, n, R = len(spec["elements"]), spec["h"], spec["w"]
        path.mkdir()
        names = [f"{i + 1:03d}.d" for i in range(n)]
        masses = [{"name": nm, "mass": mz, "acctime": "0.1"} for nm, mz in spec["masses"]]
        bc = 28 * k
        for li, nm in enumerate(names):
            d = path / nm
            (d / "AcqData").mkdir(parents=True)
            ticks = [10 + spec["dt"] * r for r in range(R)]
            gen_agilent.write_msscan(d / "AcqData" / "MSScan.bin", [68 + r * bc for r in range(R)], [bc] * R,
                                     [t / 4096 for t in ticks], k)
            gen_agilent.write_msprofile(d / "AcqData" / "MSProfile.bin",
                                        [[tok(vals[e][li][r]) for e in range(k)] for r in range(R)], k)
            gen_agilent.write_xspecific(d / "AcqData" / "MSTS_XSpecific.xml", masses)
        base = WIN + path.name + "\\"
        method = spec["method"]
        # "both_differ": a batch log AND an acquisition method that list the lines in different orders (the first method list
        # of `load` must win); "none": neither (no collection method of `load` can read the batch); "acq_empty_batchlog": an
        # acquisition method and a batch log without entries (the first method list finds no data, and `load_info` finds no
        # <BatchLogInfo> to read: AttributeError, not a ValueError)
        if method in ("batch_xml", "both_differ"):
            (path / "Method").mkdir()
            order = list(reversed(names)) if method == "both_differ" else names
            gen_agilent.write_batch_xml(path / "Method" / "BatchLog.xml", [{"result": "Pass", "file": base + nm} for nm in order],
                                        batch_name=path.name)
        if method == "batch_csv":
            gen_agilent.write_batch_csv(path / "BatchLog.csv", [{"id": i + 1, "file": base + nm, "result": "Pass"}
                                                                for i, nm in enumerate(names)])
        if method == "acq_empty_batchlog":
            (path / "Method").mkdir()
            gen_agilent.write_batch_xml(path / "Method" / "BatchLog.xml", [], batch_name=path.name)
        if method in ("acq_method_xml", "both_differ", "acq_empty_batchlog"):
            (path / "Method").mkdir(exist_ok=True)
            gen_agilent.write_acq_method(path / "Method" / "AcqMethod.xml",
                                         [{"name": nm, "mz": mz, "selected": mz} for nm, mz in spec["masses"]], False,
                                         [{"id": i, "file": nm} for i, nm in enumerate(names)])


class ThermoFmt(Fmt):
    name = "thermo"

    def available(self):
        return gen_thermo is not None

    def gen(self, rng, k, shape=None, elements=None):
        h, w = pick_shape(rng, shape, lo_w=2)
        els = rng.sample(TH_ELEMENTS, len(elements) if elements else rng.choice([1, 2, 2, 3]))
        return {"fmt": "thermo", "suffix": ".csv", "h": h, "w": w, "elements": els, "layout": rng.choice(["columns", "rows"]),
                "delimiter": rng.choice([",", ",", ";"]), "bom": rng.random() < 0.3, "dt": rng.choice([0.2, 0.25, 1.0049]),
                "nans": False}

    def write(self, path, spec, vals):
        n, m, k = spec["h"], spec["w"], len(spec["elements"])
        tokens = [[[[f"{0.2 + 0.01 * e + s * spec['dt']:.5f}", txt(vals[e][i][s])] for e in range(k)] for s in range(m)]
                  for i in range(n)]
        acq = {"samples": [f"Sample {i + 1}" for i in range(n)], "nscans": m, "elements": spec["elements"],
               "channels": ["Time", "Counter"], "tokens": tokens}
        table = gen_thermo.table_cols(acq) if spec["layout"] == "columns" else gen_thermo.table_rows(acq)
        gen_thermo.write(path, table, spec["delimiter"], "\r\n", spec["bom"])



class CsvDirFmt(Fmt):
    name = "csvdir"
    is_dir = True

    def available(self):
        return gen_csvdir is not None

    def gen(self, rng, k, shape=None, elements=None):
        h, w = pick_shape(rng, shape, lo_w=2)
        els = elements or rng.sample(["A", "B", "31P", "153Eu", "Ca44", "Zn66"], rng.choice([1, 2, 2, 3]))
        vendors = ["generic", "generic", "nu", "tofwerk"]
        return {"fmt": "csvdir", "suffix": rng.choice(["", "", ".d", ".1"]), "h": h, "w": w, "elements": els,
                "vendor": rng.choice(vendors), "xy": NU_XY and rng.random() < 0.5, "nans": False}

    def write(self, path, spec, vals):
        path.mkdir()
        n, L, els = spec["h"], spec["w"], spec["elements"]
        entries = []
        for li in range(n):
            cols, header = [], []
            if spec["vendor"] == "nu":
                header.append("Cycle time (ms)")
                cols.append([repr(2000.0 + 1000 * li + 10.0 * j) for j in range(L)])
                if spec["xy"]:
                    header += ["x [um]", "y [um]"]
                    cols += [[repr(5.0 * j) for j in range(L)], [repr(10.0 * li) for j in range(L)]]
            for e, nm in enumerate(els):
                header.append(f"'{nm}'" if spec["vendor"] == "tofwerk" else nm)
                cols.append([txt(vals[e][li][j]) for j in range(L)])
            if spec["vendor"] == "tofwerk":
                header.append("t_elapsed_Buf")
                cols.append([repr(round(0.1 + (li * L + j) * 0.25, 6)) for j in range(L)])
            name = {"generic": f"{li + 1:02d}.csv", "nu": f"line_{li + 1}.csv",
                    "tofwerk": f"IMG_2021.01.01-10h{li:02d}m10s_AS.csv"}[spec["vendor"]]
            entries.append({"name": name, "type": "file", "role": "line", "idx": li, "header": header,
                            "rows": [[c[j] for c in cols] for j in range(L)]})
        gen_csvdir.write_dir(path, {"vendor": spec["vendor"], "entries": entries})



class PerkinFmt(Fmt):
    """PerkinElmer 'XL' directory: one `N.xl` file per image COLUMN (the loader stacks the files along axis 1), optional
    parameters.conf; `with_csv` adds a csv file (both directory predicates hold: `load` must prefer PerkinElmer)"""
    name = "perkin"
    is_dir = True

    def gen(self, rng, k, shape=None, elements=None):
        h, w = pick_shape(rng, shape, lo_h=2)
        els = elements or rng.sample(["A", "B", "Eu153", "P31", "Ca44"], rng.choice([1, 2, 2, 3]))
        return {"fmt": "perkin", "suffix": rng.choice(["", "", ".d", ".xl"]), "h": h, "w": w, "elements": els,
                "conf": rng.choice([None, None, ["ablation.speed", "acquisition.time", "space.interval"], ["acquisition.time"],
                                    ["space.interval", "ablation.speed"]]),
                "with_csv": rng.random() < 0.3, "nans": False}

    def write(self, path, spec, vals):
        path.mkdir()
        for c in range(spec["w"]):
            lines = ["Intensity Vs Time,CPS", ",".join(["Time_in_Seconds"] + spec["elements"])]
            for r in range(spec["h"]):
                lines.append(",".join([repr(0.25 * r)] + [txt(vals[e][r][c]) for e in range(len(spec["elements"]))]))
            (path / f"{c + 1}.xl").write_text("\n".join(lines) + "\n")
        if spec["conf"]:
            values = {"ablation.speed": "0.125", "acquisition.time": "0.5", "space.interval": "0.03125"}
            (path / "parameters.conf").write_text("[section]\n" + "".join(f"{k} = {values[k]}\n" for k in spec["conf"]))
        if spec["with_csv"]:
            (path / "01.csv").write_text("A,B\n1.0,2.0\n3.0,4.0\n")


class EmptyDirFmt(Fmt):
    """a directory none of the directory loaders accepts (nothing inside, or only a text file)"""
    name = "emptydir"
    is_dir = True

    def gen(self, rng, k, shape=None, elements=None):
        return {"fmt": "emptydir", "suffix": rng.choice(["", ".d", ".csv", ".npz", ".txt"]), "h": 1, "w": 1, "elements": ["_none_"],
                "readme": rng.random() < 0.5, "nans": False}

    def write(self, path, spec, vals):
        path.mkdir()
        if spec["readme"]:
            (path / "readme.txt").write_text("1,2\n3,4\n")


FORMATS = {f.name: f for f in (NpzFmt(), TextFmt(), AgilentFmt(), ThermoFmt(), CsvDirFmt(), PerkinFmt(), EmptyDirFmt())}
ORDINARY = ("npz", "txt", "agilent", "thermo", "csvdir")  # the formats of the property's quantifier

# suffixes / layouts outside the ordinary ones: the DISPATCH classes of `load` (case handling, unknown suffixes, directories that
# look like files and files that look like batches, contents that do not match the name)
ODD = {
    "txt": [(".dat", "unknown-suffix"), ("", "unknown-suffix"), (".b", "unknown-suffix"), (".imzML", "unknown-suffix"),
            (".npz", "name-content-mismatch"), (".CSV", "case"), (".Text", "case"), (".TEXT", "case"), (".Csv", "case")],
    "npz": [(".dat", "unknown-suffix"), (".txt", "name-content-mismatch"), (".csv", "name-content-mismatch"), (".Npz", "case"),
            (".nPZ", "case")],
    "thermo": [(".CSV", "case"), (".Csv", "case"), (".txt", "name-content-mismatch"), (".text", "name-content-mismatch")],
    "csvdir": [(".b", "name-content-mismatch"), (".B", "name-content-mismatch"), (".npz", "dir-named-like-file"),
               (".csv", "dir-named-like-file"), (".txt", "dir-named-like-file")],
    "agilent": [("", "name-content-mismatch"), (".d", "name-content-mismatch")],
}


def oddify(rng, spec):
    """turn an ordinary input into one of the dispatch classes"""
    if spec["fmt"] == "agilent" and rng.random() < 0.6:
        spec["method"] = rng.choice(["both_differ", "both_differ", "none", "acq_empty_batchlog"])
        spec["odd"] = "agilent:" + spec["method"]
        return spec
    if spec["fmt"] in ODD:
        spec["suffix"], spec["odd"] = rng.choice(ODD[spec["fmt"]])
    return spec


def fmt_names():
    return [n for n in ORDINARY if FORMATS[n].available()]


# ----------------------------------------------------------------------------- the library, asked directly
LOADER_NAMES = ("agilent", "perkinelmer", "csv", "npz", "thermo", "textimage")


def outcome_of(e: BaseException) -> str:
    """how `load` sees an exception of a library call: `except ValueError` (with its subclasses) or anything else"""
    return "ValueError" if isinstance(e, ValueError) else "other"


def path_facts(path: Path):
    """what `load` can ask the library about a path (every answer is the library's, none is computed here)"""
    from pewlib.io import agilent, csv, perkinelmer, thermo

    f = {"exists": path.exists(), "is_dir": path.is_dir(), "perkin_valid": bool(perkinelmer.is_valid_directory(path)),
         "csv_valid": bool(csv.is_valid_directory(path)), "info": {"outcome": "ok"}}
    try:
        f["sniff"] = {"outcome": "ok", "format": str(thermo.icap_csv_sample_format(path))}
    except Exception as e:  # noqa: BLE001
        f["sniff"] = {"outcome": outcome_of(e)}
    if f["is_dir"]:
        try:
            agilent.load_info(path)
        except Exception as e:  # noqa: BLE001
            f["info"] = {"outcome": outcome_of(e)}
    return f


def call_loader(desc, path: Path, cal=None):
    """execute ONE library call named by the driver (`c20.plan`) -> the call record sent back to it"""
    from pewlib.io import agilent, csv, npz, perkinelmer, textimage, thermo

    rec = dict(desc)
    try:
        params, config = None, None
        name = desc["loader"]
        if name == "agilent":
            data, params = agilent.load(path, collection_methods=list(desc["methods"]), full=True)
        elif name == "perkinelmer":
            data, params = perkinelmer.load(path, full=True)
        elif name == "csv":
            data, params = csv.load(path, full=True)
        elif name == "thermo":
            data, params = thermo.load(path, full=True)
        elif name == "textimage":
            data, params = textimage.load(path, name="_element_"), {}
        elif name == "npz":
            laser = npz.load(path)
            data, config = laser.data, laser.config
            if cal is not None and data.dtype.names is not None:
                rec["calib"] = cal.of(laser, data.dtype.names)
        else:
            raise core.InternalError(f"driver named an unknown loader {desc}")
        if data.ndim != 2 or data.dtype.names is None:
            raise core.InternalError(f"loader {desc} returned an array of shape {data.shape} / dtype {data.dtype}")
        names = list(data.dtype.names)
        rec.update({"outcome": "ok", "h": int(data.shape[0]), "w": int(data.shape[1]),
                    "fields": [{"name": n, "data": [t for row in grid_tokens(data[n]) for t in row]} for n in names],
                    "params": param_tokens(params), "config": None if config is None else cfg_tokens(config),
                    "dtypes": [data.dtype[n].str for n in names]})
        rec["_data"] = data
    except core.InternalError:
        raise
    except Exception as e:  # noqa: BLE001
        rec["outcome"] = outcome_of(e)
    return rec


class LoaderSpy:
    """thin wrappers around the six library loaders: record (loader, path, collection methods, how the call ended) and
    delegate; installed only while `main()` runs in process"""

    def __init__(self):
        import pewlib.io as pio

        self.mods = {n: getattr(pio, n) for n in LOADER_NAMES}
        self.orig = {}
        self.calls = []

    def __enter__(self):
        for name, mod in self.mods.items():
            orig = self.orig[name] = mod.load

            def wrapper(path, *a, _name=name, _orig=orig, **k):
                rec = {"loader": _name, "path": str(Path(path).resolve()), "methods": k.get("collection_methods"), "ok": False}
                self.calls.append(rec)
                out = _orig(path, *a, **k)
                rec["ok"] = True
                return out

            mod.load = wrapper
        return self

    def __exit__(self, *exc):
        for name, mod in self.mods.items():
            mod.load = self.orig[name]
        return False

    def delivered(self, path: Path):
        """-> None when no loader was called for this path, else (name, methods) of the last call that returned,
        or ("fail", None)"""
        mine = [c for c in self.calls if c["path"] == str(path.resolve())]
        if not mine:
            return None
        good = [c for c in mine if c["ok"]]
        return (good[-1]["loader"], good[-1]["methods"]) if good else ("fail", None)


# ----------------------------------------------------------------------------- shape classes
EQ_COUNTS = [4, 6, 6, 8, 10, 12, 12, 12, 16, 18, 20, 24]  # pixel counts with at least three factorisations


def factorisations(n, lo_w=1):
    return [(r, n // r) for r in range(1, n + 1) if n % r == 0 and n // r >= lo_w]


def equal_count_shapes(rng, n, lo_w_first=1):
    """n >= 2 shapes with one pixel count that are not all the same shape: (r, c) next to (c, r), or several factorisations of
    one number; only the first input may need lo_w_first columns (an instrument import)"""
    count = rng.choice(EQ_COUNTS)
    facs = factorisations(count)
    if rng.random() < 0.4:  # a transposed pair, the rest repeats / adds factorisations
        r, c = rng.choice([f for f in facs if f[0] != f[1]])
        shapes = [(r, c), (c, r)] + [rng.choice(facs) for _ in range(n - 2)]
    else:
        shapes = rng.sample(facs, min(n, len(facs)))
        shapes += [rng.choice(facs) for _ in range(n - len(shapes))]
    rng.shuffle(shapes)
    if shapes[0][1] < lo_w_first:
        ok = [i for i, sh in enumerate(shapes) if sh[1] >= lo_w_first]
        if ok:
            i = rng.choice(ok)
            shapes[0], shapes[i] = shapes[i], shapes[0]
        else:
            shapes[0] = rng.choice(factorisations(count, lo_w_first))
    if len(set(shapes)) == 1:  # (only after the replacement above)
        shapes[-1] = rng.choice([f for f in facs if f != shapes[0]])
    return shapes


STRIP = 512  # images with more rows / columns than one or two multiples of this are the "large" class of `filter`
LONG_SIDES = [513, 514, 520, 600, 777, 1023, 1024, 1025, 1026, 1030, 1100, 1100, 1100, 1300]
SHORT_SIDES = [1, 2, 3, 4, 5, 5, 6, 8, 8, 9, 10, 12, 12, 12]


def long_shape(rng):
    a, b = rng.choice(LONG_SIDES), rng.choice(SHORT_SIDES)
    return (a, b) if rng.random() < 0.65 else (b, a)


# ----------------------------------------------------------------------------- helpers
def split_name(name: str):
    p = Path(name)
    return p.stem, p.suffix


def model_path(rel: Path):
    """path record of the model for a path relative to the case directory"""
    parent = rel.parent.as_posix()
    return {"dir": ROOT if parent == "." else ROOT + "/" + parent, "stem": rel.stem, "suffix": rel.suffix}


def snapshot(root: Path):
    snap = {}
    for p in root.rglob("*"):
        if p.is_file():
            snap[p.relative_to(root).as_posix()] = hashlib.sha1(p.read_bytes()).hexdigest()
    return snap


def grid_tokens(a):
    return [[ctok(v) for v in row] for row in np.asarray(a, dtype=np.float64)]


def cfg_tokens(c):
    """the stored form: what Config.to_array / SpotConfig.to_array keep"""
    if type(c).__name__ == "SpotConfig":
        return ["spot", ctok(c.spotsize), ctok(c.spotsize_y)]
    return ["raster", ctok(c.spotsize), ctok(c.speed), ctok(c.scantime)]


def param_tokens(params):
    if params is None:
        return [None, None, None]
    out = []
    for key in ("spotsize", "speed", "scantime"):
        if key not in params:
            out.append(None)
        elif isinstance(params[key], tuple):
            out.append([ctok(v) for v in params[key]])
        else:
            out.append(ctok(params[key]))
    return out


class CalTable:
    """per case: calibrations as small integers (0 = the default `Calibration()`), by content"""

    def __init__(self):
        from pewlib import Calibration

        self.ids = {self.key(Calibration()): 0}

    @staticmethod
    def key(c):
        def opt(x):
            return None if x is None else ctok(x)
        return core.canon([ctok(c.intercept), ctok(c.gradient), str(c.unit), opt(c.rsq), opt(c.error),
                           [[ctok(x), ctok(y)] for x, y in np.asarray(c.points, dtype=np.float64).reshape(-1, 2)],
                           str(c.weighting), [ctok(w) for w in np.asarray(c._weights, dtype=np.float64).ravel()]])

    def tok(self, c):
        return self.ids.setdefault(self.key(c), len(self.ids))

    def of(self, laser, names):
        return [self.tok(laser.calibration[n]) for n in names]


CAL_CHOICES = [None, None, None, {"intercept": 2.5, "gradient": 0.5, "unit": "ppm"}, {"intercept": 0.0, "gradient": 3.0, "unit": ""},
               {"intercept": -1.25, "gradient": 40.0, "unit": "ug/g", "points": [[0.0, 1.0], [1.0, 41.5], [2.0, 79.0]], "rsq": 0.998,
                "weighting": "1/x"},
               {"intercept": 0.125, "gradient": 1.0, "unit": "cps", "points": [[0.0, 0.0], [10.0, 10.5]], "rsq": 1.0, "error": 0.25}]


def make_calibration(d):
    from pewlib import Calibration

    if d is None:
        return Calibration()
    return Calibration(intercept=d["intercept"], gradient=d["gradient"], unit=d.get("unit", ""), rsq=d.get("rsq"), error=d.get("error"),
                       points=np.array(d["points"], dtype=np.float64) if d.get("points") else None, weights=d.get("weighting", "Equal"))


F8 = np.dtype(np.float64).str  # "<f8"


class CastTable:
    """what NumPy makes of float64 values put into fields of another storage type, and the type np.concatenate promotes to:
    the tables the driver's `Casting` is realised from (asked of NumPy, never computed here)"""

    def __init__(self):
        self.casts = {}
        self.promote = {}

    def add(self, t, values):
        """values: float64 array; -> the float64 array of what a field of type `t` holds"""
        t = np.dtype(t)
        a = np.asarray(values, dtype=np.float64).ravel()
        with np.errstate(all="ignore"), warnings.catch_warnings():
            warnings.simplefilter("ignore")
            b = a.astype(t).astype(np.float64)
        if t.str != F8:
            for x, y in zip(a, b):
                self.casts[(t.str, ctok(x))] = ctok(y)
        return b

    def result_type(self, types):
        key = tuple(np.dtype(t).str for t in types)
        if key not in self.promote:
            try:
                self.promote[key] = np.result_type(*[np.dtype(t) for t in types]).str
            except TypeError:
                self.promote[key] = None
        return self.promote[key]

    def request(self):
        return {"casts": [{"type": t, "src": v, "dst": w} for (t, v), w in sorted(self.casts.items())],
                "promote": [{"types": list(k), "result": r} for k, r in sorted(self.promote.items()) if r is not None]}


def canon_files(files):
    """last write wins, sorted by path"""
    last = {}
    for f in files:
        last[f["path"]] = f
    return [last[k] for k in sorted(last)]


class C20(Prop):
    id = "C20"
    anchored = ["src/pewlib/__main__.py", "src/pewlib/io/npz.py", "src/pewlib/io/textimage.py", "src/pewlib/process/filters.py"]
    cases = {"quick": 440, "thorough": 5000}
    rule = ("generated command lines of convert / filter / stack over 1..5 inputs written per case (npz, text image with , ; tab "
            "delimiters and .txt/.text/.csv/.TXT names, Agilent batch with each collection method, Thermo iCap CSV in both layouts, "
            "per-line CSV directory generic/Nu with and without x/y columns/TOFWERK), shapes 1x1..7x8 equal and unequal, a quarter of the "
            "stacks over inputs with one pixel count but different shapes (transposed pairs, several factorisations of 4..24), a fifth of "
            "the filter runs with an npz / text image longer than 512 or 1024 rows or columns (513..1300 by 1..12, ramp + noise + spikes "
            "or flat noise + spikes, both filters, windows 3/5/7, thresholds 0.5..3), pairwise "
            "distinct values with full mantissas (spikes for the filters, NaNs), stacks of one instrument import followed by npz files, "
            "a quarter of the npz inputs saved from spot-wise data (the loader returns a SpotConfig: x and y spacing, no speed / scantime) "
            "through every sub-command - convert with and without --config, filter, first and later in a stack, beside raster inputs, to "
            ".npz / .csv / .vtk (pixel spacing) -, a twelfth of the stacks of two or more inputs name one input twice, "
            "element subsets incl. unknown names, names present in only some inputs and inputs left with no element, "
            "--config, both filters with windows 3/5/7 and thresholds 0..3, both orientations, NaN/finite/default pad, output omitted / "
            "existing directory / file (lower and upper case suffix) / mismatching suffix / missing directory / file with several inputs, "
            "formats .npz .csv .vtk (the written .vti decoded and compared) and an invalid one, a missing input, stack --calibrate; "
            "about a seventh of the command lines hold one input of a DISPATCH class of `load` (every one also as a targeted case): "
            "mixed-case suffixes (.CSV .Text .Npz .B), unknown suffixes (.dat, none, .imzML, a FILE named *.b), contents that do not match the "
            "name (text named .npz, npz named .txt/.csv, Thermo CSV named .txt, CSV directory named *.b, Agilent batch not named *.b), "
            "directories named like files (*.npz, *.csv, *.txt), an Agilent batch whose batch log and acquisition method list the lines in "
            "different orders (the first method list must win) or that no method can read, PerkinElmer directories with each "
            "parameters.conf variant and with a csv file beside the .xl files (PerkinElmer must win), directories without data; "
            "round E: one input path named twice or three times for every sub-command (filter: data on which a second pass of the filter "
            "changes something); npz fields stored as f4 / i4 / i8 / >f8 / >f4 / f2 / u4 (one type per file or per field; a fifth of the npz stacks "
            "mix types, narrow first and narrow later, wide inputs with values a narrower type cannot hold), Fortran-ordered arrays, per-element "
            "calibrations on 40 % of the npz inputs; filter windows 1 / 9 / 11 / 15 / an even one and thresholds -1 / 0.001 / 10 / 1e9; pad -0.0, "
            "5e-324, 1.8e308, -1e300, 0.1; values +-inf, +-0.0, denormal, 1.8e308; stems with dots, a blank, non-ASCII; two inputs with one stem "
            "(different directories / different suffixes); options shuffled, before the inputs, as --option=value; stacks of text images and npz "
            "files with the element _element_ in any order; 9..16 inputs named s1..s16; images of 257..1300 rows or columns through convert and stack; "
            "run in process (main() with patched argv; thin delegating wrappers record which library loader delivered each input) and as "
            "`python -m pewlib` subprocess; non-trivial = at least one file written or a rejected combination; distinct by case hash")
    trusted = ["the library loaders (io.npz.load, io.textimage.load, io.agilent.load, io.thermo.load, io.csv.load, io.perkinelmer.load), the "
               "library predicates `load` consults (is_valid_directory x2, icap_csv_sample_format, load_info) and the library filters, called "
               "directly, are the reference the command line is compared with (they are the subject of C01-C04/C13/C17, not of C20); WHICH loader "
               "is called for a path is decided by the Lean table (`c20.plan`), never by Python",
               "written files are read back with io.npz.load / io.textimage.load; .vtk outputs with the independent .vti reader of "
               "harness/c16.py (element names, every value, and the spacing, which the harness derives from the model's configuration "
               "through the library's Config.get_pixel_width / get_pixel_height and spotsize / 2)",
               "pathlib splits the generated names as the harness does (ASCII stems without leading/trailing dots)",
               "in-process runs replace io.csv's ProcessPoolExecutor by an executor that runs each task at submit (pool workers may not "
               "start processes) and wrap the six `io.<format>.load` functions in recording, delegating wrappers; subprocess runs use the real ones",
               "the driver realises the opaque library filter as a table keyed by the CONTENT (shape and every token) of the grid the model hands "
               "to it; a grid the harness did not filter gives a grid of -1",
               "NumPy's conversions are the model's opaque `Casting`: the harness asks NumPy (`astype`, `np.result_type`) what a field of each storage "
               "type holds of every value that reaches it (pad value, input values under the promoted type, filter results under the element's type) "
               "and sends the tables; float64 is the identity; a missing entry gives -2 / the type '?'. Values are compared as float64 bit patterns "
               "(the widening of float32 / int32 / small int64 values is exact); the stored type of an output is recorded only",
               "calibrations are interned by content per case (0 = the default Calibration()), read with io.npz.load from inputs and outputs"]
    assumptions = ["an input that is left with no requested element is skipped without output (the code prints 'skipping'); the property "
                   "text does not say otherwise",
                   "stack inputs share their element names (np.concatenate cannot join different structured dtypes); --elements lists "
                   "have no duplicates; derived output names may coincide (one path named twice, equal stems): the last write wins "
                   "(the driver's `finalFiles`)",
                   "where a storage type cannot hold the pad value (NaN or 2.5 in an integer input) or the filter's result (mean filter of an "
                   "integer element) the driver's `TypesHold` is false: hypothesis-excluded and undetermined (the typed model is still compared: "
                   "feature types-do-not-hold); .vtk of a non-float64 image and the calibration of a stack are recorded only",
                   "a derived output name that is an existing directory (a directory input named *.npz converted to .npz beside itself) is "
                   "counted as undetermined: the property does not say what happens (pewlib: IsADirectoryError, nothing written)",
                   "exit statuses are compared as ok / error only; whether a failing load ends as a usage error (status 2) or a traceback "
                   "is in the model and reported as the feature exit-code-as-modelled / exit-code-differs (the property text does not name exit codes)",
                   "`__main__.load(path)` is also called directly for every input (when the module has a function of that name) and its "
                   "image - elements, every value, stored configuration - or its failure compared with the model's and the specification's load of "
                   "the path; the exception class (ValueError or not) is a feature (load-exception-as-modelled)",
                   "which loader delivered an input is compared by loader (agilent, perkinelmer, csv, npz, thermo, textimage) where the in-process "
                   "wrappers saw a call for that path; the Agilent collection-method list is a feature (agilent-methods-as-modelled), its effect is "
                   "compared through the data (batches whose methods disagree)",
                   "`io.agilent.load_info` raising ValueError (the loop then keeps the data in hand and tries the next method list) is in the model "
                   "and the theorem but no generated batch makes it do so (a batch log without entries makes it raise AttributeError: generated)",
                   ]

    # ------------------------------------------------------------------ generator
    def gen_input(self, rng, k, fmt, stem, sub, shape=None, elements=None, spikes=False):
        spec = FORMATS[fmt].gen(rng, k, shape, elements)
        spec.update({"stem": stem, "sub": sub, "seed": rng.randrange(1 << 30), "spikes": spikes})
        if fmt in ("npz", "txt") and rng.random() < (0.04 if spikes else 0.12):
            spec["specials"] = True
        return spec

    def generate(self, rng, tier):
        cmd = rng.choice(["convert", "convert", "filter", "filter", "stack", "stack"])
        return self.build(rng, tier, cmd)

    def build(self, rng, tier, cmd, **force):
        names = fmt_names()
        n = force.get("n", rng.choice([1, 2, 2, 3, 3, 3, 4, 5] if cmd == "stack" else [1, 1, 2, 2, 2, 3, 3, 4]))
        # shape classes of the quantifier that independent small dimensions (almost) never produce
        # stack: one pixel count, different shapes; filter: more than 512 / 1024 rows or columns
        eqcount = force["eqcount"] if "eqcount" in force else (cmd == "stack" and rng.random() < 0.25)
        large = force["large"] if "large" in force else (cmd == "filter" and rng.random() < 0.2)
        # sizes nothing else reaches: many inputs (9..16 small npz / text files named s1 .. s16 in numeric order, where the
        # lexicographic order differs), and images with more than 256 / 512 / 1024 rows or columns through convert and stack
        many = force["many"] if "many" in force else ("n" not in force and not eqcount and not large and rng.random() < 0.02)
        long_img = force["long"] if "long" in force else (cmd != "filter" and not eqcount and not many and rng.random() < 0.03)
        if many:
            n = rng.choice([9, 11, 12, 16])
        if eqcount and n < 2:
            n = rng.choice([2, 2, 3, 3, 4])
        if large:
            n = force.get("n", rng.choice([1, 1, 1, 2]))
        p_sub = {"quick": 0.05, "thorough": 0.5}[tier]
        mode = force.get("mode", "subproc" if rng.random() < p_sub else "inproc")
        heavy = 0.12 if tier == "quick" else 0.3  # csvdir spawns a process pool per load
        weights = {"npz": 4, "txt": 3, "agilent": 2, "thermo": 2, "csvdir": 8 * heavy}
        pool = [f for f in names for _ in range(max(1, int(10 * weights[f])))]
        if many:
            stems = [f"s{i + 1}" for i in range(n)]
        else:
            stems = rng.sample(["a", "b", "img", "scan1", "x.v2", "line_3", "Sample", "t0", "q", "a.b.1", "x y", "UP.per", "\u00fc1"], n)
        subs = [rng.choice(["", "", "in1", "in2"]) for _ in range(n)]
        # two inputs with one stem: in different directories (their outputs coincide inside an output directory, not beside the
        # inputs), or in one directory under different suffixes (their outputs coincide whenever they are derived)
        same_stem = force["same_stem"] if "same_stem" in force else (n >= 2 and cmd != "stack" and rng.random() < 0.06)
        if same_stem and n >= 2:
            i, j = rng.sample(range(n), 2)
            stems[j] = stems[i]
            if rng.random() < 0.7:
                subs[i], subs[j] = rng.sample(["", "in1", "in2"], 2)
            else:
                subs[j] = subs[i]
        equal = rng.random() < 0.3 and not large  # (the ordinary companions of a large image stay small)
        shape = None
        inputs = []
        if cmd == "stack":
            # one element list for all inputs: text images (always `_element_`) or npz files with the same names
            kind = force.get("stack_fmt", rng.choice(["npz", "npz", "npz", "txt", "txt", "mixed", "mixed", "any_text"]))
            if (many or long_img) and "stack_fmt" not in force:
                kind = rng.choice(["npz", "txt", "any_text"])
            els = rng.sample(NPZ_ELEMENTS, rng.choice([1, 2, 2, 3]) if not (many or long_img) else 1)
            if kind == "any_text":  # text images and npz files with the one element `_element_`, in any order
                els = ["_element_"]
            first = None
            eq_shapes = equal_count_shapes(rng, n, 2 if kind == "mixed" else 1) if eqcount else None
            long_at = rng.randrange(n) if long_img else None
            for k in range(n):
                sh = eq_shapes[k] if eqcount else shape if (equal and shape) else None
                if many:
                    sh = (rng.choice([1, 1, 2, 3]), rng.choice([1, 2, 2, 3]))
                if k == long_at:
                    sh = (rng.choice([257, 513, 600, 1025]), rng.choice([1, 2, 3]))
                    sh = sh if rng.random() < 0.5 else (sh[1], sh[0])
                if kind == "txt":
                    fmt, e = "txt", None
                elif kind == "any_text":
                    fmt = rng.choice(["txt", "npz"])
                    e = None if fmt == "txt" else els
                elif kind == "npz":
                    fmt, e = "npz", els
                elif k == 0:  # mixed: an instrument format first (its config is the one kept), npz files with its names after it
                    fmt, e = rng.choice([f for f in ("agilent", "thermo", "csvdir") if f in names]), None
                else:
                    fmt, e = "npz", first["elements"]
                s = self.gen_input(rng, k, fmt, stems[k], subs[k], sh, e)
                first = first or s
                shape = shape or (s["h"], s["w"])
                inputs.append(s)
        else:
            share = rng.random() < 0.5  # npz inputs share (some) element names so that --elements subsets are interesting
            els = rng.sample(NPZ_ELEMENTS, rng.choice([2, 3, 4]))
            big_at = rng.randrange(n) if (large or long_img) else None  # the other inputs of a `large` case are ordinary ones
            for k in range(n):
                fmt = force.get("fmt") or rng.choice(pool if not many else ["npz", "npz", "txt"])
                e = None
                if fmt == "npz" and share:
                    e = [x for x in els if rng.random() < 0.7] or els[:1]
                sh = shape if (equal and shape) else None
                if many:
                    sh = (rng.choice([1, 1, 2, 3]), rng.choice([1, 2, 2, 3]))
                flat = False
                if k == big_at:  # cheap writers only; a few elements
                    fmt = force.get("fmt") or rng.choice(["npz", "npz", "txt"])
                    e = rng.sample(NPZ_ELEMENTS, rng.choice([1, 1, 2])) if fmt == "npz" else None
                    sh = force.get("shape") or long_shape(rng)
                    flat = rng.random() < 0.5
                s = self.gen_input(rng, k, fmt, stems[k], subs[k], sh, e, spikes=(cmd == "filter"))
                if flat:
                    s["flat"] = True
                if k == big_at:
                    s["nans"] = False
                shape = shape or (s["h"], s["w"])
                inputs.append(s)
        # ---- configuration classes: force["spot"] = list of input indices whose npz is saved with a SpotConfig (all others raster)
        if "spot" in force:
            for k, s_ in enumerate(inputs):
                if s_["fmt"] == "npz":
                    make_spot(rng, s_) if k in force["spot"] else make_raster(s_)
        # ---- storage classes of npz inputs: field types other than float64 (one per file or one per field) and Fortran-ordered
        # arrays.  force["dtypes"] = list of type names (or per-field lists), one per input, None = float64.  stack: a fifth of the
        # stacks over npz files mixes types (np.concatenate promotes; narrower first and narrower later both arise)
        npz_at = [k for k, s_ in enumerate(inputs) if s_["fmt"] == "npz"]
        if "dtypes" in force:
            for k, d in enumerate(force["dtypes"]):
                if d is not None and k < len(inputs) and inputs[k]["fmt"] == "npz":
                    inputs[k]["dtype"] = d
        elif cmd == "stack":
            if npz_at and n >= 2 and rng.random() < 0.22:
                pool = rng.choice([["f8", "f4"], ["f8", "f4", ">f8"], ["f8", "i4"], ["f4", "i8", "f8"], ["f4", "i4"], ["f2", "f4", "f8"],
                                   ["f8", "f4", "i4", "i8", ">f4", "u4"], ["f4", ">f4"], ["i4", "i8"]])
                for k in npz_at:
                    inputs[k]["dtype"] = rng.choice(pool)
                if len(npz_at) == len(inputs) and len({inputs[k]["dtype"] for k in npz_at}) == 1:  # all npz and one type: change one
                    k = rng.choice(npz_at)
                    inputs[k]["dtype"] = rng.choice([d for d in pool if d != inputs[k]["dtype"]] or ["f8" if pool[0] != "f8" else "f4"])
                if rng.random() < 0.25:  # one type per field
                    for k in npz_at:
                        inputs[k]["dtype"] = [rng.choice(pool) for _ in inputs[k]["elements"]]
            elif npz_at and rng.random() < 0.08:  # one narrow type throughout
                d = rng.choice(["f4", "f4", ">f8", "i4", "f2"])
                for k in npz_at:
                    inputs[k]["dtype"] = d
        else:
            for k in npz_at:
                if rng.random() < P_DTYPE and not (large and inputs[k]["h"] * inputs[k]["w"] > 4096):
                    pool = DTYPE_POOL if cmd == "convert" else ["f4", "f4", ">f8", ">f4", "f2", "f4", "i4"]
                    inputs[k]["dtype"] = rng.choice(pool)
                    if len(inputs[k]["elements"]) > 1 and rng.random() < 0.3:
                        inputs[k]["dtype"] = [rng.choice(["f8"] + pool) for _ in inputs[k]["elements"]]
        for k in npz_at:
            if rng.random() < 0.12:
                inputs[k]["order"] = "F"
        typed = [d for s_ in inputs for d in field_dtypes(s_) if s_["fmt"] == "npz" and s_.get("dtype")]
        has_int = any(np.dtype(d).kind in "iu" for d in typed)
        mixed_types = cmd == "stack" and n >= 2 and len({np.dtype(d) for s_ in inputs for d in
                                                         (field_dtypes(s_) if s_["fmt"] == "npz" else ["f8"])}) > 1
        if mixed_types:  # wide inputs hold values a narrower type cannot (full 53-bit mantissas)
            for s_ in inputs:
                s_["seed"] |= 1
        # ---- the same input named twice (or three times) on the command line.  stack: both copies must appear, each at its own
        # position; convert / filter: every copy is processed on its own (the derived outputs coincide: the same content is written
        # again) - in particular the second copy must NOT see what the run did to the first (filter: data on which a second pass
        # of the filter changes something, see `dup_filter` below)
        dup = force["dup"] if "dup" in force else (n >= 2 and rng.random() < (0.08 if cmd == "stack" else 0.12))
        if dup and n >= 2:
            i, j = rng.sample(range(n), 2)
            if cmd == "filter" and not large and inputs[i]["fmt"] in ("npz", "txt") and inputs[i]["h"] * inputs[i]["w"] < 16:
                inputs[i] = {**inputs[i], "h": rng.choice([4, 5, 7]), "w": rng.choice([4, 6, 8])}  # room for the filter to act
            inputs[j] = dict(inputs[i])
            if n >= 3 and rng.random() < 0.25:
                inputs[rng.choice([x for x in range(n) if x not in (i, j)])] = dict(inputs[i])
        # ---- dispatch classes of `load`: one input of about a seventh of the command lines is not an ordinary one
        # force["odd"]: False | True | {"fmt": "perkin" | "emptydir"} | {"fields": {...}} (replace / patch input 0)
        odd = force["odd"] if "odd" in force else (rng.random() < (0.16 if cmd != "stack" else 0.06) and not large and not eqcount
                                                  and not many and not long_img)
        if isinstance(odd, dict):
            s0 = inputs[0]
            if "fmt" in odd:
                inputs[0] = self.gen_input(rng, 0, odd["fmt"], s0["stem"], s0["sub"], spikes=(cmd == "filter"))
            inputs[0] = {**inputs[0], **odd.get("fields", {})}
        elif odd:
            i = rng.randrange(n)
            s0 = inputs[i]
            r = rng.random()
            if cmd == "stack":  # stack keeps its shared element names: only npz / text inputs change their suffix
                if s0["fmt"] in ("npz", "txt"):
                    inputs[i] = oddify(rng, s0)
            elif r < 0.25:
                inputs[i] = self.gen_input(rng, i, "perkin", s0["stem"], s0["sub"], spikes=(cmd == "filter"))
            elif r < 0.35:
                inputs[i] = self.gen_input(rng, i, "emptydir", s0["stem"], s0["sub"])
            else:
                inputs[i] = oddify(rng, s0)
        fmt_out = force.get("format", rng.choice([".npz", ".npz", ".npz", ".csv", ".csv", ".vtk", ".txt" if rng.random() < 0.15 else ".npz"]))
        if typed and fmt_out == ".vtk" and "format" not in force and rng.random() < 0.85:
            fmt_out = rng.choice([".npz", ".csv"])  # (.vtk of another storage type than float64 is recorded only)
        # ---- output
        if cmd == "stack":
            kinds = ["file"] * 10 + ["file_upper"] * 2 + ["bad_suffix", "dir", "omitted", "missing_dir"]
            if mixed_types:
                kinds = ["file"] * 12 + ["file_upper"] * 2 + ["dir"]
        elif n == 1:
            kinds = ["omitted"] * 4 + ["dir"] * 4 + ["file"] * 4 + ["file_upper"] * 2 + ["bad_suffix", "missing_dir"]
        else:
            kinds = ["omitted"] * 10 + ["dir"] * 14 + ["file"] * 2 + ["file_upper", "bad_suffix", "missing_dir"]
        okind = force.get("okind") or rng.choice(kinds)
        good = fmt_out if fmt_out in (".npz", ".csv", ".vtk") else ".npz"
        output = None
        if okind == "dir":
            output = {"kind": "dir", "sub": rng.choice(["out", "out", "out.d", "in1"]), "name": None}
        elif okind == "file":
            output = {"kind": "file", "sub": rng.choice(["", "", "out"]), "name": rng.choice(["res", "o.1", "stacked"]) + good}
        elif okind == "file_upper":
            output = {"kind": "file", "sub": rng.choice(["", "out"]), "name": rng.choice(["res", "o.1"]) + rng.choice([good.upper(), good.capitalize()])}
        elif okind == "bad_suffix":
            bad = rng.choice([s for s in [".npz", ".csv", ".vtk", ".txt", "", ".np"] if s != good])
            output = {"kind": "file", "sub": rng.choice(["", "out"]), "name": "res" + bad}
        elif okind == "missing_dir":
            output = {"kind": "file", "sub": "", "name": rng.choice(["newdir", "nodir.d"])}
        case = {"cmd": cmd, "mode": mode, "inputs": inputs, "format": fmt_out, "output": output,
                "missing_input": force.get("missing_input", rng.random() < 0.03), "relative": rng.random() < 0.25}
        if rng.random() < 0.3:  # how the command line is written
            case["argv"] = {"shuffle": rng.randrange(1 << 16), "options_first": rng.random() < 0.4, "equals": rng.random() < 0.4}
        if cmd == "stack":  # `--calibrate`: accepted by the parser, `raise NotImplementedError` in `stack`
            case["calibrate"] = force.get("calibrate", rng.random() < 0.05)
        # ---- command options
        all_els = []
        for s in inputs:
            for e in s["elements"]:
                if e not in all_els:
                    all_els.append(e)
        if cmd == "convert":
            config = rng.choice([None, None, [10.0, 20.0, 0.5], [7.5, 1.0, 0.125], [100.0, 200.0, 1.0]])
            case["config"] = force["config"] if "config" in force else config
            case["elements"] = self.pick_elements(rng, all_els)
        elif cmd == "filter":
            case["elements"] = self.pick_elements(rng, all_els)
            case["filter"] = {"type": rng.choice(["mean", "median", None]), "size": rng.choice([3, 3, 5, 7, None]),
                              "threshold": rng.choice([0.0, 0.5, 1.0, 1.5, 3.0, None])}
            if rng.random() < 0.15:  # the ends of the parameter ranges: window 1 (nothing to compare with), windows larger than
                # the image, an even window (the library rejects it: counted only), negative / tiny / huge thresholds
                case["filter"] = {"type": rng.choice(["mean", "median", None]), "size": rng.choice([1, 9, 11, 9, 11, 15, 2]),
                                  "threshold": rng.choice([-1.0, 0.001, 10.0, 1e9, 0.25, 3.0])}
            if dup:  # a second pass over the filtered image must change something: low thresholds, small windows
                case["filter"] = {"type": rng.choice(["mean", "median", None]), "size": rng.choice([3, 3, 5]),
                                  "threshold": rng.choice([0.5, 0.75, 1.0, 1.0, 1.5])}
            if large:  # both filters, every odd window 3..7, thresholds that leave pixels on both sides of the decision
                case["filter"] = {"type": force.get("ftype", rng.choice(["mean", "median", "median", None])),
                                  "size": force.get("size", rng.choice([3, 5, 7, None])),
                                  "threshold": force.get("threshold", rng.choice([0.5, 0.75, 1.0, 1.0, 1.25, 1.5, 2.0, 3.0, None]))}
        else:
            case["orientation"] = rng.choice(["vertical", "horizontal", None])
            case["pad"] = rng.choice(["default", "nan", -1.0, 0.0, 2.5, 1e6])
            if rng.random() < 0.12:  # signed zero, the smallest and the largest magnitudes, a value that is no dyadic fraction
                case["pad"] = rng.choice([-0.0, 5e-324, 1.7976931348623157e308, -1e300, 0.1, -123.456, 1e-7])
            if has_int and rng.random() < 0.85:  # a pad value every integer type holds (others: recorded only)
                case["pad"] = rng.choice([-1.0, 0.0, 1e6, 0.0, 7.0]) if not any(np.dtype(d).kind == "u" for d in typed) else rng.choice([0.0, 7.0, 1e6])
        if "elements" in force and cmd != "stack":
            case["elements"] = force["elements"]
        return case

    @staticmethod
    def pick_elements(rng, all_els):
        k = rng.random()
        if k < 0.3:
            return None
        if k < 0.37:
            return rng.sample(all_els, min(len(all_els), rng.choice([1, 2]))) + ["Nope"]  # unknown name
        els = rng.sample(all_els, rng.randint(1, len(all_els)))
        return els

    def targeted(self, tier):
        i = 0
        for cmd in ("convert", "filter", "stack"):
            for okind in ("omitted", "dir", "file", "file_upper", "bad_suffix", "missing_dir"):
                for n in (1, 2):
                    for fmt_out in (".npz", ".csv"):
                        rng = random.Random(f"C20-targeted-{i}")
                        i += 1
                        yield self.build(rng, "quick", cmd, n=n, okind=okind, format=fmt_out, mode="inproc",
                                         fmt=rng.choice(["npz", "txt"]), eqcount=False, large=False)
        # DESIGN 5.20 / 802513a: 3x4 over 5x2, both orientations, as a subprocess too
        for orient in ("vertical", "horizontal"):
            for mode in ("inproc", "subproc"):
                yield self.regression_case(orient, mode)
        # one subprocess run per sub-command and one per remaining input format
        for cmd in ("convert", "filter"):
            rng = random.Random(f"C20-targeted-sub-{cmd}")
            yield self.build(rng, "quick", cmd, n=2, okind="dir", format=".npz", mode="subproc", fmt="npz", eqcount=False, large=False)
        for fmt in fmt_names():
            rng = random.Random(f"C20-targeted-fmt-{fmt}")
            yield self.build(rng, "quick", "convert", n=1, okind="omitted", format=".npz", mode="inproc", fmt=fmt, eqcount=False,
                             large=False)
        if "csvdir" in fmt_names():  # bcc3a26: a Nu directory with x/y columns reports an (x, y) spot spacing
            for cmd, suffix in (("convert", ""), ("filter", ".d")):
                yield {"cmd": cmd, "mode": "inproc", "format": ".npz", "output": None, "missing_input": False, "relative": False,
                       "config": None, "elements": None, "filter": {"type": "median", "size": 3, "threshold": 0.5},
                       "inputs": [{"fmt": "csvdir", "suffix": suffix, "h": 3, "w": 4, "elements": ["A", "B"], "vendor": "nu", "xy": True,
                                   "nans": False, "stem": "nu", "sub": "", "seed": 11, "spikes": True}]}
        # configuration classes: npz inputs saved from spot-wise data (the loader returns a SpotConfig) through every sub-command,
        # with and without --config, to .npz / .vtk (pixel spacing) / .csv, beside raster inputs, first and later in a stack
        spot_cases = [("convert", 1, [0], [10.0, 20.0, 0.5], "dir", ".npz", "inproc"), ("convert", 1, [0], None, "omitted", ".npz", "inproc"),
                      ("convert", 1, [0], [7.5, 1.0, 0.125], "file", ".vtk", "inproc"), ("convert", 1, [0], None, "dir", ".vtk", "inproc"),
                      ("convert", 2, [1], [100.0, 200.0, 1.0], "dir", ".npz", "subproc"), ("convert", 3, [0, 2], [10.0, 20.0, 0.5], "dir", ".csv", "inproc"),
                      ("convert", 2, [0], [35.0, 140.0, 0.25], "omitted", ".npz", "inproc"),
                      ("filter", 1, [0], None, "omitted", ".npz", "inproc"), ("filter", 2, [0], None, "dir", ".vtk", "inproc"),
                      ("stack", 2, [0], None, "file", ".npz", "inproc"), ("stack", 2, [1], None, "file", ".npz", "inproc"),
                      ("stack", 3, [0, 1, 2], None, "file", ".vtk", "inproc"), ("stack", 2, [0], None, "file", ".npz", "subproc")]
        for j, (cmd, n, spot, config, okind, fmt_out, mode) in enumerate(spot_cases):
            rng = random.Random(f"C20-targeted-spot-{j}")
            yield self.build(rng, "quick", cmd, n=n, okind=okind, format=fmt_out, mode=mode, fmt="npz", stack_fmt="npz", eqcount=False,
                             large=False, odd=False, dup=False, missing_input=False, calibrate=False, spot=spot, config=config, elements=None)
        if "csvdir" in fmt_names():  # the other source of a SpotConfig (a Nu directory with x/y columns) with --config
            for fmt_out in (".npz", ".vtk"):
                yield {"cmd": "convert", "mode": "inproc", "format": fmt_out, "output": None, "missing_input": False, "relative": False,
                       "config": [10.0, 20.0, 0.5], "elements": None,
                       "inputs": [{"fmt": "csvdir", "suffix": "", "h": 3, "w": 4, "elements": ["A", "B"], "vendor": "nu", "xy": True,
                                   "nans": False, "stem": "nu", "sub": "", "seed": 12, "spikes": False}]}
        # stack: one input named twice (next to itself, and around another one)
        for j, (n, orient) in enumerate([(2, "vertical"), (2, "horizontal"), (3, "vertical"), (4, "horizontal")]):
            rng = random.Random(f"C20-targeted-dup-{j}")
            case = self.build(rng, "quick", "stack", n=n, okind="file", format=".npz", mode="inproc", stack_fmt=["npz", "txt"][j % 2],
                              eqcount=False, odd=False, dup=True, missing_input=False, calibrate=False)
            yield {**case, "orientation": orient}
        # filter: the ends of the parameter ranges (window 1, windows larger than the image, negative / tiny / huge thresholds) on
        # an image with spikes, and elements stored in single precision / big-endian / half precision (the library filters
        # compute in the element's own type)
        ext = [("mean", 1, 0.5), ("median", 1, 0.5), ("mean", 3, -1.0), ("median", 5, -1.0), ("mean", 9, 0.001), ("median", 11, 1e9),
               ("mean", 15, 10.0), ("median", 3, 0.001), ("mean", 3, -0.5)]
        for j, (ftype, size, thr) in enumerate(ext):
            rng = random.Random(f"C20-targeted-filter-ends-{j}")
            case = self.build(rng, "quick", "filter", n=1 + j % 2, okind=["dir", "omitted"][j % 2], format=".npz", mode="inproc", fmt="npz",
                              eqcount=False, large=False, odd=False, dup=False, missing_input=False, many=False, elements=None,
                              dtypes=[None, None])
            for s_ in case["inputs"]:
                s_.update({"h": 6, "w": 7, "nans": False})
                s_.pop("specials", None)
            yield {**case, "filter": {"type": ftype, "size": size, "threshold": thr}}
        for j, (dt, ftype, size, thr) in enumerate([("f4", "mean", 3, 1.0), ("f4", "median", 5, 0.5), (">f4", "mean", 5, 0.5), ("f2", "median", 3, 1.0),
                                                    (["f4", "f8"], "mean", 3, 0.5), (">f8", "median", 3, 0.5), ("f4", "mean", 7, 1.5)]):
            rng = random.Random(f"C20-targeted-filter-types-{j}")
            case = self.build(rng, "quick", "filter", n=1, okind="dir", format=[".npz", ".csv"][j % 2], mode="inproc", fmt="npz",
                              eqcount=False, large=False, odd=False, dup=False, missing_input=False, many=False, elements=None, dtypes=[dt])
            case["inputs"][0].update({"h": 8, "w": 9, "nans": False, "elements": ["A", "Fe56"]})
            case["inputs"][0].pop("specials", None)
            case["inputs"][0].pop("calibration", None)
            yield {**case, "filter": {"type": ftype, "size": size, "threshold": thr}}
        # many inputs (names whose lexicographic order is not the numeric one), long images through convert and stack
        for j, cmd in enumerate(["convert", "filter", "stack", "stack"]):
            rng = random.Random(f"C20-targeted-many-{j}")
            case = self.build(rng, "quick", cmd, many=True, okind="file" if cmd == "stack" else "dir", format=[".npz", ".csv"][j % 2],
                              mode="inproc", eqcount=False, large=False, odd=False, missing_input=False, calibrate=False, long=False)
            yield case
        for j, cmd in enumerate(["convert", "stack", "stack", "convert"]):
            rng = random.Random(f"C20-targeted-long-{j}")
            yield self.build(rng, "quick", cmd, long=True, many=False, okind="file" if cmd == "stack" else "dir",
                             format=[".npz", ".csv", ".npz", ".vtk"][j], mode="inproc", eqcount=False, large=False, odd=False,
                             missing_input=False, calibrate=False, **({"n": 2} if cmd == "stack" else {}))
        # convert / filter: one input named twice (three times); every copy is processed on its own
        dup_cases = [("filter", 2, "npz", "dir", ".npz", "inproc"), ("filter", 2, "npz", "omitted", ".npz", "subproc"),
                     ("filter", 2, "txt", "dir", ".csv", "inproc"), ("filter", 3, "npz", "omitted", ".npz", "inproc"),
                     ("filter", 3, "txt", "dir", ".npz", "inproc"), ("filter", 4, "npz", "dir", ".npz", "inproc"),
                     ("convert", 2, "npz", "dir", ".npz", "inproc"), ("convert", 3, "npz", "omitted", ".csv", "inproc")]
        for j, (cmd, n, fmt, okind, fmt_out, mode) in enumerate(dup_cases):
            rng = random.Random(f"C20-targeted-dup-{cmd}-{j}")
            yield self.build(rng, "quick", cmd, n=n, okind=okind, format=fmt_out, mode=mode, fmt=fmt, eqcount=False, large=False,
                             odd=False, dup=True, missing_input=False, **({"elements": None} if j % 2 == 0 else {}))
        # stack: inputs whose fields are stored in different types, narrower first and narrower later, both orientations;
        # one type per field; a Fortran-ordered array
        type_cases = [(["f4", "f8"], "vertical", -1.0), (["f8", "f4"], "horizontal", "nan"), (["f4", "f8"], "horizontal", "nan"),
                      (["i4", "f8"], "vertical", 0.0), (["f8", "i4"], "vertical", -1.0), (["i4", "f4"], "horizontal", 1e6),
                      (["f4", "f8", "f4"], "vertical", 2.5), ([">f8", "f4", "f8"], "horizontal", "default"),
                      (["i4", "i8"], "vertical", -1.0), (["f2", "f4", "f8"], "vertical", "nan"),
                      ([["f4", "f8", "f4"], ["f8", "f4", "f4"]], "vertical", "nan"), (["f4", "f4"], "horizontal", 2.5)]
        for j, (dts, orient, pad) in enumerate(type_cases):
            rng = random.Random(f"C20-targeted-types-{j}")
            case = self.build(rng, "quick", "stack", n=len(dts), okind="file", format=[".npz", ".npz", ".csv"][j % 3],
                              mode="subproc" if j == 2 else "inproc", stack_fmt="npz", eqcount=False, odd=False, dup=False,
                              missing_input=False, calibrate=False, dtypes=dts)
            if j % 4 == 1:
                case["inputs"][0]["order"] = "F"
            yield {**case, "orientation": orient, "pad": pad}
        # the dispatch classes of `load`: every odd suffix / layout once (convert, one input), the Agilent method variants,
        # PerkinElmer directories (with and without a csv beside the .xl files, every parameters.conf variant), an
        # unsupported directory; a failing load AFTER a good one (nothing may be written); `--calibrate`
        i = 0
        for fmt, variants in ODD.items():
            if fmt not in fmt_names():
                continue
            for suffix, cls in variants:
                rng = random.Random(f"C20-targeted-odd-{i}")
                i += 1
                yield self.build(rng, "quick", rng.choice(["convert", "convert", "filter"]), n=1, okind="omitted", format=".npz", mode="inproc",
                                 fmt=fmt, eqcount=False, large=False, missing_input=False, odd={"fields": {"suffix": suffix, "odd": cls}})
        for method in ("both_differ", "none", "acq_empty_batchlog", "batch_xml", "batch_csv", "acq_method_xml"):
            for mode in ("inproc", "subproc"):
                rng = random.Random(f"C20-targeted-agilent-{method}")
                yield self.build(rng, "quick", "convert", n=1, okind="dir", format=".npz", mode=mode, fmt="agilent", eqcount=False,
                                 large=False, missing_input=False, odd={"fields": {"method": method, "odd": "agilent:" + method, "h": 3}})
        for j, (conf, with_csv, suffix) in enumerate([(None, False, ""), (["ablation.speed", "acquisition.time", "space.interval"], True, ".d"),
                                                      (["acquisition.time"], False, ".xl"), (["space.interval", "ablation.speed"], True, "")]):
            rng = random.Random(f"C20-targeted-perkin-{j}")
            yield self.build(rng, "quick", ["convert", "filter"][j % 2], n=1 + j % 2, okind="dir", format=[".npz", ".vtk"][j // 2], mode="inproc",
                             fmt="npz", eqcount=False, large=False, missing_input=False,
                             odd={"fmt": "perkin", "fields": {"conf": conf, "with_csv": with_csv, "suffix": suffix}})
        for j, suffix in enumerate(["", ".d", ".csv", ".npz", ".b"]):
            rng = random.Random(f"C20-targeted-emptydir-{j}")
            yield self.build(rng, "quick", "convert", n=1 + j % 2, okind="omitted", format=".npz", mode="inproc", fmt="npz", eqcount=False,
                             large=False, missing_input=False, odd={"fmt": "emptydir", "fields": {"suffix": suffix, "readme": bool(j % 2)}})
        for j, cal in enumerate([True, True, False]):
            rng = random.Random(f"C20-targeted-calibrate-{j}")
            yield self.build(rng, "quick", "stack", n=2, okind="file", format=".npz", mode=["inproc", "subproc", "inproc"][j], stack_fmt="npz",
                             eqcount=False, odd=False, calibrate=cal, missing_input=False)
        for j in range(4):  # every format to .vtk (the written .vti is decoded and compared)
            rng = random.Random(f"C20-targeted-vtk-{j}")
            yield self.build(rng, "quick", ["convert", "filter", "stack", "convert"][j], n=2, okind=["dir", "omitted", "file", "dir"][j],
                             format=".vtk", mode="inproc", eqcount=False, large=False, odd=False, calibrate=False, missing_input=False,
                             **({"stack_fmt": "npz"} if j == 2 else {}))
        # three inputs, the middle one the largest on the other axis; all sizes different
        for orient in ("vertical", "horizontal"):
            def inp(k, stem, h, w):
                return {"fmt": "txt", "suffix": ".txt", "h": h, "w": w, "elements": ["_element_"], "delimiter": ",", "nans": False,
                        "stem": stem, "sub": "", "seed": 20 + k, "spikes": False}
            yield {"cmd": "stack", "mode": "inproc", "inputs": [inp(0, "a", 2, 3), inp(1, "b", 4, 5), inp(2, "img", 3, 1)],
                   "format": ".csv", "output": {"kind": "file", "sub": "", "name": "st.csv"}, "missing_input": False,
                   "relative": False, "orientation": orient, "pad": "nan"}

        # stack: one pixel count, different shapes (transposed pair, factorisations of one number)
        def eq_case(i, kind, shapes, orient, mode="inproc", pad="nan"):
            ins = []
            for k, (h, w) in enumerate(shapes):
                stem = ["a", "b", "img", "q", "t0", "scan1"][k]
                if kind == "npz":
                    ins.append({"fmt": "npz", "suffix": ".npz", "h": h, "w": w, "elements": ["A", "Fe56"], "config": [35.0, 140.0, 0.25],
                                "nans": False, "stem": stem, "sub": "", "seed": 40 + i + k, "spikes": False})
                else:
                    ins.append({"fmt": "txt", "suffix": ".csv", "h": h, "w": w, "elements": ["_element_"], "delimiter": ",",
                                "nans": False, "stem": stem, "sub": "", "seed": 40 + i + k, "spikes": False})
            suffix = ".npz" if kind == "npz" else ".csv"
            return {"cmd": "stack", "mode": mode, "inputs": ins, "format": suffix,
                    "output": {"kind": "file", "sub": "", "name": "st" + suffix}, "missing_input": False, "relative": False,
                    "orientation": orient, "pad": pad}
        yield eq_case(0, "npz", [(2, 6), (6, 2)], "vertical")
        yield eq_case(1, "txt", [(2, 6), (6, 2)], "horizontal", pad=-1.0)
        yield eq_case(2, "npz", [(2, 6), (3, 4)], "horizontal", mode="subproc")
        yield eq_case(3, "txt", [(1, 4), (2, 2), (4, 1)], "vertical", pad=0.0)
        yield eq_case(4, "npz", [(3, 4), (1, 12), (12, 1), (4, 3), (2, 6), (6, 2)], "vertical")
        yield eq_case(5, "txt", [(3, 4), (1, 12), (12, 1), (4, 3), (2, 6), (6, 2)], "horizontal")
        # filter: images longer than 512 and 1024 rows / columns, both filters, windows 3 / 5 / 7
        big = [((1100, 12), "median", 5, 1.0, "npz", "inproc"), ((1100, 12), "median", 3, 0.5, "txt", "inproc"),
               ((1100, 12), "mean", 5, 1.0, "npz", "inproc"), ((12, 1100), "median", 7, 1.0, "npz", "inproc"),
               ((12, 1100), "mean", 3, 1.5, "txt", "inproc"), ((600, 5), "median", 7, 1.0, "txt", "inproc"),
               ((5, 600), "mean", 7, 0.75, "npz", "inproc"), ((513, 8), "median", 3, 1.5, "npz", "inproc"),
               ((1025, 9), "median", 5, 1.25, "npz", "subproc"), ((1030, 4), None, None, None, "npz", "inproc")]
        for i, (shape, ftype, size, thr, fmt, mode) in enumerate(big):
            rng = random.Random(f"C20-targeted-large-{i}")
            yield self.build(rng, "quick", "filter", n=1, large=True, shape=shape, ftype=ftype, size=size, threshold=thr, fmt=fmt,
                             mode=mode, okind=["dir", "omitted", "file"][i % 3], format=".csv" if i % 4 == 3 else ".npz")

    @staticmethod
    def regression_case(orient, mode):
        def inp(k, stem, h, w):
            return {"fmt": "npz", "suffix": ".npz", "h": h, "w": w, "elements": ["A", "B"], "config": [35.0, 140.0, 0.25],
                    "nans": False, "stem": stem, "sub": "", "seed": 7 + k, "spikes": False}
        return {"cmd": "stack", "mode": mode, "inputs": [inp(0, "a", 3, 4), inp(1, "b", 5, 2)], "format": ".npz",
                "output": {"kind": "file", "sub": "", "name": "st.npz"}, "missing_input": False, "relative": False,
                "orientation": orient, "pad": -1.0}

    # ------------------------------------------------------------------ evaluation
    @staticmethod
    def input_rel(spec) -> Path:
        return Path(spec["sub"]) / (spec["stem"] + spec["suffix"]) if spec["sub"] else Path(spec["stem"] + spec["suffix"])

    def argv_of(self, case, root: Path, rels, out_rel):
        def arg(rel):
            return str(rel) if case["relative"] else str(root / rel)
        single, multi = [], []  # options with one value (or none) / with several values
        if case["format"] != ".npz" or len(rels) % 2 == 0:  # the default is exercised as well
            single.append(["--format", case["format"]])
        if out_rel is not None:
            single.append(["--output", arg(out_rel)])
        if case["cmd"] == "convert":
            if case["config"] is not None:
                multi.append(["--config"] + [repr(x) for x in case["config"]])
            if case["elements"] is not None:
                multi.append(["--elements"] + case["elements"])
        elif case["cmd"] == "filter":
            f = case["filter"]
            if f["type"] is not None:
                single.append(["--type", f["type"]])
            if f["size"] is not None:
                single.append(["--size", str(f["size"])])
            if f["threshold"] is not None:
                single.append(["--threshold", repr(f["threshold"])])
            if case["elements"] is not None:
                multi.append(["--elements"] + case["elements"])
        else:
            if case["orientation"] is not None:
                single.append(["--orientation", case["orientation"]])
            if case["pad"] != "default":
                single.append(["--pad", "nan" if case["pad"] == "nan" else repr(case["pad"])])
            if case.get("calibrate"):
                single.append(["--calibrate"])
        # the order and the spelling of the options: as written above (the default), or shuffled, options before the inputs,
        # `--option=value` (a list of values ends at the next option or at the end, so those stay behind the inputs)
        style = case.get("argv") or {}
        if "shuffle" in style:
            r = random.Random(f"C20-argv-{style['shuffle']}")
            r.shuffle(single)
            r.shuffle(multi)
        import re as _re

        def needs_equals(v):  # argparse takes `-1e+300` for an option name (its pattern of negative numbers knows no exponent)
            return v.startswith("-") and not _re.match(r"^-\d+$|^-\d*\.\d+$", v)
        single = [[g[0] + "=" + g[1]] if len(g) == 2 and (style.get("equals") or needs_equals(g[1])) else g for g in single]
        flat = lambda groups: [x for g in groups for x in g]  # noqa: E731
        inputs = [arg(r) for r in rels]
        if style.get("options_first"):
            return [case["cmd"]] + flat(single) + inputs + flat(multi)
        if "shuffle" in style:  # options of both kinds mixed behind the inputs
            groups = single + multi
            random.Random(f"C20-argv2-{style['shuffle']}").shuffle(groups)
            return [case["cmd"]] + inputs + flat(groups)
        return [case["cmd"]] + inputs + flat(single) + flat(multi)

    def run_cli(self, case, root: Path, argv):
        """-> ('ok' | 'error', exit kind 'ok' | 'usage' | 'crash', LoaderSpy or None)"""
        def kind(code):
            return "ok" if code in (0, None) else "usage" if code == 2 else "crash"
        if case["mode"] == "subproc":
            env = dict(os.environ)
            env["PYTHONPATH"] = str(core.REPO / "src")
            r = subprocess.run([sys.executable, "-m", "pewlib"] + argv, cwd=root, env=env, capture_output=True, timeout=120)
            return ("ok" if r.returncode == 0 else "error"), kind(r.returncode), None
        import pewlib.__main__ as cli

        old_argv, old_cwd = sys.argv, os.getcwd()
        sink = _io.StringIO()
        spy = LoaderSpy()
        try:
            sys.argv = ["pewlib"] + argv
            os.chdir(root)
            with contextlib.redirect_stdout(sink), contextlib.redirect_stderr(sink), spy:
                try:
                    ret = cli.main()
                    return ("ok" if ret in (0, None) else "error"), kind(ret), spy
                except SystemExit as e:
                    return ("ok" if e.code in (0, None) else "error"), kind(e.code), spy
                except Exception:
                    return "error", "crash", spy
        finally:
            sys.argv = old_argv
            os.chdir(old_cwd)

    @staticmethod
    def read_back(root: Path, rel: str, cal=None):
        from pewlib.io import npz, textimage

        p = root / rel
        out = {"path": ROOT + "/" + rel}
        suffix = p.suffix.lower()
        try:
            if suffix == ".npz":
                laser = npz.load(p)
                names = list(laser.data.dtype.names)
                out.update({"kind": "npz", "elements": names, "shape": list(laser.data.shape),
                            "data": [grid_tokens(laser.data[n]) for n in names], "config": cfg_tokens(laser.config),
                            "calib": [0] * len(names) if cal is None else cal.of(laser, names),
                            "_dtypes": [laser.data.dtype[n].str for n in names]})
            elif suffix == ".csv":
                g = textimage.load(p)
                out.update({"kind": "csv", "shape": list(g.shape), "data": grid_tokens(g)})
            elif suffix == ".vtk":
                f = read_vti(p.read_bytes())  # the independent reader of harness/c16.py
                nx, ny, nz = f["whole"][1::2]
                if f["whole"][0::2] != [0, 0, 0] or f["piece"] != f["whole"] or nz != 1:
                    raise Malformed("extent")
                grids = []
                for a in f["arrays"]:
                    if len(a["values"]) != nx * ny:
                        raise Malformed("array size")
                    # x fastest, then y; x runs along the columns, y is counted from the bottom row
                    cube = np.array(a["values"], dtype="<i8").view("<f8").reshape((ny, nx))[::-1, :]
                    grids.append(grid_tokens(cube))
                out.update({"kind": "vtk", "elements": [a["name"] for a in f["arrays"]], "shape": [ny, nx], "data": grids,
                            "spacing": [ctok(x) for x in f["spacing"]]})
            else:
                out["kind"] = "other"
        except Exception as e:
            out.update({"kind": "unreadable", "error": type(e).__name__})
        return out

    def evaluate(self, case, ctx):
        import pewlib.io.csv as pcsv

        old = getattr(pcsv, "ProcessPoolExecutor", None)
        pcsv.ProcessPoolExecutor = SyncExecutor
        try:
            with warnings.catch_warnings(), np.errstate(all="ignore"):
                warnings.simplefilter("ignore")  # e.g. the median of an empty slice for the y spacing of a one-line Nu directory
                return self._evaluate(case, ctx)
        finally:
            pcsv.ProcessPoolExecutor = old

    def _evaluate(self, case, ctx):
        from pewlib import Config
        from pewlib.config import SpotConfig
        from pewlib.process import filters

        root = ctx.tmpdir()
        cmd = case["cmd"]
        feats = {f"cmd:{cmd}", f"mode:{case['mode']}", f"format:{case['format']}"}
        cal = CalTable()
        casts = CastTable()
        # ---- 1. inputs (a path named twice is ONE input on disk: the description of its first occurrence counts)
        inputs, first_of = [], {}
        for spec in case["inputs"]:
            inputs.append(first_of.setdefault(self.input_rel(spec), spec))
        rels = []
        for k, spec in enumerate(inputs):
            fmt = FORMATS[spec["fmt"]]
            if not fmt.available():
                raise core.InternalError(f"input format {spec['fmt']} has no writer in this tree")
            rel = self.input_rel(spec)
            if rel in rels:
                rels.append(rel)
                feats.add("same-input-twice")
                continue
            (root / rel).parent.mkdir(parents=True, exist_ok=True)
            vals = make_values(spec["seed"], k, len(spec["elements"]), spec["h"], spec["w"], spec["spikes"], spec["nans"],
                               spec.get("flat", False), bool(spec.get("specials")) and spec["fmt"] in ("npz", "txt"))
            if spec.get("specials") and spec["fmt"] in ("npz", "txt"):
                feats.add("special-values")
            fmt.write(root / rel, spec, vals)
            rels.append(rel)
            feats.add("in:" + spec["fmt"])
            if spec.get("odd"):
                feats.add("in-odd:" + spec["odd"])
        # ---- output location
        out_rel, out_is_dir = None, False
        o = case["output"]
        if o is not None:
            if o["kind"] == "dir":
                out_rel = Path(o["sub"])
                (root / out_rel).mkdir(parents=True, exist_ok=True)
                out_is_dir = True
            else:
                out_rel = Path(o["sub"]) / o["name"] if o["sub"] else Path(o["name"])
                (root / out_rel).parent.mkdir(parents=True, exist_ok=True)
        run_rels = list(rels)
        if case["missing_input"]:
            run_rels.append(Path("absent.npz"))
        # ---- 2. what the library says about every path; the driver's table names the loaders to call; their results
        sources = []
        for rel in run_rels:
            sources.append({"path": model_path(rel), **path_facts(root / rel), "calls": []})
        plan = ctx.driver.call("c20.plan", sources=sources)["candidates"]
        datas = []  # per source: the arrays of the successful calls (for the filter table)
        for src, rel, cands in zip(sources, run_rels, plan):
            recs = [call_loader(c, root / rel, cal) for c in cands]
            datas.append([r.pop("_data") for r in recs if r["outcome"] == "ok"])
            src["calls"] = recs
        for spec, src in zip(inputs, sources):  # writer / loader sanity for the ordinary inputs
            good = [r for r in src["calls"] if r["outcome"] == "ok"]
            if not spec.get("odd") and spec["fmt"] in ORDINARY + ("perkin",) and (
                    not good or [f["name"] for f in good[0]["fields"]] != list(spec["elements"])
                    or (good[0]["h"], good[0]["w"]) != (spec["h"], spec["w"])):
                raise core.InternalError(f"writer/loader disagree for {spec['fmt']}: {[(r['loader'], r['outcome']) for r in src['calls']]} vs {spec}")
        default = Config()
        undetermined = False
        changed_by_filter = False
        second_pass_changes = False
        table = []
        if cmd == "filter":
            f = case["filter"]
            func = filters.rolling_median if f["type"] == "median" else filters.rolling_mean
            size, thr = (5 if f["size"] is None else f["size"]), (3.0 if f["threshold"] is None else f["threshold"])
            seen = set()
            repeated = {rel for rel in run_rels if run_rels.count(rel) > 1}
            for rel, arrays in zip(run_rels, datas):
                for data in arrays:
                    for n in data.dtype.names:
                        src_t = [t for row in grid_tokens(data[n]) for t in row]
                        key = (data.shape, tuple(src_t), data.dtype[n].str)
                        if key in seen:
                            continue
                        seen.add(key)
                        try:
                            with np.errstate(all="ignore"):
                                res = func(np.array(data[n]), size, thr)
                                dst_t = [t for row in grid_tokens(res) for t in row]
                                # the command line stores the result in the field of the loaded image: a result the field's
                                # storage type cannot hold (the mean filter of an integer image) is outside what the property
                                # can mean by "exactly the library filter" -> recorded, never a verdict
                                back = casts.add(data.dtype[n], np.asarray(res, dtype=np.float64))
                                if not np.array_equal(back, np.asarray(res, dtype=np.float64).ravel(), equal_nan=True):
                                    feats.add("filter:result-not-representable-in-field-type (recorded only)")
                                if rel in repeated:
                                    again = [t for row in grid_tokens(func(np.array(res), size, thr)) for t in row]
                                    if again != dst_t:
                                        second_pass_changes = True
                        except Exception:
                            undetermined = True  # the library filter itself rejects these arguments: nothing to compare with
                            dst_t = src_t
                        changed_by_filter = changed_by_filter or dst_t != src_t
                        table.append({"h": int(data.shape[0]), "w": int(data.shape[1]), "src": src_t, "dst": dst_t})
        req = {"cmd": cmd, "calibrate": bool(case.get("calibrate")), "defaults": cfg_tokens(default)[1:], "sources": sources,
               "format": case["format"], "output": None if out_rel is None else model_path(out_rel), "output_is_dir": out_is_dir}
        if cmd == "convert":
            req["config"] = None if case["config"] is None else ["raster"] + [ctok(x) for x in case["config"]]
            req["elements"] = case["elements"]
        elif cmd == "filter":
            req["elements"] = case["elements"]
            req["filter_table"] = table
        else:
            req["orientation"] = case["orientation"] or "vertical"
            req["pad"] = NAN_TOK if case["pad"] in ("default", "nan") else ctok(case["pad"])
        # ---- storage types of the loaded images (from the arrays the loaders returned, not from the case description)
        loaded = [arrays[0] if arrays else None for arrays in datas]
        types = [None if a is None else [a.dtype[n] for n in a.dtype.names] for a in loaded]
        f8 = np.dtype(np.float64)
        for a, ts in zip(loaded, types):
            if a is None:
                continue
            for t in ts:
                if t != f8:
                    feats.add("in:field-type:" + t.str.lstrip("<|=") )
            if len(set(ts)) > 1:
                feats.add("in:field-types-differ-within-image")
            if a.ndim == 2 and min(a.shape) > 1 and a.flags["F_CONTIGUOUS"] and not a.flags["C_CONTIGUOUS"]:
                feats.add("in:fortran-ordered")
        other_types = any(t != f8 for ts in types if ts for t in ts)
        if other_types and case["format"] == ".vtk":
            # io.vtk.save declares Float64 and writes the bytes of the array as stored: not an image of other storage types
            # (the property text does not name .vtk) -> recorded, never a verdict
            undetermined = True
            feats.add("vtk-of-non-float64-image (recorded only)")
        if cmd == "stack" and all(ts is not None for ts in types) and types:
            padv = math.nan if case["pad"] in ("default", "nan") else float(case["pad"])
            if not all(representable(padv, t) for ts in types for t in ts):
                # np.pad holds the pad value in the storage type of each input (NaN or 2.5 in an integer image): the property's
                # "the pad value everywhere else" cannot be met there -> recorded, never a verdict (decided by the driver: TypesHold)
                feats.add("stack:pad-not-representable-in-an-input-type (recorded only)")
            # what NumPy makes of the pad value in each input's types, and of every value in the promoted types
            names0 = list(loaded[0].dtype.names)
            if all(list(a.dtype.names) == names0 for a in loaded):
                for fi, n in enumerate(names0):
                    col = [ts[fi] for ts in types]
                    wide = casts.result_type(col)
                    held = [casts.add(t, [padv]) for t in col]
                    if wide is not None:
                        casts.add(wide, [padv])
                        for hv in held:
                            casts.add(wide, hv)
                        for a in loaded:
                            casts.add(wide, np.asarray(a[n], dtype=np.float64))
            if len(types) > 1 and len({len(ts) for ts in types}) == 1:
                per_field = list(zip(*types))
                if any(len(set(col)) > 1 for col in per_field):
                    feats.add("stack:field-types-differ")
                    try:
                        wide = [np.result_type(*col) for col in per_field]
                        if any(w != col[0] for w, col in zip(wide, per_field)):
                            feats.add("stack:first-input-narrower-than-a-later-one")
                        if any(w != c for w, col in zip(wide, per_field) for c in col[1:]):
                            feats.add("stack:later-input-narrower-than-the-result")
                        if any(col[0].kind in "iu" and w.kind == "f" for w, col in zip(wide, per_field)):
                            feats.add("stack:integer-first-then-float")
                    except TypeError:
                        pass
                elif other_types:
                    feats.add("stack:one-narrow-type-throughout")
        req.update(casts.request())
        rep = ctx.driver.call("c20.run", **req)
        if not rep["types_hold"]:
            # a storage type cannot hold the pad value or the filter's result: the typed mechanism (the model) and the
            # specification differ by `runT_refines_spec`'s hypothesis -> counted as hypothesis-excluded, never a verdict
            undetermined = True
            feats.add("types-do-not-hold (recorded only)")

        def spacing_of(cfg):
            """the spacing `save` hands to io.vtk.save, from the configuration of the model's image, through the library's
            own Config classes"""
            c = SpotConfig(core.untok(cfg[1]), core.untok(cfg[2])) if cfg[0] == "spot" else Config(*[core.untok(t) for t in cfg[1:]])
            return [ctok(c.get_pixel_width()), ctok(c.get_pixel_height()), ctok(c.spotsize / 2.0)]

        def side(r):
            files = []
            for f in canon_files(r["files"]):  # (the driver sends `finalFiles`: every path once; sorted here)
                if f["kind"] == "vtk":
                    f = {k: v for k, v in f.items() if k != "config"} | {"spacing": spacing_of(f["config"])}
                if f["kind"] == "npz" and cmd == "stack":  # the property says nothing about the calibration of a stack
                    f = {k: v for k, v in f.items() if k != "calib"}
                files.append(f)
            return {"status": r["status"], "files": files}
        model, spec_ = side(rep["model"]), side(rep["spec"])
        # a derived output name that is an existing DIRECTORY (a directory input named like the output format, output omitted):
        # the property does not say what happens then (pewlib: IsADirectoryError) -> counted, never a violation
        if any((root / f["path"][len(ROOT) + 1:]).is_dir() for f in spec_["files"]):
            undetermined = True
            feats.add("output-collides-with-directory")
        # ---- 2b. `__main__.load(path)` itself, called directly for every existing input (both run modes): the image it returns
        # (elements, every value, stored configuration) or that it fails, against the driver's `loadMech` / `loadSpec` of the path
        import pewlib.__main__ as cli_mod

        def load_side(x):
            if "fail" in x:
                return "fail"
            return {k: x[k] for k in ("elements", "shape", "data", "config", "calib")}
        if hasattr(cli_mod, "load"):
            direct, kinds = [], []
            for rel, src in zip(run_rels, sources):
                if not src["exists"]:
                    direct.append(None)
                    kinds.append(None)
                    continue
                try:
                    with np.errstate(all="ignore"):
                        laser = cli_mod.load(root / rel)
                    names = list(laser.data.dtype.names)
                    direct.append({"elements": names, "shape": list(laser.data.shape), "data": [grid_tokens(laser.data[n]) for n in names],
                                   "config": cfg_tokens(laser.config), "calib": cal.of(laser, names)})
                    kinds.append(None)
                except Exception as e:  # noqa: BLE001
                    direct.append("fail")
                    kinds.append("usage" if isinstance(e, ValueError) else "crash")
            mask = [d is not None for d in direct]
            load_legs = (direct, [load_side(x) if m else None for x, m in zip(rep["model_loads"], mask)],
                         [load_side(x) if m else None for x, m in zip(rep["spec_loads"], mask)])
            for k_, x in zip(kinds, rep["spec_loads"]):
                if k_ is not None and "fail" in x:
                    feats.add("load-exception-" + ("as-modelled" if k_ == x["fail"] else f"differs:{k_}-for-{x['fail']}"))
            feats.add("load-called-directly")
        else:  # a rewrite without a function `load`: this leg is not observable
            load_legs = (None, None, None)
        # ---- 3. run and observe the files written (and, in process, the loader that delivered each input)
        before = snapshot(root)
        argv = self.argv_of(case, root, run_rels, out_rel)
        with np.errstate(all="ignore"):
            status, exit_kind, spy = self.run_cli(case, root, argv)
        after = snapshot(root)
        written = sorted(p for p in after if before.get(p) != after[p])
        removed = sorted(p for p in before if p not in after)
        impl = {"status": status, "files": [self.read_back(root, p, cal) for p in written]}
        out_types = {f["path"]: f.pop("_dtypes") for f in impl["files"] if "_dtypes" in f}
        stack_cal = None
        for f in impl["files"]:
            if f["kind"] == "npz" and cmd == "stack":
                stack_cal = f.pop("calib")
        if removed:
            impl["removed"] = removed

        def lname(x):
            return x["loader"] if "loader" in x else "fail"
        seen_by = [None if spy is None else spy.delivered(root / rel) for rel in run_rels]
        # (a load the model AND the specification call failed is compared through the exit status: the wrappers cannot see a
        # failure of `load` that comes after a loader call that returned, e.g. of `load_info`)
        failed = ["fail" in x and "fail" in y for x, y in zip(rep["model_loaders"], rep["spec_loaders"])]
        impl["loaders"] = [None if d is None else "fail" if f else d[0] for d, f in zip(seen_by, failed)]
        # the model is asked only about inputs whose loading was observed (a run that fails earlier never reaches the others)
        model["loaders"] = [None if d is None else lname(x) for d, x in zip(seen_by, rep["model_loaders"])]
        spec_["loaders"] = [None if d is None else lname(x) for d, x in zip(seen_by, rep["spec_loaders"])]
        impl["load"], model["load"], spec_["load"] = load_legs
        # ---- features
        for d, x, src in zip(seen_by, rep["spec_loaders"], sources):
            if not src["exists"]:
                continue
            feats.add("load:" + (x["loader"] if "loader" in x else "fail-" + x["fail"]))
            if "loader" in x and x["loader"] == "agilent":
                feats.add("load:agilent-methods=" + "+".join(x["methods"]))
                if d is not None and d[0] == "agilent":
                    feats.add("agilent-methods-" + ("as-modelled" if list(d[1] or []) == x["methods"] else "differ"))
            if d is not None:
                feats.add("loader-observed")
        load_fail = next((x["fail"] for x, src in zip(rep["spec_loaders"], sources) if src["exists"] and "fail" in x), None)
        if load_fail is not None and not case["missing_input"] and case["format"] in (".npz", ".csv", ".vtk"):
            feats.add("exit-code-" + ("as-modelled" if exit_kind == load_fail else f"differs:{exit_kind}-for-{load_fail}"))
        if any(f["kind"] == "vtk" and "data" in f for f in impl["files"]):
            feats.add("vtk-data-compared")
        if case.get("calibrate"):
            feats.add("calibrate")
        n = len(inputs)
        feats.add("n1" if n == 1 else "n2" if n == 2 else "n>=3")
        if n >= 9:
            feats.add("n>=9")
        if cmd != "filter" and any(max(s["h"], s["w"]) > 256 for s in inputs):
            feats.add(f"{cmd}:long-image")
        shapes = {(s["h"], s["w"]) for s in inputs}
        if n > 1:
            feats.add("equal-shapes" if len(shapes) == 1 else "unequal-shapes")
        if any(s["h"] == 1 or s["w"] == 1 for s in inputs):
            feats.add("size-1-axis")
        feats.add("out:" + ("omitted" if o is None else "dir" if o["kind"] == "dir" else "file"))
        if o is not None and o["kind"] == "file" and Path(o["name"]).suffix != Path(o["name"]).suffix.lower():
            feats.add("out:upper-case-suffix")
        if spec_["status"] == "error":
            feats.add("rejected")
        if case["missing_input"]:
            feats.add("missing-input")
        if cmd in ("convert", "filter") and case["elements"] is not None:
            feats.add("elements:subset")
            known = {e for s in inputs for e in s["elements"]}
            if any(e not in known for e in case["elements"]):
                feats.add("elements:unknown")
            elif any(not set(case["elements"]) & set(s["elements"]) for s in inputs):
                feats.add("elements:input-without-any")
            elif any(not set(case["elements"]) <= set(s["elements"]) for s in inputs):
                feats.add("elements:missing-in-some-input")
        if cmd == "convert" and case["config"] is not None:
            feats.add("config")
        # configuration classes: which inputs does the SPECIFICATION load as spot-wise images (npz saved with a SpotConfig,
        # Nu directory with x/y columns), and what becomes of that configuration
        spot_in = [("config" in x and x["config"][0] == "spot") for x, src in zip(rep["spec_loads"], sources) if src["exists"]]
        wrote = spec_["status"] == "ok" and bool(spec_["files"])
        if any(spot_in):
            feats.add("in:spot-config")
            if len(spot_in) > 1 and not all(spot_in):
                feats.add("in:spot-and-raster-config")
            if wrote and cmd == "convert":
                feats.add("spot-config:replaced-by---config" if case["config"] is not None else "spot-config:kept-by-convert")
            if wrote and cmd == "filter":
                feats.add("spot-config:kept-by-filter")
            if wrote and cmd == "stack":
                feats.add("spot-config:first-of-stack" if spot_in[0] else "spot-config:later-in-stack-dropped")
            if wrote and case["format"] == ".vtk" and any(f.get("kind") == "vtk" for f in spec_["files"]):
                feats.add("spot-config:with-vtk-spacing")
        if any(f.get("kind") == "npz" and f["config"][0] == "spot" for f in spec_["files"]):
            feats.add("out:spot-config")
        if rep["spec"]["status"] == "ok" and rep["spec"]["written"] > len(rep["spec"]["files"]):
            feats.add("outputs-coincide")  # a later file replaces an earlier one (the driver's `finalFiles`)
            if len(set(run_rels)) == len(run_rels):
                feats.add("outputs-coincide:of-different-inputs")
        if len({(Path(r).parent, Path(r).stem) for r in set(run_rels)}) < len(set(run_rels)):
            feats.add("in:one-stem-two-suffixes-in-one-directory")
        if len({Path(r).stem for r in set(run_rels)}) < len(set(run_rels)):
            feats.add("in:equal-stems")
        if case.get("argv"):
            feats.add("argv:shuffled")
            if case["argv"].get("options_first"):
                feats.add("argv:options-before-inputs")
            if case["argv"].get("equals"):
                feats.add("argv:option=value")
        if "same-input-twice" in feats:
            feats.add("same-input-twice:" + cmd)
            if cmd == "filter" and second_pass_changes and spec_["status"] == "ok" and spec_["files"]:
                feats.add("same-input-twice:filter-second-pass-would-change")
        if cmd == "filter":
            feats.add("filter:" + (case["filter"]["type"] or "default"))
            fsz, fth = case["filter"]["size"], case["filter"]["threshold"]
            if fsz is not None and fsz not in (3, 5, 7):
                feats.add("filter:window-1" if fsz == 1 else "filter:window-even (library rejects)" if fsz % 2 == 0 else "filter:window>=9")
            if fth is not None and (fth < 0 or fth > 3.0 or 0 < fth < 0.01):
                feats.add("filter:threshold-extreme")
            if changed_by_filter:
                feats.add("filter:changed-values")
            for axis, key in (("rows", "h"), ("cols", "w")):
                longest = max(s[key] for s in inputs)
                if longest > 2 * STRIP:
                    feats.add(f"filter:{axis}>1024")
                elif longest > STRIP:
                    feats.add(f"filter:{axis}>512")
            if any(max(s["h"], s["w"]) > STRIP for s in inputs):
                feats.add("filter:large-image:" + (case["filter"]["type"] or "default"))
        if cmd == "stack":
            feats.add("orient:" + (case["orientation"] or "default"))
            feats.add("pad:" + ("nan" if case["pad"] in ("default", "nan") else "finite"))
            if case["pad"] not in ("default", "nan", -1.0, 2.5, 1e6) or (case["pad"] == 0.0 and math.copysign(1.0, case["pad"]) < 0):
                if case["pad"] != 0.0 or math.copysign(1.0, case["pad"]) < 0:
                    feats.add("pad:extreme-or-signed-zero")
            if spec_["status"] == "ok" and len(shapes) > 1:
                feats.add("stack:padding-needed")
            if len(shapes) > 1 and len({s["h"] * s["w"] for s in inputs}) == 1:
                feats.add("stack:equal-count-unequal-shapes")
                if any((w, h) in shapes for h, w in shapes if h != w):
                    feats.add("stack:transposed-pair")
        if any(s["nans"] for s in inputs):
            feats.add("nan-values")
        # calibrations (an .npz input carries them; every other loader gives the default): kept by convert / filter -> compared;
        # of a stack: recorded only
        if any(any(c != 0 for c in r.get("calib", [])) for src in sources for r in src["calls"]):
            feats.add("in:calibration")
            if any(f.get("kind") == "npz" and any(c != 0 for c in f.get("calib", [])) for f in spec_["files"]):
                feats.add("out:calibration-kept")
        if stack_cal is not None:
            want = [f["calib"] for f in rep["spec"]["files"] if f.get("kind") == "npz"]
            if want and any(c != 0 for c in want[0] + stack_cal):
                feats.add("stack:calibration-" + ("of-first-input" if want[0] == stack_cal else "differs") + " (recorded only)")
        # storage types of the written .npz files (recorded only): convert / filter keep the loaded types, stack promotes
        if out_types and spec_["status"] == "ok" and all(ts is not None for ts in types):
            if cmd == "stack":
                try:
                    want_t = [np.result_type(*col).str for col in zip(*types)]
                except (TypeError, ValueError):
                    want_t = None
                got = next(iter(out_types.values()))
                if want_t is not None and other_types:
                    feats.add("out-types-" + ("promoted" if got == want_t else "differ") + " (recorded only)")
            elif other_types:
                by_name = [dict(zip(a.dtype.names, [t.str for t in ts])) for a, ts in zip(loaded, types)]
                ok_t = True
                for f in impl["files"]:
                    if f["kind"] == "npz" and f["path"] in out_types:
                        ok_t = ok_t and any(all(d.get(n) == t for n, t in zip(f["elements"], out_types[f["path"]])) for d in by_name)
                feats.add("out-types-" + ("as-loaded" if ok_t else "differ") + " (recorded only)")
        nontrivial = bool(spec_["files"]) or spec_["status"] == "error"
        return outcome(impl, model, spec_, undetermined=undetermined, hyp=bool(rep["types_hold"]),
                       features=feats if nontrivial else [])

    # ------------------------------------------------------------------ shrinking
    def shrink(self, case):
        ins = case["inputs"]
        if len(ins) > 1:
            for i in range(len(ins)):
                yield {**case, "inputs": ins[:i] + ins[i + 1:]}
        for i, s in enumerate(ins):
            for key in ("h", "w"):
                lo = 2 if (key == "w" and s["fmt"] in ("agilent", "thermo", "csvdir")) or (key == "h" and s["fmt"] == "perkin") else 1
                if s["fmt"] == "emptydir":
                    continue
                for step in (256, 64, 16, 4):  # long sides of the `large` filter class
                    if s[key] - step >= max(lo, 8):
                        yield {**case, "inputs": ins[:i] + [{**s, key: s[key] - step}] + ins[i + 1:]}
                if s[key] > lo:
                    yield {**case, "inputs": ins[:i] + [{**s, key: s[key] - 1}] + ins[i + 1:]}
            if s["fmt"] == "npz" and len(s["elements"]) > 1 and case["cmd"] != "stack":
                yield {**case, "inputs": ins[:i] + [{**s, "elements": s["elements"][:-1]}] + ins[i + 1:]}
            if s["nans"]:
                yield {**case, "inputs": ins[:i] + [{**s, "nans": False}] + ins[i + 1:]}
            if s["fmt"] == "npz" and s.get("cfg") == "spot":
                yield {**case, "inputs": ins[:i] + [make_raster(dict(s))] + ins[i + 1:]}
        if case["mode"] == "subproc":
            yield {**case, "mode": "inproc", "relative": False}
        if case.get("elements"):
            for i in range(len(case["elements"])):
                rest = case["elements"][:i] + case["elements"][i + 1:]
                yield {**case, "elements": rest or None}
        if case["cmd"] == "convert" and case.get("config") is not None:
            yield {**case, "config": None}
        if case["missing_input"]:
            yield {**case, "missing_input": False}
        if case.get("calibrate"):
            yield {**case, "calibrate": False}


PROP = C20()

if __name__ == "__main__":
    sys.exit(core.main(PROP, "harness.c20"))
