"""C16 — text-image and VTK exports decode back: pewlib.io.textimage.save/load and pewlib.io.vtk.save
against PewModel/Export.lean.

Values travel as bit tokens (core.tok): the text part compares finite values, zeros (signed) and
infinities bit-exactly and every NaN as one canonical token (the text form of a NaN carries no
payload); the VTK part compares raw bit patterns including NaN payloads.

Text.  The Lean side never parses or prints a number: `fmt` is the identity on the token strings Python
produced ('%.18g' % x for saved files), `conv` is applied by the harness (`pyfloat`: Python's float, NaN
when it raises) to the field strings the Lean loader model (`loadFields`) cuts out of a file.  For a
saved image the driver gets the characters pewlib wrote: model = the loader model on those characters,
spec = the image, impl = what pewlib's load returned; the Lean rendering `saveText` of the same tokens is
compared with the file byte for byte (equal: the round-trip theorem speaks about this very file; unequal:
hypothesis-excluded, the comparison through the loader model remains).  Files other tools might write
are described line by line (`foreignFile`, class predicate `foreignOk` decided by the driver) or given as
raw text; both pewlib and the Lean loader model read them, as written and with ';'/tab replaced by ','.

VTK.  The file written by pewlib is read by the small independent reader `read_vti` below (header XML via
ElementTree + appended raw blocks; pewlib has no VTK reader): impl.  model = the Lean reader `vtkParse` on
the Lean rendering `vtkRender` plus the blocks found at the declared offsets, spec = `vtkMetaSpec` and
`vtkBlockSpec`.  The Lean reader is also run on the real header text, and the whole Lean rendering
(header text, appended bytes, closing text) is compared with the real file byte for byte; the Lean byte-level
reader `readBlockBytes` reads the real appended bytes at the offsets the real header declares.

Sessions.  Several calls in one FRESH process (a fork of a process that has imported pewlib and never called it):
`textimage.save`, files put there by the harness (standing for another tool), `textimage.load` with its options
(`delimiter=` one of ',', ';', tab or the default, `name=`), `vtk.save` (other spacings, element sets, shapes; the same
path again).  The Lean side runs the mechanism `runSession` (a file system threaded through the calls) and the
specification `sessionSpec` (every load answered from the last put at its path and its own options) on the same calls;
each load the property speaks about (`Src.image?`) is judged against the image, each .vti file as above: whatever was
called before must not matter."""
import base64
import json
import math
import os
import re
import struct
import subprocess
import sys
import traceback
import xml.etree.ElementTree as ET

import numpy as np

from harness import core
from harness.core import Prop, outcome, tok, untok

NAN = tok(float("nan"))
SPECIALS = [0.0, -0.0, float("inf"), float("-inf"), float("nan"), 5e-324, -5e-324, 2.2250738585072014e-308,
            2.225073858507201e-308, 1.7976931348623157e308, -1.7976931348623157e308, 1.0, -1.0, 0.1, 1 / 3,
            123456789.0, 1e22, 1e23, 9007199254740993.0, 0.30000000000000004, 4.35, 2.5e-5]
NAME_ALPHABET = list("abcXYZ019 _-.:/") + list("&<>\"'") * 3 + ["µ", "é", "²", "λ", "日", "𝛼", "&amp;", "&lt;", "&#38;", "&#160;", "&quot;", "]]>", "<!--"]
DELIMS = [",", ";", "\t"]


def ctok(v) -> int:
    """token of a float with NaNs canonicalised (text form)"""
    v = float(v)
    return NAN if math.isnan(v) else tok(v)


def gen_value(rng) -> int:
    """bit token of one generated float64"""
    k = rng.random()
    if k < 0.30:
        return tok(rng.choice(SPECIALS))
    if k < 0.55:  # any bit pattern: denormals, huge, NaN payloads
        return struct.unpack("<q", struct.pack("<Q", rng.getrandbits(64)))[0]
    if k < 0.70:  # denormal
        return tok(math.copysign(rng.getrandbits(52) * 5e-324, rng.choice([-1, 1])))
    if k < 0.85:
        return tok(rng.randint(-1000, 1000) / rng.choice([1, 2, 4, 10, 100, 3, 7]))
    return tok(rng.uniform(-1, 1) * 10.0 ** rng.randint(-300, 300))


def gen_vals(rng, r, c):
    """r*c value tokens; sometimes a whole edge row/column (or an inner one) is NaN, as in NaN-masked images"""
    vals = [gen_value(rng) for _ in range(r * c)]
    if rng.random() < 0.2:
        for _ in range(rng.choice([1, 1, 2])):
            if rng.random() < 0.5:
                j = rng.choice([0, c - 1, rng.randrange(c)])
                for i in range(r):
                    vals[i * c + j] = NAN
            else:
                i = rng.choice([0, r - 1, rng.randrange(r)])
                for j in range(c):
                    vals[i * c + j] = NAN
    return vals


def gen_shape2(rng):
    k = rng.random()
    if k < 0.08:
        return 1, 1
    if k < 0.22:
        return 1, rng.randint(2, 8)  # single row
    if k < 0.40:
        return rng.randint(2, 8), 1  # single column
    if k < 0.50:
        return rng.choice([(2, 2), (1, 2), (2, 1), (2, 3), (3, 2)])
    return rng.randint(2, 7), rng.randint(2, 7)


def classify(tokens):
    f = set()
    for t in tokens:
        v = untok(t)
        if math.isnan(v):
            f.add("value:nan")
        elif math.isinf(v):
            f.add("value:inf")
        elif v == 0.0:
            f.add("value:-0.0" if math.copysign(1, v) < 0 else "value:0.0")
        elif abs(v) < 2.2250738585072014e-308:
            f.add("value:denormal")
        elif abs(v) == 1.7976931348623157e308:
            f.add("value:max")
    return f


def shape_features(r, c):
    f = set()
    if r == 1 and c == 1:
        f.add("shape:1x1")
    elif r == 1:
        f.add("shape:single-row")
    elif c == 1:
        f.add("shape:single-column")
    else:
        f.add("shape:general")
    return f


# ----------------------------------------------------------------------------- memory layouts of the saved arrays
ORDERS = ["C", "F", "T", "step", "rev", "crop"]
EXTRA_FORMATS = ["<f8", "<f8", "<f4", "<i4", "u1", "<i2"]


TEXT_ORDERS = ORDERS + ["swapped", "field", "swapped-T"]  # 2-D float64 arrays only: other byte order, unaligned field view


class BadCase(Exception):
    """the abstract case does not describe a buildable input (only a shrinker or a hand-written replay can get here)"""


def alloc(shape, dtype, order):
    """zeroed array of `shape` whose memory layout is `order`: C, Fortran, a transposed view, every second element of
    a larger array, a view with negative strides, the interior of a larger array"""
    shape = [int(n) for n in shape]
    if order == "C":
        return np.zeros(shape, dtype)
    if order == "F":
        return np.zeros(shape, dtype, order="F")
    if order == "T":
        return np.zeros(shape[::-1], dtype).T
    if order == "step":
        return np.zeros([2 * n + 1 for n in shape], dtype)[tuple(slice(1, None, 2) for _ in shape)]
    if order == "rev":
        return np.zeros(shape, dtype)[tuple(slice(None, None, -1) for _ in shape)]
    if order == "crop":
        return np.zeros([n + 3 for n in shape], dtype)[tuple(slice(1, 1 + n) for n in shape)]
    raise BadCase(f"order {order!r}")


def alloc_text(shape, order):
    """zeroed 2-D float64 array for `textimage.save`: the layouts of `alloc`, the non-native byte order (also transposed),
    the float64 member of a packed record (unaligned, strided)"""
    if order == "swapped":
        return np.zeros(shape, np.dtype(np.float64).newbyteorder())
    if order == "swapped-T":
        return np.zeros(shape[::-1], np.dtype(np.float64).newbyteorder()).T
    if order == "field":
        return np.zeros(shape, np.dtype([("pad", "u1"), ("v", "<f8")]))["v"]
    return alloc(shape, np.float64, order)


def build_structured(shape, names, vals, layout, order, swapped=()):
    """the structured float64 image of the case: fields `names` (in this order) holding `vals`, laid out in memory as
    `layout` says - packed in name order (None), a multi-field selection `base[names]` of a record whose fields lie in
    another order and may have other members between them ("select"), or a dtype with explicit offsets and itemsize
    ("offsets")"""
    k = len(names)
    other = np.dtype(np.float64).newbyteorder()  # float64 in the byte order that is not the machine's
    swapped = [int(i) for i in swapped]
    if any(i < 0 or i >= k for i in swapped):
        raise BadCase("swapped field index")
    if layout is None:
        data = alloc(shape, [(n, other if i in swapped else np.float64) for i, n in enumerate(names)], order)
    elif layout.get("via") == "select":
        rec = layout["record"]
        if sorted(i for i, _ in rec if i >= 0) != list(range(k)) or any(f != "<f8" for i, f in rec if i >= 0):
            raise BadCase("record does not hold every element once as float64")
        if any(f not in EXTRA_FORMATS for i, f in rec if i < 0):
            raise BadCase("format of another member")
        members, extra = [], 0
        for i, f in rec:
            if i >= 0:
                members.append((names[i], other if i in swapped else f))
            else:
                while f"other{extra}" in names:
                    extra += 1
                members.append((f"other{extra}", f))
                extra += 1
        base = alloc(shape, np.dtype(members, align=bool(layout.get("align", False))), order)
        data = base[list(names)] if k > 1 or len(rec) > 1 else base
        if data.dtype.names != tuple(names):
            raise BadCase("selection")
    elif layout.get("via") == "offsets":
        offs, size = [int(o) for o in layout["offsets"]], int(layout["itemsize"])
        if len(offs) != k or any(o < 0 or o + 8 > size for o in offs):
            raise BadCase("offsets outside the record")
        if any(abs(a - b) < 8 for i, a in enumerate(offs) for b in offs[i + 1:]):
            raise BadCase("overlapping fields")
        data = alloc(shape, np.dtype({"names": list(names), "formats": [other if i in swapped else np.dtype(np.float64) for i in range(k)],
                                       "offsets": offs, "itemsize": size}), order)
    else:
        raise BadCase(f"layout {layout!r}")
    for n, v in zip(names, vals):
        data[n][...] = np.array(v, dtype="<i8").view(np.float64).reshape(shape)
    for n, v in zip(names, vals):  # the input really is the image of the case, whatever the layout
        if data[n].shape != tuple(shape) or [int(x) for x in data[n].astype(np.float64).view(np.int64).ravel()] != [int(x) for x in v]:
            raise BadCase("the built array does not hold the values of the case")
    return data


def layout_features(data, prefix):
    f = set()
    if data.dtype.names is not None:
        offs = [data.dtype.fields[n][1] for n in data.dtype.names]
        if offs != sorted(offs):
            f.add(prefix + "fields-not-in-name-order")
        if data.dtype.itemsize > 8 * len(offs):
            f.add(prefix + "padded-record")
        if any(o % 8 for o in offs) or data.dtype.itemsize % 8:
            f.add(prefix + "unaligned-field")
    if data.dtype.names is None and not data.dtype.isnative:
        f.add(prefix + "non-native-byte-order")
    if data.dtype.names is None and not data.flags.aligned:
        f.add(prefix + "unaligned")
    if data.size > 1 and not (data.flags.c_contiguous or data.flags.f_contiguous):
        f.add(prefix + "noncontiguous")
    elif data.size > 1 and data.ndim > 1 and not data.flags.c_contiguous:
        f.add(prefix + "fortran-contiguous")
    if any(st < 0 for st, n in zip(data.strides, data.shape) if n > 1):
        f.add(prefix + "negative-stride")
    return f


def gen_layout(rng, k):
    """memory layout of a k-element structured image (None = packed in name order)"""
    u = rng.random()
    if u < 0.35:
        return None
    perm = list(range(k))
    if k > 1 and rng.random() < 0.8:
        while perm == list(range(k)):
            rng.shuffle(perm)
    if u < 0.70:  # multi-field selection of a (larger) record
        rec = [[i, "<f8"] for i in perm]
        for _ in range(rng.choice([0, 0, 0, 1, 1, 2])):
            rec.insert(rng.randint(0, len(rec)), [-1, rng.choice(EXTRA_FORMATS)])
        return {"via": "select", "record": rec, "align": rng.random() < 0.3}
    offs, at = [0] * k, 0
    for i in perm:
        at += rng.choice([0, 0, 0, 8, 8, 16, 4, 1])
        offs[i] = at
        at += 8
    return {"via": "offsets", "offsets": offs, "itemsize": at + rng.choice([0, 0, 0, 8, 3])}


# ----------------------------------------------------------------------------- delimiter files that change style late
SWITCH_AT = [1024, 2048, 4096, 8192, 16384, 65536, 131072]  # sample / buffer sizes a reader might look at first


def field_text(t) -> str:
    return repr(float(untok(t)))


def sep_of(style, pick):
    if style in DELIMS:
        return style
    if style == "noncomma":
        return pick([";", "\t"])
    return pick(DELIMS)  # "mixed"


def late_switch(c, target, head, tail, tail_rows, value, pick):
    """rows*cols image and separators: rows in style `head` until the file is `target` characters long, then `tail_rows`
    rows in style `tail` ("one" = style `head` but for a single separator)"""
    vals, seps, size = [], [], 0
    while size < target:
        row = [value() for _ in range(c)]
        vals += row
        seps.append([sep_of(head, pick) for _ in range(c - 1)])
        size += sum(len(field_text(t)) for t in row) + c
    for _ in range(tail_rows):
        vals += [value() for _ in range(c)]
        seps.append([sep_of(head if tail == "one" else tail, pick) for _ in range(c - 1)])
    if tail == "one":
        others = [d for d in DELIMS if d != head] if head in DELIMS else [","]
        i = len(seps) - 1 - pick(range(tail_rows))
        seps[i][pick(range(c - 1))] = pick(others)
    return {"kind": "delims", "rows": len(seps), "cols": c, "vals": vals, "seps": seps}


def gen_late_switch(rng):
    big = rng.random() < 0.08
    at = rng.choice([65536, 131072] if big else [1024, 2048, 4096, 4096, 4096, 8192, 8192, 16384])
    target = int(at * rng.choice([0.7, 1.0, 1.0, 1.0, 1.02, 1.3, 2.1])) + rng.randint(0, 60)
    c = rng.choice([2, 2, 3, 12, rng.randint(2, 16), rng.randint(2, 40)])
    if rng.random() < 0.65:
        head, tail = ",", rng.choice([";", "\t", "noncomma", "mixed", "mixed", "one"])
    else:
        head, tail = rng.choice([";", "\t", "noncomma"]), rng.choice([",", ",", "mixed", "one"])
    if rng.random() < 0.5:
        value = lambda: gen_value(rng)
    else:  # short fields: many rows before the switch
        value = lambda: tok(float(rng.randint(-99, 999)) / rng.choice([1, 1, 2, 10]))
    tail_rows = rng.choice([1, 1, 2, 3, rng.randint(1, 40)])
    return late_switch(c, target, head, tail, tail_rows, value, rng.choice)


def switch_features(text):
    """where in the written file the second kind of separator first appears"""
    first = {d: text.find(d) for d in DELIMS if d in text}
    if len(first) < 2:
        return set()
    order = sorted(first, key=first.get)
    at = first[order[1]]
    reached = [n for n in SWITCH_AT if at >= n]
    if not reached:
        return set()
    n = max(reached)
    f = {f"delims:second-style-after-{n // 1024}KiB"}
    f.add("delims:late:commas-first" if order[0] == "," else "delims:late:commas-later" if order[1] == "," else "delims:late:no-commas")
    return f


# ----------------------------------------------------------------------------- text files: tokens, foreign writers
def pyfloat(field: str) -> float:
    """genfromtxt's loose float converter: `float(field)`, NaN when that raises ValueError (the model's opaque `conv`)"""
    try:
        return float(field)
    except ValueError:
        return float("nan")


def conv_side(side):
    """a `loadFields` reply of the driver with its opaque field strings converted by `pyfloat`"""
    if "raises" in side["loaded"]:
        return {"raises": True}
    return {"shape": side["loaded"]["shape"], "data": [ctok(pyfloat(f)) for f in side["loaded"]["fields"]], "dtype": "float64"}


def observe_loaded(out):
    """what `load` returned, canonical: shape, values as bit tokens (NaN canonical), dtype of the values, field names"""
    names = list(out.dtype.names) if out.dtype.names else None
    if names is not None and len(names) != 1:
        return {"odd": str(out.dtype)}
    flat = out[names[0]] if names else out
    return {"shape": list(out.shape), "data": [ctok(v) for v in flat.ravel()], "dtype": str(flat.dtype), "names": names}


def run_load(path, **options):
    """pewlib's loader on a file: (shape, values as bit tokens with NaN canonical, dtype) or that it raised; whether it
    warned about an empty file; a note"""
    import warnings

    from pewlib.io import textimage

    with warnings.catch_warnings(record=True) as caught:
        warnings.simplefilter("always")
        try:
            out = textimage.load(path, **options)
        except Exception as e:
            return {"raises": True}, False, f"{type(e).__name__}: {e}"[:200]
    seen = observe_loaded(out)
    if seen.get("names") is None:
        seen.pop("names", None)
    return seen, any("Empty input file" in str(w.message) for w in caught), ""


def read_chars(path) -> str:
    """the characters of a file as pewlib's `path.open("r")` decodes them, line terminators untranslated"""
    with path.open("r", newline="") as fp:
        return fp.read()


def join_with(seps, fields):
    """the model's `joinWith`: separators in order, ',' when they run out, surplus separators unused"""
    out = ""
    for i, f in enumerate(fields):
        if i:
            out += seps[i - 1] if i - 1 < len(seps) else ","
        out += f
    return out


def foreign_text(lines) -> str:
    """the model's `foreignFile`, written by the harness from the same line descriptions"""
    out = ""
    for ln in lines:
        out += " " * ln["indent"] + join_with(ln["seps"], [" " * c["before"] + c["token"] + " " * c["after"] for c in ln["cells"]])
        out += ("#" + ln["comment"] if ln["comment"] is not None else "") + ln["eol"]
    return out


FINITE_FORMS = [repr, lambda v: "%.18g" % v, lambda v: "%.17g" % v, lambda v: "%r" % v, lambda v: "%e" % v, lambda v: "%g" % v,
                lambda v: "%.3f" % v if abs(v) < 1e15 else repr(v), lambda v: ("+" if v >= 0 else "") + repr(v),
                lambda v: repr(v).upper(), lambda v: repr(v).replace("e", "E")]
SPECIAL_FORMS = {"nan": ["nan", "NaN", "NAN", "+nan", "-nan"], "inf": ["inf", "Infinity", "+inf", "INF", "1e999"],
                 "-inf": ["-inf", "-Infinity", "-INF", "-1e999"]}
JUNK_TOKENS = ["", "", "x", "1_0", "0x10", "1..2", "--1", "1e", "١٢", "n/a", "1 2", " ", "1d5", "None"]
COMMENTS = ["", " comment", "1,2;3", " x # y", "\ttab", ";", " 4.5", "é"]


def gen_token(rng) -> str:
    """one number as another tool might print it"""
    v = untok(gen_value(rng))
    if math.isnan(v):
        return rng.choice(SPECIAL_FORMS["nan"])
    if math.isinf(v):
        return rng.choice(SPECIAL_FORMS["inf" if v > 0 else "-inf"])
    return rng.choice(FINITE_FORMS)(v)


def gen_foreign(rng):
    """a file of the class 'delimiter variant of an image' (sometimes pushed out of it), line by line"""
    r, c = gen_shape2(rng)
    sep_style = rng.choice([",", ";", "\t", "mixed", "mixed"])
    eol_style = rng.choice(["\n", "\n", "\r\n", "\r\n", "\r", "mixed"])
    pad = rng.random() < 0.5
    deco = rng.random() < 0.6

    def eol():
        return rng.choice(["\n", "\r\n", "\r"]) if eol_style == "mixed" else eol_style

    def blank():
        return {"indent": rng.choice([0, 0, 1, 4]), "cells": [], "seps": [], "eol": eol(),
                "comment": rng.choice([None, None] + COMMENTS) if rng.random() < 0.7 else None}

    lines = []
    for _ in range(rng.choice([0, 0, 1, 2]) if deco else 0):  # a header another tool wrote, or leading blank lines
        lines.append(blank())
    for i in range(r):
        cells = [{"before": rng.choice([0, 0, 1, 2]) if pad else 0, "token": gen_token(rng),
                  "after": rng.choice([0, 0, 1, 3]) if pad else 0} for _ in range(c)]
        seps = [rng.choice(DELIMS) if sep_style == "mixed" else sep_style for _ in range(c - 1)]
        lines.append({"indent": rng.choice([0, 0, 0, 2]) if pad else 0, "cells": cells, "seps": seps, "eol": eol(),
                      "comment": rng.choice(COMMENTS) if deco and rng.random() < 0.25 else None})
        while deco and rng.random() < 0.2:
            lines.append(blank())
    if rng.random() < 0.3:
        lines[-1]["eol"] = ""  # no terminator after the last line
    rows = [ln for ln in lines if ln["cells"]]
    k = rng.random()
    if k < 0.06:  # a trailing delimiter on every row: one more, empty, column
        for ln in rows:
            ln["cells"].append({"before": 0, "token": "", "after": 0})
            ln["seps"].append(rng.choice(DELIMS))
    elif k < 0.10:  # ... on one row only: ragged
        ln = rng.choice(rows)
        ln["cells"].append({"before": 0, "token": "", "after": 0})
        ln["seps"].append(rng.choice(DELIMS))
    elif k < 0.18:  # empty or unparsable fields
        for _ in range(rng.choice([1, 1, 2])):
            rng.choice(rng.choice(rows)["cells"])["token"] = rng.choice(JUNK_TOKENS)
    elif k < 0.21 and c > 1:  # a row one field short
        ln = rng.choice(rows)
        ln["cells"].pop()
        ln["seps"].pop()
    elif k < 0.23:  # nothing but blank and comment lines
        lines = [blank() for _ in range(rng.randint(0, 3))]
    return {"kind": "foreign", "lines": lines}


RAW_PIECES = ["1", "2.5", "-3", "1e5", "nan", "inf", "x", "", ",", ",", ";", "\t", " ", "  ", "\n", "\n", "\r\n", "\r", "#", "# c", "0",
              "-0.0", ",,", ";\n", "\x0c", "\x0b", " ", "é", "\x00", "_", "+", "."]


def gen_rawtext(rng):
    return {"kind": "rawtext", "text": "".join(rng.choice(RAW_PIECES) for _ in range(rng.randint(0, 30)))}


def foreign_features(text, lines=None):
    f = set()
    if "\r\n" in text:
        f.add("foreign:crlf")
    if re.search("\r(?!\n)", text):
        f.add("foreign:lone-cr")
    if text and not text.endswith(("\n", "\r")):
        f.add("foreign:no-final-newline")
    if "#" in text:
        f.add("foreign:comment")
    if re.search(r"(^|[\r\n])[ ]*([\r\n]|$)", text) and text:
        f.add("foreign:blank-line")
    if re.search(r"[,;\t][ ]*([\r\n#]|$)", text):
        f.add("foreign:trailing-delimiter")
    if re.search(r"(^|[\r\n,;\t])[ ]*[,;\t]", text):
        f.add("foreign:empty-field")
    if re.search(r"[ ][,;\t]|[,;\t][ ]|(^|[\r\n])[ ]+[^ \r\n]", text):
        f.add("foreign:spaces-around-fields")
    used = {d for d in DELIMS if d in text.split("#")[0]} if lines is None else {s for ln in lines for s in ln["seps"]}
    f.add("delims:" + ("none" if not used else "mixed" if len(used) > 1 else {",": "comma", ";": "semicolon", "\t": "tab"}[next(iter(used))]))
    return f


# ----------------------------------------------------------------------------- independent VTI reader
class Malformed(Exception):
    pass


def read_vti(raw: bytes) -> dict:
    """minimal reader of an ImageData .vti with raw appended data, written from the VTK file format
    description: XML header, then `_`, then per array a header_type byte count and the values"""
    marker = b"<AppendedData"
    i = raw.find(marker)
    if i < 0:
        raise Malformed("no AppendedData element")
    m = re.compile(rb"<AppendedData\s+encoding\s*=\s*[\"']raw[\"']\s*>\s*_").match(raw, i)
    if not m:
        raise Malformed("AppendedData is not raw or has no '_' marker")
    try:
        root = ET.fromstring(raw[:i] + b"</VTKFile>")
    except ET.ParseError as e:
        raise Malformed(f"header is not well-formed XML: {e}")
    if root.tag != "VTKFile" or root.get("type") != "ImageData":
        raise Malformed("not an ImageData VTKFile")
    bo = {"LittleEndian": "<", "BigEndian": ">"}.get(root.get("byte_order"))
    if bo is None:
        raise Malformed("byte_order")
    ht = {"UInt64": "Q", "UInt32": "I"}.get(root.get("header_type", "UInt32"))
    if ht is None:
        raise Malformed("header_type")
    hsize = struct.calcsize(ht)
    image = root.find("ImageData")
    if image is None:
        raise Malformed("no ImageData")

    def ints(s, n):
        v = [int(x) for x in s.split()]
        if len(v) != n:
            raise Malformed("extent")
        return v

    def floats(s):
        v = [float(x) for x in s.split()]
        if len(v) != 3:
            raise Malformed("origin/spacing")
        return v

    whole = ints(image.get("WholeExtent", ""), 6)
    origin = floats(image.get("Origin", ""))
    spacing = floats(image.get("Spacing", ""))
    pieces = image.findall("Piece")
    if len(pieces) != 1:
        raise Malformed("expected one Piece")
    pext = ints(pieces[0].get("Extent", ""), 6)
    cds = pieces[0].findall("CellData")
    if len(cds) != 1:
        raise Malformed("expected one CellData")
    ncells = 1
    for lo, hi in zip(pext[0::2], pext[1::2]):
        if hi < lo:
            raise Malformed("extent order")
        ncells *= (hi - lo)
    body = raw[m.end():]
    arrays = []
    end = 0
    for da in cds[0].findall("DataArray"):
        if da.get("type") != "Float64" or da.get("format") != "appended":
            raise Malformed("DataArray type/format")
        off = int(da.get("offset"))
        if off < 0 or off + hsize > len(body):
            raise Malformed("offset outside the appended data")
        (nbytes,) = struct.unpack(bo + ht, body[off:off + hsize])
        if nbytes % 8 or off + hsize + nbytes > len(body):
            raise Malformed("block size")
        vals = np.frombuffer(body, dtype=bo + "i8", count=nbytes // 8, offset=off + hsize)
        arrays.append({"name": da.get("Name"), "type": da.get("type"), "format": da.get("format"), "offset": off,
                       "nbytes": int(nbytes), "values": [int(v) for v in vals]})
        end = max(end, off + hsize + nbytes)
    scal = cds[0].get("Scalars")
    trailer = body[end:]
    if not re.fullmatch(rb"\s*</AppendedData>\s*</VTKFile>\s*", trailer):
        raise Malformed("trailer after the last block")
    words = [int(v) for v in np.frombuffer(body[:end], dtype=bo + "i8")] if end % 8 == 0 else "misaligned"
    return {"whole": whole, "piece": pext, "origin": origin, "spacing": spacing, "ncells": ncells, "arrays": arrays,
            "scalars": scal, "words": words, "file_type": root.get("type"), "version": root.get("version"),
            "byte_order": root.get("byte_order"), "header_type": root.get("header_type"), "encoding": "raw",
            "head": raw[:m.end()], "tail": trailer, "body_bytes": end}


# ----------------------------------------------------------------------------- sessions: several calls in one process
SESSION_NAMES = ["A", "Ca44", "a b", "µ", "x,y", "name"]


def write_text_of(step) -> str:
    """the text the harness puts into a file for a `write` step: any text, or the model's `saveWith` of an image (one
    list of separators per row, rows without a list are not written: `List.zip`)"""
    if "text" in step:
        return step["text"]
    c = step["cols"]
    tokens = [repr(float(untok(t))) for t in step["vals"]]
    rows = [tokens[i * c:(i + 1) * c] for i in range(step["rows"])]
    return "".join(join_with(ss, row) + "\n" for ss, row in zip(step["seps"], rows))


SPACING_AS = ["tuple", "list", "np.float64", "np.float32", "ndarray"]


def spacing_object(case):
    """the `spacing` argument of the case: a tuple of Python numbers, or a list / NumPy scalars / an array of them"""
    sp, how = case["spacing"], case.get("spacing_as", "tuple")
    if len(sp) != 3:
        raise BadCase("three spacings")
    if how == "tuple":
        return tuple(sp)
    if how == "list":
        return list(sp)
    if how == "np.float64":
        return tuple(np.float64(x) for x in sp)
    if how == "np.float32":
        with np.errstate(all="ignore"):  # out of float32's range: inf or 0.0, printed as such
            return tuple(np.float32(x) for x in sp)
    if how == "ndarray":
        return np.array(sp, dtype=np.float64)
    raise BadCase(f"spacing_as {how!r}")


def vtk_write(case, path):
    """pewlib's vtk.save for the image of the case: the bytes of the file, or what was raised"""
    from pewlib.io import vtk

    data = build_structured(case["shape"], case["names"], case["vals"], case.get("layout"), case.get("order", "C"),
                            case.get("swapped_fields", ()))
    spacing = spacing_object(case)
    try:
        vtk.save(str(path) if case.get("strpath") else path, data, spacing)
        return {"raw": path.read_bytes()}
    except Exception as e:
        return {"raises": type(e).__name__, "note": str(e)[:200]}


def run_steps(req) -> dict:
    """(in a fresh process) the calls of a session one after the other; what each returned / wrote"""
    from pathlib import Path

    from pewlib.io import textimage

    base = Path(req["dir"])
    results = []
    for st in req["steps"]:
        path = base / st["file"]
        target = str(path) if st.get("strpath") else path
        op = st["op"]
        if op == "save":
            r, c = st["rows"], st["cols"]
            arr = np.array([untok(t) for t in st["vals"]], dtype=np.float64).reshape(r, c)
            if st.get("order", "C") != "C":
                laid = alloc_text([r, c], st["order"])
                laid[...] = arr
                arr = laid
            try:
                if st.get("header") is None:
                    textimage.save(target, arr)
                else:
                    textimage.save(target, arr, header=st["header"])
                results.append({"text": read_chars(path)})
            except Exception as e:
                results.append({"raises": type(e).__name__, "note": str(e)[:200]})
        elif op == "write":
            path.write_text(st["text"], newline="")
            results.append({"text": st["text"]})
        elif op == "load":
            options = {}
            if st.get("delimiter") is not None:
                options["delimiter"] = st["delimiter"]
            if st.get("name") is not None:
                options["name"] = st["name"]
            seen, warned, note = run_load(target, **options)
            results.append({"seen": seen, "warned": warned, "note": note})
        elif op == "vtk":
            got = vtk_write(st, path)
            if "raw" in got:
                got["raw"] = base64.b64encode(got["raw"]).decode()
            results.append(got)
        else:
            raise BadCase(f"step {op!r}")
    return {"results": results}


def zygote_main() -> int:
    """a process that has imported pewlib and never calls it: every session (one JSON line on stdin) runs in a fork of
    it, so each one starts from the state of a fresh interpreter; one JSON line per session on stdout"""
    core.limit_memory()
    from pewlib.io import textimage, vtk  # noqa: F401  imported, never called here

    sys.stdout.write("ready\n")
    sys.stdout.flush()
    for line in sys.stdin:
        rfd, wfd = os.pipe()
        pid = os.fork()
        if pid == 0:
            try:
                os.close(rfd)
                try:
                    data = json.dumps(run_steps(json.loads(line)))
                except BadCase as e:
                    data = json.dumps({"bad": str(e)})
                except BaseException:
                    data = json.dumps({"crash": traceback.format_exc()[-1500:]})
                with os.fdopen(wfd, "w") as fp:
                    fp.write(data)
            finally:
                os._exit(0)
        os.close(wfd)
        with os.fdopen(rfd, "r") as fp:
            data = fp.read()
        _, status = os.waitpid(pid, 0)
        if not data:
            data = json.dumps({"crash": f"the session process ended with status {status} and no result"})
        sys.stdout.write(data + "\n")
        sys.stdout.flush()
    return 0


class Zygote:
    def __init__(self):
        self.p = subprocess.Popen([sys.executable, "-m", "harness.c16", "--zygote"], cwd=str(core.VERIF), stdin=subprocess.PIPE,
                                  stdout=subprocess.PIPE, stderr=subprocess.DEVNULL, text=True, bufsize=1)
        if self.p.stdout.readline().strip() != "ready":
            raise core.InternalError("the session process did not start")

    def run(self, req) -> dict:
        try:
            self.p.stdin.write(json.dumps(req) + "\n")
            self.p.stdin.flush()
            line = self.p.stdout.readline()
        except BrokenPipeError as e:
            raise core.InternalError("the session process died") from e
        if not line:
            raise core.InternalError("the session process closed its pipe")
        rep = json.loads(line)
        if "crash" in rep:
            raise core.InternalError("session: " + rep["crash"])
        return rep


_ZYGOTES = {}


def zygote() -> Zygote:
    """one per harness process (a forked worker starts its own)"""
    z = _ZYGOTES.get(os.getpid())
    if z is None or z.p.poll() is not None:
        z = _ZYGOTES[os.getpid()] = Zygote()
    return z


def gen_vtk_case(rng):
    r, c = gen_shape2(rng)
    shape = [r, c] if rng.random() < 0.45 else [r, c, rng.choice([1, 1, 2, 3, 4])]
    nf = rng.choice([1, 1, 2, 3, 4])
    names = []
    while len(names) < nf:
        n = "".join(rng.choice(NAME_ALPHABET) for _ in range(rng.randint(1, 6)))
        if rng.random() < 0.3:
            n = rng.choice(["A", "Ca44", "P31", "Eu153"])
        if n not in names and n.strip() == n and "  " not in n:
            names.append(n)
    u = rng.random()
    if u < 0.04:  # a very long name
        n = "".join(rng.choice(NAME_ALPHABET) for _ in range(rng.choice([200, 255, 256, 1000, 3000]))).strip() or "A"
        if "  " not in n and n not in names:
            names[rng.randrange(nf)] = n
    elif u < 0.07:  # a large image
        shape = rng.choice([[rng.randint(40, 110), rng.randint(40, 110)], [rng.randint(20, 30), rng.randint(20, 30), rng.randint(4, 12)],
                            [1, 1, rng.randint(2000, 5000)], [1, rng.randint(2000, 5000)], [rng.randint(2000, 5000), 1]])
        names = names[:2]
        nf = len(names)
    size = int(np.prod(shape))
    spacing = [rng.choice([1, 1.0, 0.5, 35.0, 1e-3, 2.5e-5, 1234.5678, rng.uniform(1e-6, 1e6), rng.uniform(1e-6, 1e6), 1e16, 1e22,
                           123456789012345680.0, 5e-324, 1.7976931348623157e308, 1 / 3, 10 ** 20]) for _ in range(3)]
    case = {"kind": "vtk", "shape": shape, "names": names, "vals": [[gen_value(rng) for _ in range(size)] for _ in names],
            "spacing": spacing}
    layout = gen_layout(rng, nf)
    if layout is not None:
        case["layout"] = layout
    if rng.random() < 0.5:
        case["order"] = rng.choice(ORDERS[1:])
    if rng.random() < 0.2:  # fields stored in the byte order that is not the machine's: all of them, or some
        case["swapped_fields"] = list(range(nf)) if rng.random() < 0.4 else sorted(rng.sample(range(nf), rng.randint(1, nf)))
    if rng.random() < 0.15:
        case["spacing_as"] = rng.choice(SPACING_AS[1:])
    if rng.random() < 0.1:
        case["strpath"] = True
    return case


def gen_large_text(rng):
    """images of 400 .. 6000 values: one long row (a line of more than 64 KiB), one long column, a few long rows, many rows"""
    n = rng.choice([400, 1500, 3000, 3500, 5000, 6000])
    r, c = rng.choice([(1, n), (1, n), (n, 1), (2, n // 2), (3, n // 3), (n // 40, 40), (n // 12, 12)])
    if rng.random() < 0.5:
        vals = [gen_value(rng) for _ in range(r * c)]
    else:  # full-precision finite values: every field 22 - 25 characters
        vals = [tok(rng.uniform(-1, 1) * 10.0 ** rng.randint(-300, 300)) for _ in range(r * c)]
    if rng.random() < 0.6:
        case = {"kind": "text", "rows": r, "cols": c, "vals": vals, "header": rng.choice([None, None, "large"])}
        if rng.random() < 0.3:
            case["order"] = rng.choice(TEXT_ORDERS[1:])
        return case
    style = rng.choice([";", "\t", "mixed", "mixed"])
    seps = [[rng.choice(DELIMS) if style == "mixed" else style for _ in range(c - 1)] for _ in range(r)]
    return {"kind": "delims", "rows": r, "cols": c, "vals": vals, "seps": seps}


def gen_put(rng, file):
    """a step that puts a text image at `file`, and the delimiter the file uses throughout (None: a mixture / unknown)"""
    r, c = gen_shape2(rng)
    vals = gen_vals(rng, r, c)
    u = rng.random()
    if u < 0.5:
        st = {"op": "save", "file": file, "rows": r, "cols": c, "vals": vals, "header": None}
        if rng.random() < 0.2:
            st["header"] = "".join(rng.choice(list("abc XYZ,;#01\t") + ["\n", "1;2", " "]) for _ in range(rng.randint(0, 6)))
        if rng.random() < 0.2:
            st["order"] = rng.choice(TEXT_ORDERS[1:])
        return st, ","
    if u < 0.93:
        style = rng.choice([",", ";", "\t", ";", "\t", "mixed"])
        seps = [[rng.choice(DELIMS) if style == "mixed" else style for _ in range(c - 1)] for _ in range(r)]
        return {"op": "write", "file": file, "rows": r, "cols": c, "vals": vals, "seps": seps}, (style if style in DELIMS else None)
    if rng.random() < 0.7:
        return {"op": "write", "file": file, "text": foreign_text(gen_foreign(rng)["lines"])}, None
    return {"op": "write", "file": file, "text": gen_rawtext(rng)["text"]}, None


def gen_load(rng, file, style, explicit=None):
    """a load of `file` (whose delimiter is `style`) with options; `explicit`: True / False forces a named / default delimiter"""
    u = rng.random()
    if explicit is False or (explicit is None and u < 0.45):
        d = None
    elif style in DELIMS and u < 0.85:
        d = style
    else:
        d = rng.choice(DELIMS)
    st = {"op": "load", "file": file, "delimiter": d, "name": rng.choice(SESSION_NAMES) if rng.random() < 0.2 else None}
    if rng.random() < 0.1:
        st["strpath"] = True
    return st


def gen_session_text(rng):
    steps, styles = [], {}

    def put(file):
        st, style = gen_put(rng, file)
        styles[file] = style
        steps.append(st)

    if rng.random() < 0.5:  # a load that names its delimiter, later a default load (of the same or another file)
        put(0)
        steps.append(gen_load(rng, 0, styles[0], explicit=True))
        if rng.random() < 0.75:
            put(rng.choice([0, 1]))
        for _ in range(rng.choice([0, 0, 1])):
            steps.append(gen_load(rng, rng.choice(sorted(styles)), styles[0]))
        f = rng.choice(sorted(styles))
        steps.append(gen_load(rng, f, styles[f], explicit=False))
    else:
        put(0)
        for _ in range(rng.randint(2, 4)):
            if rng.random() < 0.3:
                put(rng.choice(sorted(styles) + [len(styles)]))
            else:
                f = rng.choice(sorted(styles))
                steps.append(gen_load(rng, f, styles[f]))
        f = rng.choice(sorted(styles))
        steps.append(gen_load(rng, f, styles[f]))
    return steps


def gen_session_vtk(rng):
    """several vtk.save calls: other spacings, other element sets, other shapes, the same path again or another one"""
    base = gen_vtk_case(rng)
    steps = [{**base, "op": "vtk", "file": 0}]
    for i in range(1, rng.randint(2, 4)):
        prev = steps[-1]
        u = rng.random()
        if u < 0.3:
            nxt = gen_vtk_case(rng)
        elif u < 0.55:  # the same image, another spacing
            nxt = {k: v for k, v in prev.items() if k not in ("op", "file")}
            nxt["spacing"] = [rng.choice([1, 2, 0.25, 10.0, 1e-3, rng.uniform(1e-6, 1e6)]) for _ in range(3)]
        elif u < 0.8:  # some of its elements, in another order
            k = len(prev["names"])
            pick = rng.sample(range(k), rng.randint(1, k))
            nxt = {"kind": "vtk", "shape": prev["shape"], "names": [prev["names"][j] for j in pick],
                   "vals": [prev["vals"][j] for j in pick], "spacing": prev["spacing"]}
            if rng.random() < 0.5:
                nxt["order"] = rng.choice(ORDERS)
        else:  # the same elements on a smaller image
            shape = [max(1, n - rng.choice([0, 1, 1])) for n in prev["shape"]]
            size = int(np.prod(shape))
            nxt = {"kind": "vtk", "shape": shape, "names": prev["names"], "vals": [[gen_value(rng) for _ in range(size)] for _ in prev["names"]],
                   "spacing": prev["spacing"]}
        steps.append({**nxt, "op": "vtk", "file": rng.choice([0, 0, i])})
    return steps


def gen_session(rng):
    u = rng.random()
    if u < 0.62:
        steps = gen_session_text(rng)
    elif u < 0.88:
        steps = gen_session_vtk(rng)
    else:  # text and vtk calls interleaved, each kind in its own order
        a, b = gen_session_text(rng), gen_session_vtk(rng)
        steps = []
        while a or b:
            src = a if (a and (not b or rng.random() < 0.5)) else b
            steps.append(src.pop(0))
    return {"kind": "session", "steps": steps}


# ----------------------------------------------------------------------------- the property
class C16(Prop):
    id = "C16"
    anchored = ["src/pewlib/io/textimage.py", "src/pewlib/io/vtk.py"]
    cases = {"quick": 800, "thorough": 12000}
    rule = ("text: images from 1x1 (single rows and columns forced) with special values (denormals, +-max, -0.0, NaN, "
            "+-inf, arbitrary bit patterns), saved (with and without a header, also multi-line and data-like ones) and "
            "loaded; the Lean loader model reads the very characters pewlib wrote (number tokens opaque, converted by "
            "Python's float) and the Lean rendering of the file is compared with them byte for byte; harness-written "
            "files with ',', ';', tab and mixed delimiters, among them long files (to beyond 1, 2, 4, 8, 16, 64, 128 KiB) "
            "whose second style of separator first appears late; files of the class 'delimiter variant of an image' "
            "written line by line (indentation, padding around fields, comments, blank lines, '\\n' / '\\r\\n' / lone "
            "'\\r' terminators, no final newline, numbers printed in other forms) and files pushed out of the class "
            "(trailing delimiters, empty and unparsable fields, ragged rows, nothing but comments) plus arbitrary short "
            "texts, each read by pewlib and by the Lean loader model, as written and with ';'/tab replaced by ','; saved "
            "arrays also Fortran-ordered, transposed, strided, reversed and cropped views; VTK: 2-D and 3-D structured "
            "float64 images with 1..4 elements whose names need XML escaping, integer and float spacings, element fields "
            "packed in name order, multi-field selections of a record laid out in another order (with other members "
            "between), dtypes with explicit offsets and padding, in every memory order above; the file is read back by "
            "an independent VTI reader (every header field, origin and spacing included, against the Lean "
            "specification), its header text by the Lean reader, and the whole file is compared byte for byte with "
            "the Lean rendering (header text, every appended byte, closing text), the appended bytes also by the Lean "
            "byte-level reader; spacings as tuples, lists, NumPy scalars and arrays, extreme spacings, very long and "
            "non-ASCII names, large images (to 12100 cells), paths given as str, fields stored in the byte order that is not the "
            "machine's (all or some: the bytes written must be in the declared, native, order); text arrays also in the other byte "
            "order and as unaligned field views, large images (one line of more than 64 KiB, 6000 values); SESSIONS "
            "(16 % of the generated cases, 47 targeted): 2 - 10 calls in one fresh process - save, files of another "
            "tool, load with delimiter ',' ';' tab or default and name=, vtk.save with other spacings / element sets / "
            "shapes on the same or another path - every load judged against the Lean specification of the file it "
            "reads (half of the text sessions: a load that names its delimiter before a default load), every .vti as "
            "above; non-trivial = boundary shape, special value, escaped name, several elements, mixed "
            "delimiters, a foreign-file feature or a non-default memory layout; distinct by canonical case hash")
    trusted = ["'%.18g' printing followed by Python's float is the identity on finite float64, zeros and infinities and maps "
               "NaN to NaN, and float ignores spaces around a number (the model's opaque fmt/conv: `Clean.roundtrip`, "
               "the padding hypothesis of `foreign_file_loads`); exercised on every value (`printer_inverted`)",
               "genfromtxt's loose converter is float with a NaN fallback (harness `pyfloat`, the model's total `conv`)",
               "savetxt and path.open('r') use the same text encoding, '\\n' is written as '\\n' (POSIX)",
               "xml.etree.ElementTree decodes the five predefined entities (the model's `unescape`)",
               "the independent reader `read_vti` in harness/c16.py",
               "a float64's 8 bytes are its bit pattern, lowest byte first on a little-endian machine (the driver's `tokBytes`, "
               "the model's opaque `enc`)",
               "a fork of a process that imported pewlib and never called it is in the state of a fresh interpreter (sessions)"]
    assumptions = ["NaN payload and sign are not part of 'NaN preserved' in the text form",
                   "Spacing is checked to parse as three floats within 1e-6 relative of the requested spacing, no more",
                   "which element the VTK header names as active scalar is not compared (it has to be one of them)",
                   "the bytes of the saved text file are no observation of the property: a file that differs from the "
                   "model's rendering only moves the case out of the theorem's reach (hypothesis_excluded), the "
                   "loader model then reads that file",
                   "warnings and exception classes of the loader on files outside the property's class are not compared",
                   "a load the property does not speak about - a file written by save read with a named delimiter (which "
                   "delimiter save writes is not observed), a file read with a delimiter it does not use, any other text read "
                   "with a named delimiter - is compared with the Lean model and the result recorded only "
                   "(session:load:outside-the-property-text:*), never a verdict (notes/SECTION13.md 13.2)",
                   "the field name of the view returned for name= is recorded, not compared; its shape and values are",
                   "one-character delimiters only; the comments= option of load is never passed",

                   "headers holding a carriage return and element names holding control or white-space characters "
                   "other than a space are not generated (see notes/D16.md: pewlib does not round-trip them)"]

    def known(self, case, out):
        """inputs on which pewlib is known not to meet the property text (ids take effect only once known_findings.json
        lists them)"""
        if case.get("kind") == "text" and "\r" in (case.get("header") or ""):
            return "C16-header-carriage-return"
        if case.get("kind") == "vtk":
            bad = [ch for n in case["names"] for ch in n if ch in "\t\r\n" or (ord(ch) < 32)]
            if any(ch in "\t\r\n" for ch in bad) and all(ch in "\t\r\n" for ch in bad):
                return "C16-name-white-space"
            if bad:
                return "C16-name-control-character"
        return None

    # ------------------------------------------------------------------ generation
    def generate(self, rng, tier):
        k = rng.random()
        if k < 0.10:
            return gen_foreign(rng)
        if k < 0.135:
            return gen_rawtext(rng)
        if k < 0.33:
            r, c = gen_shape2(rng)
            header = None
            if rng.random() < 0.25:  # also multi-line headers and headers that look like data
                header = "".join(rng.choice(list("abc XYZ,;#01\t") + ["\n", "\n", "1,2", " "]) for _ in range(rng.randint(0, 8)))
            case = {"kind": "text", "rows": r, "cols": c, "vals": gen_vals(rng, r, c), "header": header}
            if rng.random() < 0.4:
                case["order"] = rng.choice(TEXT_ORDERS[1:])
            if rng.random() < 0.15:
                case["strpath"] = True
            return case
        if k < 0.355:
            return gen_large_text(rng)
        if k < 0.39:
            return gen_late_switch(rng)
        if k < 0.49:
            r, c = gen_shape2(rng)
            style = rng.choice([",", ";", "\t", "mixed", "mixed"])
            seps = [[rng.choice(DELIMS) if style == "mixed" else style for _ in range(c - 1)] for _ in range(r)]
            return {"kind": "delims", "rows": r, "cols": c, "vals": gen_vals(rng, r, c), "seps": seps}
        if k < 0.65:
            return gen_session(rng)
        return gen_vtk_case(rng)

    def targeted(self, tier):
        one = tok(1.0)
        # the single-column regression (fix 9e652ea) and its neighbours
        yield {"kind": "text", "rows": 3, "cols": 1, "vals": [tok(1.0), tok(2.0), tok(3.0)], "header": None}
        yield {"kind": "text", "rows": 2, "cols": 1, "vals": [tok(1.0), tok(2.0)], "header": None}
        yield {"kind": "text", "rows": 1, "cols": 3, "vals": [tok(1.0), tok(2.0), tok(3.0)], "header": None}
        yield {"kind": "text", "rows": 1, "cols": 1, "vals": [tok(-0.0)], "header": None}
        for r in range(1, 5):
            for c in range(1, 5):
                vals = [tok(SPECIALS[(i * 7 + r + 3 * c) % len(SPECIALS)]) for i in range(r * c)]
                yield {"kind": "text", "rows": r, "cols": c, "vals": vals, "header": None}
                for d in DELIMS:
                    yield {"kind": "delims", "rows": r, "cols": c, "vals": vals, "seps": [[d] * (c - 1)] * r}
                yield {"kind": "delims", "rows": r, "cols": c, "vals": vals,
                       "seps": [[DELIMS[(i + j) % 3] for j in range(c - 1)] for i in range(r)]}
        yield {"kind": "text", "rows": 1, "cols": len(SPECIALS), "vals": [tok(v) for v in SPECIALS], "header": "all specials"}
        yield {"kind": "text", "rows": len(SPECIALS), "cols": 1, "vals": [tok(v) for v in SPECIALS], "header": None}
        # headers: empty, multi-line, ending in a newline, looking like data or like a comment
        for header in ("", "h", "two\nlines", "ends\n", "\n", "1,2\n3,4", "#", " # x;y\tz", "a\n\nb", "é µ"):
            yield {"kind": "text", "rows": 2, "cols": 2, "vals": [tok(float(i)) for i in range(4)], "header": header}
            yield {"kind": "text", "rows": 2, "cols": 1, "vals": [tok(1.5), tok(-2.0)], "header": header}
        # files other tools wrote, as raw text: each delimiter, mixtures, spaces, CRLF / CR, comments, blank lines,
        # trailing delimiters, empty and unparsable fields, no final newline, ragged rows, nothing at all
        for text in ("1;2\n3;4\n", "1\t2\n3\t4\n", "1,2\n3,4\n", "1;2\t3\n4,5;6\n", " 1 , 2 \n3 ,4\n", "  1;2\n", "1,2\r\n3,4\r\n",
                     "1,2\r3,4\r", "1,2\r\n3,4\r5,6\n7,8", "1,2\n# c\n3,4\n", "1,2 # c\n3,4#\n", "# h1\n# h2\n1;2\n", "1,2\n\n3,4\n",
                     "1,2\n   \n3,4\n\n", "\n\n1\n", "1,2,\n3,4,\n", "1;2;\n3;4\n", "1,,3\n4,5,6\n", ",\n", ",1\n", "1,x\n", "1,2", "1", "1\n2",
                     "1,2\n3\n", "1\n2,3\n", "", "\n", "#\n", " ", "\r", "\r\n", "1 2\n", "nan,inf,-inf,NaN,Infinity\n", "1_0,0x10,1e400,١٢\n",
                     "1\x0c2\n3\n", "1\r\n\r\n2\r\r3", "1#\r2", "1,2\n#3,4,5\n", "1;#2\n3;4\n", " # only a comment", "5\n# end"):
            yield {"kind": "rawtext", "text": text}
        # ... and as files of the class, line by line (token, padding, separator, comment, terminator)
        cell = lambda t, b=0, a=0: {"before": b, "token": t, "after": a}
        row = lambda toks, seps, eol="\n", indent=0, comment=None, b=0, a=0: {
            "indent": indent, "cells": [cell(t, b, a) for t in toks], "seps": list(seps), "comment": comment, "eol": eol}
        skip = lambda eol="\n", indent=0, comment=None: {"indent": indent, "cells": [], "seps": [], "comment": comment, "eol": eol}
        for eol in ("\n", "\r\n", "\r"):
            for seps in (",,", ";;", "\t\t", ";\t", ",;"):
                yield {"kind": "foreign", "lines": [row(["1", "2.5", "-3e-5"], seps, eol), row(["nan", "inf", "-0.0"], seps[::-1], eol)]}
            yield {"kind": "foreign", "lines": [skip(eol, comment=" header"), row(["1", "2"], ";", eol, indent=2, b=1, a=2),
                                                skip(eol), skip(eol, indent=3), row(["3", "4"], "\t", eol, comment=" 5;6"),
                                                skip(eol, comment=""), row(["5", "6"], ",", "")]}
            yield {"kind": "foreign", "lines": [row(["7"], "", eol), row(["8"], "", eol, comment="x")]}
            yield {"kind": "foreign", "lines": [row(["7"], "", eol), skip("")]}
        yield {"kind": "foreign", "lines": [row(["1", "2"], ",", "\r"), skip("\n"), row(["3", "4"], ",", "\n")]}  # "\r" then "\n": one terminator
        yield {"kind": "foreign", "lines": [row(["1", "2", ""], ",,"), row(["3", "4", ""], ";;")]}  # trailing delimiter: a third column
        yield {"kind": "foreign", "lines": [row(["1", "", "3"], ",,"), row(["4", "x", "6"], ",,")]}
        yield {"kind": "foreign", "lines": [row(["1", "2"], ","), row(["3"], "")]}  # ragged
        yield {"kind": "foreign", "lines": [skip(comment="nothing"), skip()]}
        yield {"kind": "foreign", "lines": []}
        # witnesses of registered known findings (run only once known_findings.json lists them)
        registered = {k["id"] for k in core.load_known() if k.get("property") == "C16" and k.get("kind") == "known"}
        if "C16-header-carriage-return" in registered:
            yield {"kind": "text", "rows": 2, "cols": 1, "vals": [tok(1.0), tok(2.5)], "header": "a\r5"}
        if "C16-name-white-space" in registered:
            yield {"kind": "vtk", "shape": [1, 1], "names": ["a\tb"], "vals": [[tok(1.0)]], "spacing": [1, 1, 1]}
        if "C16-name-control-character" in registered:
            yield {"kind": "vtk", "shape": [1, 1], "names": ["a\x01b"], "vals": [[tok(1.0)]], "spacing": [1, 1, 1]}
        # sessions: several calls in one process, each judged on its own
        img = lambda r, c, k=0: [tok(SPECIALS[(i * 5 + k) % len(SPECIALS)]) for i in range(r * c)]
        save = lambda f, r, c, k=0, **kw: {"op": "save", "file": f, "rows": r, "cols": c, "vals": img(r, c, k), "header": None, **kw}
        wr = lambda f, r, c, d, k=0: {"op": "write", "file": f, "rows": r, "cols": c, "vals": img(r, c, k), "seps": [[d] * (c - 1)] * r}
        ld = lambda f, d=None, name=None: {"op": "load", "file": f, "delimiter": d, "name": name}
        sess = lambda *steps: {"kind": "session", "steps": list(steps)}
        for d in DELIMS:
            for r, c in ((1, 1), (1, 3), (3, 1), (2, 2), (4, 6)):
                yield sess(wr(0, r, c, d), ld(0, d), save(1, r, c, 3), ld(1), ld(0))  # a named delimiter, then default loads
                yield sess(save(0, r, c), ld(0, d), ld(0))
            yield sess(wr(0, 2, 3, d), ld(0, d, "A"), ld(0, None, "B"), ld(0))
            yield sess(save(0, 3, 2), ld(0), wr(1, 3, 2, d), ld(1), ld(1, d), ld(0, ","), ld(0))
        yield sess(save(0, 4, 6), ld(0), save(0, 1, 1, 2), ld(0), save(0, 2, 5, 4), ld(0, ","))  # a shorter file over a longer one
        yield sess(save(0, 2, 2, header="two\nlines;x\ty"), ld(0, ","), ld(0), ld(0, ",", "a b"))
        yield sess(save(0, 3, 3, order="T"), save(1, 3, 3, 7, order="rev"), ld(1), ld(0), ld(1, ","), ld(0, ","))
        yield sess({"op": "write", "file": 0, "text": "1;2\t3 # c\r\n\r\n4;5\t6"}, ld(0), ld(0, ";"), ld(0, "\t"), ld(0, ","), ld(0))
        yield sess({"op": "write", "file": 0, "text": " 1 ;2 \n;\n3;x\n"}, ld(0, ";"), ld(0), ld(0, ";", "A"))
        yield sess({"op": "write", "file": 0, "text": "1\t2\n3\n"}, ld(0, "\t"), save(1, 2, 2), ld(1))  # the first load raises
        vt = lambda f, shape, names, spacing, k=0, **kw: {
            "op": "vtk", "file": f, "kind": "vtk", "shape": shape, "names": names, "spacing": spacing,
            "vals": [[tok(float(100 * j + i + k)) for i in range(int(np.prod(shape)))] for j in range(len(names))], **kw}
        yield sess(vt(0, [3, 4, 2], ["A", "B<", "C"], [1, 1, 1]), vt(0, [1, 1], ["B<"], [0.5, 2.0, 1e-3], 7), vt(0, [2, 2], ["C", "A"], [1, 1, 1]))
        yield sess(vt(0, [2, 3], ["A", "B"], [1, 2, 3]), vt(1, [2, 3], ["A", "B"], [3.5, 2.5, 1.5]), vt(2, [2, 3], ["B"], [1, 2, 3]),
                   vt(3, [2, 3], ["B", "A", "C&"], [1, 2, 3]))
        yield sess(vt(0, [1, 1], ["A"], [1, 1, 1]), vt(0, [4, 4, 3], ["A", "&amp;"], [1, 1, 1], 5), vt(0, [1, 1, 1], ["A"], [2, 2, 2]))
        yield sess(vt(0, [2, 2], ["A", "B"], [1, 1, 1], layout={"via": "select", "record": [[1, "<f8"], [0, "<f8"]], "align": False}),
                   vt(0, [2, 2], ["A", "B"], [1, 1, 1], 9), vt(1, [2, 2], ["B", "A"], [1, 1, 1], order="F"))
        yield sess(save(0, 2, 3), vt(0, [2, 3], ["A"], [1, 1, 1]), ld(0, ","), vt(0, [1, 2], ["A", "B"], [2, 2, 2]), ld(0))
        # vtk: every small shape, one and two elements, names with each special character
        for shape in ([1, 1], [1, 4], [4, 1], [2, 3], [3, 2], [1, 1, 1], [1, 1, 3], [2, 3, 4], [3, 1, 2], [1, 3, 2]):
            size = int(np.prod(shape))
            for names in (["A"], ["a&b", "<c>", "\"q\"", "it's"]):
                vals = [[tok(float(100 * k + i)) for i in range(size)] for k in range(len(names))]
                yield {"kind": "vtk", "shape": shape, "names": names, "vals": vals, "spacing": [1, 1, 1]}
        yield {"kind": "vtk", "shape": [2, 2], "names": ["&amp;", "&", "&&lt;;"], "spacing": [0.5, 35.0, 1e-3],
               "vals": [[tok(v) for v in SPECIALS[:4]], [tok(v) for v in SPECIALS[4:8]], [one] * 4]}
        # vtk: element fields that do not lie in memory in name order, padded records, every memory order
        for shape in ([1, 1], [2, 3], [3, 1, 2]):
            size = int(np.prod(shape))
            for names in (["B", "A"], ["B<2>", "A&1", "C"]):
                k = len(names)
                vals = [[tok(float(100 * j + i)) for i in range(size)] for j in range(k)]
                base = {"kind": "vtk", "shape": shape, "names": names, "vals": vals, "spacing": [1, 1, 1]}
                back = list(range(k))[::-1]
                yield {**base, "layout": {"via": "select", "record": [[i, "<f8"] for i in back], "align": False}}
                yield {**base, "layout": {"via": "select", "record": [[back[0], "<f8"], [-1, "u1"]] + [[i, "<f8"] for i in back[1:]], "align": False}}
                yield {**base, "layout": {"via": "select", "record": [[-1, "<i4"]] + [[i, "<f8"] for i in range(k)], "align": True}}
                yield {**base, "layout": {"via": "offsets", "offsets": [8 * i for i in back], "itemsize": 8 * k}}
                yield {**base, "layout": {"via": "offsets", "offsets": [16 * i + 4 for i in back], "itemsize": 16 * k + 3}}
                for order in ORDERS[1:]:
                    yield {**base, "order": order}
                    yield {**base, "order": order, "layout": {"via": "select", "record": [[i, "<f8"] for i in back], "align": False}}
        yield {"kind": "vtk", "shape": [2, 2], "names": ["A"], "vals": [[tok(float(i)) for i in range(4)]], "spacing": [1, 1, 1],
               "layout": {"via": "offsets", "offsets": [8], "itemsize": 24}}
        for order in TEXT_ORDERS[1:]:
            yield {"kind": "text", "rows": 3, "cols": 4, "vals": [tok(SPECIALS[i]) for i in range(12)], "header": None, "order": order}
            yield {"kind": "text", "rows": 4, "cols": 1, "vals": [tok(SPECIALS[i + 5]) for i in range(4)], "header": "h", "order": order, "strpath": True}
        # fields in the byte order that is not the machine's (fix 6803b6f): all, some, with every layout and memory order
        for shape in ([1, 1], [2, 3], [3, 1, 2]):
            size = int(np.prod(shape))
            base = {"kind": "vtk", "shape": shape, "names": ["A", "B<", "C"], "spacing": [1, 1, 1],
                    "vals": [[tok(SPECIALS[(i + 7 * j) % len(SPECIALS)]) for i in range(size)] for j in range(3)]}
            for sw in ([0], [1, 2], [0, 1, 2]):
                yield {**base, "swapped_fields": sw}
                yield {**base, "swapped_fields": sw, "order": "T", "layout": {"via": "select", "record": [[2, "<f8"], [-1, "u1"], [0, "<f8"], [1, "<f8"]], "align": False}}
                yield {**base, "swapped_fields": sw, "order": "step", "layout": {"via": "offsets", "offsets": [16, 0, 8], "itemsize": 27}}
        yield {"kind": "vtk", "shape": [1, 1], "names": ["A"], "vals": [[one]], "spacing": [1, 1, 1], "swapped_fields": [0]}
        # the spacing given as other objects than a tuple of Python numbers, the path as a string, very long names
        for how in SPACING_AS[1:]:
            yield {"kind": "vtk", "shape": [2, 3], "names": ["A", "B"], "vals": [[tok(float(i)) for i in range(6)], [tok(-float(i)) for i in range(6)]],
                   "spacing": [0.1, 35, 2.5e-5], "spacing_as": how, "strpath": how == "list"}
        for n in (200, 256, 3000):
            yield {"kind": "vtk", "shape": [1, 2], "names": ["N" * n, "é&" * (n // 2)], "vals": [[one, one], [one, one]], "spacing": [1, 1, 1]}
        # large images: a line of more than 64 KiB, a long column, wide rows; a large VTK image
        big = lambda n: [tok((((i * 7919) % 20011) - 10000) / 7.0 * 10.0 ** ((i * 31) % 600 - 300)) for i in range(n)]
        yield {"kind": "text", "rows": 1, "cols": 5000, "vals": big(5000), "header": None}
        yield {"kind": "text", "rows": 5000, "cols": 1, "vals": big(5000), "header": None}
        yield {"kind": "text", "rows": 3, "cols": 1500, "vals": big(4500), "header": "x", "order": "T"}
        yield {"kind": "delims", "rows": 2, "cols": 3000, "vals": big(6000), "seps": [[DELIMS[(i + j) % 3] for j in range(2999)] for i in range(2)]}
        yield {"kind": "vtk", "shape": [70, 90], "names": ["A", "B"], "vals": [big(6300), big(6300)[::-1]], "spacing": [1, 1, 1]}
        yield {"kind": "vtk", "shape": [20, 25, 9], "names": ["A"], "vals": [big(4500)], "spacing": [1, 1, 1], "order": "F"}
        # delimiter files whose second style of separator first appears after 1 KiB ... 128 KiB
        for n, at in enumerate(SWITCH_AT):
            for m, (head, tail) in enumerate([(",", ";"), (",", "\t"), (",", "mixed"), (",", "one"), (";", ","), ("\t", "one"), ("noncomma", ",")]):
                if at > 8192 and m not in (0, 3, 4):
                    continue
                count = iter(range(10 ** 9))
                pick = lambda seq, count=count: seq[(next(count) * 7 + 3) % len(seq)]
                if (n + m) % 2:
                    value = lambda count=count: tok(SPECIALS[(next(count) * 5 + 1) % len(SPECIALS)])
                else:
                    value = lambda count=count: tok(float((next(count) * 37) % 1000) / 4)
                yield late_switch([12, 3, 2, 17][(n + m) % 4], at + [0, 40, 700][(n + m) % 3], head, tail, 1 + (n + m) % 3, value, pick)

    # ------------------------------------------------------------------ evaluation
    def evaluate(self, case, ctx):
        kind = case["kind"]
        if kind == "vtk":
            return self.eval_vtk(case, ctx)
        if kind == "session":
            return self.eval_session(case, ctx)
        if kind in ("foreign", "rawtext"):
            return self.eval_foreign(case, ctx)
        from pewlib.io import textimage

        r, c = case["rows"], case["cols"]
        toks = [ctok(untok(t)) for t in case["vals"]]
        arr = np.array([untok(t) for t in toks], dtype=np.float64).reshape(r, c)
        path = ctx.tmpdir() / "image.csv"
        feats = shape_features(r, c) | classify(toks)
        if r * c >= 400:
            feats.add("text:large")
        extra_impl, extra_model = {}, {}
        if kind == "text":
            header = case["header"]
            if case.get("order", "C") != "C":  # the same image in another memory layout
                try:
                    laid = alloc_text([r, c], case["order"])
                except BadCase as e:
                    return outcome(None, None, None, spec_ok=True, model_ok=True, undetermined=True, note=f"bad case: {e}")
                laid[...] = arr
                arr = laid
                feats |= {"text:order=" + case["order"]} | layout_features(arr, "text:")
            target = str(path) if case.get("strpath") else path
            if case.get("strpath"):
                feats.add("text:path-is-str")
            try:
                if header is None:
                    textimage.save(target, arr)
                else:
                    textimage.save(target, arr, header=header)
                    feats.add("header" + (":multi-line" if "\n" in header else ""))
            except Exception as e:
                return outcome({"raises": True, "where": "save", "type": type(e).__name__}, None, None, spec_ok=False, model_ok=False)
            text = read_chars(path)  # the bytes pewlib wrote
            if r * c >= 400 and max(len(ln) for ln in text.split("\n")) > 65536:
                feats.add("text:line-longer-than-64KiB")
            tokens = ["%.18g" % untok(t) for t in toks]  # the model's opaque printer, evaluated by Python
            rep = ctx.driver.call("c16.text", rows=r, cols=c, tokens=tokens, header=header or "", file=text)
            # the theorem speaks about the model's rendering: it covers this very file when the two are the same bytes
            same = rep["rendered"] == text
            feats.add("save:file=model-rendering" if same else "save:file!=model-rendering")
            hyp = same and rep["clean"]
            # the trusted part of `Clean`: Python's float inverts '%.18g' on these values
            extra_impl["printer_inverted"] = [ctok(float(t)) for t in tokens] == toks
            extra_model["printer_inverted"] = True
        else:
            tokens = [repr(float(v)) for v in arr.ravel()]
            text = "".join(join_with(case["seps"][i], tokens[i * c:(i + 1) * c]) + "\n" for i in range(r))
            path.write_text(text, newline="")
            feats |= switch_features(text)
            used = {s for row in case["seps"] for s in row}
            feats.add("delims:" + ("none" if not used else "mixed" if len(used) > 1 else {",": "comma", ";": "semicolon", "\t": "tab"}[used.pop()]))
            rep = ctx.driver.call("c16.delims", rows=r, cols=c, tokens=tokens, seps=case["seps"], file=text)
            hyp = rep["rendered"] == text and rep["clean"]
            if rep["rendered"] != text:  # only a hand-written replay gets here (separator lists that do not fit the columns)
                return outcome(None, None, None, spec_ok=True, model_ok=True, undetermined=True, hyp=False,
                               note="bad case: the harness file is not the model's saveWith rendering")
        impl, _, note = run_load(str(path) if case.get("strpath") else path)
        model = conv_side(rep["real"])
        spec_fields = rep["spec"]
        spec = {"shape": spec_fields["shape"], "data": [ctok(pyfloat(f)) for f in spec_fields["fields"]], "dtype": "float64"}
        if conv_side(rep["model"]) != spec:  # the loader model on the model's own rendering: equal by theorem
            note = (note + " the loader model on the model's rendering differs from the specification (Clean violated?)").strip()
            hyp = False
        for d, extra in ((impl, extra_impl), (model, extra_model), (spec, extra_model)):
            d.update(extra)
        return outcome(impl, model, spec, hyp=hyp, features=feats, note=note)

    def eval_foreign(self, case, ctx):
        """files other tools wrote: pewlib's loader and the Lean loader model read the same characters; both also read
        the file with ';' and tab replaced by ',' (the model's `normalise`), which must load to the same"""
        tmp = ctx.tmpdir()
        if case["kind"] == "foreign":
            text = foreign_text(case["lines"])
            rep = ctx.driver.call("c16.foreign", lines=case["lines"], file=text)
            if rep["rendered"] != text:
                raise AssertionError("harness and model writers of a foreign file disagree")
            in_class = bool(rep["in_class"])
            feats = foreign_features(text, case["lines"]) | {"foreign:in-class" if in_class else "foreign:outside-class"}
        else:
            text = case["text"]
            rep = ctx.driver.call("c16.rawtext", file=text)
            in_class = False
            feats = foreign_features(text) | {"foreign:raw-text"}
        try:
            (tmp / "image.csv").write_text(text, newline="")
            (tmp / "comma.csv").write_text(rep["comma"], newline="")
        except UnicodeEncodeError as e:
            return outcome(None, None, None, spec_ok=True, model_ok=True, undetermined=True, hyp=False, note=f"bad case: {e}")
        impl_a, warned, note_a = run_load(tmp / "image.csv")
        impl_b, _, note_b = run_load(tmp / "comma.csv")
        impl = {"as_written": impl_a, "with_commas": impl_b}
        model = {"as_written": conv_side(rep["real"]), "with_commas": conv_side(rep["real_comma"])}
        if in_class:
            sf = rep["spec"]
            img = {"shape": sf["shape"], "data": [ctok(pyfloat(f)) for f in sf["fields"]], "dtype": "float64"}
            spec = {"as_written": img, "with_commas": img}
        else:  # the property does not say what such a file is: the model is all there is to compare with
            spec = model
        for k in ("as_written",):
            side = model[k]
            if "raises" in side:
                feats.add("foreign:raises")
            elif rep["real"]["warns"]:  # the warning is no observation of the property: counted, not compared
                feats.add("foreign:empty")
                feats.add("foreign:empty:warning-as-modelled" if warned else "foreign:empty:warning-not-as-modelled")
            else:
                feats |= shape_features(*side["shape"]) | classify(side["data"])
        return outcome(impl, model, spec, hyp=in_class, features=feats, note=(note_a + " " + note_b).strip())

    def eval_session(self, case, ctx):
        """several calls in one fresh process: every file put there by `save` (or by the harness, standing for another
        tool), every `load` with its own options, every `vtk.save`; each load is judged against the Lean specification
        of the file it reads, each .vti file as in `judge_vtk` - whatever was called before"""
        steps = case["steps"]
        sent, put_files = [], set()
        try:
            for st in steps:
                op = st.get("op")
                if op in ("save", "write") and "text" not in st:
                    if st["rows"] < 1 or st["cols"] < 1 or len(st["vals"]) != st["rows"] * st["cols"]:
                        raise BadCase("values / shape mismatch")
                if op == "save":
                    if st.get("order", "C") not in TEXT_ORDERS:
                        raise BadCase("order")
                    sent.append({**st, "file": f"f{int(st['file'])}.csv"})
                    put_files.add(st["file"])
                elif op == "write":
                    sent.append({"op": "write", "file": f"f{int(st['file'])}.csv", "text": write_text_of(st)})
                    put_files.add(st["file"])
                elif op == "load":
                    if st["file"] not in put_files:
                        raise BadCase("load of a file no earlier step wrote")
                    if st["delimiter"] is not None and len(st["delimiter"]) != 1:
                        raise BadCase("the model reads one-character delimiters")
                    sent.append({**st, "file": f"f{int(st['file'])}.csv"})
                elif op == "vtk":
                    build_structured(st["shape"], st["names"], st["vals"], st.get("layout"), st.get("order", "C"), st.get("swapped_fields", ()))
                    sent.append({**st, "file": f"v{int(st['file'])}.vti"})
                else:
                    raise BadCase(f"step {op!r}")
            for st in sent:
                json.dumps(st).encode()  # what cannot be sent cannot be run
        except (BadCase, UnicodeEncodeError) as e:
            return outcome(None, None, None, spec_ok=True, model_ok=True, undetermined=True, hyp=False, note=f"bad case: {e}")
        rep = zygote().run({"dir": str(ctx.tmpdir()), "steps": sent})
        if "bad" in rep:
            return outcome(None, None, None, spec_ok=True, model_ok=True, undetermined=True, hyp=False, note=f"bad case: {rep['bad']}")
        results = rep["results"]
        # the text calls, for the Lean model of a session
        text_at, lean_steps = [], []
        for i, (st, res) in enumerate(zip(steps, results)):
            if st["op"] == "save":
                if "raises" in res:
                    return outcome({"step": i, "raises": True, "where": "save", "type": res["raises"]}, None, None, spec_ok=False, model_ok=False,
                                   note=res.get("note", ""))
                src = {"kind": "saved", "rows": st["rows"], "cols": st["cols"], "header": st.get("header") or "",
                       "tokens": ["%.18g" % untok(ctok(untok(t))) for t in st["vals"]]}
                lean_steps.append({"op": "put", "path": st["file"], "src": src, "real": res["text"]})
            elif st["op"] == "write":
                if "text" in st:
                    src = {"kind": "other", "text": st["text"]}
                else:
                    src = {"kind": "delimited", "rows": st["rows"], "cols": st["cols"], "seps": st["seps"],
                           "tokens": [repr(float(untok(t))) for t in st["vals"]]}
                lean_steps.append({"op": "put", "path": st["file"], "src": src, "real": res["text"]})
            elif st["op"] == "load":
                lean_steps.append({"op": "load", "path": st["file"], "delimiter": st["delimiter"], "name": st["name"]})
            else:
                continue
            text_at.append(i)
        lean = ctx.driver.call("c16.session", steps=lean_steps) if lean_steps else None
        impl, model, spec, notes = [], [], [], []
        hyp = True
        feats = {"session", f"session:steps={min(len(steps), 5)}{'+' if len(steps) > 5 else ''}"}
        named_before, default_before, puts_seen, vtk_seen = set(), False, {}, {}
        for i, (st, res) in enumerate(zip(steps, results)):
            op = st["op"]
            if op == "vtk":
                got = {**res, "raw": base64.b64decode(res["raw"])} if "raw" in res else res
                vi, vm, vs, vh, vf, vn = self.judge_vtk(st, got, ctx)
                impl.append(vi), model.append(vm), spec.append(vs)
                hyp = hyp and vh
                feats |= vf | {"session:vtk"}
                if vn:
                    notes.append(f"step {i}: {vn}")
                if st["file"] in vtk_seen:
                    prev = vtk_seen[st["file"]]
                    feats.add("session:vtk:same-path-again")
                    if len(got.get("raw", b"")) < prev:
                        feats.add("session:vtk:shorter-file-over-longer")
                for prev in [p for p in steps[:i] if p["op"] == "vtk"][-1:]:
                    if prev["names"] != st["names"]:
                        feats.add("session:vtk:elements-differ-from-previous")
                    if prev["spacing"] != st["spacing"]:
                        feats.add("session:vtk:spacing-differs-from-previous")
                    if prev["shape"] != st["shape"]:
                        feats.add("session:vtk:shape-differs-from-previous")
                vtk_seen[st["file"]] = len(got.get("raw", b""))
                continue
            j = text_at.index(i)
            if lean["mech"][j] != lean["spec"][j]:  # equal by theorem `session_stateless`
                raise AssertionError(f"the session mechanism and its specification differ at step {i}")
            if op in ("save", "write"):
                impl.append({"put": True}), model.append({"put": True}), spec.append({"put": True})
                same = lean["rendered"][j] == res["text"]
                if op == "save":
                    feats.add("save:file=model-rendering" if same else "save:file!=model-rendering")
                    feats |= shape_features(st["rows"], st["cols"]) | classify(st["vals"])
                    if st.get("header") is not None:
                        feats.add("header")
                hyp = hyp and same
                if st["file"] in puts_seen:
                    feats.add("session:file-overwritten")
                    if len(res["text"]) < puts_seen[st["file"]]:
                        feats.add("session:shorter-file-over-longer")
                puts_seen[st["file"]] = len(res["text"])
                if "text" in st:
                    feats.add("session:file-of-another-tool:any-text")
                elif op == "write":
                    feats.add("session:file-of-another-tool:delimited")
                continue
            # a load
            seen = dict(res["seen"])
            names = seen.pop("names", None)
            d, name = st["delimiter"], st["name"]
            dname = {None: "default", ",": "comma", ";": "semicolon", "\t": "tab"}.get(d, "other")
            feats.add("session:load:delimiter=" + dname)
            if name is not None:  # the field of the view is recorded, the property speaks of shape and values
                feats.add("session:load:name")
                if "raises" not in seen:
                    feats.add("session:load:name:field-as-requested" if names == [name] else "session:load:name:field-not-as-requested")
            elif names is not None:
                seen["names"] = names
            if d is None and any(x != "default" for x in named_before):
                feats.add("session:default-load-after-load-with-delimiter")
            if d is None and any(x not in ("default", "comma") for x in named_before):
                feats.add("session:default-load-after-load-with-other-delimiter")
            if d is not None and default_before:
                feats.add("session:load-with-delimiter-after-default-load")
            named_before.add(dname)
            default_before = default_before or d is None
            if len(puts_seen) > 1:
                feats.add("session:several-files")
            m = conv_side(lean["real"][j])
            if "raises" not in m:
                m = {"shape": m["shape"], "data": m["data"], "dtype": "float64"}
            want = lean["expected"][j]
            if want is not None:
                sp = {"shape": want["shape"], "data": [ctok(pyfloat(f)) for f in want["fields"]], "dtype": "float64"}
                feats.add("session:load:judged-by-the-property")
                if conv_side(lean["spec"][j]) != {**sp}:  # the Lean session model on the model's rendering: equal by theorem
                    notes.append(f"step {i}: the session specification differs from the image (Clean violated?)")
                    hyp = False
            else:  # the property does not say what this call returns (a saved file read with a named delimiter, a file
                # read with a delimiter it does not use, any other text): the difference from the model is recorded only
                feats.add("session:load:outside-the-property-text")
                feats.add("session:load:outside-the-property-text:" + ("as-modelled" if seen == m else "not-as-modelled (recorded only)"))
                seen = m = sp = {"not-judged": True}
            impl.append(seen), model.append(m), spec.append(sp)
            if res["note"]:
                notes.append(f"step {i}: {res['note']}")
        return outcome(impl, model, spec, hyp=hyp, features=feats, note="; ".join(notes)[:600])

    def eval_vtk(self, case, ctx):
        try:
            got = vtk_write(case, ctx.tmpdir() / "image.vti")
        except BadCase as e:
            return outcome(None, None, None, spec_ok=True, model_ok=True, undetermined=True, note=f"bad case: {e}")
        impl, model, spec, hyp, feats, note = self.judge_vtk(case, got, ctx)
        return outcome(impl, model, spec, hyp=hyp, features=feats, note=note)

    def judge_vtk(self, case, got, ctx):
        """the file `vtk.save` wrote for the image of the case (`got`: its bytes, or what was raised) against the Lean
        model and specification: (impl, model, spec, hyp, features, note)"""
        shape, names = case["shape"], case["names"]
        layout, order = case.get("layout"), case.get("order", "C")
        data = build_structured(shape, names, case["vals"], layout, order, case.get("swapped_fields", ()))  # for the layout features only
        spacing = spacing_object(case)
        note = ""
        n0, n1 = shape[0], shape[1]
        n2 = shape[2] if len(shape) == 3 else 1
        endian = "LittleEndian" if sys.byteorder == "little" else "BigEndian"  # the model's opaque byte-order token
        sp_tokens = [format(x, "") for x in spacing]  # the model's opaque spacing tokens: what an f-string prints
        raw, f, real_head = b"", None, ""
        if "raw" in got:
            raw = got["raw"]
            try:
                f = read_vti(raw)
                real_head = f["head"].decode()
            except Malformed as e:
                impl, f = {"wellformed": False}, None
                note = f"malformed: {e}"
            except Exception as e:
                impl, f, real_head = {"raises": type(e).__name__}, None, ""
                note = str(e)[:200]
        else:
            impl, f, real_head = {"raises": got["raises"]}, None, ""
            note = got.get("note", "")
        # the appended bytes of the real file, for the Lean byte-level reader (left out when they are many)
        body = raw[len(f["head"]):len(f["head"]) + f["body_bytes"]] if f is not None else None
        rep = ctx.driver.call("c16.vtk", n0=n0, n1=n1, n2=n2, endian=endian, spacing=sp_tokens, head=real_head,
                              body=body.hex() if body is not None and len(body) <= 262144 else None,
                              fields=[{"name": n, "data": vals} for n, vals in zip(names, case["vals"])])
        if "byte_blocks" in rep["model"] and rep["model"].pop("byte_blocks") != rep["model"]["blocks"]:
            raise AssertionError("the byte-level reader and the word-level reader of the model differ")  # equal by theorem
        want_spacing = [tok(float(t)) for t in sp_tokens]

        def num(tokens, reference=None):
            """header numbers as bit tokens; a spacing within 1e-6 (relative) of the requested one counts as that one"""
            try:
                vals = [float(t) for t in tokens]
            except ValueError:
                return ["unparsable"] + list(tokens)
            if reference is not None and len(vals) == len(reference) and \
                    all(core.close(v, untok(r), rel=1e-6) for v, r in zip(vals, reference)):
                return list(reference)
            return [tok(v + 0.0) for v in vals]

        def meta_view(m):
            return {**{k: m[k] for k in ("file_type", "version", "byte_order", "header_type", "whole", "piece", "encoding")},
                    # which element is the active scalar is no part of the property: it has to be one of them
                    "scalars_is_an_element": m["scalars"] in [a["name"] for a in m["arrays"]],
                    "origin": num(m["origin"]), "spacing": num(m["spacing"], want_spacing),
                    "arrays": [{k: a[k] for k in ("name", "type", "format", "offset")} for a in m["arrays"]]}

        def view(side):
            """one side of the driver's reply in the form the independent reader's findings are put in"""
            if "meta" not in side:
                return side
            ext = side["meta"]["whole"]
            ncells8 = (ext[1] - ext[0]) * (ext[3] - ext[2]) * (ext[5] - ext[4]) * 8 if len(ext) == 6 else None
            return {"meta": meta_view(side["meta"]), "blocks": side["blocks"], "appended": side["appended"],
                    "ncells_times_8": [ncells8] * len(side["meta"]["arrays"]), "lean_reader": meta_view(side["meta"]),
                    "lean_reader_blocks": side["blocks"]}

        model, spec = view(rep["model"]), view(rep["spec"])
        hyp = False
        feats = set()
        if f is not None:
            et_meta = {**{k: f[k] for k in ("file_type", "version", "byte_order", "header_type", "whole", "piece", "scalars", "encoding")},
                       "origin": [repr(x) for x in f["origin"]], "spacing": [repr(x) for x in f["spacing"]], "arrays": f["arrays"]}
            impl = {"meta": meta_view(et_meta),
                    "blocks": [{"nbytes": a["nbytes"], "values": a["values"]} for a in f["arrays"]],
                    "appended": f["words"], "ncells_times_8": [f["ncells"] * 8] * len(f["arrays"]),
                    # the model's own reader on the real header text; None when the text is outside the line-per-tag subset
                    "lean_reader": meta_view(rep["real_meta"]) if rep["real_meta"] is not None else None}
            if rep["real_meta"] is None:
                feats.add("vtk:header-outside-lean-reader-subset")
                impl["lean_reader"] = impl["meta"]  # the independent reader's view stands in; nothing compared twice
            # the model's byte-level reader on the real appended bytes, at the offsets the real header declares
            if rep["real_blocks"] is not None:
                impl["lean_reader_blocks"] = rep["real_blocks"]
                feats.add("vtk:appended-bytes-read-by-lean-reader")
            else:
                impl["lean_reader_blocks"] = impl["blocks"]
            # the model's rendering of the whole file against the bytes pewlib wrote
            r = rep["rendered"]
            if r is not None:
                mine = r["head"].encode() + bytes.fromhex(r["body_hex"]) + r["tail"].encode()  # every byte from the model
                same = mine == raw
                feats.add("vtk:file=model-rendering" if same else "vtk:file!=model-rendering")
                if not same and r["head"].encode() == f["head"]:
                    feats.add("vtk:header-text=model-rendering")
                hyp = same and bool(rep["head_ok"])
        feats |= shape_features(n0, n1) | {"vtk", f"vtk:{len(shape)}-D", f"vtk:elements={min(len(names), 3)}{'+' if len(names) > 3 else ''}"}
        if n2 > 1:
            feats.add("vtk:nz>1")
        feats |= {"vtk:layout=" + ("packed" if layout is None else layout["via"]), "vtk:order=" + order} | layout_features(data, "vtk:")
        if any(ch in n for n in names for ch in "&<>\"'"):
            feats.add("vtk:name-needs-escaping")
        if any("&amp;" in n or "&lt;" in n or "&#" in n for n in names):
            feats.add("vtk:name-contains-entity-text")
        if any(math.isnan(untok(t)) for vals in case["vals"] for t in vals):
            feats.add("value:nan")
        if case.get("swapped_fields"):
            feats.add("vtk:field-in-other-byte-order")
            feats.add("vtk:field-in-other-byte-order:" + ("all" if len(set(case["swapped_fields"])) == len(names) else "some"))
        if any(isinstance(x, int) for x in spacing):
            feats.add("vtk:integer-spacing")
        if case.get("spacing_as", "tuple") != "tuple":
            feats.add("vtk:spacing-as=" + case["spacing_as"])
        if case.get("strpath"):
            feats.add("vtk:path-is-str")
        if any(len(n) >= 200 for n in names):
            feats.add("vtk:very-long-name")
        if any(ord(ch) > 127 for n in names for ch in n):
            feats.add("vtk:non-ascii-name")
        if n0 * n1 * n2 >= 2000:
            feats.add("vtk:large")
        feats |= {x for vals in case["vals"] for x in classify(vals)}
        return impl, model, spec, hyp, feats, note

    # ------------------------------------------------------------------ shrinking
    def shrink(self, case):
        one = tok(1.0)
        if case["kind"] == "session":
            steps = case["steps"]
            for i in range(len(steps)):
                yield {**case, "steps": steps[:i] + steps[i + 1:]}
            for i, st in enumerate(steps):
                simpler = []
                if st["op"] == "load":
                    if st["name"] is not None:
                        simpler.append({**st, "name": None})
                    if st["delimiter"] is not None:
                        simpler.append({**st, "delimiter": None})
                elif st["op"] == "vtk":
                    for cand in self.shrink({k: v for k, v in st.items() if k not in ("op", "file")}):
                        simpler.append({**cand, "op": "vtk", "file": st["file"]})
                elif "text" in st:
                    for cand in self.shrink({"kind": "rawtext", "text": st["text"]}):
                        simpler.append({**st, "text": cand["text"]})
                else:
                    if st.get("header") is not None:
                        simpler.append({**st, "header": None})
                    if st.get("order", "C") != "C":
                        simpler.append({k: v for k, v in st.items() if k != "order"})
                    r, c = st["rows"], st["cols"]
                    grid = [st["vals"][a * c:(a + 1) * c] for a in range(r)]
                    if r > 1:
                        cand = {**st, "rows": r - 1, "vals": [v for row in grid[:-1] for v in row]}
                        if "seps" in st:
                            cand["seps"] = st["seps"][:-1]
                        simpler.append(cand)
                    if c > 1:
                        cand = {**st, "cols": c - 1, "vals": [v for row in grid for v in row[:-1]]}
                        if "seps" in st:
                            cand["seps"] = [ss[:-1] for ss in st["seps"]]
                        simpler.append(cand)
                    if any(v != one for v in st["vals"]):
                        simpler.append({**st, "vals": [one] * len(st["vals"])})
                for x in simpler:
                    yield {**case, "steps": steps[:i] + [x] + steps[i + 1:]}
            return
        if case["kind"] == "rawtext":
            t = case["text"]
            n = len(t) // 2
            while n >= 1:
                for i in range(0, len(t), n):
                    yield {**case, "text": t[:i] + t[i + n:]}
                n //= 2
            return
        if case["kind"] == "foreign":
            lines = case["lines"]
            for i in range(len(lines)):
                yield {**case, "lines": lines[:i] + lines[i + 1:]}
            width = max([len(ln["cells"]) for ln in lines] + [0])
            for j in range(width):
                if width > 1:  # drop a column everywhere
                    yield {**case, "lines": [{**ln, "cells": ln["cells"][:j] + ln["cells"][j + 1:], "seps": ln["seps"][1:]}
                                             if len(ln["cells"]) > 1 else ln for ln in lines]}
            for i, ln in enumerate(lines):
                simpler = []
                if ln["comment"] is not None:
                    simpler.append({**ln, "comment": None})
                if ln["indent"]:
                    simpler.append({**ln, "indent": 0})
                if ln["eol"] not in ("\n", ""):
                    simpler.append({**ln, "eol": "\n"})
                if any(s != "," for s in ln["seps"]):
                    simpler.append({**ln, "seps": ["," for _ in ln["seps"]]})
                for j, c in enumerate(ln["cells"]):
                    if c["before"] or c["after"]:
                        simpler.append({**ln, "cells": ln["cells"][:j] + [{**c, "before": 0, "after": 0}] + ln["cells"][j + 1:]})
                    if c["token"] != "1":
                        simpler.append({**ln, "cells": ln["cells"][:j] + [{**c, "token": "1"}] + ln["cells"][j + 1:]})
                for x in simpler:
                    yield {**case, "lines": lines[:i] + [x] + lines[i + 1:]}
            return
        if case["kind"] in ("text", "delims"):
            r, c = case["rows"], case["cols"]
            grid = [case["vals"][i * c:(i + 1) * c] for i in range(r)]
            if r > 8:  # long files: drop blocks of rows first
                n = r // 2
                while n >= 4:
                    for i in range(0, r, n):
                        g = grid[:i] + grid[i + n:]
                        cand = {**case, "rows": len(g), "vals": [v for row in g for v in row]}
                        if "seps" in case:
                            cand["seps"] = case["seps"][:i] + case["seps"][i + n:]
                        yield cand
                    n //= 2
            if r > 1:
                for i in range(r):
                    g = grid[:i] + grid[i + 1:]
                    cand = {**case, "rows": r - 1, "vals": [v for row in g for v in row]}
                    if "seps" in case:
                        cand["seps"] = case["seps"][:i] + case["seps"][i + 1:]
                    yield cand
            if c > 1:
                for j in range(c):
                    cand = {**case, "cols": c - 1, "vals": [v for row in grid for k, v in enumerate(row) if k != j]}
                    if "seps" in case:
                        cand["seps"] = [s[1:] for s in case["seps"]]
                    yield cand
            if case.get("header") is not None:
                yield {**case, "header": None}
            if case.get("order", "C") != "C":
                yield {k: v for k, v in case.items() if k != "order"}
            if case.get("strpath"):
                yield {k: v for k, v in case.items() if k != "strpath"}
            for i, v in enumerate(case["vals"][:64]):
                if v != one:
                    yield {**case, "vals": case["vals"][:i] + [one] + case["vals"][i + 1:]}
        else:
            names, vals, shape = case["names"], case["vals"], case["shape"]
            layout = case.get("layout")
            if len(names) > 1:
                for i in range(len(names)):
                    cand = {**case, "names": names[:i] + names[i + 1:], "vals": vals[:i] + vals[i + 1:]}
                    if "swapped_fields" in case:
                        cand["swapped_fields"] = [j - (j > i) for j in case["swapped_fields"] if j != i]
                    if layout is not None and layout.get("via") == "select":
                        cand["layout"] = {**layout, "record": [[j - (j > i), f] for j, f in layout["record"] if j != i]}
                    elif layout is not None and layout.get("via") == "offsets":
                        cand["layout"] = {**layout, "offsets": layout["offsets"][:i] + layout["offsets"][i + 1:]}
                    yield cand
            if layout is not None:
                yield {k: v for k, v in case.items() if k != "layout"}
                if layout.get("via") == "select":
                    for j, (i, _) in enumerate(layout["record"]):
                        if i < 0:
                            yield {**case, "layout": {**layout, "record": layout["record"][:j] + layout["record"][j + 1:]}}
                    if layout.get("align"):
                        yield {**case, "layout": {**layout, "align": False}}
            if case.get("order", "C") != "C":
                yield {k: v for k, v in case.items() if k != "order"}
            for ax in range(len(shape)):
                if shape[ax] > 1:
                    sh = list(shape)
                    sh[ax] -= 1
                    nv = []
                    for v in vals:
                        a = np.array(v, dtype=object).reshape(shape)
                        sl = [slice(None)] * len(shape)
                        sl[ax] = slice(0, sh[ax])
                        nv.append([int(x) for x in a[tuple(sl)].ravel()])
                    yield {**case, "shape": sh, "vals": nv}
            if len(shape) == 3 and shape[2] == 1:
                yield {**case, "shape": shape[:2]}
            for i, n in enumerate(names):
                simple = f"N{i}"
                if n != simple and simple not in names:
                    yield {**case, "names": names[:i] + [simple] + names[i + 1:]}
                elif len(n) > 1:
                    for j in range(len(n)):
                        m = n[:j] + n[j + 1:]
                        if m and m not in names:
                            yield {**case, "names": names[:i] + [m] + names[i + 1:]}
            for key in ("spacing_as", "strpath", "swapped_fields"):
                if key in case:
                    yield {k: v for k, v in case.items() if k != key}
            if case["spacing"] != [1, 1, 1]:
                yield {**case, "spacing": [1, 1, 1]}
            flat = [tok(float(i)) for i in range(int(np.prod(shape)))]
            for i, v in enumerate(vals):
                if v != flat:
                    yield {**case, "vals": vals[:i] + [flat] + vals[i + 1:]}


PROP = C16()

if __name__ == "__main__":
    if sys.argv[1:] == ["--zygote"]:
        sys.exit(zygote_main())
    sys.exit(core.main(PROP, "harness.c16"))
