import PewModel.Overlap
/-!
# C12 — FFT registration (`pewlib.process.register.fft_register_offset`, `anchor_offset`)

Mechanism (shaped like the code): both images are zero padded to `s = a.shape + b.shape - 1`,
the circular cross-correlation `c[k] = Σ_n a[(n + k) mod s] · b[n]` is formed (this is what
`irfftn(rfftn a · conj (rfftn b), s)` computes: the correlation theorem of the DFT is trusted, not
proved), the first maximum in row-major order is taken (`unravel_index (argmax …)`) and every axis
is decoded by `k < a ↦ k, else k − s`.

Specification: the linear cross-correlation `x[l] = Σ_n a[n + l] · b[n]` (reads outside `a` are
zero) over the lag box `−(b−1) ≤ l ≤ a−1` per axis, and the lag at which it is largest.

Values are exact rationals.  An n-D image is a shape and a function on index vectors; sums over
the axes are nested (`circ`, `lin` recurse over the axis list), so that every per-axis argument
lifts to n dimensions by induction over the axes.
-/
namespace Pew.Register

/-- `Σ_{i<n} f i` -/
def sumRange : Nat → (Nat → Rat) → Rat
  | 0, _ => 0
  | n + 1, f => sumRange n f + f n

structure Img where
  shape : List Nat
  get : List Nat → Rat

def inBox : List Nat → List Nat → Bool
  | [], [] => true
  | i :: is, s :: ss => decide (i < s) && inBox is ss
  | _, _ => false

def inBoxI : List Int → List Nat → Bool
  | [], [] => true
  | i :: is, s :: ss => decide (0 ≤ i) && decide (i < (s : Int)) && inBoxI is ss
  | _, _ => false

/-- `np.pad(a, (0, s - a.shape))`: the array read at any index vector, zero outside its box -/
def padN (sh : List Nat) (A : List Nat → Rat) : List Nat → Rat :=
  fun i => if inBox i sh then A i else 0

/-- the array read at an integer index vector, zero outside its box -/
def zext (sh : List Nat) (A : List Nat → Rat) : List Int → Rat :=
  fun i => if inBoxI i sh then A (i.map Int.toNat) else 0

/-- `s = a.shape + b.shape - 1` -/
def padShape : List Nat → List Nat → List Nat
  | a :: as, b :: bs => (a + b - 1) :: padShape as bs
  | _, _ => []

/-! ## mechanism -/

/-- n-D circular cross-correlation of period `s` at index `k`:
`Σ_{n < s} A[(n + k) mod s] · B[n]` (nested over the axes) -/
def circ : List Nat → (List Nat → Rat) → (List Nat → Rat) → List Nat → Rat
  | [], A, B, _ => A [] * B []
  | s :: ss, A, B, k :: ks =>
    sumRange s fun n => circ ss (fun r => A (((n + k) % s) :: r)) (fun r => B (n :: r)) ks
  | _ :: _, _, _, [] => 0

/-- all index vectors of a box in row-major order (last axis fastest) -/
def allIdx : List Nat → List (List Nat)
  | [] => [[]]
  | s :: ss => (List.range s).flatMap fun i => (allIdx ss).map (i :: ·)

/-- `np.unravel_index(np.argmax(x), x.shape)`: the first index vector, in row-major order, at
which `f` is largest, together with the value -/
def argmaxFirst (f : List Nat → Rat) : List (List Nat) → Option (List Nat × Rat)
  | [] => none
  | k :: ks => some (ks.foldl (fun best k' => if best.2 < f k' then (k', f k') else best) (k, f k))

/-- `np.where(idx < a_shape, idx, idx - s)` on one axis -/
def dec (a s k : Nat) : Int := if k < a then (k : Int) else (k : Int) - (s : Int)

def decode : List Nat → List Nat → List Nat → List Int
  | a :: as, s :: ss, k :: ks => dec a s k :: decode as ss ks
  | _, _, _ => []

/-- the padded correlation array of the code, as a function of the index vector -/
def xcorrCirc (a b : Img) : List Nat → Rat :=
  circ (padShape a.shape b.shape) (padN a.shape a.get) (padN b.shape b.get)

/-- `fft_register_offset a b` -/
def register (a b : Img) : List Int :=
  let s := padShape a.shape b.shape
  match argmaxFirst (xcorrCirc a b) (allIdx s) with
  | some (k, _) => decode a.shape s k
  | none => []

/-! ## specification -/

/-- n-D linear cross-correlation at lag `l`: `Σ_{n ∈ box b} A[n + l] · B[n]` -/
def lin : List Nat → (List Int → Rat) → (List Nat → Rat) → List Int → Rat
  | [], A, B, _ => A [] * B []
  | b :: bs, A, B, l :: ls =>
    sumRange b fun n => lin bs (fun r => A (((n : Int) + l) :: r)) (fun r => B (n :: r)) ls
  | _ :: _, _, _, [] => 0

/-- cross-correlation of two images at lag `l` (b displaced by `l` in a's frame) -/
def xcorr (a b : Img) (l : List Int) : Rat := lin b.shape (zext a.shape a.get) b.get l

/-- where a lag is stored in the circular correlation (one axis) -/
def enc (s : Nat) (l : Int) : Nat := if 0 ≤ l then l.toNat else (l + (s : Int)).toNat

def encode : List Nat → List Int → List Nat
  | s :: ss, l :: ls => enc s l :: encode ss ls
  | _, _ => []

/-- lags at which the two images overlap in at least one pixel: `−(b−1) ≤ l ≤ a−1` per axis -/
def inLagBox : List Nat → List Nat → List Int → Bool
  | [], [], [] => true
  | a :: as, b :: bs, l :: ls =>
    decide (-((b : Int) - 1) ≤ l) && decide (l ≤ (a : Int) - 1) && inLagBox as bs ls
  | _, _, _ => false

/-- all lags of the lag box -/
def lags : List Nat → List Nat → List (List Int)
  | [], [] => [[]]
  | a :: as, b :: bs =>
    (List.range (a + b - 1)).flatMap fun (i : Nat) => (lags as bs).map (((i : Int) - ((b : Int) - 1)) :: ·)
  | _, _ => []

/-- best lag, its correlation, and the largest correlation among the other lags -/
structure Peak where
  lag : List Int
  value : Rat
  runnerUp : Option Rat

def peak (a b : Img) : Option Peak :=
  match (lags a.shape b.shape).map (fun l => (l, xcorr a b l)) with
  | [] => none
  | p :: ps =>
    let best := ps.foldl (fun best q => if best.2 < q.2 then q else best) p
    let others := ((p :: ps).filter (fun q => q.1 != best.1)).map (·.2)
    let ru := match others with
      | [] => none
      | o :: os => some (os.foldl (fun m v => if m < v then v else m) o)
    some { lag := best.1, value := best.2, runnerUp := ru }

/-! ## when does the maximum sit at the true translation

`b` is *the window of `a` at `t`* when `b[n] = a[n + t]` for every pixel of `b`, `a` being read as
zero outside its box (so a `b` that sticks out of `a` must vanish there: a sub-window of `a`, or an
overlapping window of a scene that is zero outside the overlap).  The cross-correlation at lag `l` is
then the dot product of the windows of `a` at `l` and at `t`; by `2xy ≤ x² + y²` it is below the
correlation at `t` as soon as the window at `l` has no more energy than the window at `t` and
differs from it somewhere.  `truthHyp` is that condition, decidable and evaluated by the driver per
case; `PewTheorems.C12.register_truth` proves `register a b = t` from it. -/

/-- `a`, zero-extended, read at `n + l` -/
def shiftRead (a : Img) (l : List Int) : List Nat → Rat :=
  fun n => zext a.shape a.get (List.zipWith (· + ·) (n.map Int.ofNat) l)

/-- `Σ_{n ∈ box} F[n] · G[n]` (nested over the axes like `lin`) -/
def dot : List Nat → (List Nat → Rat) → (List Nat → Rat) → Rat
  | [], F, G => F [] * G []
  | s :: ss, F, G => sumRange s fun n => dot ss (fun r => F (n :: r)) (fun r => G (n :: r))

/-- energy of the window of (zero-extended) `a` of shape `sb` at lag `l` -/
def winEnergy (a : Img) (sb : List Nat) (l : List Int) : Rat := dot sb (shiftRead a l) (shiftRead a l)

/-- `b` is the window of zero-extended `a` at `t` -/
def isWindowOf (a b : Img) (t : List Int) : Bool :=
  (allIdx b.shape).all fun n => b.get n == shiftRead a t n

/-- the window of `a` at `l` differs from the window at `t` -/
def winDiffers (a : Img) (sb : List Nat) (l t : List Int) : Bool :=
  (allIdx sb).any fun n => shiftRead a l n != shiftRead a t n

/-- **the scene hypothesis under which the estimate is the true translation `t`**: `t` is a lag of
the lag box, `b` is the window of `a` at `t`, and among all windows of `a` of `b`'s shape (one per
lag of the lag box, `a` zero-extended) the one at `t` has the largest energy and is not repeated
among those of the same energy -/
def truthHyp (a b : Img) (t : List Int) : Bool :=
  let wt := winEnergy a b.shape t
  inLagBox a.shape b.shape t && isWindowOf a b t &&
    (lags a.shape b.shape).all fun l =>
      l == t || (decide (winEnergy a b.shape l ≤ wt) && winDiffers a b.shape l t)

/-! ## an empty background

The second sufficient scene hypothesis, without window energies: `b` is the window of zero-extended `a` at `t` **and `a`
vanishes outside that window** (two overlapping windows of a scene that is zero outside their overlap; a tile that
holds the only feature of a frame).  The cross-correlation of `a` and `b` at lag `l` is then the self-correlation of
`a` at `l − t`, whose unique maximum is at zero for an image that is not identically zero
(`PewTheorems.C12.register_zero_background`).  Linear in the image sizes, so the driver evaluates it on every route. -/

/-- every non-zero pixel of `a` lies under `b` placed at `t` -/
def supportUnder (a : Img) (sb : List Nat) (t : List Int) : Bool :=
  (allIdx a.shape).all fun n => a.get n == 0 || inBoxI (List.zipWith (· - ·) (n.map Int.ofNat) t) sb

/-- **zero background**: `t` is a lag of the lag box, `b` is the window of zero-extended `a` at `t`, every non-zero
pixel of `a` lies under `b` placed at `t`, and `a` is not identically zero -/
def zeroBgHyp (a b : Img) (t : List Int) : Bool :=
  inLagBox a.shape b.shape t && isWindowOf a b t && supportUnder a b.shape t &&
    (allIdx a.shape).any fun n => a.get n != 0

/-! ## the decode that the code used before commit dfabb17 (regression documentation) -/

/-- `fftshift` moves index `k` to `(k + s/2) mod s`; the old code returned that position minus `s/2` -/
def oldDec (s k : Nat) : Int := (((k + s / 2) % s : Nat) : Int) - ((s / 2 : Nat) : Int)

/-! ## anchors (`anchor_offset`, 2-D) -/

inductive Anchor | topLeft | topRight | bottomLeft | bottomRight | center
  deriving DecidableEq, Repr

/-- the expressions of the code, `//` being floor division -/
def anchorMech (a0 a1 b0 b1 : Int) : Anchor → Int × Int
  | .topLeft => (0, 0)
  | .topRight => (0, a1 - b1)
  | .bottomLeft => (a0 - b0, 0)
  | .bottomRight => (a0 - b0, a1 - b1)
  | .center => (Int.fdiv (a0 + b0) 2 - b0, Int.fdiv (a1 + b1) 2 - b1)

/-- which side of `a` the anchor names on each axis -/
inductive Side | near | far | mid
  deriving DecidableEq, Repr

def Anchor.sides : Anchor → Side × Side
  | .topLeft => (.near, .near)
  | .topRight => (.near, .far)
  | .bottomLeft => (.far, .near)
  | .bottomRight => (.far, .far)
  | .center => (.mid, .mid)

/-- offset of `b` (extent `b`) inside `a` (extent `a`) on one axis -/
def sideOffset (a b : Int) : Side → Int
  | .near => 0
  | .far => a - b
  | .mid => Int.fdiv (a - b) 2

def anchorSpec (a0 a1 b0 b1 : Int) (an : Anchor) : Int × Int :=
  (sideOffset a0 b0 an.sides.1, sideOffset a1 b1 an.sides.2)

/-! ## register, then merge -/

open Pew.Overlap in
/-- a window of `scene` (a function on canvas coordinates) as an input of `overlap_arrays` -/
def window (scene : Idx → Rat) (off : List Int) (shape : List Nat) : Arr :=
  { off := off, shape := shape, get := fun i => some (scene (List.zipWith (· + ·) i off)) }

open Pew.Overlap in
/-- an image as an input of `overlap_arrays`, placed at `off` (what `overlap_arrays([a, b], [0, estimate])` receives) -/
def placed (x : Img) (off : List Int) : Arr :=
  { off := off, shape := x.shape, get := fun i => some (x.get (i.map Int.toNat)) }

open Pew.Overlap in
/-- specification of the merge of windows of one scene: the scene wherever a window covers the
pixel, the fill elsewhere -/
def sceneOnUnion (scene : Idx → Rat) (fill : V) (arrs : List Arr) (p : Idx) : V :=
  if arrs.any (fun a => a.inside p) then some (scene p) else fill

open Pew.Overlap in
/-- **specification of register-then-merge over the whole result** (what the driver sends as `spec`
of `c12.merge`): the bounding box of the windows and, for every canvas pixel `p` in row-major order,
the scene at `p + min offset` (canvas → scene coordinates) where a window covers it, else the fill -/
def mergeSpec (scene : Idx → Rat) (fill : V) (ndim : Nat) (arrs : List Arr) : List Int × List V :=
  let mo := minOffset ndim arrs
  let sh := newShape ndim (normalise ndim arrs)
  (sh, (Pew.Overlap.allIdx (sh.map Int.toNat)).map
        (fun p => sceneOnUnion scene fill arrs (List.zipWith (· + ·) p mo)))

end Pew.Register
