import PewModel.Overlap
/-!
# C12 — FFT registration (`pewlib.process.register.fft_register_offset`, `anchor_offset`)

Mechanism (shaped like the code): both images are zero padded to `s = a.shape + b.shape - 1`,
the circular cross-correlation `c[k] = Σ_n a[(n + k) mod s] · b[n]` is formed (this is what
`irfftn(rfftn a · conj (rfftn b), s)` computes: the correlation theorem of the DFT is trusted, not
proved), the first maximum in row-major order is taken (`unravel_index (argmax …)`) and every axis
is decoded by `k < a ↦ k, else k − s`.

Specification: the linear cross-correlation `x[l] = Σ_n a[n + l] · b[n]` (reads outside `a` are
zero) over the lag box `−(b−1) ≤ l ≤ a−1` per axis, and the lag at which it is largest.

Values are exact rationals.  An n-D image is a shape and a function on index vectors; sums over
the axes are nested (`circ`, `lin` recurse over the axis list), so that every per-axis argument
lifts to n dimensions by induction over the axes.
-/
namespace Pew.Register

/-- `Σ_{i<n} f i` -/
def sumRange : Nat → (Nat → Rat) → Rat
  | 0, _ => 0
  | n + 1, f => sumRange n f + f n

structure Img where
  shape : List Nat
  get : List Nat → Rat

def inBox : List Nat → List Nat → Bool
  | [], [] => true
  | i :: is, s :: ss => decide (i < s) && inBox is ss
  | _, _ => false

def inBoxI : List Int → List Nat → Bool
  | [], [] => true
  | i :: is, s :: ss => decide (0 ≤ i) && decide (i < (s : Int)) && inBoxI is ss
  | _, _ => false

/-- `np.pad(a, (0, s - a.shape))`: the array read at any index vector, zero outside its box -/
def padN (sh : List Nat) (A : List Nat → Rat) : List Nat → Rat :=
  fun i => if inBox i sh then A i else 0

/-- the array read at an integer index vector, zero outside its box -/
def zext (sh : List Nat) (A : List Nat → Rat) : List Int → Rat :=
  fun i => if inBoxI i sh then A (i.map Int.toNat) else 0

/-- `s = a.shape + b.shape - 1` -/
def padShape : List Nat → List Nat → List Nat
  | a :: as, b :: bs => (a + b - 1) :: padShape as bs
  | _, _ => []

/-! ## mechanism -/

/-- n-D circular cross-correlation of period `s` at index `k`:
`Σ_{n < s} A[(n + k) mod s] · B[n]` (nested over the axes) -/
def circ : List Nat → (List Nat → Rat) → (List Nat → Rat) → List Nat → Rat
  | [], A, B, _ => A [] * B []
  | s :: ss, A, B, k :: ks =>
    sumRange s fun n => circ ss (fun r => A (((n + k) % s) :: r)) (fun r => B (n :: r)) ks
  | _ :: _, _, _, [] => 0

/-- all index vectors of a box in row-major order (last axis fastest) -/
def allIdx : List Nat → List (List Nat)
  | [] => [[]]
  | s :: ss => (List.range s).flatMap fun i => (allIdx ss).map (i :: ·)

/-- `np.unravel_index(np.argmax(x), x.shape)`: the first index vector, in row-major order, at
which `f` is largest, together with the value -/
def argmaxFirst (f : List Nat → Rat) : List (List Nat) → Option (List Nat × Rat)
  | [] => none
  | k :: ks => some (ks.foldl (fun best k' => if best.2 < f k' then (k', f k') else best) (k, f k))

/-- `np.where(idx < a_shape, idx, idx - s)` on one axis -/
def dec (a s k : Nat) : Int := if k < a then (k : Int) else (k : Int) - (s : Int)

def decode : List Nat → List Nat → List Nat → List Int
  | a :: as, s :: ss, k :: ks => dec a s k :: decode as ss ks
  | _, _, _ => []

/-- the padded correlation array of the code, as a function of the index vector -/
def xcorrCirc (a b : Img) : List Nat → Rat :=
  circ (padShape a.shape b.shape) (padN a.shape a.get) (padN b.shape b.get)

/-- `fft_register_offset a b` -/
def register (a b : Img) : List Int :=
  let s := padShape a.shape b.shape
  match argmaxFirst (xcorrCirc a b) (allIdx s) with
  | some (k, _) => decode a.shape s k
  | none => []

/-! ## specification -/

/-- n-D linear cross-correlation at lag `l`: `Σ_{n ∈ box b} A[n + l] · B[n]` -/
def lin : List Nat → (List Int → Rat) → (List Nat → Rat) → List Int → Rat
  | [], A, B, _ => A [] * B []
  | b :: bs, A, B, l :: ls =>
    sumRange b fun n => lin bs (fun r => A (((n : Int) + l) :: r)) (fun r => B (n :: r)) ls
  | _ :: _, _, _, [] => 0

/-- cross-correlation of two images at lag `l` (b displaced by `l` in a's frame) -/
def xcorr (a b : Img) (l : List Int) : Rat := lin b.shape (zext a.shape a.get) b.get l

/-- where a lag is stored in the circular correlation (one axis) -/
def enc (s : Nat) (l : Int) : Nat := if 0 ≤ l then l.toNat else (l + (s : Int)).toNat

def encode : List Nat → List Int → List Nat
  | s :: ss, l :: ls => enc s l :: encode ss ls
  | _, _ => []

/-- lags at which the two images overlap in at least one pixel: `−(b−1) ≤ l ≤ a−1` per axis -/
def inLagBox : List Nat → List Nat → List Int → Bool
  | [], [], [] => true
  | a :: as, b :: bs, l :: ls =>
    decide (-((b : Int) - 1) ≤ l) && decide (l ≤ (a : Int) - 1) && inLagBox as bs ls
  | _, _, _ => false

/-- all lags of the lag box -/
def lags : List Nat → List Nat → List (List Int)
  | [], [] => [[]]
  | a :: as, b :: bs =>
    (List.range (a + b - 1)).flatMap fun (i : Nat) => (lags as bs).map (((i : Int) - ((b : Int) - 1)) :: ·)
  | _, _ => []

/-- best lag, its correlation, and the largest correlation among the other lags -/
structure Peak where
  lag : List Int
  value : Rat
  runnerUp : Option Rat

def peak (a b : Img) : Option Peak :=
  match (lags a.shape b.shape).map (fun l => (l, xcorr a b l)) with
  | [] => none
  | p :: ps =>
    let best := ps.foldl (fun best q => if best.2 < q.2 then q else best) p
    let others := ((p :: ps).filter (fun q => q.1 != best.1)).map (·.2)
    let ru := match others with
      | [] => none
      | o :: os => some (os.foldl (fun m v => if m < v then v else m) o)
    some { lag := best.1, value := best.2, runnerUp := ru }

/-! ## the decode that the code used before commit dfabb17 (regression documentation) -/

/-- `fftshift` moves index `k` to `(k + s/2) mod s`; the old code returned that position minus `s/2` -/
def oldDec (s k : Nat) : Int := (((k + s / 2) % s : Nat) : Int) - ((s / 2 : Nat) : Int)

/-! ## anchors (`anchor_offset`, 2-D) -/

inductive Anchor | topLeft | topRight | bottomLeft | bottomRight | center
  deriving DecidableEq, Repr

/-- the expressions of the code, `//` being floor division -/
def anchorMech (a0 a1 b0 b1 : Int) : Anchor → Int × Int
  | .topLeft => (0, 0)
  | .topRight => (0, a1 - b1)
  | .bottomLeft => (a0 - b0, 0)
  | .bottomRight => (a0 - b0, a1 - b1)
  | .center => (Int.fdiv (a0 + b0) 2 - b0, Int.fdiv (a1 + b1) 2 - b1)

/-- which side of `a` the anchor names on each axis -/
inductive Side | near | far | mid
  deriving DecidableEq, Repr

def Anchor.sides : Anchor → Side × Side
  | .topLeft => (.near, .near)
  | .topRight => (.near, .far)
  | .bottomLeft => (.far, .near)
  | .bottomRight => (.far, .far)
  | .center => (.mid, .mid)

/-- offset of `b` (extent `b`) inside `a` (extent `a`) on one axis -/
def sideOffset (a b : Int) : Side → Int
  | .near => 0
  | .far => a - b
  | .mid => Int.fdiv (a - b) 2

def anchorSpec (a0 a1 b0 b1 : Int) (an : Anchor) : Int × Int :=
  (sideOffset a0 b0 an.sides.1, sideOffset a1 b1 an.sides.2)

/-! ## register, then merge -/

open Pew.Overlap in
/-- a window of `scene` (a function on canvas coordinates) as an input of `overlap_arrays` -/
def window (scene : Idx → Rat) (off : List Int) (shape : List Nat) : Arr :=
  { off := off, shape := shape, get := fun i => some (scene (List.zipWith (· + ·) i off)) }

open Pew.Overlap in
/-- specification of the merge of windows of one scene: the scene wherever a window covers the
pixel, the fill elsewhere -/
def sceneOnUnion (scene : Idx → Rat) (fill : V) (arrs : List Arr) (p : Idx) : V :=
  if arrs.any (fun a => a.inside p) then some (scene p) else fill

end Pew.Register
