/-!
# C07 — laser edit histories (`pewlib.laser.Laser`, `pewlib.srr.srr.SRRLaser`, `pewlib.io.npz.load`)

Mechanism (shaped like the code): a laser is a list of layers (exactly one for `Laser`, two or more
for `SRRLaser`), every layer a structured array = its shape and an *ordered* field list
`(name, dataId)`, plus an *insertion-ordered* calibration dict `name → calId` and a configuration.
`add` builds a new structured array per layer (`np.empty` rejects a duplicate field name) and sets
`calibration[element]`; `remove` is `rfn.drop_fields` per layer followed by one `dict.pop` per name
in turn (`KeyError` when absent); `rename` is `rfn.rename_fields` per layer (`names.get(name, name)`
on every field, the `view` rejects duplicate names) followed by the dict comprehension
`{names.get(name, name): cal for name, cal in calibration.items()}`; `get` reads.

Specification: a plain dictionary `name → (per-layer dataIds, calId)` with append / filter /
key substitution.

`dataId`, `calId`, `cfg` are opaque *content tokens*: the harness fills every array with a unique constant
and gives every calibration a unique gradient, so that they are observable on the real objects.
`calId = 0` is the default `Calibration()`.

Three levels, each tied to the next by a theorem (`PewTheorems/C07.lean`):

* the **object level** (`World`, `hstep`, second half of this file): memory cells, Calibration / Config / dict
  objects with identities, who holds a reference to what, what a call allocates, copies, aliases or writes;
* the **content level** (`State`, `stepE` / `step`): what is stored under which name, including the exception a
  failing call raises and the (possibly half-edited) state it leaves behind; `view : World → State`;
* the **dictionary** (`Spec`): the plain map of the property; `abs : State → Spec`.
-/
namespace Pew.LaserEdit

abbrev Name := String
/-- ordered fields of a structured array: `(name, dataId)` -/
abbrev Fields := List (Name × Nat)
/-- insertion-ordered Python dict `name → calId` -/
abbrev Dict := List (Name × Nat)
/-- the `names` argument of `rename`: Python dict `old → new` -/
abbrev NameMap := List (Name × Name)

def keys {β : Type} (l : List (Name × β)) : List Name := l.map (·.1)

/-- first value stored under `n` (`d[n]`, `data[n]`) -/
def get? {β : Type} : List (Name × β) → Name → Option β
  | [], _ => none
  | e :: r, n => if e.1 = n then some e.2 else get? r n

/-! ## Python dict primitives on the insertion-ordered representation -/

/-- `d[k] = v`: an existing key keeps its position, a new key is appended -/
def dictSet (d : Dict) (k : Name) (v : Nat) : Dict :=
  if k ∈ keys d then d.map (fun e => if e.1 = k then (k, v) else e) else d ++ [(k, v)]

/-- `d.pop(k)` (the popped value is discarded by the callers); `none` = `KeyError` -/
def dictPop (d : Dict) (k : Name) : Option Dict :=
  if k ∈ keys d then some (d.filter (fun e => decide (e.1 ≠ k))) else none

/-- `for name in names: d.pop(name)` -/
def popAll (d : Dict) : List Name → Option Dict
  | [] => some d
  | n :: ns =>
    match dictPop d n with
    | none => none
    | some d' => popAll d' ns

/-- `names.get(name, name)` -/
def sub (m : NameMap) (n : Name) : Name := (get? m n).getD n

/-- `{names.get(name, name): cal for name, cal in d.items()}` -/
def rebuildDict (d : Dict) (m : NameMap) : Dict :=
  d.foldl (fun acc e => dictSet acc (sub m e.1) e.2) []

/-! ## state -/

structure Layer where
  shape : List Nat
  fields : Fields
  deriving Repr, DecidableEq

structure State where
  /-- `SRRLaser` (data is a list of layers) or `Laser` (data is one array) -/
  srr : Bool
  layers : List Layer
  cal : Dict
  cfg : Nat
  deriving Repr, DecidableEq

/-- `data.dtype.names` / `data[0].dtype.names` -/
def elementsOf : List Layer → List Name
  | [] => []
  | l :: _ => keys l.fields

def State.elements (s : State) : List Name := elementsOf s.layers

def shapeAt (ls : List (List Nat)) (i : Nat) : Nat := ((ls[i]?).getD []).headD 0

/-- `Laser.shape = data.shape`; `SRRLaser.shape = (data[0].shape[0], data[1].shape[0], len(data))` -/
def shapeOf (srr : Bool) (shapes : List (List Nat)) : List Nat :=
  if srr then [shapeAt shapes 0, shapeAt shapes 1, shapes.length]
  else (shapes.head?).getD []

def State.shape (s : State) : List Nat := shapeOf s.srr (s.layers.map (·.shape))

/-! ## constructors -/

/-- `{name: Calibration() for name in elements}` then `.update(deepcopy(calibration))`.
The stored dict holds *copies*: nothing the caller does to its own objects afterwards is visible
in the state (the model has no reference from the state back to the caller's objects). -/
def initCal (elements : List Name) (given : Option Dict) : Dict :=
  let d0 := elements.foldl (fun acc n => dictSet acc n 0) []
  match given with
  | none => d0
  | some g => g.foldl (fun acc e => dictSet acc e.1 e.2) d0

def mkState (srr : Bool) (layers : List Layer) (given : Option Dict) (cfg : Nat) : State :=
  let s0 : State := { srr := srr, layers := layers, cal := [], cfg := cfg }
  { s0 with cal := initCal s0.elements given }

/-- `Laser(data, calibration, config)` -/
def constructLaser (l : Layer) (given : Option Dict) (cfg : Nat) : State :=
  mkState false [l] given cfg

/-- `SRRLaser(data, calibration, config)`: `assert len(data) > 1`, `self.data = list(data)` -/
def constructSRR (ls : List Layer) (given : Option Dict) (cfg : Nat) : Option State :=
  if ls.length > 1 then some (mkState true ls given cfg) else none

/-- `npz.load(npz.save(laser))`: the stored array (the stack of layers for SRR) is handed to the
constructor, together with the unpacked calibration dict and the re-read configuration -/
def roundTrip (s : State) : Option State :=
  if s.srr then constructSRR s.layers (some s.cal) s.cfg
  else
    match s.layers with
    | [l] => some (constructLaser l (some s.cal) s.cfg)
    | _ => none

/-! ## operations -/

/-- an array handed to `add`: its shape and its content -/
abbrev ArrIn := List Nat × Nat

/-- one layer of `add`: `assert data.shape == self.data.shape`, then
`np.empty(self.data.shape, dtype.descr + [(element, ..)])` raises on a duplicate name; the new array has
the shape of the old one and `new_data[element] = data` stores the given array in full (without the
assert a smaller array would be broadcast into it) -/
def Layer.add (l : Layer) (n : Name) (a : ArrIn) : Option Layer :=
  if a.1 ≠ l.shape then none
  else if n ∈ keys l.fields then none
  else some { shape := l.shape, fields := l.fields ++ [(n, a.2)] }

/-- the loop over layers; `assert len(data) == len(self.data)` -/
def addLayers (n : Name) : List Layer → List ArrIn → Option (List Layer)
  | [], [] => some []
  | l :: ls, d :: ds =>
    match l.add n d, addLayers n ls ds with
    | some l', some r => some (l' :: r)
    | _, _ => none
  | _, _ => none

def add (s : State) (n : Name) (ds : List ArrIn) (c : Nat) : Option State :=
  match addLayers n s.layers ds with
  | none => none
  | some ls => some { s with layers := ls, cal := dictSet s.cal n c }

/-- `rfn.drop_fields(data, names, usemask=False)`: absent names are ignored; the result is
`np.empty(base.shape, newdtype)` filled field by field, so it has the shape of the old array -/
def Layer.drop (l : Layer) (ns : List Name) : Layer :=
  { shape := l.shape, fields := l.fields.filter (fun e => decide (e.1 ∉ ns)) }

def remove (s : State) (ns : List Name) : Option State :=
  match popAll s.cal ns with
  | none => none
  | some cal => some { s with layers := s.layers.map (·.drop ns), cal := cal }

/-- `rfn.rename_fields(data, names)`: every field name goes through `names.get(name, name)` at
once; `base.view(newdtype)` raises `ValueError` when two fields get the same name -/
def Layer.rename (l : Layer) (m : NameMap) : Option Layer :=
  let f := l.fields.map (fun e => (sub m e.1, e.2))
  if (keys f).Nodup then some { shape := l.shape, fields := f } else none

def renameLayers (m : NameMap) : List Layer → Option (List Layer)
  | [] => some []
  | l :: ls =>
    match l.rename m, renameLayers m ls with
    | some l', some r => some (l' :: r)
    | _, _ => none

def rename (s : State) (m : NameMap) : Option State :=
  match renameLayers m s.layers with
  | none => none
  | some ls => some { s with layers := ls, cal := rebuildDict s.cal m }

/-- what a read returns, per field: name, which data, which calibration was applied (if any) -/
abbrev ReadOut := List (Name × Nat × Option Nat)

def calibrateAll (cal : Dict) : Fields → Option ReadOut
  | [] => some []
  | e :: r =>
    match get? cal e.1, calibrateAll cal r with
    | some c, some out => some ((e.1, e.2, some c) :: out)
    | _, _ => none

/-- `get(element, calibrate)` on one layer (`layer=` for SRR; the only layer for `Laser`):
`data[element]` / `data.copy()`, then `calibration[name].calibrate(..)`; `none` = raises -/
def readLayer (cal : Dict) (l : Layer) (t : Option Name) (calibrate : Bool) : Option ReadOut :=
  match t with
  | some n =>
    match get? l.fields n with
    | none => none
    | some d =>
      if calibrate then
        match get? cal n with
        | none => none
        | some c => some [(n, d, some c)]
      else some [(n, d, none)]
  | none =>
    if calibrate then calibrateAll cal l.fields
    else some (l.fields.map (fun e => (e.1, e.2, none)))

def read (s : State) (layer : Nat) (t : Option Name) (calibrate : Bool) : Option ReadOut :=
  match s.layers[layer]? with
  | none => none
  | some l => readLayer s.cal l t calibrate

inductive Op
  | add (n : Name) (ds : List ArrIn) (c : Nat)
  | remove (ns : List Name)
  | rename (m : NameMap)
  | get (layer : Nat) (t : Option Name) (calibrate : Bool)
  /-- the caller edits the calibration dict / calibration objects / config object it passed to the
  constructor.  At this level nothing is stored that such an edit could reach; that this is what the
  code does (the constructor copies) is a theorem about the object level (`foreign_edit_invisible`,
  `history_view`). -/
  | callerEdit
  deriving Repr, DecidableEq

def step (s : State) : Op → Option State
  | .add n ds c => add s n ds c
  | .remove ns => remove s ns
  | .rename m => rename s m
  | .get layer t c => if (read s layer t c).isSome then some s else none
  | .callerEdit => some s

def run (s : State) : List Op → Option State
  | [] => some s
  | op :: ops =>
    match step s op with
    | none => none
    | some s' => run s' ops

/-! ## the same calls with their exceptions

`step` above says *whether* a call succeeds.  The functions below say which exception a failing call
raises and which state it leaves behind: the loops of the code stop where the exception is raised, what
they did before stays done.  `stepE_ok_iff` (PewTheorems) ties the two. -/

/-- the exception classes the anchored code can raise on these calls -/
inductive Err
  /-- `AssertionError`: `assert data.shape == self.data.shape`, `assert len(data) == len(self.data)` -/
  | assertion
  /-- `ValueError`: NumPy refuses a structured dtype with a repeated field name; `data[element]` of an absent field -/
  | value
  /-- `KeyError`: `calibration.pop(name)` / `calibration[name]` of an absent key -/
  | key
  /-- `IndexError`: `self.data[layer]` of an absent layer -/
  | index
  deriving Repr, DecidableEq

/-- how a call ends: normally, or with an exception — in both cases with the state it leaves -/
inductive Res (σ : Type)
  | ok (s : σ)
  | fail (e : Err) (s : σ)
  deriving Repr, DecidableEq

def Res.state {σ : Type} : Res σ → σ
  | .ok s => s
  | .fail _ s => s

def Res.err {σ : Type} : Res σ → Option Err
  | .ok _ => none
  | .fail e _ => some e

def Res.toOption {σ : Type} : Res σ → Option σ
  | .ok s => some s
  | .fail _ _ => none

def Res.map {σ τ : Type} (f : σ → τ) : Res σ → Res τ
  | .ok s => .ok (f s)
  | .fail e s => .fail e (f s)

/-- one layer of `add`: the shape assert comes first, then `np.empty` rejects the repeated name -/
def Layer.addE (l : Layer) (n : Name) (a : ArrIn) : Except Err Layer :=
  if a.1 ≠ l.shape then .error .assertion
  else if n ∈ keys l.fields then .error .value
  else .ok { shape := l.shape, fields := l.fields ++ [(n, a.2)] }

/-- `for i in range(len(self.data)): … self.data[i] = new_data` (`SRRLaser.add`; one round for `Laser.add`,
which assigns `self.data` last): the layers before the failing one have already been replaced -/
def addLayersE (n : Name) : List Layer → List ArrIn → Except (Err × List Layer) (List Layer)
  | [], _ => .ok []
  | l :: ls, [] => .error (.index, l :: ls)     -- not reached: the lengths are asserted equal first
  | l :: ls, a :: as =>
    match l.addE n a with
    | .error e => .error (e, l :: ls)
    | .ok l' =>
      match addLayersE n ls as with
      | .ok r => .ok (l' :: r)
      | .error (e, r) => .error (e, l' :: r)

def addE (s : State) (n : Name) (ds : List ArrIn) (c : Nat) : Res State :=
  if ds.length ≠ s.layers.length then .fail .assertion s
  else
    match addLayersE n s.layers ds with
    | .ok ls => .ok { s with layers := ls, cal := dictSet s.cal n c }
    | .error (e, ls) => .fail e { s with layers := ls }

/-- `for name in names: self.calibration.pop(name)`: stops at the first absent key, the earlier pops stay -/
def popAllE (d : Dict) : List Name → Dict × Option Err
  | [] => (d, none)
  | n :: ns =>
    match dictPop d n with
    | none => (d, some .key)
    | some d' => popAllE d' ns

/-- `remove`: the fields are dropped from every layer first (absent names are ignored there), then the
calibrations are popped one by one -/
def removeE (s : State) (ns : List Name) : Res State :=
  let ls := s.layers.map (·.drop ns)
  match popAllE s.cal ns with
  | (d, none) => .ok { s with layers := ls, cal := d }
  | (d, some e) => .fail e { s with layers := ls, cal := d }

/-- `for i in range(len(self.data)): self.data[i] = rfn.rename_fields(self.data[i], names)` -/
def renameLayersE (m : NameMap) : List Layer → Except (Err × List Layer) (List Layer)
  | [] => .ok []
  | l :: ls =>
    match l.rename m with
    | none => .error (.value, l :: ls)
    | some l' =>
      match renameLayersE m ls with
      | .ok r => .ok (l' :: r)
      | .error (e, r) => .error (e, l' :: r)

def renameE (s : State) (m : NameMap) : Res State :=
  match renameLayersE m s.layers with
  | .ok ls => .ok { s with layers := ls, cal := rebuildDict s.cal m }
  | .error (e, ls) => .fail e { s with layers := ls }

/-- `for name in data.dtype.names: data[name] = self.calibration[name].calibrate(data[name])` -/
def calibrateAllE (cal : Dict) : Fields → Except Err ReadOut
  | [] => .ok []
  | e :: r =>
    match get? cal e.1 with
    | none => .error .key
    | some c =>
      match calibrateAllE cal r with
      | .ok out => .ok ((e.1, e.2, some c) :: out)
      | .error x => .error x

def readLayerE (cal : Dict) (l : Layer) (t : Option Name) (calibrate : Bool) : Except Err ReadOut :=
  match t with
  | some n =>
    match get? l.fields n with
    | none => .error .value                      -- `data[element]`: no field of that name
    | some d =>
      if calibrate then
        match get? cal n with
        | none => .error .key                    -- `self.calibration[element]`
        | some c => .ok [(n, d, some c)]
      else .ok [(n, d, none)]
  | none =>
    if calibrate then calibrateAllE cal l.fields
    else .ok (l.fields.map (fun e => (e.1, e.2, none)))

def readE (s : State) (layer : Nat) (t : Option Name) (calibrate : Bool) : Except Err ReadOut :=
  match s.layers[layer]? with
  | none => .error .index
  | some l => readLayerE s.cal l t calibrate

def stepE (s : State) : Op → Res State
  | .add n ds c => addE s n ds c
  | .remove ns => removeE s ns
  | .rename m => renameE s m
  | .get layer t c =>
    match readE s layer t c with
    | .ok _ => .ok s
    | .error e => .fail e s
  | .callerEdit => .ok s

/-- a history in which calls may fail: it goes on from whatever the failing call left -/
def runE (s : State) : List Op → State × List (Option Err)
  | [] => (s, [])
  | op :: ops =>
    let r := stepE s op
    let rest := runE r.state ops
    (rest.1, r.err :: rest.2)

/-! ## specification: a plain dictionary -/

/-- per-layer data identities and the calibration identity of one element -/
abbrev Entry := List Nat × Nat

structure Spec where
  srr : Bool
  shapes : List (List Nat)
  map : List (Name × Entry)
  cfg : Nat
  deriving Repr, DecidableEq

namespace Spec

def shape (a : Spec) : List Nat := shapeOf a.srr a.shapes

/-- a new name with its data (one array per layer, each of its layer's shape) and calibration -/
def add (a : Spec) (n : Name) (ds : List ArrIn) (c : Nat) : Option Spec :=
  if n ∉ keys a.map ∧ ds.map (·.1) = a.shapes then some { a with map := a.map ++ [(n, (ds.map (·.2), c))] }
  else none

/-- distinct present names disappear, everything else stays -/
def remove (a : Spec) (ns : List Name) : Option Spec :=
  if ns.Nodup ∧ ∀ n ∈ ns, n ∈ keys a.map then
    some { a with map := a.map.filter (fun e => decide (e.1 ∉ ns)) }
  else none

/-- simultaneous substitution of the keys; every entry keeps its value.  Allowed when no two
present names end up with the same name. -/
def rename (a : Spec) (m : NameMap) : Option Spec :=
  let mp := a.map.map (fun e => (sub m e.1, e.2))
  if (keys mp).Nodup then some { a with map := mp } else none

def readAll (layer : Nat) (calibrate : Bool) : List (Name × Entry) → Option ReadOut
  | [] => some []
  | e :: r =>
    match e.2.1[layer]?, readAll layer calibrate r with
    | some d, some out => some ((e.1, d, if calibrate then some e.2.2 else none) :: out)
    | _, _ => none

/-- a read returns the stored data of the element(s); a calibrated read names each element's own
calibration -/
def read (a : Spec) (layer : Nat) (t : Option Name) (calibrate : Bool) : Option ReadOut :=
  if layer < a.shapes.length then
    match t with
    | some n =>
      match get? a.map n with
      | none => none
      | some e =>
        match e.1[layer]? with
        | none => none
        | some d => some [(n, d, if calibrate then some e.2 else none)]
    | none => readAll layer calibrate a.map
  else none

def step (a : Spec) : Op → Option Spec
  | .add n ds c => a.add n ds c
  | .remove ns => a.remove ns
  | .rename m => a.rename m
  | .get layer t c => if (a.read layer t c).isSome then some a else none
  | .callerEdit => some a

def run (a : Spec) : List Op → Option Spec
  | [] => some a
  | op :: ops =>
    match step a op with
    | none => none
    | some a' => run a' ops

/-- the dictionary a freshly constructed laser stands for: every element of the (first layer's)
field list with its data in every layer and the calibration given for it, else the default (0) -/
def construct (srr : Bool) (layers : List Layer) (given : Option Dict) (cfg : Nat) : Spec :=
  let fs := match layers with
    | [] => []
    | l :: _ => l.fields
  { srr := srr, shapes := layers.map (·.shape), cfg := cfg,
    map := fs.map (fun e =>
      (e.1, (layers.map (fun l => (get? l.fields e.1).getD 0),
             ((given.bind (fun g => get? g e.1)).getD 0)))) }

end Spec

/-! ## abstraction -/

/-- the data identities stored under `n`, layer by layer -/
def dataIn (ls : List Layer) (n : Name) : List Nat := ls.map (fun l => (get? l.fields n).getD 0)

def calIn (d : Dict) (n : Name) : Nat := (get? d n).getD 0

/-- the dictionary a state stands for: every element (field name of the first layer) with the data
stored under that name in every layer and the calibration stored under that name -/
def abs (s : State) : Spec :=
  { srr := s.srr, shapes := s.layers.map (·.shape), cfg := s.cfg,
    map := s.elements.map (fun n => (n, (dataIn s.layers n, calIn s.cal n))) }

/-- what the dictionary view of the laser holds under `n` -/
def entry (s : State) (n : Name) : Option Entry := get? (abs s).map n

/-- well-formedness: at least one layer, all layers have the same field names, the names are
distinct, the calibration dict has distinct keys and they are exactly the field names -/
def Inv (s : State) : Prop :=
  s.layers ≠ [] ∧ (∀ l ∈ s.layers, keys l.fields = s.elements) ∧ s.elements.Nodup ∧
  (keys s.cal).Nodup ∧ (∀ n, n ∈ keys s.cal ↔ n ∈ s.elements)

/-- what the constructors are given as data: at least one layer, all layers with the same, distinct
field names (a structured dtype cannot have a name twice) -/
def LayersOK (ls : List Layer) : Prop :=
  ls ≠ [] ∧ (∀ l ∈ ls, keys l.fields = elementsOf ls) ∧ (elementsOf ls).Nodup

/-- the `calibration` argument: a Python dict (distinct keys) that names elements only -/
def GivenOK (ls : List Layer) (given : Option Dict) : Prop :=
  ∀ g, given = some g → (keys g).Nodup ∧ ∀ k ∈ keys g, k ∈ elementsOf ls

/-- `Laser` holds one array, `SRRLaser` at least two layers -/
def KindOK (s : State) : Prop :=
  (s.srr = true → s.layers.length > 1) ∧ (s.srr = false → s.layers.length = 1)

instance (s : State) : Decidable (KindOK s) := by unfold KindOK; infer_instance

instance (ls : List Layer) : Decidable (LayersOK ls) := by unfold LayersOK; infer_instance

instance (ls : List Layer) (given : Option Dict) : Decidable (GivenOK ls given) :=
  match given with
  | none => isTrue (fun _ h => by cases h)
  | some g =>
    decidable_of_iff ((keys g).Nodup ∧ ∀ k ∈ keys g, k ∈ elementsOf ls)
      ⟨fun h g' hg => by cases hg; exact h, fun h => h g rfl⟩

/-- operations that can change what is stored -/
def Op.changes : Op → Bool
  | .add .. => true
  | .remove .. => true
  | .rename .. => true
  | .get .. => false
  | .callerEdit => false

instance (s : State) : Decidable (Inv s) := by
  unfold Inv
  have : Decidable (∀ n, n ∈ keys s.cal ↔ n ∈ s.elements) :=
    decidable_of_iff ((∀ n ∈ keys s.cal, n ∈ s.elements) ∧ (∀ n ∈ s.elements, n ∈ keys s.cal))
      ⟨fun h n => ⟨h.1 n, h.2 n⟩, fun h => ⟨fun n => (h n).1, fun n => (h n).2⟩⟩
  infer_instance

/-! ## object level: identities, references, allocation

Everything above speaks of *contents*.  Here every array column, every `Calibration`, `Config`, offsets
array and calibration dict is an object with an identity (its position in the heap; nothing is freed),
the laser holds references, and every call says what it allocates, copies, aliases and writes — as read
from `laser.py` / `srr/srr.py` / `calibration.py` / `io/npz.py`:

* constructor: `self.data = data` (the caller's arrays, by reference; `SRRLaser`: a new list of the same
  arrays), a new dict with one new default `Calibration` per element, `update(copy.deepcopy(calibration))`
  (new objects, an object given twice copied once), `copy.copy(config)` (a new object with the same
  attribute values: the `_subpixel_offsets` array of an `SRRConfig` is shared) or a new default config;
* `add`: new memory per layer (all old fields and the new one copied in), the given `Calibration` stored
  *by reference* (a new default one if `None`) in the same dict object;
* `remove`: `drop_fields` builds new memory per layer; the dict object is popped in place;
* `rename`: `rename_fields` returns a *view* (same memory, new names); a new dict object is built;
* `get`: `Laser.get(element)` returns a view of the stored memory, also after calibration by an identity
  calibration (`Calibration.calibrate` returns its argument); a non-identity calibration computes a new
  array; all-element reads and every `SRRLaser.get(layer=…)` work on a copy (calibrated in place);
* anyone holding a reference can change an object (`setCal`, `setCfg`, `setDict`, `writeCell`, …).
-/

/-- a `Config` object: a token for its scalar attributes and, for `SRRConfig`, the identity of the
`_subpixel_offsets` array it holds -/
structure Cfg where
  scal : Nat
  offs : Option Nat
  deriving Repr, DecidableEq

/-- a dict `key ↦ identity of a Calibration object` (same representation as `Dict`) -/
abbrev IdDict := List (Name × Nat)

/-- a structured array object: its shape and, per field, the identity of the memory cell (column) that
field reads and writes.  Two arrays share memory iff they have a cell in common. -/
abbrev Arr := Layer

/-- the memory: identity = position; nothing is ever freed -/
structure Heap where
  /-- one cell per array column: its content token -/
  cells : List Nat
  /-- `Calibration` objects: content token (0 = the default `Calibration()`, the only identity calibration used) -/
  cals : List Nat
  cfgs : List Cfg
  /-- `_subpixel_offsets` arrays: content token -/
  offs : List Nat
  dicts : List IdDict
  deriving Repr, DecidableEq

/-- the laser object: references only -/
structure Obj where
  srr : Bool
  data : List Arr
  cal : Nat
  cfg : Nat
  deriving Repr, DecidableEq

structure World where
  heap : Heap
  laser : Obj
  deriving Repr, DecidableEq

def Heap.cell (h : Heap) (i : Nat) : Nat := (h.cells[i]?).getD 0
def Heap.calOf (h : Heap) (i : Nat) : Nat := (h.cals[i]?).getD 0
def Heap.cfgOf (h : Heap) (i : Nat) : Cfg := (h.cfgs[i]?).getD ⟨0, none⟩
def Heap.offsOf (h : Heap) (i : Nat) : Nat := (h.offs[i]?).getD 0
def Heap.dict (h : Heap) (i : Nat) : IdDict := (h.dicts[i]?).getD []

/-- follow the references of a name-keyed list -/
def mapV (f : Nat → Nat) (l : List (Name × Nat)) : List (Name × Nat) := l.map (fun e => (e.1, f e.2))

def viewLayer (h : Heap) (a : Arr) : Layer := { shape := a.shape, fields := mapV h.cell a.fields }
def viewDict (h : Heap) (d : IdDict) : Dict := mapV h.calOf d

/-- what the laser stores, as contents: the state of the content level -/
def view (w : World) : State :=
  { srr := w.laser.srr, layers := w.laser.data.map (viewLayer w.heap),
    cal := viewDict w.heap (w.heap.dict w.laser.cal), cfg := (w.heap.cfgOf w.laser.cfg).scal }

/-- content of the offsets array the laser's config holds (`SRRConfig` only) -/
def cfgOffsets (w : World) : Option Nat := (w.heap.cfgOf w.laser.cfg).offs.map w.heap.offsOf

/-! ### allocation -/

/-- new memory for an array with the given column contents -/
def Heap.allocCells (h : Heap) (cs : List Nat) : List Nat × Heap :=
  (List.range' h.cells.length cs.length, { h with cells := h.cells ++ cs })

def Heap.allocCal (h : Heap) (c : Nat) : Nat × Heap := (h.cals.length, { h with cals := h.cals ++ [c] })
def Heap.allocCfg (h : Heap) (c : Cfg) : Nat × Heap := (h.cfgs.length, { h with cfgs := h.cfgs ++ [c] })
def Heap.allocOffs (h : Heap) (c : Nat) : Nat × Heap := (h.offs.length, { h with offs := h.offs ++ [c] })
def Heap.allocDict (h : Heap) (d : IdDict) : Nat × Heap := (h.dicts.length, { h with dicts := h.dicts ++ [d] })

/-- a packed copy of a structured array (`np.empty` + assignment field by field, `.copy()`): new cells
holding what the fields hold now -/
def Heap.copyArr (h : Heap) (a : Arr) : Arr × Heap :=
  let r := h.allocCells (a.fields.map (fun e => h.cell e.2))
  ({ shape := a.shape, fields := List.zip (keys a.fields) r.1 }, r.2)

/-! ### constructors -/

/-- `{name: Calibration() for name in self.elements}`: a new default object per element -/
def allocDefaults : List Name → IdDict → Heap → IdDict × Heap
  | [], d, h => (d, h)
  | n :: ns, d, h => allocDefaults ns (dictSet d n h.cals.length) (h.allocCal 0).2

/-- `copy.deepcopy(calibration)`, value by value: a new `Calibration` with the same content; an object
met before (the memo of `deepcopy`) is not copied again -/
def deepcopyEntries : IdDict → List (Nat × Nat) → IdDict → Heap → IdDict × Heap
  | [], _, out, h => (out, h)
  | e :: r, memo, out, h =>
    match memo.lookup e.2 with
    | some id => deepcopyEntries r memo (out ++ [(e.1, id)]) h
    | none =>
      deepcopyEntries r ((e.2, h.cals.length) :: memo) (out ++ [(e.1, h.cals.length)]) (h.allocCal (h.calOf e.2)).2

/-- the calibration part of the constructors: `{name: Calibration() for name in self.elements}` and
`.update(copy.deepcopy(calibration))` — the entries of the laser's (new) dict -/
def conCal (h : Heap) (els : List Name) (given : Option Nat) : IdDict × Heap :=
  let r0 := allocDefaults els [] h
  match given with
  | none => r0
  | some g =>
    let cp := deepcopyEntries (r0.2.dict g) [] [] r0.2
    (cp.1.foldl (fun acc e => dictSet acc e.1 e.2) r0.1, cp.2)

/-- the configuration part: `copy.copy(config)` (a new object with the same attribute values: the offsets
array of an `SRRConfig` is shared), or a new default `Config()` / `SRRConfig()` -/
def conCfg (h : Heap) (srr : Bool) (config : Option Nat) : Nat × Heap :=
  match config with
  | some k => h.allocCfg (h.cfgOf k)
  | none =>
    if srr then
      let o := h.allocOffs 0
      o.2.allocCfg ⟨0, some o.1⟩
    else h.allocCfg ⟨0, none⟩

/-- `Laser(data, calibration, config)` / `SRRLaser(data, calibration, config)`; `given` and `config` are
the identities of the caller's dict and config object.  `none` = the constructor raises
(`assert len(data) > 1`) or the call is not expressible (`Laser` takes one array). -/
def hConstruct (h : Heap) (srr : Bool) (data : List Arr) (given : Option Nat) (config : Option Nat) :
    Option World :=
  if (srr && data.length ≤ 1) || (!srr && data.length != 1) then none
  else
    let r1 := conCal h (elementsOf data) given
    let r2 := r1.2.allocDict r1.1
    let r3 := conCfg r2.2 srr config
    some { heap := r3.2, laser := { srr := srr, data := data, cal := r2.1, cfg := r3.1 } }

def copyArrs : List Arr → Heap → List Arr × Heap
  | [], h => ([], h)
  | a :: as, h =>
    let r := h.copyArr a
    let t := copyArrs as r.2
    (r.1 :: t.1, t.2)

/-- `unpack_calibration`: a new `Calibration` object per saved entry -/
def freshEntries : IdDict → IdDict → Heap → IdDict × Heap
  | [], out, h => (out, h)
  | e :: r, out, h => freshEntries r (out ++ [(e.1, h.cals.length)]) (h.allocCal (h.calOf e.2)).2

/-- `Config.from_array` / `SRRConfig.from_array`: a new config (with a new offsets array) holding the saved values -/
def loadCfg (h : Heap) (c0 : Cfg) : Nat × Heap :=
  match c0.offs with
  | some o =>
    let o' := h.allocOffs (h.offsOf o)
    o'.2.allocCfg ⟨c0.scal, some o'.1⟩
  | none => h.allocCfg ⟨c0.scal, none⟩

/-- `npz.load(npz.save(laser))`: the loader builds new arrays, a new dict of new `Calibration` objects and
a new config from the file and hands them to the constructor (which copies dict and config once more) -/
def hRoundTrip (w : World) : Option World :=
  let d := copyArrs w.laser.data w.heap
  let e := freshEntries (d.2.dict w.laser.cal) [] d.2
  let g := e.2.allocDict e.1
  let k := loadCfg g.2 (g.2.cfgOf w.laser.cfg)
  hConstruct k.2 w.laser.srr d.1 (some g.1) (some k.1)

/-! ### the calls -/

/-- one layer of `add`: the caller's column is appended (checks as in `Layer.addE`) and the whole array
is copied into new memory -/
def Arr.addE (h : Heap) (a : Arr) (n : Name) (x : ArrIn) : Except Err (Arr × Heap) :=
  match Layer.addE a n x with
  | .error e => .error e
  | .ok a' => .ok (h.copyArr a')

def hAddLayers (n : Name) : List Arr → List ArrIn → Heap → Except (Err × List Arr × Heap) (List Arr × Heap)
  | [], _, h => .ok ([], h)
  | a :: as, [], h => .error (.index, a :: as, h)
  | a :: as, x :: xs, h =>
    match Arr.addE h a n x with
    | .error e => .error (e, a :: as, h)
    | .ok (a', h1) =>
      match hAddLayers n as xs h1 with
      | .ok (r, h2) => .ok (a' :: r, h2)
      | .error (e, r, h2) => .error (e, a' :: r, h2)

/-- `if calibration is None: calibration = Calibration()`, then `self.calibration[element] = calibration`:
the object given is stored itself, in the dict object the laser already has -/
def Heap.storeCal (h : Heap) (dictId : Nat) (n : Name) (cal : Option Nat) : Heap :=
  let r : Nat × Heap := match cal with
    | none => h.allocCal 0
    | some k => (k, h)
  { r.2 with dicts := r.2.dicts.set dictId (dictSet (r.2.dict dictId) n r.1) }

/-- `add(element, data, calibration)`; `xs`: shape and cell of the caller's array per layer, `cal`: the
identity of the caller's `Calibration` or `None` -/
def hAdd (w : World) (n : Name) (xs : List ArrIn) (cal : Option Nat) : Res World :=
  if xs.length ≠ w.laser.data.length then .fail .assertion w
  else
    match hAddLayers n w.laser.data xs w.heap with
    | .error (e, ls, h) => .fail e { heap := h, laser := { w.laser with data := ls } }
    | .ok (ls, h) => .ok { heap := h.storeCal w.laser.cal n cal, laser := { w.laser with data := ls } }

def hDropLayers (ns : List Name) : List Arr → Heap → List Arr × Heap
  | [], h => ([], h)
  | a :: as, h =>
    let r := h.copyArr (a.drop ns)
    let t := hDropLayers ns as r.2
    (r.1 :: t.1, t.2)

def hRemove (w : World) (ns : List Name) : Res World :=
  let r := hDropLayers ns w.laser.data w.heap
  let p := popAllE (r.2.dict w.laser.cal) ns
  let w' : World := { heap := { r.2 with dicts := r.2.dicts.set w.laser.cal p.1 },
                      laser := { w.laser with data := r.1 } }
  match p.2 with
  | none => .ok w'
  | some e => .fail e w'

def hRename (w : World) (m : NameMap) : Res World :=
  match renameLayersE m w.laser.data with
  | .error (e, ls) => .fail e { w with laser := { w.laser with data := ls } }
  | .ok ls =>
    let r := w.heap.allocDict (rebuildDict (w.heap.dict w.laser.cal) m)
    .ok { heap := r.2, laser := { w.laser with data := ls, cal := r.1 } }

/-- an opaque token for "content `d` calibrated by calibration content `c`" -/
def calTok (d c : Nat) : Nat := (d + c) * (d + c + 1) / 2 + c

/-- what `get` returns: the memory cells the returned array occupies (field by field; one entry for a
single element) and what it holds -/
structure RRes where
  cells : List (Name × Nat)
  items : ReadOut
  deriving Repr, DecidableEq

/-- `for name in data.dtype.names: data[name] = self.calibration[name].calibrate(data[name])` on the copy:
writes into the cells of the copy (an identity calibration assigns the column to itself) -/
def calibrateCells (d : IdDict) : List (Name × Nat) → Heap → Except Err (ReadOut × Heap)
  | [], h => .ok ([], h)
  | e :: r, h =>
    match get? d e.1 with
    | none => .error .key
    | some k =>
      let c := h.calOf k
      let v := h.cell e.2
      let h1 : Heap := if c = 0 then h else { h with cells := h.cells.set e.2 (calTok v c) }
      match calibrateCells d r h1 with
      | .ok (out, h2) => .ok ((e.1, v, some c) :: out, h2)
      | .error x => .error x

/-- `get(element, calibrate, layer=…)` (extent trimming takes a sub-view of whatever array is at hand and
changes nothing here) -/
def hGet (w : World) (layer : Nat) (t : Option Name) (calibrate : Bool) : Except Err (RRes × Heap) :=
  match w.laser.data[layer]? with
  | none => .error .index
  | some a =>
    let d := w.heap.dict w.laser.cal
    match t with
    | some n =>
      -- `Laser`: `self.data[element]`, a view; `SRRLaser`: `self.data[layer].copy()`, then `data[element]`
      let r : Arr × Heap := if w.laser.srr then w.heap.copyArr a else (a, w.heap)
      match get? r.1.fields n with
      | none => .error .value
      | some i =>
        if calibrate then
          match get? d n with
          | none => .error .key
          | some k =>
            let c := r.2.calOf k
            if c = 0 then .ok ({ cells := [(n, i)], items := [(n, r.2.cell i, some c)] }, r.2)
            else .ok ({ cells := [(n, r.2.cells.length)], items := [(n, r.2.cell i, some c)] },
                      (r.2.allocCells [calTok (r.2.cell i) c]).2)
        else .ok ({ cells := [(n, i)], items := [(n, r.2.cell i, none)] }, r.2)
    | none =>
      let r := w.heap.copyArr a
      if calibrate then
        match calibrateCells d r.1.fields r.2 with
        | .error e => .error e
        | .ok (out, h2) => .ok ({ cells := r.1.fields, items := out }, h2)
      else .ok ({ cells := r.1.fields, items := r.1.fields.map (fun e => (e.1, r.2.cell e.2, none)) }, r.2)

/-- every cell of the returned array was allocated by the call (`h`: the memory before the call) -/
def RRes.allNew (r : RRes) (h : Heap) : Prop := ∀ e ∈ r.cells, h.cells.length ≤ e.2

/-- when `get` hands out stored memory: a single element of a `Laser` (not an `SRRLaser`), read
uncalibrated or calibrated by an identity calibration -/
def returnsView (w : World) (t : Option Name) (calibrate : Bool) : Prop :=
  w.laser.srr = false ∧ ∃ n, t = some n ∧
    (calibrate = false ∨ ∃ k, get? (w.heap.dict w.laser.cal) n = some k ∧ w.heap.calOf k = 0)

inductive HOp
  | add (n : Name) (xs : List ArrIn) (cal : Option Nat)
  | remove (ns : List Name)
  | rename (m : NameMap)
  | get (layer : Nat) (t : Option Name) (calibrate : Bool)
  /-- a holder of `Calibration` object `k` changes it (attributes, or its arrays in place) -/
  | setCal (k : Nat) (c : Nat)
  /-- a holder of config object `k` assigns its scalar attributes -/
  | setCfg (k : Nat) (c : Nat)
  /-- `cfg.subpixel_offsets = …` on config `k`: a new offsets array is bound -/
  | setOffsets (k : Nat) (c : Nat)
  /-- an in-place write into offsets array `o` -/
  | writeOffsets (o : Nat) (c : Nat)
  /-- a holder of dict object `k` deletes / inserts keys -/
  | setDict (k : Nat) (d : IdDict)
  /-- an in-place write into memory cell `i` — through an array the caller holds or through a returned view -/
  | writeCell (i : Nat) (c : Nat)
  deriving Repr, DecidableEq

def hstep (w : World) : HOp → Res World
  | .add n xs cal => hAdd w n xs cal
  | .remove ns => hRemove w ns
  | .rename m => hRename w m
  | .get layer t c =>
    match hGet w layer t c with
    | .ok (_, h) => .ok { w with heap := h }
    | .error e => .fail e w
  | .setCal k c => .ok { w with heap := { w.heap with cals := w.heap.cals.set k c } }
  | .setCfg k c => .ok { w with heap := { w.heap with cfgs := w.heap.cfgs.set k { w.heap.cfgOf k with scal := c } } }
  | .setOffsets k c =>
    let o := w.heap.allocOffs c
    .ok { w with heap := { o.2 with cfgs := o.2.cfgs.set k { o.2.cfgOf k with offs := some o.1 } } }
  | .writeOffsets o c => .ok { w with heap := { w.heap with offs := w.heap.offs.set o c } }
  | .setDict k d => .ok { w with heap := { w.heap with dicts := w.heap.dicts.set k d } }
  | .writeCell i c => .ok { w with heap := { w.heap with cells := w.heap.cells.set i c } }

/-- a history of successful calls -/
def hrun (w : World) : List HOp → Option World
  | [] => some w
  | op :: ops =>
    match hstep w op with
    | .ok w' => hrun w' ops
    | .fail _ _ => none

/-- the content-level operation an object-level call stands for, given the memory at the time of the call;
edits of objects by their holders have no counterpart (`callerEdit`, which does nothing) -/
def absOp (h : Heap) : HOp → Op
  | .add n xs cal => .add n (xs.map (fun x => (x.1, h.cell x.2))) ((cal.map h.calOf).getD 0)
  | .remove ns => .remove ns
  | .rename m => .rename m
  | .get layer t c => .get layer t c
  | _ => .callerEdit

/-- the calls on the laser (as opposed to edits of objects by whoever holds them) -/
def HOp.isCall : HOp → Bool
  | .add .. => true
  | .remove .. => true
  | .rename .. => true
  | .get .. => true
  | _ => false

/-- the references the laser holds point at existing objects -/
def Valid (w : World) : Prop :=
  w.laser.cal < w.heap.dicts.length ∧ (∀ e ∈ w.heap.dict w.laser.cal, e.2 < w.heap.cals.length) ∧
  w.laser.cfg < w.heap.cfgs.length ∧ (∀ a ∈ w.laser.data, ∀ e ∈ a.fields, e.2 < w.heap.cells.length)

/-- the arguments of a call are existing objects -/
def ArgsOK (h : Heap) : HOp → Prop
  | .add _ xs cal => (∀ x ∈ xs, x.2 < h.cells.length) ∧ (∀ k, cal = some k → k < h.cals.length)
  | _ => True

/-- objects somebody else holds: Calibration, dict and config objects by identity -/
structure Foreign where
  cals : List Nat
  dicts : List Nat
  cfgs : List Nat
  deriving Repr, DecidableEq

/-- the laser references none of the foreign objects (and they exist) -/
def Sep (F : Foreign) (w : World) : Prop :=
  (∀ k ∈ F.cals, k < w.heap.cals.length) ∧ (∀ k ∈ F.dicts, k < w.heap.dicts.length) ∧
  (∀ k ∈ F.cfgs, k < w.heap.cfgs.length) ∧
  w.laser.cal ∉ F.dicts ∧ (∀ e ∈ w.heap.dict w.laser.cal, e.2 ∉ F.cals) ∧ w.laser.cfg ∉ F.cfgs

/-- the calls of a history in which the holders of the foreign objects edit them at will, the laser is
used through its methods, and no foreign `Calibration` is handed to `add` -/
def Allowed (F : Foreign) (h : Heap) : HOp → Prop
  | .add _ xs cal => (∀ x ∈ xs, x.2 < h.cells.length) ∧ (∀ k, cal = some k → k < h.cals.length ∧ k ∉ F.cals)
  | .remove _ => True
  | .rename _ => True
  | .get _ _ _ => True
  | .setCal k _ => k ∈ F.cals
  | .setCfg k _ => k ∈ F.cfgs
  | .setOffsets k _ => k ∈ F.cfgs
  | .writeOffsets _ _ => True
  | .setDict k _ => k ∈ F.dicts
  | .writeCell _ _ => False

instance (w : World) : Decidable (Valid w) := by unfold Valid; infer_instance
instance (F : Foreign) (w : World) : Decidable (Sep F w) := by unfold Sep; infer_instance


/-! ## several lasers in one memory

A program holds more than one laser and may build them from the *same* arguments: the same Python list of layers,
the same structured array, the same calibration dict, the same config object (two SRR configurations of one
acquisition; a laser and the one loaded back from the file it was saved to).  Every laser must go on agreeing with
its own dictionary, whatever is done to the others.  The level below puts any number of lasers on one `Heap` and
adds the one kind of object the one-laser level had no identity for: the Python *list* an `SRRLaser` keeps its
layers in.  As read from the code:

* `SRRLaser.__init__`: `self.data = list(data)` — a NEW list object holding the entries of the argument (the
  caller's list, or the stacked array handed over by the loader); `Laser.__init__`: `self.data = data`;
* `SRRLaser.add` / `remove` / `rename`: `self.data[i] = …` — the entries of the laser's own list object are
  assigned in place; `Laser.add` / `remove` / `rename`: `self.data = …` — the attribute is rebound;
* everything else (dict, `Calibration`, config objects, memory cells) is as on the one-laser level: a method of
  laser `i` is `hstep` on the world consisting of the common memory and laser `i`'s references.
-/

/-- what the attribute `data` of a laser is bound to: for `Laser` the structured array itself (a one-element list
here, as in `Obj`); for `SRRLaser` a Python list object, by identity (its position in `MWorld.lists`) -/
inductive DataRef
  | own (ls : List Arr)
  | list (k : Nat)
  deriving Repr, DecidableEq

/-- a laser object: references only -/
structure MObj where
  srr : Bool
  data : DataRef
  cal : Nat
  cfg : Nat
  deriving Repr, DecidableEq

structure MWorld where
  heap : Heap
  /-- Python list objects holding layers: identity = position; nothing is freed -/
  lists : List (List Arr)
  lasers : List MObj
  deriving Repr, DecidableEq

def MWorld.listOf (m : MWorld) (k : Nat) : List Arr := (m.lists[k]?).getD []

/-- the layers a `data` reference stands for now -/
def DataRef.layers (m : MWorld) : DataRef → List Arr
  | .own ls => ls
  | .list k => m.listOf k

/-- laser `o` of `m` as a one-laser world of the object level -/
def MWorld.world (m : MWorld) (o : MObj) : World :=
  { heap := m.heap, laser := { srr := o.srr, data := o.data.layers m, cal := o.cal, cfg := o.cfg } }

/-- what laser `i` stores, as contents -/
def mview (m : MWorld) (i : Nat) : Option State := (m.lasers[i]?).map (fun o => view (m.world o))

/-- after a method of laser `i` (`o`) has run and left the one-laser world `w`: the memory is `w`'s; the laser's
`calibration` / `config` attributes are what the method left; `Laser` has rebound `data`, `SRRLaser` has assigned
the entries of its own list object -/
def MWorld.put (m : MWorld) (i : Nat) (o : MObj) (w : World) : MWorld :=
  match o.data with
  | .own _ =>
    { heap := w.heap, lists := m.lists,
      lasers := m.lasers.set i { o with data := .own w.laser.data, cal := w.laser.cal, cfg := w.laser.cfg } }
  | .list k =>
    { heap := w.heap, lists := m.lists.set k w.laser.data,
      lasers := m.lasers.set i { o with cal := w.laser.cal, cfg := w.laser.cfg } }

/-- a newly built laser joins the others.  `SRRLaser.__init__` stores `list(data)`: a new list object with the
entries of its argument; `Laser.__init__` binds the array it is given -/
def MWorld.push (m : MWorld) (w : World) : MWorld :=
  if w.laser.srr then
    { heap := w.heap, lists := m.lists ++ [w.laser.data],
      lasers := m.lasers ++ [{ srr := true, data := .list m.lists.length, cal := w.laser.cal, cfg := w.laser.cfg }] }
  else
    { heap := w.heap, lists := m.lists,
      lasers := m.lasers ++ [{ srr := false, data := .own w.laser.data, cal := w.laser.cal, cfg := w.laser.cfg }] }

/-- `Laser(data, calibration, config)` / `SRRLaser(data, calibration, config)` next to the lasers that exist;
`data`: the caller's array (`.own [a]`), the caller's list object (`.list k`) or any other sequence of layers
(`.own ls`, e.g. the loader's stacked array); `given`, `config`: identities of the caller's dict and config -/
def mConstruct (m : MWorld) (srr : Bool) (data : DataRef) (given config : Option Nat) : Option MWorld :=
  (hConstruct m.heap srr (data.layers m) given config).map m.push

/-- `npz.load(npz.save(lasers[i]))`: a further laser; the saved one lives on -/
def mLoad (m : MWorld) (i : Nat) : Option MWorld :=
  match m.lasers[i]? with
  | none => none
  | some o => (hRoundTrip (m.world o)).map m.push

/-- an edit of an object by whoever holds it (`setCal` … `writeCell`): memory only, no laser is named -/
def Heap.edit (h : Heap) : HOp → Heap
  | .setCal k c => { h with cals := h.cals.set k c }
  | .setCfg k c => { h with cfgs := h.cfgs.set k { h.cfgOf k with scal := c } }
  | .setOffsets k c =>
    let o := h.allocOffs c
    { o.2 with cfgs := o.2.cfgs.set k { o.2.cfgOf k with offs := some o.1 } }
  | .writeOffsets o c => { h with offs := h.offs.set o c }
  | .setDict k d => { h with dicts := h.dicts.set k d }
  | .writeCell i c => { h with cells := h.cells.set i c }
  | _ => h

inductive MOp
  /-- a method of laser `i` -/
  | call (i : Nat) (op : HOp)
  /-- the holder of a `Calibration`, dict, config, offsets array or array edits it -/
  | edit (op : HOp)
  /-- the holder of list object `k` assigns, appends or deletes entries -/
  | setList (k : Nat) (l : List Arr)
  | construct (srr : Bool) (data : DataRef) (given config : Option Nat)
  | load (i : Nat)
  deriving Repr, DecidableEq

def mstep (m : MWorld) : MOp → Res MWorld
  | .call i op =>
    match m.lasers[i]? with
    | none => .fail .index m
    | some o => (hstep (m.world o) op).map (m.put i o)
  | .edit op => .ok { m with heap := m.heap.edit op }
  | .setList k l => .ok { m with lists := m.lists.set k l }
  | .construct srr data given config =>
    match mConstruct m srr data given config with
    | some m' => .ok m'
    | none => .fail .assertion m
  | .load i =>
    match mLoad m i with
    | some m' => .ok m'
    | none => .fail .index m

/-- a history in which everything succeeds -/
def mrun (m : MWorld) : List MOp → Option MWorld
  | [] => some m
  | op :: ops =>
    match mstep m op with
    | .ok m' => mrun m' ops
    | .fail _ _ => none

/-- two `data` references are not one list object -/
def DataRef.apart : DataRef → DataRef → Prop
  | .list k, .list k' => k ≠ k'
  | _, _ => True

instance (a b : DataRef) : Decidable (a.apart b) := by
  cases a <;> cases b <;> simp only [DataRef.apart] <;> infer_instance

def DataRef.below (n : Nat) : DataRef → Prop
  | .list k => k < n
  | .own _ => True

instance (n : Nat) (a : DataRef) : Decidable (a.below n) := by
  cases a <;> simp only [DataRef.below] <;> infer_instance

/-- every laser's references point at existing objects, and no two lasers have their calibration dict or their
list of layers in common -/
def MValid (m : MWorld) : Prop :=
  (∀ o ∈ m.lasers, Valid (m.world o)) ∧ (∀ o ∈ m.lasers, o.data.below m.lists.length) ∧
  m.lasers.Pairwise (fun a b => a.cal ≠ b.cal ∧ a.data.apart b.data)

instance (m : MWorld) : Decidable (MValid m) := by unfold MValid; infer_instance

/-- no laser references one of the foreign objects `F`, nor keeps its layers in one of the foreign lists `L` -/
def MSep (F : Foreign) (L : List Nat) (m : MWorld) : Prop :=
  (∀ o ∈ m.lasers, Sep F (m.world o)) ∧ (∀ k ∈ L, k < m.lists.length) ∧
  (∀ o ∈ m.lasers, ∀ k ∈ L, o.data ≠ .list k)

instance (F : Foreign) (L : List Nat) (m : MWorld) : Decidable (MSep F L m) := by unfold MSep; infer_instance

/-- the steps of a history over several lasers: methods of any of them (arguments as in `Allowed`), edits of the
foreign objects by their holders, edits of the foreign lists -/
def MAllowed (F : Foreign) (L : List Nat) (h : Heap) : MOp → Prop
  | .call _ op => op.isCall = true ∧ Allowed F h op
  | .edit op => op.isCall = false ∧ Allowed F h op
  | .setList k _ => k ∈ L
  | .construct .. => False
  | .load _ => False

/-- the history of laser `j` inside a history over several lasers: its own calls; everything else does nothing -/
def projOp (h : Heap) (j : Nat) : MOp → Op
  | .call i op => if i = j then absOp h op else .callerEdit
  | _ => .callerEdit

end Pew.LaserEdit
