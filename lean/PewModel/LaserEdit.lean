/-!
# C07 — laser edit histories (`pewlib.laser.Laser`, `pewlib.srr.srr.SRRLaser`, `pewlib.io.npz.load`)

Mechanism (shaped like the code): a laser is a list of layers (exactly one for `Laser`, two or more
for `SRRLaser`), every layer a structured array = its shape and an *ordered* field list
`(name, dataId)`, plus an *insertion-ordered* calibration dict `name → calId` and a configuration.
`add` builds a new structured array per layer (`np.empty` rejects a duplicate field name) and sets
`calibration[element]`; `remove` is `rfn.drop_fields` per layer followed by one `dict.pop` per name
in turn (`KeyError` when absent); `rename` is `rfn.rename_fields` per layer (`names.get(name, name)`
on every field, the `view` rejects duplicate names) followed by the dict comprehension
`{names.get(name, name): cal for name, cal in calibration.items()}`; `get` reads.

Specification: a plain dictionary `name → (per-layer dataIds, calId)` with append / filter /
key substitution.

`dataId`, `calId`, `cfg` are opaque identities: the harness fills every array with a unique constant
and gives every calibration a unique gradient, so that they are observable on the real objects.
`calId = 0` is the default `Calibration()`.
-/
namespace Pew.LaserEdit

abbrev Name := String
/-- ordered fields of a structured array: `(name, dataId)` -/
abbrev Fields := List (Name × Nat)
/-- insertion-ordered Python dict `name → calId` -/
abbrev Dict := List (Name × Nat)
/-- the `names` argument of `rename`: Python dict `old → new` -/
abbrev NameMap := List (Name × Name)

def keys {β : Type} (l : List (Name × β)) : List Name := l.map (·.1)

/-- first value stored under `n` (`d[n]`, `data[n]`) -/
def get? {β : Type} : List (Name × β) → Name → Option β
  | [], _ => none
  | e :: r, n => if e.1 = n then some e.2 else get? r n

/-! ## Python dict primitives on the insertion-ordered representation -/

/-- `d[k] = v`: an existing key keeps its position, a new key is appended -/
def dictSet (d : Dict) (k : Name) (v : Nat) : Dict :=
  if k ∈ keys d then d.map (fun e => if e.1 = k then (k, v) else e) else d ++ [(k, v)]

/-- `d.pop(k)` (the popped value is discarded by the callers); `none` = `KeyError` -/
def dictPop (d : Dict) (k : Name) : Option Dict :=
  if k ∈ keys d then some (d.filter (fun e => decide (e.1 ≠ k))) else none

/-- `for name in names: d.pop(name)` -/
def popAll (d : Dict) : List Name → Option Dict
  | [] => some d
  | n :: ns =>
    match dictPop d n with
    | none => none
    | some d' => popAll d' ns

/-- `names.get(name, name)` -/
def sub (m : NameMap) (n : Name) : Name := (get? m n).getD n

/-- `{names.get(name, name): cal for name, cal in d.items()}` -/
def rebuildDict (d : Dict) (m : NameMap) : Dict :=
  d.foldl (fun acc e => dictSet acc (sub m e.1) e.2) []

/-! ## state -/

structure Layer where
  shape : List Nat
  fields : Fields
  deriving Repr, DecidableEq

structure State where
  /-- `SRRLaser` (data is a list of layers) or `Laser` (data is one array) -/
  srr : Bool
  layers : List Layer
  cal : Dict
  cfg : Nat
  deriving Repr, DecidableEq

/-- `data.dtype.names` / `data[0].dtype.names` -/
def elementsOf : List Layer → List Name
  | [] => []
  | l :: _ => keys l.fields

def State.elements (s : State) : List Name := elementsOf s.layers

def shapeAt (ls : List (List Nat)) (i : Nat) : Nat := ((ls[i]?).getD []).headD 0

/-- `Laser.shape = data.shape`; `SRRLaser.shape = (data[0].shape[0], data[1].shape[0], len(data))` -/
def shapeOf (srr : Bool) (shapes : List (List Nat)) : List Nat :=
  if srr then [shapeAt shapes 0, shapeAt shapes 1, shapes.length]
  else (shapes.head?).getD []

def State.shape (s : State) : List Nat := shapeOf s.srr (s.layers.map (·.shape))

/-! ## constructors -/

/-- `{name: Calibration() for name in elements}` then `.update(deepcopy(calibration))`.
The stored dict holds *copies*: nothing the caller does to its own objects afterwards is visible
in the state (the model has no reference from the state back to the caller's objects). -/
def initCal (elements : List Name) (given : Option Dict) : Dict :=
  let d0 := elements.foldl (fun acc n => dictSet acc n 0) []
  match given with
  | none => d0
  | some g => g.foldl (fun acc e => dictSet acc e.1 e.2) d0

def mkState (srr : Bool) (layers : List Layer) (given : Option Dict) (cfg : Nat) : State :=
  let s0 : State := { srr := srr, layers := layers, cal := [], cfg := cfg }
  { s0 with cal := initCal s0.elements given }

/-- `Laser(data, calibration, config)` -/
def constructLaser (l : Layer) (given : Option Dict) (cfg : Nat) : State :=
  mkState false [l] given cfg

/-- `SRRLaser(data, calibration, config)`: `assert len(data) > 1`, `self.data = list(data)` -/
def constructSRR (ls : List Layer) (given : Option Dict) (cfg : Nat) : Option State :=
  if ls.length > 1 then some (mkState true ls given cfg) else none

/-- `npz.load(npz.save(laser))`: the stored array (the stack of layers for SRR) is handed to the
constructor, together with the unpacked calibration dict and the re-read configuration -/
def roundTrip (s : State) : Option State :=
  if s.srr then constructSRR s.layers (some s.cal) s.cfg
  else
    match s.layers with
    | [l] => some (constructLaser l (some s.cal) s.cfg)
    | _ => none

/-! ## operations -/

/-- one layer of `add`: `np.empty(shape, dtype.descr + [(element, ..)])` raises on a duplicate name -/
def Layer.add (l : Layer) (n : Name) (d : Nat) : Option Layer :=
  if n ∈ keys l.fields then none else some { l with fields := l.fields ++ [(n, d)] }

/-- the loop over layers; `assert len(data) == len(self.data)` -/
def addLayers (n : Name) : List Layer → List Nat → Option (List Layer)
  | [], [] => some []
  | l :: ls, d :: ds =>
    match l.add n d, addLayers n ls ds with
    | some l', some r => some (l' :: r)
    | _, _ => none
  | _, _ => none

def add (s : State) (n : Name) (ds : List Nat) (c : Nat) : Option State :=
  match addLayers n s.layers ds with
  | none => none
  | some ls => some { s with layers := ls, cal := dictSet s.cal n c }

/-- `rfn.drop_fields(data, names, usemask=False)`: absent names are ignored -/
def Layer.drop (l : Layer) (ns : List Name) : Layer :=
  { l with fields := l.fields.filter (fun e => decide (e.1 ∉ ns)) }

def remove (s : State) (ns : List Name) : Option State :=
  match popAll s.cal ns with
  | none => none
  | some cal => some { s with layers := s.layers.map (·.drop ns), cal := cal }

/-- `rfn.rename_fields(data, names)`: every field name goes through `names.get(name, name)` at
once; `base.view(newdtype)` raises `ValueError` when two fields get the same name -/
def Layer.rename (l : Layer) (m : NameMap) : Option Layer :=
  let f := l.fields.map (fun e => (sub m e.1, e.2))
  if (keys f).Nodup then some { l with fields := f } else none

def renameLayers (m : NameMap) : List Layer → Option (List Layer)
  | [] => some []
  | l :: ls =>
    match l.rename m, renameLayers m ls with
    | some l', some r => some (l' :: r)
    | _, _ => none

def rename (s : State) (m : NameMap) : Option State :=
  match renameLayers m s.layers with
  | none => none
  | some ls => some { s with layers := ls, cal := rebuildDict s.cal m }

/-- what a read returns, per field: name, which data, which calibration was applied (if any) -/
abbrev ReadOut := List (Name × Nat × Option Nat)

def calibrateAll (cal : Dict) : Fields → Option ReadOut
  | [] => some []
  | e :: r =>
    match get? cal e.1, calibrateAll cal r with
    | some c, some out => some ((e.1, e.2, some c) :: out)
    | _, _ => none

/-- `get(element, calibrate)` on one layer (`layer=` for SRR; the only layer for `Laser`):
`data[element]` / `data.copy()`, then `calibration[name].calibrate(..)`; `none` = raises -/
def readLayer (cal : Dict) (l : Layer) (t : Option Name) (calibrate : Bool) : Option ReadOut :=
  match t with
  | some n =>
    match get? l.fields n with
    | none => none
    | some d =>
      if calibrate then
        match get? cal n with
        | none => none
        | some c => some [(n, d, some c)]
      else some [(n, d, none)]
  | none =>
    if calibrate then calibrateAll cal l.fields
    else some (l.fields.map (fun e => (e.1, e.2, none)))

def read (s : State) (layer : Nat) (t : Option Name) (calibrate : Bool) : Option ReadOut :=
  match s.layers[layer]? with
  | none => none
  | some l => readLayer s.cal l t calibrate

inductive Op
  | add (n : Name) (ds : List Nat) (c : Nat)
  | remove (ns : List Name)
  | rename (m : NameMap)
  | get (layer : Nat) (t : Option Name) (calibrate : Bool)
  /-- the caller edits the calibration dict / calibration objects / config object it passed to the
  constructor: the state holds copies, so nothing happens -/
  | callerEdit
  deriving Repr, DecidableEq

def step (s : State) : Op → Option State
  | .add n ds c => add s n ds c
  | .remove ns => remove s ns
  | .rename m => rename s m
  | .get layer t c => if (read s layer t c).isSome then some s else none
  | .callerEdit => some s

def run (s : State) : List Op → Option State
  | [] => some s
  | op :: ops =>
    match step s op with
    | none => none
    | some s' => run s' ops

/-! ## specification: a plain dictionary -/

/-- per-layer data identities and the calibration identity of one element -/
abbrev Entry := List Nat × Nat

structure Spec where
  srr : Bool
  shapes : List (List Nat)
  map : List (Name × Entry)
  cfg : Nat
  deriving Repr, DecidableEq

namespace Spec

def shape (a : Spec) : List Nat := shapeOf a.srr a.shapes

/-- a new name with its data and calibration -/
def add (a : Spec) (n : Name) (ds : List Nat) (c : Nat) : Option Spec :=
  if n ∉ keys a.map ∧ ds.length = a.shapes.length then some { a with map := a.map ++ [(n, (ds, c))] }
  else none

/-- distinct present names disappear, everything else stays -/
def remove (a : Spec) (ns : List Name) : Option Spec :=
  if ns.Nodup ∧ ∀ n ∈ ns, n ∈ keys a.map then
    some { a with map := a.map.filter (fun e => decide (e.1 ∉ ns)) }
  else none

/-- simultaneous substitution of the keys; every entry keeps its value.  Allowed when no two
present names end up with the same name. -/
def rename (a : Spec) (m : NameMap) : Option Spec :=
  let mp := a.map.map (fun e => (sub m e.1, e.2))
  if (keys mp).Nodup then some { a with map := mp } else none

def readAll (layer : Nat) (calibrate : Bool) : List (Name × Entry) → Option ReadOut
  | [] => some []
  | e :: r =>
    match e.2.1[layer]?, readAll layer calibrate r with
    | some d, some out => some ((e.1, d, if calibrate then some e.2.2 else none) :: out)
    | _, _ => none

/-- a read returns the stored data of the element(s); a calibrated read names each element's own
calibration -/
def read (a : Spec) (layer : Nat) (t : Option Name) (calibrate : Bool) : Option ReadOut :=
  if layer < a.shapes.length then
    match t with
    | some n =>
      match get? a.map n with
      | none => none
      | some e =>
        match e.1[layer]? with
        | none => none
        | some d => some [(n, d, if calibrate then some e.2 else none)]
    | none => readAll layer calibrate a.map
  else none

def step (a : Spec) : Op → Option Spec
  | .add n ds c => a.add n ds c
  | .remove ns => a.remove ns
  | .rename m => a.rename m
  | .get layer t c => if (a.read layer t c).isSome then some a else none
  | .callerEdit => some a

def run (a : Spec) : List Op → Option Spec
  | [] => some a
  | op :: ops =>
    match step a op with
    | none => none
    | some a' => run a' ops

/-- the dictionary a freshly constructed laser stands for: every element of the (first layer's)
field list with its data in every layer and the calibration given for it, else the default (0) -/
def construct (srr : Bool) (layers : List Layer) (given : Option Dict) (cfg : Nat) : Spec :=
  let fs := match layers with
    | [] => []
    | l :: _ => l.fields
  { srr := srr, shapes := layers.map (·.shape), cfg := cfg,
    map := fs.map (fun e =>
      (e.1, (layers.map (fun l => (get? l.fields e.1).getD 0),
             ((given.bind (fun g => get? g e.1)).getD 0)))) }

end Spec

/-! ## abstraction -/

/-- the data identities stored under `n`, layer by layer -/
def dataIn (ls : List Layer) (n : Name) : List Nat := ls.map (fun l => (get? l.fields n).getD 0)

def calIn (d : Dict) (n : Name) : Nat := (get? d n).getD 0

/-- the dictionary a state stands for: every element (field name of the first layer) with the data
stored under that name in every layer and the calibration stored under that name -/
def abs (s : State) : Spec :=
  { srr := s.srr, shapes := s.layers.map (·.shape), cfg := s.cfg,
    map := s.elements.map (fun n => (n, (dataIn s.layers n, calIn s.cal n))) }

/-- what the dictionary view of the laser holds under `n` -/
def entry (s : State) (n : Name) : Option Entry := get? (abs s).map n

/-- well-formedness: at least one layer, all layers have the same field names, the names are
distinct, the calibration dict has distinct keys and they are exactly the field names -/
def Inv (s : State) : Prop :=
  s.layers ≠ [] ∧ (∀ l ∈ s.layers, keys l.fields = s.elements) ∧ s.elements.Nodup ∧
  (keys s.cal).Nodup ∧ (∀ n, n ∈ keys s.cal ↔ n ∈ s.elements)

/-- what the constructors are given as data: at least one layer, all layers with the same, distinct
field names (a structured dtype cannot have a name twice) -/
def LayersOK (ls : List Layer) : Prop :=
  ls ≠ [] ∧ (∀ l ∈ ls, keys l.fields = elementsOf ls) ∧ (elementsOf ls).Nodup

/-- the `calibration` argument: a Python dict (distinct keys) that names elements only -/
def GivenOK (ls : List Layer) (given : Option Dict) : Prop :=
  ∀ g, given = some g → (keys g).Nodup ∧ ∀ k ∈ keys g, k ∈ elementsOf ls

/-- `Laser` holds one array, `SRRLaser` at least two layers -/
def KindOK (s : State) : Prop :=
  (s.srr = true → s.layers.length > 1) ∧ (s.srr = false → s.layers.length = 1)

instance (s : State) : Decidable (KindOK s) := by unfold KindOK; infer_instance

instance (ls : List Layer) : Decidable (LayersOK ls) := by unfold LayersOK; infer_instance

instance (ls : List Layer) (given : Option Dict) : Decidable (GivenOK ls given) :=
  match given with
  | none => isTrue (fun _ h => by cases h)
  | some g =>
    decidable_of_iff ((keys g).Nodup ∧ ∀ k ∈ keys g, k ∈ elementsOf ls)
      ⟨fun h g' hg => by cases hg; exact h, fun h => h g rfl⟩

/-- operations that can change what is stored -/
def Op.changes : Op → Bool
  | .add .. => true
  | .remove .. => true
  | .rename .. => true
  | .get .. => false
  | .callerEdit => false

instance (s : State) : Decidable (Inv s) := by
  unfold Inv
  have : Decidable (∀ n, n ∈ keys s.cal ↔ n ∈ s.elements) :=
    decidable_of_iff ((∀ n ∈ keys s.cal, n ∈ s.elements) ∧ (∀ n ∈ s.elements, n ∈ keys s.cal))
      ⟨fun h n => ⟨h.1 n, h.2 n⟩, fun h => ⟨fun n => (h n).1, fun n => (h n).2⟩⟩
  infer_instance

end Pew.LaserEdit
