import Std.Data.HashSet

/-!
# C14 — colocalisation coefficients and block shuffling
(`pewlib.process.colocal`, `pewlib.process.calc.shuffle_blocks`)

Coefficients (mechanism, shaped like the code, exact `Rat`): `mean(x*y) - mean(x)*mean(y)`,
`np.std` squared, the ICQ count `(x-ux)*(y-uy) >= 0`, the Manders sums `np.sum(x, where = y > ty)`.
Pearson's r itself needs a square root; the model keeps `r²` and the sign of the numerator.
Specification: the textbook centred covariance, "deviations do not have opposite signs", the
thresholded-sum ratios.

Block shuffling (2-D; a 1-D array is the case of one row and block height 1): pad to a multiple of
the block with edge values (mode `pad`) or switch the mask off beyond the last whole block (mode
`inplace`), block view, mask reduction (`all` / `any`), the flat indices of the selected blocks,
`blocks[idx] = blocks[nidx]` where `nidx` is what `numpy.random.permutation(idx)` returned, crop.
The model is parameterised by `nidx`.  `PewModel/ColocalNd.lean` is the same mechanism for arrays of any dimension
(the code is dimension-generic); the 2-D model here is proved to be its instance on shapes `[n0, n1]`.

Memory: `shuffleCall` is `shuffle_blocks` as a call - return value plus the caller's `x` and `mask` arrays
afterwards - with the `mask = mask.copy()` statement and the per-axis trim writes explicit (`Mem`, `inplaceMask`);
the loop of `pearsonr_probablity` (`probRun`) threads the mask array and the `y.copy()` buffer through the rounds.
-/
namespace Pew.Colocal

/-! ## coefficients -/

def mean (l : List Rat) : Rat := l.sum / (l.length : Rat)

def mulL (x y : List Rat) : List Rat := List.zipWith (· * ·) x y

/-- numerator of `pearsonr`: `np.mean(x * y) - np.mean(x) * np.mean(y)` -/
def cov (x y : List Rat) : Rat := mean (mulL x y) - mean x * mean y

/-- `np.std(x) ** 2` -/
def var (x : List Rat) : Rat := mean (x.map (fun v => (v - mean x) * (v - mean x)))

/-- textbook covariance `Σ (x-mx)(y-my) / n` -/
def covCentred (x y : List Rat) : Rat :=
  mean (List.zipWith (fun a b => (a - mean x) * (b - mean y)) x y)

/-- `r²` of the code: `cov² / (std(x)² std(y)²)` -/
def pearsonSq (x y : List Rat) : Rat := cov x y * cov x y / (var x * var y)

def sgn (q : Rat) : Int := if q > 0 then 1 else if q < 0 then -1 else 0

def pearsonSign (x y : List Rat) : Int := sgn (cov x y)

/-- `np.sum((x - ux) * (y - uy) >= 0.0)` -/
def icqCount (x y : List Rat) : Nat :=
  (List.zipWith (fun a b => decide ((a - mean x) * (b - mean y) ≥ 0)) x y).count true

/-- `li_icq`: count / `x.size` - 0.5 -/
def icq (x y : List Rat) : Rat := (icqCount x y : Rat) / (x.length : Rat) - 1 / 2

def oppositeSigns (a b : Rat) : Bool :=
  (decide (a > 0) && decide (b < 0)) || (decide (a < 0) && decide (b > 0))

/-- specification of the ICQ: the fraction of pixels whose deviations do not have opposite signs -/
def icqSpec (x y : List Rat) : Rat :=
  ((List.zipWith (fun a b => !oppositeSigns (a - mean x) (b - mean y)) x y).count true : Rat)
    / (x.length : Rat) - 1 / 2

/-- `np.sum(v, where=c)` -/
def sumWhere (v : List Rat) (c : List Bool) : Rat :=
  (List.zipWith (fun a k => if k then a else 0) v c).sum

/-- `np.sum(x, where=y > ty) / x.sum()` -/
def manders1 (x y : List Rat) (ty : Rat) : Rat :=
  sumWhere x (y.map (fun b => decide (b > ty))) / x.sum

def minOf : List Rat → Rat
  | [] => 0
  | a :: l => l.foldl min a

/-- `manders(x, y, tx, ty)`; a missing threshold is the minimum of its image -/
def manders (x y : List Rat) (tx ty : Option Rat) : Rat × Rat :=
  (manders1 x y (ty.getD (minOf y)), manders1 y x (tx.getD (minOf x)))

/-- `(rs > r).sum() / n`.  With `n = 0` NumPy divides the integer `0` by `0`: the result is NaN (and a
`RuntimeWarning`), here `none`. -/
def probability (gt : List Bool) : Option Rat :=
  if gt.length = 0 then none else some ((gt.count true : Rat) / (gt.length : Rat))

/-! ## block shuffling -/

structure Img (α : Type) where
  n0 : Nat
  n1 : Nat
  get : Nat → Nat → α

/-- extent after `np.pad(..., (0, (b - s % b) % b))` -/
def padExt (s b : Nat) : Nat := s + (b - s % b) % b

/-- index of the source pixel of an edge-padded position -/
def edge (s i : Nat) : Nat := min i (s - 1)

/-- the working array and mask after the mode-specific preparation -/
structure Prep (α : Type) where
  N0 : Nat
  N1 : Nat
  X : Nat → Nat → α
  M : Nat → Nat → Bool

def prepare {α} (x : Img α) (mask : Nat → Nat → Bool) (b0 b1 : Nat) (padMode : Bool) : Prep α :=
  if padMode then
    { N0 := padExt x.n0 b0, N1 := padExt x.n1 b1,
      X := fun i j => x.get (edge x.n0 i) (edge x.n1 j),
      M := fun i j => mask (edge x.n0 i) (edge x.n1 j) }
  else
    { N0 := x.n0, N1 := x.n1, X := x.get,
      M := fun i j => mask i j && decide (i < x.n0 - x.n0 % b0) && decide (j < x.n1 - x.n1 % b1) }

/-- the values of the mask inside block `(B0, B1)`, row-major -/
def blockCells (M : Nat → Nat → Bool) (b0 b1 B0 B1 : Nat) : List Bool :=
  (List.range b0).flatMap (fun o0 => (List.range b1).map (fun o1 => M (B0 * b0 + o0) (B1 * b1 + o1)))

/-- `np.any` / `np.all` over the block axes -/
def blockMask (M : Nat → Nat → Bool) (b0 b1 : Nat) (part : Bool) (B0 B1 : Nat) : Bool :=
  if part then (blockCells M b0 b1 B0 B1).any id else (blockCells M b0 b1 B0 B1).all id

/-- `np.ravel_multi_index(np.nonzero(mask), mask.shape)`: flat indices of the selected blocks, ascending -/
def selected (M : Nat → Nat → Bool) (b0 b1 nb0 nb1 : Nat) (part : Bool) : List Nat :=
  (List.range (nb0 * nb1)).filter (fun f => blockMask M b0 b1 part (f / nb1) (f % nb1))

/-- `blocks[idx] = blocks[nidx]`: the block that ends up at flat block index `f` -/
def src (idx nidx : List Nat) (f : Nat) : Nat :=
  if idx.idxOf f < idx.length then nidx.getD (idx.idxOf f) f else f

/-- the source pixel of output pixel `(i, j)` in the working array -/
def phi (b0 b1 nb0 nb1 : Nat) (idx nidx : List Nat) (i j : Nat) : Nat × Nat :=
  if i / b0 < nb0 ∧ j / b1 < nb1 then
    let g := src idx nidx (i / b0 * nb1 + j / b1)
    (g / nb1 * b0 + i % b0, g % nb1 * b1 + j % b1)
  else (i, j)

/-- number of blocks along an axis: `(N - b) // b + 1` -/
def nBlocks (N b : Nat) : Nat := N / b

def shuffleBlocks {α} (x : Img α) (mask : Nat → Nat → Bool) (b0 b1 : Nat) (padMode part : Bool)
    (nidx : List Nat) : Img α :=
  let p := prepare x mask b0 b1 padMode
  let idx := selected p.M b0 b1 (nBlocks p.N0 b0) (nBlocks p.N1 b1) part
  { n0 := x.n0, n1 := x.n1,
    get := fun i j =>
      let q := phi b0 b1 (nBlocks p.N0 b0) (nBlocks p.N1 b1) idx nidx i j
      p.X q.1 q.2 }

/-- the list `idx` handed to `numpy.random.permutation` -/
def shuffleIdx {α} (x : Img α) (mask : Nat → Nat → Bool) (b0 b1 : Nat) (padMode part : Bool) : List Nat :=
  let p := prepare x mask b0 b1 padMode
  selected p.M b0 b1 (nBlocks p.N0 b0) (nBlocks p.N1 b1) part

/-- **Memory layout.**  `view_as_blocks` starts with `np.ascontiguousarray(x)`: when the working array is not
C-contiguous (a Fortran-ordered image in either mode - `np.pad` keeps Fortran order -, a strided view in in-place
mode) the block "view" is a view of a *copy*, the assignment `blocks[idx] = blocks[nidx]` is lost and the array
handed back is the unshuffled input.  `aliases` says whether the block view aliases the returned array; when it
does not, the call behaves like the identity permutation `nidx = idx`. -/
def shuffleBlocksLayout {α} (aliases : Bool) (x : Img α) (mask : Nat → Nat → Bool) (b0 b1 : Nat)
    (padMode part : Bool) (nidx : List Nat) : Img α :=
  shuffleBlocks x mask b0 b1 padMode part (if aliases then nidx else shuffleIdx x mask b0 b1 padMode part)

/-- the `aliases` flag from the memory layout of the argument, as the code determines it: in pad mode the working
array is what `np.pad` returns, which is Fortran-ordered exactly when the input is Fortran- and not C-contiguous
(`order = 'F' if array.flags.fnc else 'C'`), and C-ordered otherwise (also for strided and axis-permuted views); in
in-place mode the working array is the argument itself.  `np.ascontiguousarray` returns its argument (no copy)
exactly when it is C-contiguous. -/
def layoutAliases (padMode cContig fContig : Bool) : Bool :=
  if padMode then !(fContig && !cContig) else cContig

/-! ### who owns which array: the caller's buffers and the copies made inside

`shuffle_blocks` promises "the mask passed must not be written to" and `pearsonr_probablity` promises to leave
the images and the mask alone.  Both rest on a `.copy()` statement followed by writes *through the name*.  The
model keeps, for such an argument, the caller's array and the array made by `.copy()` apart (`Mem`), and a name
is a reference (`Ref`) to one of the two.  The flag `copies` says whether the copy statement is there: with
`copies = false` the model is the code before fix fb1e9b9. -/

/-- what a name refers to: the array the caller handed in, or the array made by `.copy()` -/
inductive Ref where
  | caller
  | copy
  deriving DecidableEq, Repr

/-- the buffers of one argument: the caller's array and, once made, its copy -/
structure Mem (β : Type) where
  caller : β
  copy : Option β := none

def Mem.read {β} (m : Mem β) : Ref → β
  | .caller => m.caller
  | .copy => m.copy.getD m.caller

/-- a write through a name lands in the array the name refers to -/
def Mem.write {β} (m : Mem β) (r : Ref) (v : β) : Mem β :=
  match r with
  | .caller => { m with caller := v }
  | .copy => { m with copy := some v }

/-- `name = name.copy()`: a new array with the same contents; the name refers to it from now on -/
def Mem.copyStmt {β} (m : Mem β) (r : Ref) : Ref × Mem β :=
  (.copy, { m with copy := some (m.read r) })

/-- the in-place branch of `shuffle_blocks` up to the block view:
`mask = mask.copy()` (when `copies`), then one write `np.swapaxes(mask, 0, axis)[slice(t, None)] = False` per
axis (`cuts`), each *through the name* `mask`.  Returns what the name refers to afterwards, and the memory. -/
def inplaceMask {μ} (copies : Bool) (cuts : List (μ → μ)) (mem : Mem μ) : Ref × Mem μ :=
  let rm := if copies then mem.copyStmt .caller else (Ref.caller, mem)
  (rm.1, cuts.foldl (fun m cut => m.write rm.1 (cut (m.read rm.1))) rm.2)

/-- `np.swapaxes(mask, 0, 0)[slice(t, None)] = False` -/
def cut0 (t : Nat) (M : Nat → Nat → Bool) : Nat → Nat → Bool := fun i j => M i j && decide (i < t)

/-- `np.swapaxes(mask, 0, 1)[slice(t, None)] = False` -/
def cut1 (t : Nat) (M : Nat → Nat → Bool) : Nat → Nat → Bool := fun i j => M i j && decide (j < t)

/-- `trim = x.shape - (np.array(x.shape) % block)`, one write per axis -/
def trimCuts (n0 n1 b0 b1 : Nat) : List ((Nat → Nat → Bool) → (Nat → Nat → Bool)) :=
  [cut0 (n0 - n0 % b0), cut1 (n1 - n1 % b1)]

/-- `shuffle_blocks` after the mode-specific preparation: block views, mask reduction, index list, the block
assignment (lost when the block view does not alias the working array), crop -/
def shuffleFromPrep {α} (p : Prep α) (n0 n1 b0 b1 : Nat) (part aliases : Bool) (nidx : List Nat) : Img α :=
  let idx := selected p.M b0 b1 (nBlocks p.N0 b0) (nBlocks p.N1 b1) part
  let nidx := if aliases then nidx else idx
  { n0 := n0, n1 := n1,
    get := fun i j =>
      let q := phi b0 b1 (nBlocks p.N0 b0) (nBlocks p.N1 b1) idx nidx i j
      p.X q.1 q.2 }

/-- what a call of `shuffle_blocks` leaves behind -/
structure Call (α : Type) where
  /-- the array handed back -/
  ret : Img α
  /-- the caller's `x` array after the call -/
  xAfter : Img α
  /-- the caller's `mask` array after the call -/
  maskAfter : Nat → Nat → Bool

/-- **`shuffle_blocks` as a call**: the return value and the state of the two argument arrays afterwards.
Pad mode: `np.pad` makes new arrays for `x` and `mask`, nothing of the caller's is written.  In-place mode:
the mask is copied (`copies`; without the copy the trim writes land in the caller's mask), the block
assignment goes through the block view into `x` itself (when the view aliases it) and `x` itself is returned. -/
def shuffleCall {α} (copies aliases : Bool) (x : Img α) (mask : Nat → Nat → Bool) (b0 b1 : Nat)
    (padMode part : Bool) (nidx : List Nat) : Call α :=
  if padMode then
    { ret := shuffleFromPrep (prepare x mask b0 b1 true) x.n0 x.n1 b0 b1 part aliases nidx,
      xAfter := x, maskAfter := mask }
  else
    let rm := inplaceMask copies (trimCuts x.n0 x.n1 b0 b1) { caller := mask }
    let p : Prep α := { N0 := x.n0, N1 := x.n1, X := x.get, M := rm.2.read rm.1 }
    let out := shuffleFromPrep p x.n0 x.n1 b0 b1 part aliases nidx
    { ret := out, xAfter := out, maskAfter := rm.2.caller }

/-! ### specification of a shuffle result, as a checkable relation between input and output -/

def pixels (n0 n1 : Nat) : List (Nat × Nat) :=
  (List.range n0).flatMap (fun i => (List.range n1).map (fun j => (i, j)))

/-- is pixel `(i, j)` inside one of the selected blocks -/
def inSelected (b0 b1 nb0 nb1 : Nat) (idx : List Nat) (i j : Nat) : Bool :=
  decide (i / b0 < nb0) && decide (j / b1 < nb1) && idx.contains (i / b0 * nb1 + j / b1)

/-- pixels outside the shuffled blocks never move -/
def specOutside (x out : Img Rat) (mask : Nat → Nat → Bool) (b0 b1 : Nat) (padMode part : Bool) : Bool :=
  let p := prepare x mask b0 b1 padMode
  let nb0 := nBlocks p.N0 b0
  let nb1 := nBlocks p.N1 b1
  let idx := selected p.M b0 b1 nb0 nb1 part
  (pixels x.n0 x.n1).all (fun q =>
    inSelected b0 b1 nb0 nb1 idx q.1 q.2 || decide (out.get q.1 q.2 = x.get q.1 q.2))

/-- every (visible part of a) selected output block equals the same part of some selected input block -/
def specBlocks (x out : Img Rat) (mask : Nat → Nat → Bool) (b0 b1 : Nat) (padMode part : Bool) : Bool :=
  let p := prepare x mask b0 b1 padMode
  let nb0 := nBlocks p.N0 b0
  let nb1 := nBlocks p.N1 b1
  let idx := selected p.M b0 b1 nb0 nb1 part
  idx.all (fun f => idx.any (fun g =>
    (pixels b0 b1).all (fun o =>
      let i := f / nb1 * b0 + o.1
      let j := f % nb1 * b1 + o.2
      !(decide (i < x.n0) && decide (j < x.n1)) ||
        decide (out.get i j = p.X (g / nb1 * b0 + o.1) (g % nb1 * b1 + o.2)))))

def sortR (l : List Rat) : List Rat := l.mergeSort (fun a b => decide (a ≤ b))

/-- pixel values are conserved (as a multiset) -/
def specConserved (x out : Img Rat) : Bool :=
  sortR ((pixels x.n0 x.n1).map (fun q => out.get q.1 q.2))
    == sortR ((pixels x.n0 x.n1).map (fun q => x.get q.1 q.2))

/-- when conservation is promised: shape a multiple of the block, or in-place mode -/
def conservedApplies {α} (x : Img α) (b0 b1 : Nat) (padMode : Bool) : Bool :=
  !padMode || (x.n0 % b0 == 0 && x.n1 % b1 == 0)

/-- specification of Manders' M1: the sum of the `x` whose partner exceeds the threshold, over the sum of all `x` -/
def mandersSpec1 (x y : List Rat) (ty : Rat) : Rat :=
  (((x.zip y).filter (fun p => decide (p.2 > ty))).map (·.1)).sum / x.sum

/-! ## the probability loop of `pearsonr_probablity`

```
r = pearsonr(x[mask], y[mask])
shuffled = y.copy()
for i in range(n):
    shuffled = shuffle_blocks(shuffled, (block, block), mask, mode="inplace", shuffle_partial=...)
    rs[i] = pearsonr(x[mask], shuffled[mask])
return r, (rs > r).sum() / n
```
The block is the 2-tuple `(block, block)`: the routine is defined for 2-D images only (anything else raises in
`shuffle_blocks`).  `x` is only ever read through `x[mask]`, which makes a new array: no statement can write to it,
so it is not part of the state.  The state threaded through the rounds is the memory of `y` (the caller's array
and `y.copy()`), what the name `shuffled` refers to, and the mask array. -/

/-- `pearsonr_probablity` hands the 2-tuple `(block, block)` to `shuffle_blocks`: with an image that is not 2-D the
first call raises (1-D: `np.swapaxes(mask, 0, 1)` has no axis 1; 3-D and more: `x.shape % block` cannot be broadcast),
so the routine raises as soon as there is at least one shuffle -/
def probRaises (shape : List Nat) (n : Nat) : Bool := shape.length != 2 && n != 0

/-- `a[mask]`: the masked pixels in row-major order -/
def masked (a : Img Rat) (mask : Nat → Nat → Bool) : List Rat :=
  (pixels a.n0 a.n1).filterMap (fun q => if mask q.1 q.2 then some (a.get q.1 q.2) else none)

/-- `shuffled = shuffle_blocks(shuffled, (b, b), mask, mode="inplace", ...)`, repeated, as pure functions: every
call gets the same mask and the previous result, and the block view always aliases (`shuffleBlocksLayout true`) -/
def shuffleSeq (y : Img Rat) (mask : Nat → Nat → Bool) (b : Nat) (part : Bool) :
    List (List Nat) → List (Img Rat)
  | [] => []
  | s :: ss =>
    let y' := shuffleBlocksLayout true y mask b b false part s
    y' :: shuffleSeq y' mask b part ss

structure LoopState where
  /-- the caller's `y` and the array made by `y.copy()` -/
  yMem : Mem (Img Rat)
  /-- what the name `shuffled` refers to -/
  sref : Ref
  /-- is that array C-contiguous / Fortran-contiguous -/
  sC : Bool
  sF : Bool
  /-- the mask array the routine holds (the caller's, or the `np.ones` it made when none was given) -/
  mask : Nat → Nat → Bool

/-- what `rs[i] = pearsonr(x[mask], shuffled[mask])` reads in round `i` -/
structure Round where
  mask : Nat → Nat → Bool
  shuffled : Img Rat

/-- `shuffled = y.copy()` (`copyY`; `ndarray.copy` has `order='C'`: the copy is C-contiguous whatever the layout
of `y`, and also Fortran-contiguous exactly when it has at most one row or one column); without the copy the name
would refer to the caller's `y` with its own layout `(yC, yF)` -/
def loopInit (copyY yC yF : Bool) (y : Img Rat) (mask : Nat → Nat → Bool) : LoopState :=
  let mem : Mem (Img Rat) := { caller := y }
  if copyY then
    let rm := mem.copyStmt .caller
    { yMem := rm.2, sref := rm.1, sC := true, sF := decide (y.n0 ≤ 1 ∨ y.n1 ≤ 1), mask := mask }
  else { yMem := mem, sref := .caller, sC := yC, sF := yF, mask := mask }

/-- one round: the call, then the name `shuffled` is bound to what the call returned - in in-place mode the
very array that was passed in - and the mask is whatever the call left of it -/
def loopStep (copies : Bool) (b : Nat) (part : Bool) (st : LoopState) (sigma : List Nat) : LoopState × Round :=
  let call := shuffleCall copies (layoutAliases false st.sC st.sF) (st.yMem.read st.sref) st.mask b b false part sigma
  let st' : LoopState := { st with yMem := st.yMem.write st.sref call.xAfter, mask := call.maskAfter }
  (st', { mask := st'.mask, shuffled := st'.yMem.read st'.sref })

def loopRun (copies : Bool) (b : Nat) (part : Bool) : LoopState → List (List Nat) → List Round × LoopState
  | st, [] => ([], st)
  | st, s :: ss =>
    let sr := loopStep copies b part st s
    let rest := loopRun copies b part sr.1 ss
    (sr.2 :: rest.1, rest.2)

structure ProbRun where
  /-- the mask `r = pearsonr(x[mask], y[mask])` is computed with -/
  maskR : Nat → Nat → Bool
  rounds : List Round
  final : LoopState

/-- the whole routine as a run.  The code as it is: `copies = true`, `copyY = true`. -/
def probRun (copies copyY yC yF : Bool) (y : Img Rat) (mask : Nat → Nat → Bool) (b : Nat) (part : Bool)
    (sigmas : List (List Nat)) : ProbRun :=
  let lr := loopRun copies b part (loopInit copyY yC yF y mask) sigmas
  { maskR := mask, rounds := lr.1, final := lr.2 }

/-- exact decision of `c₁/√w₁ > c₂/√w₂` for positive `w₁, w₂` (`c₁√w₂ > c₂√w₁`) -/
def rGt (c1 w1 c2 w2 : Rat) : Bool :=
  if c1 ≥ 0 then
    if c2 ≥ 0 then decide (c1 * c1 * w2 > c2 * c2 * w1) else true
  else
    if c2 ≥ 0 then false else decide (c1 * c1 * w2 < c2 * c2 * w1)

structure ProbStep where
  /-- number of pixels rᵢ is computed over -/
  n : Nat
  cov : Rat
  vx : Rat
  vy : Rat
  gt : Bool
  /-- the shuffled masked pixels are, position by position, the original ones (then rᵢ is r, bit for bit) -/
  same : Bool

/-- `rs[i] = pearsonr(x[mask], shuffled[mask])` and `rs[i] > r`, with the mask and the array of each round -/
def probStepsOf (x y : Img Rat) (run : ProbRun) : List ProbStep :=
  let xs := masked x run.maskR
  let ys := masked y run.maskR
  run.rounds.map (fun rd =>
    let xi := masked x rd.mask
    let yi := masked rd.shuffled rd.mask
    { n := xi.length, cov := cov xi yi, vx := var xi, vy := var yi,
      gt := rGt (cov xi yi) (var xi * var yi) (cov xs ys) (var xs * var ys),
      same := xi == xs && yi == ys })

/-- the code as it is -/
def probSteps (x y : Img Rat) (mask : Nat → Nat → Bool) (b : Nat) (part : Bool)
    (sigmas : List (List Nat)) : List ProbStep :=
  probStepsOf x y (probRun true true true true y mask b part sigmas)

/-- the probability `pearsonr_probablity` returns; `none` is NaN (`n = 0`) -/
def pearsonProbability (x y : Img Rat) (mask : Nat → Nat → Bool) (b : Nat) (part : Bool)
    (sigmas : List (List Nat)) : Option Rat :=
  probability ((probSteps x y mask b part sigmas).map (·.gt))

/-! ## large images: the same specification relations, evaluated in (quasi-)linear time

`specOutside` asks `idx.contains` for every pixel and `specBlocks` compares every selected output block with every
selected input block: quadratic in the number of blocks, fine for the small boundary-class images, hopeless for
images of ordinary laser-ablation size (a few hundred pixels a side, 10⁴..10⁶ blocks).  The definitions below decide
the *same* relations (`PewTheorems/C14.lean`: `spec_outside_fast`, `spec_blocks_fast`) in one pass over the image:

* `specOutsideFast` decides "pixel inside a selected block" from the block's mask cells instead of searching `idx`;
* `specBlocksFast` puts the (visible part of the) selected input blocks into a hash set, once for every shape of
  visible part that occurs (a block is only partly visible when pad mode has padded the image: at most four shapes),
  and looks every selected output block up;
* `specApplied` is the *certificate* form of the model comparison: block `idx[k]` of the output is block `nidx[k]` of
  the working array, for every `k`.  Together with `specOutside` it pins every pixel of the output to the model's
  `shuffleBlocks … nidx` (`applied_determines_output`), without computing the inverse index of `idx`. -/

/-- the number of rows (columns) of block `F` along an axis of extent `n` that lie inside the image -/
def visExt (n b F : Nat) : Nat := min b (n - F * b)

/-- the pixels of block `(G0, G1)` of `A` over the box `v0 × v1`, row-major -/
def blockKey (A : Nat → Nat → Rat) (b0 b1 v0 v1 G0 G1 : Nat) : List Rat :=
  (pixels v0 v1).map (fun o => A (G0 * b0 + o.1) (G1 * b1 + o.2))

/-- `specOutside`, deciding "inside a selected block" from the block's own mask cells -/
def specOutsideFast (x out : Img Rat) (mask : Nat → Nat → Bool) (b0 b1 : Nat) (padMode part : Bool) : Bool :=
  let p := prepare x mask b0 b1 padMode
  let nb0 := nBlocks p.N0 b0
  let nb1 := nBlocks p.N1 b1
  (pixels x.n0 x.n1).all (fun q =>
    (decide (q.1 / b0 < nb0) && decide (q.2 / b1 < nb1) && blockMask p.M b0 b1 part (q.1 / b0) (q.2 / b1))
      || decide (out.get q.1 q.2 = x.get q.1 q.2))

/-- `specBlocks` through a hash set of the selected input blocks (keyed by the shape of the visible part) -/
def specBlocksFast (x out : Img Rat) (mask : Nat → Nat → Bool) (b0 b1 : Nat) (padMode part : Bool) : Bool :=
  let p := prepare x mask b0 b1 padMode
  let nb0 := nBlocks p.N0 b0
  let nb1 := nBlocks p.N1 b1
  let idx := selected p.M b0 b1 nb0 nb1 part
  let vis := fun f => (visExt x.n0 b0 (f / nb1), visExt x.n1 b1 (f % nb1))
  let classes := (idx.map vis).eraseDups
  let keys := Std.HashSet.ofList (classes.flatMap (fun v =>
    idx.map (fun g => (v, blockKey p.X b0 b1 v.1 v.2 (g / nb1) (g % nb1)))))
  idx.all (fun f => keys.contains (vis f, blockKey out.get b0 b1 (vis f).1 (vis f).2 (f / nb1) (f % nb1)))

/-- the certificate: (the visible part of) output block `idx[k]` is block `nidx[k]` of the working array -/
def specApplied (x out : Img Rat) (mask : Nat → Nat → Bool) (b0 b1 : Nat) (padMode part : Bool)
    (nidx : List Nat) : Bool :=
  let p := prepare x mask b0 b1 padMode
  let nb0 := nBlocks p.N0 b0
  let nb1 := nBlocks p.N1 b1
  let idx := selected p.M b0 b1 nb0 nb1 part
  nidx.length == idx.length &&
  (idx.zip nidx).all (fun fg =>
    (pixels b0 b1).all (fun o =>
      let i := fg.1 / nb1 * b0 + o.1
      let j := fg.1 % nb1 * b1 + o.2
      !(decide (i < x.n0) && decide (j < x.n1)) ||
        decide (out.get i j = p.X (fg.2 / nb1 * b0 + o.1) (fg.2 % nb1 * b1 + o.2))))

/-- **"a permutation of whole blocks"**: the selected blocks of the output are, as a multiset of whole blocks, the selected
blocks of the working array -/
def specBlockMultiset (x out : Img Rat) (mask : Nat → Nat → Bool) (b0 b1 : Nat) (padMode part : Bool) : Bool :=
  let p := prepare x mask b0 b1 padMode
  let nb0 := nBlocks p.N0 b0
  let nb1 := nBlocks p.N1 b1
  let idx := selected p.M b0 b1 nb0 nb1 part
  (idx.map (fun f => blockKey out.get b0 b1 b0 b1 (f / nb1) (f % nb1))).isPerm
    (idx.map (fun g => blockKey p.X b0 b1 b0 b1 (g / nb1) (g % nb1)))

/-- is `nidx` a rearrangement of the ascending list `idx` (decided by sorting) -/
def isPermOfSorted (nidx idx : List Nat) : Bool :=
  nidx.mergeSort (fun a b => decide (a ≤ b)) == idx

/-- `np.std(x) ** 2` as `mean(x²) - mean(x)²` (two sums; `var` as written subtracts the mean pixel by pixel, which
for a few hundred thousand pixels means as many rational normalisations) -/
def varFast (x : List Rat) : Rat := cov x x

/-- the mean of integer pixel values (one integer sum) -/
def meanI (l : List Int) : Rat := ((l.sum : Int) : Rat) / (l.length : Rat)

/-- `cov` for integer-valued images: integer sums of the values and of their products -/
def covI (x y : List Int) : Rat := meanI (List.zipWith (· * ·) x y) - meanI x * meanI y

end Pew.Colocal
