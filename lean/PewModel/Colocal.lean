/-!
# C14 — colocalisation coefficients and block shuffling
(`pewlib.process.colocal`, `pewlib.process.calc.shuffle_blocks`)

Coefficients (mechanism, shaped like the code, exact `Rat`): `mean(x*y) - mean(x)*mean(y)`,
`np.std` squared, the ICQ count `(x-ux)*(y-uy) >= 0`, the Manders sums `np.sum(x, where = y > ty)`.
Pearson's r itself needs a square root; the model keeps `r²` and the sign of the numerator.
Specification: the textbook centred covariance, "deviations do not have opposite signs", the
thresholded-sum ratios.

Block shuffling (2-D; a 1-D array is the case of one row and block height 1): pad to a multiple of
the block with edge values (mode `pad`) or switch the mask off beyond the last whole block (mode
`inplace`), block view, mask reduction (`all` / `any`), the flat indices of the selected blocks,
`blocks[idx] = blocks[nidx]` where `nidx` is what `numpy.random.permutation(idx)` returned, crop.
The model is parameterised by `nidx`.
-/
namespace Pew.Colocal

/-! ## coefficients -/

def mean (l : List Rat) : Rat := l.sum / (l.length : Rat)

def mulL (x y : List Rat) : List Rat := List.zipWith (· * ·) x y

/-- numerator of `pearsonr`: `np.mean(x * y) - np.mean(x) * np.mean(y)` -/
def cov (x y : List Rat) : Rat := mean (mulL x y) - mean x * mean y

/-- `np.std(x) ** 2` -/
def var (x : List Rat) : Rat := mean (x.map (fun v => (v - mean x) * (v - mean x)))

/-- textbook covariance `Σ (x-mx)(y-my) / n` -/
def covCentred (x y : List Rat) : Rat :=
  mean (List.zipWith (fun a b => (a - mean x) * (b - mean y)) x y)

/-- `r²` of the code: `cov² / (std(x)² std(y)²)` -/
def pearsonSq (x y : List Rat) : Rat := cov x y * cov x y / (var x * var y)

def sgn (q : Rat) : Int := if q > 0 then 1 else if q < 0 then -1 else 0

def pearsonSign (x y : List Rat) : Int := sgn (cov x y)

/-- `np.sum((x - ux) * (y - uy) >= 0.0)` -/
def icqCount (x y : List Rat) : Nat :=
  (List.zipWith (fun a b => decide ((a - mean x) * (b - mean y) ≥ 0)) x y).count true

/-- `li_icq`: count / `x.size` - 0.5 -/
def icq (x y : List Rat) : Rat := (icqCount x y : Rat) / (x.length : Rat) - 1 / 2

def oppositeSigns (a b : Rat) : Bool :=
  (decide (a > 0) && decide (b < 0)) || (decide (a < 0) && decide (b > 0))

/-- specification of the ICQ: the fraction of pixels whose deviations do not have opposite signs -/
def icqSpec (x y : List Rat) : Rat :=
  ((List.zipWith (fun a b => !oppositeSigns (a - mean x) (b - mean y)) x y).count true : Rat)
    / (x.length : Rat) - 1 / 2

/-- `np.sum(v, where=c)` -/
def sumWhere (v : List Rat) (c : List Bool) : Rat :=
  (List.zipWith (fun a k => if k then a else 0) v c).sum

/-- `np.sum(x, where=y > ty) / x.sum()` -/
def manders1 (x y : List Rat) (ty : Rat) : Rat :=
  sumWhere x (y.map (fun b => decide (b > ty))) / x.sum

def minOf : List Rat → Rat
  | [] => 0
  | a :: l => l.foldl min a

/-- `manders(x, y, tx, ty)`; a missing threshold is the minimum of its image -/
def manders (x y : List Rat) (tx ty : Option Rat) : Rat × Rat :=
  (manders1 x y (ty.getD (minOf y)), manders1 y x (tx.getD (minOf x)))

/-- `(rs > r).sum() / n` -/
def probability (gt : List Bool) : Rat := (gt.count true : Rat) / (gt.length : Rat)

/-! ## block shuffling -/

structure Img (α : Type) where
  n0 : Nat
  n1 : Nat
  get : Nat → Nat → α

/-- extent after `np.pad(..., (0, (b - s % b) % b))` -/
def padExt (s b : Nat) : Nat := s + (b - s % b) % b

/-- index of the source pixel of an edge-padded position -/
def edge (s i : Nat) : Nat := min i (s - 1)

/-- the working array and mask after the mode-specific preparation -/
structure Prep (α : Type) where
  N0 : Nat
  N1 : Nat
  X : Nat → Nat → α
  M : Nat → Nat → Bool

def prepare {α} (x : Img α) (mask : Nat → Nat → Bool) (b0 b1 : Nat) (padMode : Bool) : Prep α :=
  if padMode then
    { N0 := padExt x.n0 b0, N1 := padExt x.n1 b1,
      X := fun i j => x.get (edge x.n0 i) (edge x.n1 j),
      M := fun i j => mask (edge x.n0 i) (edge x.n1 j) }
  else
    { N0 := x.n0, N1 := x.n1, X := x.get,
      M := fun i j => mask i j && decide (i < x.n0 - x.n0 % b0) && decide (j < x.n1 - x.n1 % b1) }

/-- the values of the mask inside block `(B0, B1)`, row-major -/
def blockCells (M : Nat → Nat → Bool) (b0 b1 B0 B1 : Nat) : List Bool :=
  (List.range b0).flatMap (fun o0 => (List.range b1).map (fun o1 => M (B0 * b0 + o0) (B1 * b1 + o1)))

/-- `np.any` / `np.all` over the block axes -/
def blockMask (M : Nat → Nat → Bool) (b0 b1 : Nat) (part : Bool) (B0 B1 : Nat) : Bool :=
  if part then (blockCells M b0 b1 B0 B1).any id else (blockCells M b0 b1 B0 B1).all id

/-- `np.ravel_multi_index(np.nonzero(mask), mask.shape)`: flat indices of the selected blocks, ascending -/
def selected (M : Nat → Nat → Bool) (b0 b1 nb0 nb1 : Nat) (part : Bool) : List Nat :=
  (List.range (nb0 * nb1)).filter (fun f => blockMask M b0 b1 part (f / nb1) (f % nb1))

/-- `blocks[idx] = blocks[nidx]`: the block that ends up at flat block index `f` -/
def src (idx nidx : List Nat) (f : Nat) : Nat :=
  if idx.idxOf f < idx.length then nidx.getD (idx.idxOf f) f else f

/-- the source pixel of output pixel `(i, j)` in the working array -/
def phi (b0 b1 nb0 nb1 : Nat) (idx nidx : List Nat) (i j : Nat) : Nat × Nat :=
  if i / b0 < nb0 ∧ j / b1 < nb1 then
    let g := src idx nidx (i / b0 * nb1 + j / b1)
    (g / nb1 * b0 + i % b0, g % nb1 * b1 + j % b1)
  else (i, j)

/-- number of blocks along an axis: `(N - b) // b + 1` -/
def nBlocks (N b : Nat) : Nat := N / b

def shuffleBlocks {α} (x : Img α) (mask : Nat → Nat → Bool) (b0 b1 : Nat) (padMode part : Bool)
    (nidx : List Nat) : Img α :=
  let p := prepare x mask b0 b1 padMode
  let idx := selected p.M b0 b1 (nBlocks p.N0 b0) (nBlocks p.N1 b1) part
  { n0 := x.n0, n1 := x.n1,
    get := fun i j =>
      let q := phi b0 b1 (nBlocks p.N0 b0) (nBlocks p.N1 b1) idx nidx i j
      p.X q.1 q.2 }

/-- the list `idx` handed to `numpy.random.permutation` -/
def shuffleIdx {α} (x : Img α) (mask : Nat → Nat → Bool) (b0 b1 : Nat) (padMode part : Bool) : List Nat :=
  let p := prepare x mask b0 b1 padMode
  selected p.M b0 b1 (nBlocks p.N0 b0) (nBlocks p.N1 b1) part

/-- **Memory layout.**  `view_as_blocks` starts with `np.ascontiguousarray(x)`: when the working array is not
C-contiguous (a Fortran-ordered image in either mode - `np.pad` keeps Fortran order -, a strided view in in-place
mode) the block "view" is a view of a *copy*, the assignment `blocks[idx] = blocks[nidx]` is lost and the array
handed back is the unshuffled input.  `aliases` says whether the block view aliases the returned array; when it
does not, the call behaves like the identity permutation `nidx = idx`. -/
def shuffleBlocksLayout {α} (aliases : Bool) (x : Img α) (mask : Nat → Nat → Bool) (b0 b1 : Nat)
    (padMode part : Bool) (nidx : List Nat) : Img α :=
  shuffleBlocks x mask b0 b1 padMode part (if aliases then nidx else shuffleIdx x mask b0 b1 padMode part)

/-! ### specification of a shuffle result, as a checkable relation between input and output -/

def pixels (n0 n1 : Nat) : List (Nat × Nat) :=
  (List.range n0).flatMap (fun i => (List.range n1).map (fun j => (i, j)))

/-- is pixel `(i, j)` inside one of the selected blocks -/
def inSelected (b0 b1 nb0 nb1 : Nat) (idx : List Nat) (i j : Nat) : Bool :=
  decide (i / b0 < nb0) && decide (j / b1 < nb1) && idx.contains (i / b0 * nb1 + j / b1)

/-- pixels outside the shuffled blocks never move -/
def specOutside (x out : Img Rat) (mask : Nat → Nat → Bool) (b0 b1 : Nat) (padMode part : Bool) : Bool :=
  let p := prepare x mask b0 b1 padMode
  let nb0 := nBlocks p.N0 b0
  let nb1 := nBlocks p.N1 b1
  let idx := selected p.M b0 b1 nb0 nb1 part
  (pixels x.n0 x.n1).all (fun q =>
    inSelected b0 b1 nb0 nb1 idx q.1 q.2 || decide (out.get q.1 q.2 = x.get q.1 q.2))

/-- every (visible part of a) selected output block equals the same part of some selected input block -/
def specBlocks (x out : Img Rat) (mask : Nat → Nat → Bool) (b0 b1 : Nat) (padMode part : Bool) : Bool :=
  let p := prepare x mask b0 b1 padMode
  let nb0 := nBlocks p.N0 b0
  let nb1 := nBlocks p.N1 b1
  let idx := selected p.M b0 b1 nb0 nb1 part
  idx.all (fun f => idx.any (fun g =>
    (pixels b0 b1).all (fun o =>
      let i := f / nb1 * b0 + o.1
      let j := f % nb1 * b1 + o.2
      !(decide (i < x.n0) && decide (j < x.n1)) ||
        decide (out.get i j = p.X (g / nb1 * b0 + o.1) (g % nb1 * b1 + o.2)))))

def sortR (l : List Rat) : List Rat := l.mergeSort (fun a b => decide (a ≤ b))

/-- pixel values are conserved (as a multiset) -/
def specConserved (x out : Img Rat) : Bool :=
  sortR ((pixels x.n0 x.n1).map (fun q => out.get q.1 q.2))
    == sortR ((pixels x.n0 x.n1).map (fun q => x.get q.1 q.2))

/-- when conservation is promised: shape a multiple of the block, or in-place mode -/
def conservedApplies {α} (x : Img α) (b0 b1 : Nat) (padMode : Bool) : Bool :=
  !padMode || (x.n0 % b0 == 0 && x.n1 % b1 == 0)

/-- specification of Manders' M1: the sum of the `x` whose partner exceeds the threshold, over the sum of all `x` -/
def mandersSpec1 (x y : List Rat) (ty : Rat) : Rat :=
  (((x.zip y).filter (fun p => decide (p.2 > ty))).map (·.1)).sum / x.sum

/-! ## the probability loop of `pearsonr_probablity` -/

/-- `a[mask]`: the masked pixels in row-major order -/
def masked (a : Img Rat) (mask : Nat → Nat → Bool) : List Rat :=
  (pixels a.n0 a.n1).filterMap (fun q => if mask q.1 q.2 then some (a.get q.1 q.2) else none)

/-- `shuffled = shuffle_blocks(shuffled, (b, b), mask, mode="inplace", ...)`, repeated: every call
gets the same mask and the previous result -/
def shuffleSeq (y : Img Rat) (mask : Nat → Nat → Bool) (b : Nat) (part : Bool) :
    List (List Nat) → List (Img Rat)
  | [] => []
  | s :: ss =>
    let y' := shuffleBlocks y mask b b false part s
    y' :: shuffleSeq y' mask b part ss

/-- exact decision of `c₁/√(v·w₁) > c₂/√(v·w₂)` for positive `v, w₁, w₂` (`c₁√w₂ > c₂√w₁`) -/
def rGt (c1 w1 c2 w2 : Rat) : Bool :=
  if c1 ≥ 0 then
    if c2 ≥ 0 then decide (c1 * c1 * w2 > c2 * c2 * w1) else true
  else
    if c2 ≥ 0 then false else decide (c1 * c1 * w2 < c2 * c2 * w1)

structure ProbStep where
  cov : Rat
  vy : Rat
  gt : Bool
  /-- the shuffled masked pixels are, position by position, the original ones (then rᵢ is r, bit for bit) -/
  same : Bool

/-- `r` and every `rᵢ` are computed over `x[mask]` and `shuffledᵢ[mask]` with the mask as given -/
def probSteps (x y : Img Rat) (mask : Nat → Nat → Bool) (b : Nat) (part : Bool)
    (sigmas : List (List Nat)) : List ProbStep :=
  let xs := masked x mask
  let ys := masked y mask
  (shuffleSeq y mask b part sigmas).map (fun yi =>
    let yis := masked yi mask
    { cov := cov xs yis, vy := var yis, gt := rGt (cov xs yis) (var yis) (cov xs ys) (var ys),
      same := yis == ys })

def pearsonProbability (x y : Img Rat) (mask : Nat → Nat → Bool) (b : Nat) (part : Bool)
    (sigmas : List (List Nat)) : Rat :=
  probability ((probSteps x y mask b part sigmas).map (·.gt))

end Pew.Colocal
