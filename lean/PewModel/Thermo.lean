import PewModel.CsvDir
/-!
# C03 — Thermo iCap (Qtegra) CSV import (`pewlib.io.thermo`)

Token level: a file is a `Table` — the lines of the decoded text (the UTF-8 BOM is removed by the
`utf-8-sig` codec, universal newlines turn every terminator into `\n`), each line **with its
terminator** (every line but possibly the last ends in `\n`), split at the field delimiter
(`splitLine`; the delimiter is the first character of both layouts).  Keeping the terminator matters:
the four header rows of the rows layout are split raw (`fp.readline().split(delimiter)`), only the
lines handed to `np.genfromtxt` are stripped.
The decimal-comma replacement (`line.replace(",", ".")`, done by the code on whole data lines before
they are split) is applied field by field, which is the same whenever the delimiter is not `,`.
`float()` / `int()` / `str()` are external: `Ext.parse`, `Ext.readInt` and the `sh : Nat → String`
argument of the renderers.

Mechanism: `gfSplit` (the line handling of `np.genfromtxt(..., comments=None)`: `strip(" \r\n")`, blank
lines skipped; a `#` is data), `readCols` (MainRuns line filter by channel substring, equal field counts,
loose conversion of the scan number, first-appearance name order, per-name line gather, transpose and
broadcast, shape `(samples, max scan + 1)`), `readRows` (four raw header rows → run ∧ channel column
mask with NumPy broadcasting of a one-field row → `usecols` gather of every non-blank sample row →
per-name column gather), `readParams`, `sniff`, `load`.
Specification: `specImg` — pixel [sample, scan] of element `e` is the exported token of the
requested channel; `specParams` / `specScantime`; `otherFile`.  `renderCols` / `renderRows` are the
two export layouts of one acquisition.

Not modelled (the generators never write them; every one is an exception or a renamed field in
NumPy): an element label that is empty or not a valid structured-dtype field name, a scan number
outside int64, a delimiter that occurs inside `MainRuns` or a channel name, the `,` delimiter
together with decimal commas.
-/
namespace Pew.Thermo

abbrev Row := List String
abbrev Table := List Row

/-- the external conversions -/
structure Ext (α : Type) where
  parse : String → α            -- `float(token)`, NaN when it fails (genfromtxt's loose conversion)
  readInt : String → Option Int -- `int(token)`

/-- imported image: `planes[e][sample][scan]` for element `names[e]` -/
structure Img (α : Type) where
  names : List String
  planes : List (List (List α))
  deriving Repr, DecidableEq

/-- pixel [sample `i`, scan `s`] of the `e`-th element -/
def Img.pixel {α : Type} (img : Img α) (e i s : Nat) : Option α :=
  ((img.planes[e]?).bind (·[i]?)).bind (·[s]?)

/-! ## strings -/

def hasSubC (p : List Char) : List Char → Bool
  | [] => p.isEmpty
  | c :: t => p.isPrefixOf (c :: t) || hasSubC p t

/-- `sub in s` -/
def hasSub (sub s : String) : Bool := hasSubC sub.toList s.toList

/-- storage in a fixed-width unicode field (`dtype="U8"` …) -/
def trunc (n : Nat) (s : String) : String := String.ofList (s.toList.take n)

/-- `line.replace(",", ".")` on one field -/
def fixDec (comma : Bool) (s : String) : String :=
  if comma then String.ofList (s.toList.map (fun c => if c == ',' then '.' else c)) else s

/-- `sub in line` for a `sub` that does not contain the delimiter -/
def lineHas (sub : String) (r : Row) : Bool := r.any (hasSub sub)

/-- `line.startswith("MainRuns")` -/
def lineStarts (r : Row) : Bool :=
  match r with
  | [] => false
  | f :: _ => "MainRuns".toList.isPrefixOf f.toList

/-- `line.split(delimiter)` on characters -/
def splitC (d : Char) : List Char → List (List Char)
  | [] => [[]]
  | c :: t =>
    if c == d then [] :: splitC d t
    else match splitC d t with
      | h :: r => (c :: h) :: r
      | [] => [[c]]

def splitLine (d : Char) (s : String) : Row := (splitC d s.toList).map String.ofList

/-- the table of a decoded text given as its lines (terminators kept); `delimiter = line[0]` of the
first line when none is passed (`none` = the `IndexError` of an empty first line) -/
def tableOf (explicit : Option Char) (lines : List String) : Option Table :=
  match explicit with
  | some d => some (lines.map (splitLine d))
  | none =>
    match (lines.headD "").toList with
    | [] => none
    | d :: _ => some (lines.map (splitLine d))

/-! ## the line handling of `np.genfromtxt` (`LineSplitter._delimited_splitter`)

All three `np.genfromtxt` calls of `thermo.py` pass `comments=None` (since e68affa): the splitter does
not look for a comment, a `#` is a character like any other.  The readers below take the splitter as
an argument (`…With split`, NumPy's `LineSplitter` object) so that the mechanism with NumPy's default
`comments="#"` (`gfSplitOld`, what the code did before e68affa) stays expressible: `readColsOld`,
`readRowsOld` and the regression theorems about them. -/

def isWs (c : Char) : Bool := c == ' ' || c == '\r' || c == '\n'

def lstrip (s : String) : String := String.ofList (s.toList.dropWhile isWs)
def rstrip (s : String) : String := String.ofList (s.toList.reverse.dropWhile isWs).reverse

def mapHead (g : String → String) : Row → Row
  | [] => []
  | f :: t => g f :: t

def mapLast (g : String → String) : Row → Row
  | [] => []
  | [f] => [g f]
  | f :: t => f :: mapLast g t

/-- the fields `genfromtxt(comments=None)` sees of one line: the line is stripped of blanks and line
ends at both ends (fields in the middle keep theirs), an empty line has no fields (it is skipped) -/
def gfSplit (r : Row) : Row :=
  let s := mapLast rstrip (mapHead lstrip r)
  if s == [""] then [] else s

/-- the non-blank lines as a `genfromtxt` with line splitter `split` sees them, after the optional
decimal-comma replacement -/
def gfLinesWith (split : Row → Row) (comma : Bool) (lines : Table) : Table :=
  (lines.map (fun r => split (r.map (fixDec comma)))).filter (fun r => !r.isEmpty)

/-- … with `comments=None`, as the code calls it -/
def gfLines (comma : Bool) (lines : Table) : Table := gfLinesWith gfSplit comma lines

/-! ### NumPy's default `comments="#"` (the code before e68affa) -/

def hasHash (s : String) : Bool := s.toList.contains '#'

/-- `line.split("#")[0]` on a split line -/
def cutComment : Row → Row
  | [] => []
  | f :: t => if hasHash f then [String.ofList (f.toList.takeWhile (fun c => c != '#'))] else f :: cutComment t

/-- the fields `genfromtxt(comments="#")` sees of one line: the comment is cut first -/
def gfSplitOld (r : Row) : Row := gfSplit (cutComment r)

/-! ## small array helpers -/

def firstAppAux (seen : List String) : List String → List String
  | [] => []
  | a :: t => if seen.contains a then firstAppAux seen t else a :: firstAppAux (a :: seen) t

/-- `names[np.argsort(np.unique(names, return_index=True)[1])]`: distinct values by first appearance -/
def firstApp (l : List String) : List String := firstAppAux [] l

/-- `np.amax` of a non-empty integer array -/
def maxInt : List Int → Int
  | [] => 0
  | a :: t => t.foldl max a

/-- rows × n → n × rows -/
def transposeN {α : Type} (n : Nat) (rows : List (List α)) : List (List α) :=
  (List.range n).map (fun i => rows.filterMap (fun r => r[i]?))

/-- `structured[name] = X` where the target has `w` scans and every row of `X` has `cnt` entries:
the widths must agree, or `cnt = 1` and the single column is broadcast -/
def fitCols {α : Type} (w cnt : Nat) (plane : List (List α)) : Option (List (List α)) :=
  if cnt == w then some plane
  else if cnt == 1 then some (plane.map (fun r => (List.replicate w r).flatten))
  else none

def allSome {β : Type} : List (Option β) → Option (List β)
  | [] => some []
  | none :: _ => none
  | some a :: t => (allSome t).map (a :: ·)

/-- the common field count of the lines (`genfromtxt` without `usecols`: every line must have as many
fields as the first one) -/
def sameLen : Table → Option Nat
  | [] => none
  | r :: t => if t.all (fun q => q.length == r.length) then some r.length else none

/-! ## samples in columns -/

structure ColRec (α : Type) where
  scan : Int
  name : String
  data : List α

/-- one `MainRuns` line of at least `4 + n` fields under the record dtype (run U8, scan int, name
U32, type U7, data f8 × n); conversion is loose: a scan field that is not an integer gives −1 -/
def parseColLine {α : Type} (x : Ext α) (n : Nat) (r : Row) : ColRec α :=
  { scan := (x.readInt (r.getD 1 "")).getD (-1), name := trunc 32 (r.getD 2 ""),
    data := ((r.drop 4).take n).map x.parse }

/-- `_icap_csv_columns_read(path, line_type=chan, …)` with `split` the line splitter of its two
`genfromtxt` calls; `none` = an exception (`ValueError` or `IndexError`).  Lines that `genfromtxt`
skips (blank) do not count; lines of unequal field count, fewer than `4 + n` fields, no selected line,
a single selected line (0-d record), a name whose line count is neither the scan count nor 1, or a
maximum scan below −1 all raise. -/
def readColsWith {α : Type} (split : Row → Row) (x : Ext α) (comma : Bool) (chan : String) (t : Table) : Option (Img α) :=
  match t with
  | [] => none
  | first :: rest =>
    let n := (split first).countP (fun f => f != "")     -- count_nonzero(genfromtxt([line], dtype="U1"))
    if n == 0 then none else
    let sel := gfLinesWith split comma (rest.filter (fun r => lineStarts r && lineHas chan r))
    if sel.length == 1 then none else                   -- genfromtxt gives a 0-d record: no axis 1
    match sameLen sel with
    | none => none                                      -- no line (amax of an empty array) or ragged lines
    | some nb =>
      if nb < 4 + n then none else                      -- tuple shorter than the record
      let recs := sel.map (parseColLine x n)
      let names := firstApp (recs.map (·.name))
      let w := maxInt (recs.map (·.scan)) + 1
      if w < 0 then none else                           -- negative dimension
      match allSome (names.map (fun e =>
          let mine := recs.filter (fun r => r.name == e)
          fitCols w.toNat mine.length (transposeN n (mine.map (·.data))))) with
      | none => none
      | some planes => some { names := names, planes := planes }

/-- the columns reader as the code is: both `genfromtxt` calls with `comments=None` -/
def readCols {α : Type} (x : Ext α) (comma : Bool) (chan : String) (t : Table) : Option (Img α) :=
  readColsWith gfSplit x comma chan t

/-- the columns reader before e68affa: both `genfromtxt` calls with NumPy's default `comments="#"` -/
def readColsOld {α : Type} (x : Ext α) (comma : Bool) (chan : String) (t : Table) : Option (Img α) :=
  readColsWith gfSplitOld x comma chan t

/-! ## samples in rows -/

structure Hdr where
  run : String
  scan : String
  name : String
  type : String

def zipHdr : Row → Row → Row → Row → List Hdr
  | a :: as, b :: bs, c :: cs, d :: ds => { run := a, scan := b, name := c, type := d } :: zipHdr as bs cs ds
  | _, _, _, _ => []

/-- `run_mask ∧ type_mask` for one column -/
def colOk (chan : String) (h : Hdr) : Bool := trunc 8 h.run == "MainRuns" && trunc 7 h.type == chan

/-- NumPy broadcasting of a one-element mask to length `L` -/
def bcast (L : Nat) (r : Row) : Row := if r.length == 1 then List.replicate L (r.headD "") else r

/-- the reader once the four header rows are zipped into per-column headers (`split`: the line
splitter of its `genfromtxt` call) -/
def readRowsHWith {α : Type} (split : Row → Row) (x : Ext α) (comma : Bool) (chan : String) (hdr : List Hdr) (body : Table) : Option (Img α) :=
  if !(hdr.any (fun h => trunc 8 h.run == "MainRuns")) then none else
  let sel := hdr.filter (colOk chan)
  if sel.isEmpty then none else                       -- amax of an empty array
  match allSome (sel.map (fun h => x.readInt (trunc 16 h.scan))) with
  | none => none                                      -- `.astype(int)` is strict
  | some scanNos =>
    let selNames := sel.map (fun h => trunc 32 h.name)
    -- genfromtxt(usecols=flatnonzero(col_mask)): the selected fields of every non-blank sample row, with their names
    let data : List (List (α × String)) := (gfLinesWith split comma body).map (fun r =>
      ((r.zip hdr).filter (fun p => colOk chan p.2)).map (fun p => (x.parse p.1, trunc 32 p.2.name)))
    if data.any (fun r => r.length != sel.length) then none else   -- a row that ends before a selected column
    let w := maxInt scanNos + 1
    if w < 0 then none else                           -- negative dimension
    let unames := firstApp selNames
    match allSome (unames.map (fun e =>
        fitCols w.toNat (selNames.filter (fun nm => nm == e)).length
          (data.map (fun r => (r.filter (fun p => p.2 == e)).map (·.1))))) with
    | none => none
    | some planes => some { names := unames, planes := planes }

/-- `_icap_csv_rows_read(path, col_type=chan, …)` with `split` the line splitter of its `genfromtxt`
call; `none` = an exception (`ValueError` or
`IndexError`).  Header rows past the end of the file read as one empty field; the run and channel
masks broadcast when one of them has a single field; the scan and name rows must be as long as the
mask.  No sample row at all gives an image with no samples; a sample row is accepted as soon as it
reaches the last selected column; blank rows are skipped. -/
def readRowsWith {α : Type} (split : Row → Row) (x : Ext α) (comma : Bool) (chan : String) (t : Table) : Option (Img α) :=
  let runs := t.getD 0 [""]
  let scans := t.getD 1 [""]
  let names := t.getD 2 [""]
  let types := t.getD 3 [""]
  let L := max runs.length types.length
  let runs' := bcast L runs
  let types' := bcast L types
  if !(runs'.length == L && types'.length == L && scans.length == L && names.length == L) then none else
  readRowsHWith split x comma chan (zipHdr runs' scans names types') (t.drop 4)

/-- the rows reader as the code is: `genfromtxt(..., comments=None)` -/
def readRowsH {α : Type} (x : Ext α) (comma : Bool) (chan : String) (hdr : List Hdr) (body : Table) : Option (Img α) :=
  readRowsHWith gfSplit x comma chan hdr body

/-- `_icap_csv_rows_read(path, col_type=chan, …)` as the code is (`readRowsWith` with the splitter of
`genfromtxt(..., comments=None)`) -/
def readRows {α : Type} (x : Ext α) (comma : Bool) (chan : String) (t : Table) : Option (Img α) :=
  readRowsWith gfSplit x comma chan t

/-- the rows reader before e68affa: `genfromtxt` with NumPy's default `comments="#"` -/
def readRowsOld {α : Type} (x : Ext α) (comma : Bool) (chan : String) (t : Table) : Option (Img α) :=
  readRowsWith gfSplitOld x comma chan t

/-! ## format sniffing and `load` -/

inductive Fmt | rows | columns | unknown
  deriving DecidableEq, Repr

/-- `icap_csv_sample_format`: lines past the end of the file read as empty -/
def sniff (t : Table) : Fmt :=
  if lineHas "MainRuns" (t.getD 0 []) then .rows
  else if lineHas "MainRuns" (t.getD 2 []) then .columns
  else .unknown

/-! ## parameters -/

abbrev V := Option Rat

def diffRow : List V → List V
  | a :: b :: r => (match a, b with | some p, some q => some (q - p) | _, _ => none) :: diffRow (b :: r)
  | _ => []

/-- `np.nanmean` -/
def nanmean (l : List V) : V :=
  let xs := l.filterMap id
  if xs.isEmpty then none else some (xs.sum / (xs.length : Rat))

structure Params where
  times : List (List V)
  scantime : Pew.CsvDir.PVal

/-- `data = data[data.dtype.names[0]]; scantime = round(nanmean(diff(data, axis=1)), 4)` -/
def paramsOf (img : Img V) : Option Params :=
  match img.planes with
  | [] => none
  | p :: _ => some { times := p, scantime := Pew.CsvDir.npRound 4 (nanmean (p.flatMap diffRow)) }

def readParams (x : Ext V) (rows : Bool) (comma : Bool) (t : Table) : Option Params :=
  ((if rows then readRows x comma "Time" t else readCols x comma "Time" t)).bind paramsOf

inductive LoadResult
  | unknownFormat                                   -- ValueError("Unknown iCap CSV format.")
  | readError                                       -- exception from the data reader
  | ok (img : Img V) (params : Option Params)       -- `none` = `{}` ("Unabled to read params")

/-- `text.startswith(";") and "," in text`: both layouts start with an empty field, so the first
character of the text is the delimiter; a comma of a `;`-delimited text lies inside some field -/
def detectComma (delim : Char) (t : Table) : Bool :=
  (match t with
    | ("" :: _ :: _) :: _ => delim == ';'
    | _ => false) && t.any (fun r => r.any (hasSub ","))

/-- `load(path, use_analog, full=True)`: sniff, detect decimal commas, read the requested channel,
then the parameters (`{}` when they cannot be read) -/
def load (x : Ext V) (delim : Char) (t : Table) (useAnalog : Bool) : LoadResult :=
  let comma := detectComma delim t
  let chan := if useAnalog then "Analog" else "Counter"
  match sniff t with
  | .unknown => .unknownFormat
  | .rows =>
    match readRows x comma chan t with
    | none => .readError
    | some img => .ok img (readParams x true comma t)
  | .columns =>
    match readCols x comma chan t with
    | none => .readError
    | some img => .ok img (readParams x false comma t)

/-- `load` on the text itself: no delimiter is passed on, so every reader takes the first character
of the file (an empty file is `unknown` to the sniffer) -/
def loadText (x : Ext V) (lines : List String) (useAnalog : Bool) : LoadResult :=
  match (lines.headD "").toList with
  | [] => .unknownFormat
  | d :: _ => load x d (lines.map (splitLine d)) useAnalog

/-! ## the acquisition and its two export layouts

Every line ends with the delimiter (as Qtegra writes it) and the line terminator: the last field of
every rendered line is `"\n"`. -/

/-- one acquisition: `value i s e c` is the exported token of sample `i`, scan `s`, element `e`, channel `c` -/
structure Acq where
  samples : List String
  nscans : Nat
  elements : List String
  channels : List String
  value : Nat → Nat → Nat → Nat → String

def Acq.elem (a : Acq) (e : Nat) : String := a.elements.getD e ""
def Acq.chan (a : Acq) (c : Nat) : String := a.channels.getD c ""

/-- line order of the samples-in-columns export: element, channel, scan -/
def enumCols (m k C : Nat) : List (Nat × Nat × Nat) :=
  (List.range k).flatMap fun e => (List.range C).flatMap fun c => (List.range m).map fun s => (s, e, c)

/-- column order of the samples-in-rows export: scan, element, channel -/
def enumRows (m k C : Nat) : List (Nat × Nat × Nat) :=
  (List.range m).flatMap fun s => (List.range k).flatMap fun e => (List.range C).map fun c => (s, e, c)

def colLine (sh : Nat → String) (a : Acq) (x : Nat × Nat × Nat) : Row :=
  ["MainRuns", sh x.1, a.elem x.2.1, a.chan x.2.2] ++
    (List.range a.samples.length).map (fun i => a.value i x.1 x.2.1 x.2.2) ++ ["\n"]

def renderCols (sh : Nat → String) (a : Acq) : Table :=
  (["", "", "", ""] ++ a.samples ++ ["\n"]) ::
  (["", "", "", ""] ++ a.samples.map (fun _ => "<Identifier>") ++ ["\n"]) ::
  (enumCols a.nscans a.elements.length a.channels.length).map (colLine sh a)

def renderRows (sh : Nat → String) (a : Acq) : Table :=
  let cells := enumRows a.nscans a.elements.length a.channels.length
  [ "" :: "" :: cells.map (fun _ => "MainRuns") ++ ["\n"],
    "" :: "" :: cells.map (fun x => sh x.1) ++ ["\n"],
    "" :: "" :: cells.map (fun x => a.elem x.2.1) ++ ["\n"],
    "" :: "" :: cells.map (fun x => a.chan x.2.2) ++ ["\n"] ] ++
  (List.range a.samples.length).map (fun i =>
    a.samples.getD i "" :: "<Identifier>" :: cells.map (fun x => a.value i x.1 x.2.1 x.2.2) ++ ["\n"])

/-- `delimiter.join(fields)` on characters -/
def joinC (d : Char) : List (List Char) → List Char
  | [] => []
  | [f] => f
  | f :: t => f ++ d :: joinC d t

def joinLine (d : Char) (r : Row) : String := String.ofList (joinC d (r.map String.toList))

/-- the text of a table, line by line (what the export file holds once decoded) -/
def renderText (d : Char) (t : Table) : List String := t.map (joinLine d)

/-! ## specification -/

/-- pixel [sample, scan] of every element = the exported value of channel `c`; elements in their
order of first appearance -/
def specImg {α : Type} (x : Ext α) (comma : Bool) (a : Acq) (c : Nat) : Img α :=
  { names := a.elements,
    planes := (List.range a.elements.length).map fun e =>
      (List.range a.samples.length).map fun i =>
        (List.range a.nscans).map fun s => x.parse (fixDec comma (a.value i s e c)) }

/-- pixel [sample, scan] of element `e` in the specification image is the exported token of channel `c` -/
def specPixel {α : Type} (x : Ext α) (comma : Bool) (a : Acq) (c e i s : Nat) : α :=
  x.parse (fixDec comma (a.value i s e c))

/-- mean interval of the Time channel (of the first element) over all samples and scans -/
def specScantime (x : Ext V) (comma : Bool) (a : Acq) (c : Nat) : V :=
  nanmean ((List.range a.samples.length).flatMap fun i =>
    (List.range (a.nscans - 1)).map fun s =>
      match x.parse (fixDec comma (a.value i s 0 c)), x.parse (fixDec comma (a.value i (s + 1) 0 c)) with
      | some p, some q => some (q - p)
      | _, _ => none)

/-- the expected parameters: times of the first element, rounded mean interval -/
def specParams (x : Ext V) (comma : Bool) (a : Acq) (ct : Nat) : Params :=
  { times := (List.range a.samples.length).map fun i =>
      (List.range a.nscans).map fun s => x.parse (fixDec comma (a.value i s 0 ct)),
    scantime := Pew.CsvDir.npRound 4 (specScantime x comma a ct) }

/-- "anything else": a text whose first and third line do not mention `MainRuns` is no export in
either layout (every export does, `renderRows_not_other` / `renderCols_not_other`); the
specification of the sniffer on such a file is the constant `unknown` -/
def otherFile (t : Table) : Bool :=
  !(lineHas "MainRuns" (t.getD 0 [])) && !(lineHas "MainRuns" (t.getD 2 []))

def specSniffOther : Fmt := .unknown

/-! ## the public functions on the decoded text of a file

What each public function of `thermo.py` computes from the lines of the file at `path` (decoded by the
`utf-8-sig` codec with universal newlines, terminators kept): every one of them opens the file anew,
nothing is kept between calls. -/

/-- `icap_csv_sample_format(path)`: a substring test on the first and the third line as they are -/
def sniffText (lines : List String) : Fmt := sniff (lines.map fun l => [l])

/-- the channel a data reader selects -/
def chanOf (useAnalog : Bool) : String := if useAnalog then "Analog" else "Counter"

/-- `icap_csv_rows_read_data` / `icap_csv_columns_read_data (path, delimiter, comma_decimal, use_analog)`;
`explicit = none`: `delimiter=None`, the first character of the file -/
def readDataText {α : Type} (x : Ext α) (rows : Bool) (explicit : Option Char) (comma useAnalog : Bool)
    (lines : List String) : Option (Img α) :=
  (tableOf explicit lines).bind fun t =>
    if rows then readRows x comma (chanOf useAnalog) t else readCols x comma (chanOf useAnalog) t

/-- `icap_csv_rows_read_params` / `icap_csv_columns_read_params (path, delimiter, comma_decimal)` -/
def readParamsText (x : Ext V) (rows : Bool) (explicit : Option Char) (comma : Bool) (lines : List String) : Option Params :=
  (tableOf explicit lines).bind (readParams x rows comma)

/-- what `load(path, use_analog, full)` hands back -/
inductive LoadOut
  | raises                                            -- ValueError (unknown format) or the reader's exception
  | data (img : Img V)                                -- `full=False`: the array alone
  | full (img : Img V) (params : Option Params)       -- `full=True`: `(array, params)`, `none` = `{}`

/-- `load(path, use_analog, full=False)` on the table: sniff, detect decimal commas, read the requested
channel; the parameters are not read at all -/
def loadData (x : Ext V) (delim : Char) (t : Table) (useAnalog : Bool) : LoadOut :=
  let comma := detectComma delim t
  match sniff t with
  | .unknown => .raises
  | .rows => match readRows x comma (chanOf useAnalog) t with | none => .raises | some img => .data img
  | .columns => match readCols x comma (chanOf useAnalog) t with | none => .raises | some img => .data img

/-- … on the text itself (as `loadText`) -/
def loadDataText (x : Ext V) (lines : List String) (useAnalog : Bool) : LoadOut :=
  match (lines.headD "").toList with
  | [] => .raises
  | d :: _ => loadData x d (lines.map (splitLine d)) useAnalog

/-- `load(path, use_analog, full)` -/
def loadCall (x : Ext V) (lines : List String) (useAnalog full : Bool) : LoadOut :=
  if full then
    match loadText x lines useAnalog with
    | .unknownFormat => .raises
    | .readError => .raises
    | .ok img p => .full img p
  else loadDataText x lines useAnalog

/-! ## histories: several calls in one process on paths that are written again in between

The code keeps no state between calls (no module-level variable, no cache): the result of a call is a
function of the text the file holds when the call is made — whatever the same path held at an earlier
call, whatever the modification time of the file, however often it was imported before. -/

/-- one call of a public function on a path -/
inductive Call
  | sniff
  | load (useAnalog full : Bool)
  | data (rows : Bool) (explicit : Option Char) (comma useAnalog : Bool)
  | params (rows : Bool) (explicit : Option Char) (comma : Bool)

/-- what a call hands back -/
inductive Out
  | fmt (f : Fmt)
  | load (r : LoadOut)
  | img (r : Option (Img V))
  | params (r : Option Params)
  | noFile                                            -- the path was never written: FileNotFoundError

/-- the function of the file's text that each public function computes -/
def callText (x : Ext V) (lines : List String) : Call → Out
  | .sniff => .fmt (sniffText lines)
  | .load ua full => .load (loadCall x lines ua full)
  | .data rows explicit comma ua => .img (readDataText x rows explicit comma ua lines)
  | .params rows explicit comma => .params (readParamsText x rows explicit comma lines)

/-- a file: its modification time (`st_mtime_ns`) and the lines of its decoded text -/
structure File where
  mtime : Nat
  lines : List String

/-- path ↦ file -/
abbrev FS := Nat → Option File

def FS.write (fs : FS) (p : Nat) (f : File) : FS := fun q => if q = p then some f else fs q

inductive Event
  | write (path : Nat) (mtime : Nat) (lines : List String)
  | call (path : Nat) (c : Call)

/-- the results of the calls of a history, in order: each call reads the file that is at the path then -/
def runHistory (x : Ext V) : FS → List Event → List Out
  | _, [] => []
  | fs, .write p mt ls :: rest => runHistory x (fs.write p { mtime := mt, lines := ls }) rest
  | fs, .call p c :: rest =>
    (match fs p with
      | none => Out.noFile
      | some f => callText x f.lines c) :: runHistory x fs rest

/-- what was exported to a path: one acquisition in one of the two layouts with a delimiter and a decimal
mark (`dec = true`: decimal commas), or a text that is no export -/
inductive Content
  | rows (delim : Char) (dec : Bool) (a : Acq)
  | cols (delim : Char) (dec : Bool) (a : Acq)
  | other (lines : List String)

/-- the decoded text of the file -/
def Content.text (sh : Nat → String) : Content → List String
  | .rows d _ a => renderText d (renderRows sh a)
  | .cols d _ a => renderText d (renderCols sh a)
  | .other ls => ls

/-- index of the exported channel with that name -/
def Acq.chanIdx (a : Acq) (name : String) : Option Nat :=
  let i := a.channels.findIdx (· == name)
  if i < a.channels.length then some i else none

/-- the specification of one export for a data call: the image of the requested channel, when it was exported -/
def specData (x : Ext V) (dec : Bool) (a : Acq) (useAnalog : Bool) : Option (Img V) :=
  (a.chanIdx (chanOf useAnalog)).map (specImg x dec a)

/-- … for the parameters: the times of the first element and the rounded mean interval when the Time
channel was exported, otherwise there are none -/
def specPar (x : Ext V) (dec : Bool) (a : Acq) : Option Params :=
  (a.chanIdx "Time").map (specParams x dec a)

/-- the specification of one call on a path that holds `c`, from what was exported alone; `none`: the
property says nothing (a reader for the other layout, with the wrong decimal mark or a delimiter the
file does not use, a channel that was not exported, `load` of a text that is no export) -/
def specCall (x : Ext V) : Content → Call → Option Out
  | .rows .., .sniff => some (.fmt .rows)
  | .cols .., .sniff => some (.fmt .columns)
  | .other _, .sniff => some (.fmt specSniffOther)
  | .rows _ dec a, .load ua full | .cols _ dec a, .load ua full =>
    (specData x dec a ua).map fun img => .load (if full then .full img (specPar x dec a) else .data img)
  | .rows d dec a, .data true explicit comma ua | .cols d dec a, .data false explicit comma ua =>
    if comma == dec && (explicit.isNone || explicit == some d) then (specData x dec a ua).map fun img => .img (some img) else none
  | .rows d dec a, .params true explicit comma | .cols d dec a, .params false explicit comma =>
    if comma == dec && (explicit.isNone || explicit == some d) then (specPar x dec a).map fun p => .params (some p) else none
  | _, _ => none

inductive SEvent
  | write (path : Nat) (mtime : Nat) (c : Content)
  | call (path : Nat) (c : Call)

/-- the files a history of exports writes and the calls it makes -/
def SEvent.event (sh : Nat → String) : SEvent → Event
  | .write p mt c => .write p mt (c.text sh)
  | .call p c => .call p c

/-- the specification of a history: every call is judged by what was last exported to its path -/
def specHistory (x : Ext V) : (Nat → Option Content) → List SEvent → List (Option Out)
  | _, [] => []
  | cs, .write p _ c :: rest => specHistory x (fun q => if q = p then some c else cs q) rest
  | cs, .call p c :: rest => ((cs p).bind fun k => specCall x k c) :: specHistory x cs rest

/-! ## from the characters of the file to its lines: `open(path, "r", encoding="utf-8-sig")`

Every function opens the file in text mode with the `utf-8-sig` codec and the default `newline=None`.
Given the characters the bytes decode to as plain UTF-8 (a byte order mark is the character U+FEFF): the
codec drops one leading U+FEFF, universal newlines turn `\r\n` and a lone `\r` into `\n`, and iteration /
`readline` hand out the lines with their terminator (the last one possibly without). -/

def bomChar : Char := Char.ofNat 0xFEFF

/-- the `utf-8-sig` codec after UTF-8 decoding: one leading byte order mark is not part of the text -/
def stripBom : List Char → List Char
  | [] => []
  | c :: t => if c == bomChar then t else c :: t

/-- universal newlines (`newline=None`) -/
def univNl : List Char → List Char
  | [] => []
  | [c] => [if c == '\r' then '\n' else c]
  | c :: d :: t =>
    if c == '\r' then (if d == '\n' then '\n' :: univNl t else '\n' :: univNl (d :: t))
    else c :: univNl (d :: t)

/-- the lines of a translated text, terminators kept -/
def splitKeep : List Char → List (List Char)
  | [] => []
  | c :: t =>
    if c == '\n' then [c] :: splitKeep t
    else match splitKeep t with
      | [] => [[c]]
      | h :: r => (c :: h) :: r

/-- the lines the text layer hands out for a file with these characters -/
def decodeLines (cs : List Char) : List String := (splitKeep (univNl (stripBom cs))).map String.ofList

/-- a line as it stands in the file: its terminator `\n` written as `eol` -/
def rawLine (eol : List Char) (l : String) : List Char := l.toList.dropLast ++ eol

/-- the characters of the file that holds these lines (each ending in `\n`), with or without a byte order
mark, with `eol` (`\n` or `\r\n`) at the end of every line -/
def rawText (bom : Bool) (eol : List Char) (lines : List String) : List Char :=
  (if bom then [bomChar] else []) ++ lines.flatMap (rawLine eol)

end Pew.Thermo
