import PewModel.CsvDir
/-!
# C03 — Thermo iCap (Qtegra) CSV import (`pewlib.io.thermo`)

Token level: a file is a `Table` — its text lines split at the field delimiter (the UTF-8 BOM is
removed by the `utf-8-sig` codec, the delimiter is the first character of both layouts).  The
decimal-comma replacement (`line.replace(",", ".")`, done by the code on whole data lines before
they are split) is applied field by field, which is the same whenever the delimiter is not `,`.
`float()` / `int()` / `str()` are external: `Ext.parse`, `Ext.readNat` and the `sh : Nat → String`
argument of the renderers.

Mechanism: `readCols` (MainRuns line filter by channel substring, first-appearance name order,
per-name line gather and transpose, shape `(samples, max scan + 1)`), `readRows` (four header rows →
run ∧ channel column mask → per-name column gather), `readParams`, `sniff`, `load`.
Specification: `specImg` — pixel [sample, scan] of element `e` is the exported token of the
requested channel.  `renderCols` / `renderRows` are the two export layouts of one acquisition.
-/
namespace Pew.Thermo

abbrev Row := List String
abbrev Table := List Row

/-- the external conversions -/
structure Ext (α : Type) where
  parse : String → α            -- `float(token)`, NaN when it fails
  readNat : String → Option Nat -- `int(token)`

/-- imported image: `planes[e][sample][scan]` for element `names[e]` -/
structure Img (α : Type) where
  names : List String
  planes : List (List (List α))
  deriving Repr, DecidableEq

/-! ## strings -/

def hasSubC (p : List Char) : List Char → Bool
  | [] => p.isEmpty
  | c :: t => p.isPrefixOf (c :: t) || hasSubC p t

/-- `sub in s` -/
def hasSub (sub s : String) : Bool := hasSubC sub.toList s.toList

/-- storage in a fixed-width unicode field (`dtype="U8"` …) -/
def trunc (n : Nat) (s : String) : String := String.ofList (s.toList.take n)

/-- `line.replace(",", ".")` on one field -/
def fixDec (comma : Bool) (s : String) : String :=
  if comma then String.ofList (s.toList.map (fun c => if c == ',' then '.' else c)) else s

/-- `sub in line` for a `sub` that does not contain the delimiter -/
def lineHas (sub : String) (r : Row) : Bool := r.any (hasSub sub)

/-- `line.startswith("MainRuns")` -/
def lineStarts (r : Row) : Bool :=
  match r with
  | [] => false
  | f :: _ => "MainRuns".toList.isPrefixOf f.toList

/-! ## small array helpers -/

def firstAppAux (seen : List String) : List String → List String
  | [] => []
  | a :: t => if seen.contains a then firstAppAux seen t else a :: firstAppAux (a :: seen) t

/-- `names[np.argsort(np.unique(names, return_index=True)[1])]`: distinct values by first appearance -/
def firstApp (l : List String) : List String := firstAppAux [] l

def maxNat (l : List Nat) : Nat := l.foldl max 0

/-- rows × n → n × rows -/
def transposeN {α : Type} (n : Nat) (rows : List (List α)) : List (List α) :=
  (List.range n).map (fun i => rows.filterMap (fun r => r[i]?))

/-- `structured[name] = X` for a target with `w` scans: widths must agree (a single column is broadcast) -/
def fitWidth {α : Type} (w : Nat) (plane : List (List α)) : Option (List (List α)) :=
  if plane.all (fun r => r.length == w) then some plane
  else if plane.all (fun r => r.length == 1) then some (plane.map (fun r => (List.replicate w r).flatten))
  else none

def allSome {β : Type} : List (Option β) → Option (List β)
  | [] => some []
  | none :: _ => none
  | some a :: t => (allSome t).map (a :: ·)

/-! ## samples in columns -/

structure ColRec (α : Type) where
  scan : Nat
  name : String
  data : List α

/-- one `MainRuns` line under the record dtype (run U8, scan int, name U32, type U7, data f8 × n) -/
def parseColLine {α : Type} (x : Ext α) (comma : Bool) (n : Nat) (r : Row) : Option (ColRec α) :=
  match r with
  | _ :: scan :: name :: _ :: rest =>
    if rest.length < n then none else
    match x.readNat (fixDec comma scan) with
    | none => none
    | some s => some { scan := s, name := trunc 32 (fixDec comma name), data := (rest.take n).map (fun f => x.parse (fixDec comma f)) }
  | _ => none

/-- `_icap_csv_columns_read(path, line_type=chan, …)`; `none` = an exception -/
def readCols {α : Type} (x : Ext α) (comma : Bool) (chan : String) (t : Table) : Option (Img α) :=
  match t with
  | [] => none
  | first :: rest =>
    let n := first.countP (fun f => f != "")          -- count_nonzero(genfromtxt([line], dtype="U1"))
    if n == 0 then none else
    let sel := rest.filter (fun r => lineStarts r && lineHas chan r)
    if sel.isEmpty then none else                       -- amax of an empty array
    if sel.length == 1 then none else                   -- genfromtxt gives a 0-d record: no axis 1
    match allSome (sel.map (parseColLine x comma n)) with
    | none => none
    | some recs =>
      let names := firstApp (recs.map (·.name))
      let w := maxNat (recs.map (·.scan)) + 1
      match allSome (names.map (fun e =>
          fitWidth w (transposeN n ((recs.filter (fun r => r.name == e)).map (·.data))))) with
      | none => none
      | some planes => some { names := names, planes := planes }

/-! ## samples in rows -/

structure Hdr where
  run : String
  scan : String
  name : String
  type : String

def zipHdr : Row → Row → Row → Row → List Hdr
  | a :: as, b :: bs, c :: cs, d :: ds => { run := a, scan := b, name := c, type := d } :: zipHdr as bs cs ds
  | _, _, _, _ => []

/-- `run_mask ∧ type_mask` for one column -/
def colOk (chan : String) (h : Hdr) : Bool := trunc 8 h.run == "MainRuns" && trunc 7 h.type == chan

/-- the reader once the four header rows are zipped into per-column headers -/
def readRowsH {α : Type} (x : Ext α) (comma : Bool) (chan : String) (hdr : List Hdr) (body : Table) : Option (Img α) :=
  if !(hdr.any (fun h => trunc 8 h.run == "MainRuns")) then none else
  let sel := hdr.filter (colOk chan)
  if sel.isEmpty then none else                       -- amax of an empty array
  match allSome (sel.map (fun h => x.readNat (trunc 16 h.scan))) with
  | none => none
  | some scanNos =>
    let selNames := sel.map (fun h => trunc 32 h.name)
    if body.isEmpty || body.any (fun r => r.length < hdr.length) then none else
    -- genfromtxt(usecols=flatnonzero(col_mask)): the selected fields of every sample row, with their names
    let data : List (List (α × String)) := body.map (fun r =>
      ((r.zip hdr).filter (fun p => colOk chan p.2)).map (fun p => (x.parse (fixDec comma p.1), trunc 32 p.2.name)))
    let unames := firstApp selNames
    let w := maxNat scanNos + 1
    match allSome (unames.map (fun e =>
        fitWidth w (data.map (fun r => (r.filter (fun p => p.2 == e)).map (·.1))))) with
    | none => none
    | some planes => some { names := unames, planes := planes }

/-- `_icap_csv_rows_read(path, col_type=chan, …)`; `none` = an exception -/
def readRows {α : Type} (x : Ext α) (comma : Bool) (chan : String) (t : Table) : Option (Img α) :=
  match t with
  | runs :: scans :: names :: types :: body =>
    if !(runs.length == scans.length && scans.length == names.length && names.length == types.length) then none else
    readRowsH x comma chan (zipHdr runs scans names types) body
  | _ => none

/-! ## format sniffing and `load` -/

inductive Fmt | rows | columns | unknown
  deriving DecidableEq, Repr

/-- `icap_csv_sample_format`: lines past the end of the file read as empty -/
def sniff (t : Table) : Fmt :=
  if lineHas "MainRuns" (t.getD 0 []) then .rows
  else if lineHas "MainRuns" (t.getD 2 []) then .columns
  else .unknown

/-! ## parameters -/

abbrev V := Option Rat

def diffRow : List V → List V
  | a :: b :: r => (match a, b with | some p, some q => some (q - p) | _, _ => none) :: diffRow (b :: r)
  | _ => []

/-- `np.nanmean` -/
def nanmean (l : List V) : V :=
  let xs := l.filterMap id
  if xs.isEmpty then none else some (xs.sum / (xs.length : Rat))

structure Params where
  times : List (List V)
  scantime : Pew.CsvDir.PVal

/-- `data = data[data.dtype.names[0]]; scantime = round(nanmean(diff(data, axis=1)), 4)` -/
def paramsOf (img : Img V) : Option Params :=
  match img.planes with
  | [] => none
  | p :: _ => some { times := p, scantime := Pew.CsvDir.npRound 4 (nanmean (p.flatMap diffRow)) }

def readParams (x : Ext V) (rows : Bool) (comma : Bool) (t : Table) : Option Params :=
  ((if rows then readRows x comma "Time" t else readCols x comma "Time" t)).bind paramsOf

inductive LoadResult
  | unknownFormat                                   -- ValueError("Unknown iCap CSV format.")
  | readError                                       -- exception from the data reader
  | ok (img : Img V) (params : Option Params)       -- `none` = `{}` ("Unabled to read params")

/-- `text.startswith(";") and "," in text`: both layouts start with an empty field, so the first
character of the text is the delimiter; a comma of a `;`-delimited text lies inside some field -/
def detectComma (delim : Char) (t : Table) : Bool :=
  (match t with
    | ("" :: _ :: _) :: _ => delim == ';'
    | _ => false) && t.any (fun r => r.any (hasSub ","))

/-- `load(path, use_analog, full=True)`: sniff, detect decimal commas, read the requested channel,
then the parameters (`{}` when they cannot be read) -/
def load (x : Ext V) (delim : Char) (t : Table) (useAnalog : Bool) : LoadResult :=
  let comma := detectComma delim t
  let chan := if useAnalog then "Analog" else "Counter"
  match sniff t with
  | .unknown => .unknownFormat
  | .rows =>
    match readRows x comma chan t with
    | none => .readError
    | some img => .ok img (readParams x true comma t)
  | .columns =>
    match readCols x comma chan t with
    | none => .readError
    | some img => .ok img (readParams x false comma t)

/-! ## the acquisition and its two export layouts -/

/-- one acquisition: `value i s e c` is the exported token of sample `i`, scan `s`, element `e`, channel `c` -/
structure Acq where
  samples : List String
  nscans : Nat
  elements : List String
  channels : List String
  value : Nat → Nat → Nat → Nat → String

def Acq.elem (a : Acq) (e : Nat) : String := a.elements.getD e ""
def Acq.chan (a : Acq) (c : Nat) : String := a.channels.getD c ""

/-- line order of the samples-in-columns export: element, channel, scan -/
def enumCols (m k C : Nat) : List (Nat × Nat × Nat) :=
  (List.range k).flatMap fun e => (List.range C).flatMap fun c => (List.range m).map fun s => (s, e, c)

/-- column order of the samples-in-rows export: scan, element, channel -/
def enumRows (m k C : Nat) : List (Nat × Nat × Nat) :=
  (List.range m).flatMap fun s => (List.range k).flatMap fun e => (List.range C).map fun c => (s, e, c)

def colLine (sh : Nat → String) (a : Acq) (x : Nat × Nat × Nat) : Row :=
  ["MainRuns", sh x.1, a.elem x.2.1, a.chan x.2.2] ++
    (List.range a.samples.length).map (fun i => a.value i x.1 x.2.1 x.2.2) ++ [""]

def renderCols (sh : Nat → String) (a : Acq) : Table :=
  (["", "", "", ""] ++ a.samples ++ [""]) ::
  (["", "", "", ""] ++ a.samples.map (fun _ => "<Identifier>") ++ [""]) ::
  (enumCols a.nscans a.elements.length a.channels.length).map (colLine sh a)

def renderRows (sh : Nat → String) (a : Acq) : Table :=
  let cells := enumRows a.nscans a.elements.length a.channels.length
  [ "" :: "" :: cells.map (fun _ => "MainRuns") ++ [""],
    "" :: "" :: cells.map (fun x => sh x.1) ++ [""],
    "" :: "" :: cells.map (fun x => a.elem x.2.1) ++ [""],
    "" :: "" :: cells.map (fun x => a.chan x.2.2) ++ [""] ] ++
  (List.range a.samples.length).map (fun i =>
    a.samples.getD i "" :: "<Identifier>" :: cells.map (fun x => a.value i x.1 x.2.1 x.2.2) ++ [""])

/-! ## specification -/

/-- pixel [sample, scan] of every element = the exported value of channel `c`; elements in their
order of first appearance -/
def specImg {α : Type} (x : Ext α) (comma : Bool) (a : Acq) (c : Nat) : Img α :=
  { names := a.elements,
    planes := (List.range a.elements.length).map fun e =>
      (List.range a.samples.length).map fun i =>
        (List.range a.nscans).map fun s => x.parse (fixDec comma (a.value i s e c)) }

/-- mean interval of the Time channel (of the first element) over all samples and scans -/
def specScantime (x : Ext V) (comma : Bool) (a : Acq) (c : Nat) : V :=
  nanmean ((List.range a.samples.length).flatMap fun i =>
    (List.range (a.nscans - 1)).map fun s =>
      match x.parse (fixDec comma (a.value i s 0 c)), x.parse (fixDec comma (a.value i (s + 1) 0 c)) with
      | some p, some q => some (q - p)
      | _, _ => none)

end Pew.Thermo
