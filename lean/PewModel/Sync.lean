/-!
# C08 — laser-log synchronisation (`pewlib.io.laser.sync_data_nwi_laser_log`)

Exact arithmetic: log times are integer milliseconds, stage coordinates integers in units of
1e-4 µm (the log prints four decimals), spot sizes and sample times `Rat`.  The signal is abstract:
a pixel of the result holds the *index* of the sample placed there (`none` = NaN fill), so the
placement is independent of the element values.

Mechanism (shaped like the code): forward fill of sequence numbers (`np.maximum.accumulate`),
sequence selection, `On` rows paired with the following row, spot-size parsing, origin = per-axis
minimum, pixel index `trunc (round₆ q)`, `searchsorted` of event times in the shifted sample times,
per-line placement (four direction cases, flip, end alignment), squeeze.

Specification: `render` writes the log and the continuous signal of a rastered acquisition
(eight scan patterns, gaps, several patterns) and `truthImage` is the ground-truth image.  The
acquisition is laid out explicitly: one `LineRec` per line carrying the laser clock at which its gap
begins (`layLines`, `layPatterns`), log rows and samples are `flatMap`s over these records, and the
index of a line's first pixel sample is a prefix sum (`lineStarts`).  `truthHyp` is the decidable
domain of the ground truth; `PewTheorems.C08.sync_render` proves `sync (render a) = truthImage a` on it.
Spot sizes are formatted and parsed on character lists (`fmtDecL`, `parseDecL`, `splitX`) so that the
round trip is provable for every value.
-/
namespace Pew.Sync

/-! ## log rows (what `read_nwi_laser_log` returns, one record per CSV line) -/

structure Row where
  time : Int        -- ms since an arbitrary epoch
  seq : Int         -- −1 where the column is blank
  x : Int           -- 1e-4 µm
  y : Int
  on : Bool         -- state == "On"
  spot : String
  deriving Repr, BEq

/-- `max = np.maximum.accumulate(x); x[x == -1] = max[x == -1]`, elements after the first -/
def fillIntsAux (acc : Int) : List Int → List Int
  | [] => []
  | v :: vs => (if v = -1 then max acc v else v) :: fillIntsAux (max acc v) vs

def fillInts : List Int → List Int
  | [] => []
  | v :: vs => v :: fillIntsAux v vs

def setSeq (r : Row) (s : Int) : Row := { r with seq := s }

/-- forward fill, then `log[np.isin(log["sequence"], sequence)]` -/
def selectRows (sel : Option (List Int)) (rows : List Row) : List Row :=
  let filled := List.zipWith setSeq rows (fillInts (rows.map (·.seq)))
  match sel with
  | none => filled
  | some s => filled.filter (fun r => s.contains r.seq)

/-- a logged pattern: a header row carrying the sequence number, then rows with a blank one -/
structure Block where
  hdr : Row
  body : List Row

def Block.rows (b : Block) : List Row := b.hdr :: b.body

/-- `log[np.stack((start_idx, start_idx + 1), axis=1).flat]` reshaped to (-1, 2);
`none` = IndexError (an `On` row that is the last row) -/
def pairs : List Row → Option (List (Row × Row))
  | [] => some []
  | [r] => if r.on then none else some []
  | r :: r' :: rest =>
    if r.on then (pairs (r' :: rest)).map (fun l => (r, r') :: l) else pairs (r' :: rest)

/-! ## spot size -/

/-- value of a non-empty string of decimal digits -/
def digitsVal (cs : List Char) : Option Nat :=
  if cs.isEmpty then none
  else if cs.all Char.isDigit then some (cs.foldl (fun n c => 10 * n + (c.toNat - '0'.toNat)) 0)
  else none

/-- `float(x)` for the decimal notations that occur in the log: `"40"`, `"1.1"` -/
def parseDecL (cs : List Char) : Option Rat :=
  match cs.dropWhile (· != '.') with
  | [] => (digitsVal cs).map (fun n => (n : Rat))
  | _ :: b => do
    let n ← digitsVal (cs.takeWhile (· != '.'))
    let m ← digitsVal b
    pure ((n : Rat) + (m : Rat) / ((10 ^ b.length : Nat) : Rat))

def parseDec (s : String) : Option Rat := parseDecL s.toList

/-- `x.split(" x ")` on characters -/
def splitX : List Char → List (List Char)
  | [] => [[]]
  | ' ' :: 'x' :: ' ' :: rest => [] :: splitX rest
  | c :: rest =>
    match splitX rest with
    | [] => [[c]]
    | p :: ps => (c :: p) :: ps

/-- `"a x b"` (square / rectangular) or `"a"` (circular, IVA style) -/
def spotSize (s : String) : Option (List Rat) :=
  let cs := s.toList
  if cs.contains 'x' then (splitX cs).mapM parseDecL
  else (parseDecL cs).map (fun v => [v, v])

/-! ## stage coordinate → pixel index -/

/-- round half to even (`np.rint`) -/
def roundHalfEven (q : Rat) : Int :=
  let f := q.floor
  let r := q - (f : Rat)
  if r < 1 / 2 then f else if 1 / 2 < r then f + 1 else if f % 2 = 0 then f else f + 1

/-- `np.round(q, 6)` -/
def round6 (q : Rat) : Rat := (roundHalfEven (q * 1000000) : Rat) / 1000000

/-- `.astype(int)`: truncation toward zero -/
def truncR (q : Rat) : Int := if 0 ≤ q then q.floor else -((-q).floor)

/-- the conversion as repaired: `np.round(q, 6).astype(int)` -/
def pixIdx (q : Rat) : Int := truncR (round6 q)

/-- the conversion before the repair: `q.astype(int)` -/
def pixIdxTrunc (q : Rat) : Int := truncR q

/-- `(x - origin) / spot` for a coordinate in 1e-4 µm and a spot size in µm -/
def quot (o : Int) (s : Rat) (x : Int) : Rat := ((x - o : Int) : Rat) / 10000 / s

def toPix (o : Int) (s : Rat) (x : Int) : Int := pixIdx (quot o s x)

def minList : List Int → Int
  | [] => 0
  | x :: xs => xs.foldl min x

def maxList : List Int → Int
  | [] => 0
  | x :: xs => xs.foldl max x

def minRat : List Rat → Rat
  | [] => 0
  | x :: xs => xs.foldl min x

/-! ## event times → sample ranges -/

/-- `np.searchsorted(a, v)` (side = left) on a sorted array: the number of entries below `v` -/
def searchsorted (a : List Rat) (v : Rat) : Nat := (a.filter (· < v)).length

/-- `l[i:j]` for `0 ≤ i, j ≤ len` -/
def pySlice {α} (l : List α) (i j : Nat) : List α := (l.drop i).take (j - i)

/-- `l[-n:]` for `0 < n ≤ len` -/
def lastN {α} (n : Nat) (l : List α) : List α := l.drop (l.length - n)

/-! ## per-line placement -/

/-- one line along one axis.  `lo ≤ hi` are the pixel indices after the swap, `flip` says that the
laser travelled from `hi` down to `lo`, `xs` are the samples of the line in acquisition order.
Returns the (pixel, sample) assignments `sync[lo:hi][s0:s1] = x[s0:s1]`. -/
def place1 {α} (lo hi : Int) (flip : Bool) (xs : List α) : List (Int × α) :=
  let L := (hi - lo).toNat
  let cells := (List.range L).map (fun (i : Nat) => lo + (i : Int))
  let n := min xs.length L
  if flip then (cells.take n).zip (xs.reverse.take n)
  else if n = 0 then []                                  -- `if s0 == -0: continue`
  else (lastN n cells).zip (lastN n xs)

structure Seg where
  t0 : Nat
  t1 : Nat
  x0 : Int
  x1 : Int
  y0 : Int
  y1 : Int
  deriving Repr

/-- assignments `((row, col), sample)` of one On/Off pair; `none` = ValueError (diagonal line) -/
def segWrites {α} (xs : List α) (g : Seg) : Option (List ((Int × Int) × α)) :=
  if g.y0 = g.y1 then
    some ((place1 (min g.x0 g.x1) (max g.x0 g.x1) (decide (g.x1 < g.x0)) xs).map
      (fun e => ((g.y0, e.1), e.2)))
  else if g.x0 = g.x1 then
    some ((place1 (min g.y0 g.y1) (max g.y0 g.y1) (decide (g.y1 < g.y0)) xs).map
      (fun e => ((e.1, g.x0), e.2)))
  else none

/-- specification of a line: the pixel under the laser at travel step `j` of an axis-parallel
segment (left-to-right / top-to-bottom start at the `On` pixel and count up; right-to-left /
bottom-to-top start one below the `On` coordinate and count down) -/
def travelCell (lo hi : Int) (flip : Bool) (j : Nat) : Int :=
  if flip then hi - 1 - (j : Int) else lo + (j : Int)

def Seg.len (g : Seg) : Nat :=
  if g.y0 = g.y1 then (g.x1 - g.x0).natAbs else (g.y1 - g.y0).natAbs

/-- (row, column) under the laser at travel step `j` -/
def Seg.cellAt (g : Seg) (j : Nat) : Int × Int :=
  if g.y0 = g.y1 then (g.y0, if g.x0 ≤ g.x1 then g.x0 + (j : Int) else g.x0 - 1 - (j : Int))
  else (if g.y0 ≤ g.y1 then g.y0 + (j : Int) else g.y0 - 1 - (j : Int), g.x0)

/-- value of a pixel after all assignments were applied in order to a NaN canvas -/
def lookupLast {α} (w : List ((Int × Int) × α)) (p : Int × Int) : Option α :=
  (w.reverse.find? (fun e => e.1 == p)).map (·.2)

/-! ## squeeze -/

def isNanPx (isnan : Nat → Bool) : Option Nat → Bool
  | none => true
  | some k => isnan k

def squeezeImg (isnan : Nat → Bool) (w : Nat) (img : List (List (Option Nat))) :
    List (List (Option Nat)) × Nat :=
  let rows := img.filter (fun r => !(r.all (isNanPx isnan)))
  let keep := (List.range w).filter (fun c => !(rows.all (fun r => isNanPx isnan (r.getD c none))))
  (rows.map (fun r => keep.map (fun c => r.getD c none)), keep.length)

/-- specification of `squeeze`, stated without the mechanism's two passes: a pixel *holds data* when its sample is a
number in at least one element; the result is the sub-image on the rows and on the columns (of the whole image) that
hold data, in their order -/
def pxHasData (isnan : Nat → Bool) (p : Option Nat) : Bool := !isNanPx isnan p

/-- indices of the rows that hold data, increasing -/
def keptRows (isnan : Nat → Bool) (img : List (List (Option Nat))) : List Nat :=
  (List.range img.length).filter (fun i => (img.getD i []).any (pxHasData isnan))

/-- indices of the columns that hold data in any row of the image, increasing -/
def keptCols (isnan : Nat → Bool) (w : Nat) (img : List (List (Option Nat))) : List Nat :=
  (List.range w).filter (fun c => img.any (fun r => pxHasData isnan (r.getD c none)))

def squeezeSpec (isnan : Nat → Bool) (w : Nat) (img : List (List (Option Nat))) : List (List (Option Nat)) :=
  (keptRows isnan img).map (fun i => (keptCols isnan w img).map (fun c => (img.getD i []).getD c none))

/-- `np.all([np.isnan(sync[n]) for n in sync.dtype.names], axis=0)`: sample `k` is NaN in every element; one mask
per element -/
def allNan (masks : List (Nat → Bool)) (k : Nat) : Bool := masks.all (fun m => m k)

/-! ## the whole function -/

structure Result where
  height : Nat
  width : Nat
  pixels : List (List (Option Nat))
  origin : Int × Int
  spot : List Rat
  deriving Repr

/-- shifted sample times: `times = (times - times.min()).ravel(); times += delay` -/
def shiftTimes (ts : List Rat) (delay : Rat) : List Rat :=
  let m := minRat ts
  ts.map (fun t => t - m + delay)

/-- laser time in seconds of a row, counted from the first firing of the selection -/
def laserTime (first : Row) (r : Row) : Rat := ((r.time - first.time : Int) : Rat) / 1000

def mkSeg (times : List Rat) (first : Row) (ox oy : Int) (sx sy : Rat) (p : Row × Row) : Seg :=
  { t0 := searchsorted times (laserTime first p.1)
    t1 := searchsorted times (laserTime first p.2)
    x0 := toPix ox sx p.1.x
    x1 := toPix ox sx p.2.x
    y0 := toPix oy sy p.1.y
    y1 := toPix oy sy p.2.y }

def allWrites (n : Nat) : List Seg → Option (List ((Int × Int) × Nat))
  | [] => some []
  | g :: gs => do
    let w ← segWrites (pySlice (List.range n) g.t0 g.t1) g
    let ws ← allWrites n gs
    pure (w ++ ws)

/-- `n` = number of samples (`data.size = times.size`); `ts` the sample times in seconds as given;
errors are the Python exception class names -/
def sync (rows : List Row) (sel : Option (List Int)) (ts : List Rat) (delay : Rat)
    (isnan : Nat → Bool) (squeeze : Bool) : Except String Result := do
  let log := selectRows sel rows
  let some prs := pairs log | throw "IndexError"
  let some firstPair := prs.head? | throw "IndexError"
  let first := firstPair.1
  let some spot := spotSize first.spot | throw "ValueError"
  let sx := spot.getD 0 0
  let sy := spot.getD 1 0
  let ox := minList (prs.flatMap (fun p => [p.1.x, p.2.x]))
  let oy := minList (prs.flatMap (fun p => [p.1.y, p.2.y]))
  let times := shiftTimes ts delay
  let segs := prs.map (mkSeg times first ox oy sx sy)
  let h := (maxList (segs.flatMap (fun g => [g.y0, g.y1])) + 1).toNat
  let w := (maxList (segs.flatMap (fun g => [g.x0, g.x1])) + 1).toNat
  let some writes := allWrites ts.length segs | throw "ValueError"
  let img := (List.range h).map (fun (r : Nat) => (List.range w).map (fun (c : Nat) =>
    lookupLast writes ((r : Int), (c : Int))))
  if squeeze then
    let (img', w') := squeezeImg isnan w img
    pure { height := img'.length, width := w', pixels := img', origin := (ox, oy), spot := spot }
  else
    pure { height := h, width := w, pixels := img, origin := (ox, oy), spot := spot }

/-! ## the signal and its clock as the caller holds them -/

/-- `data.size` of an array of the given shape.  The function reads the signal only through `data.flat`
(C order) and `data.size`: sample `k` of the continuous signal is `data.flat[k]` whatever the shape
(`(n,)`, `(1, n)`, `(k, n / k)` rows of consecutive samples, `(n, 1)`, views). -/
def dataSize (shape : List Nat) : Nat := shape.foldl (· * ·) 1

/-- `times`: an array of time stamps of the signal's size (any shape, it is flattened), or a float, the
acquisition time per sample -/
inductive Clock where
  | stamps (ts : List Rat)
  | interval (dt : Rat)
  deriving Repr

/-- `np.arange(data.size) * times` for a float, the (flattened) array otherwise; `n = data.size` -/
def Clock.times (n : Nat) : Clock → List Rat
  | .stamps ts => ts
  | .interval dt => (List.range n).map (fun (k : Nat) => (k : Rat) * dt)

/-- the whole function on a signal held in an array of shape `shape` with the clock given either way -/
def syncClock (rows : List Row) (sel : Option (List Int)) (shape : List Nat) (clk : Clock) (delay : Rat)
    (isnan : Nat → Bool) (squeeze : Bool) : Except String Result :=
  sync rows sel (clk.times (dataSize shape)) delay isnan squeeze

/-! ## the log as text: what the instrument writes, what `read_nwi_laser_log` reads

Specification side: the calendar (`civilOfDay`: walk the years, then the months, from 1970-01-01), the stamp
`YYYY-MM-DD HH:MM:SS.mmm`, four-decimal coordinates, comma-separated fields (`fmtLine`).  Mechanism side: `splitComma`,
the columns `read_nwi_laser_log` keeps (0, 1, 5, 6, 10, 13; state cut to 3, spot size to 32 characters), numpy's ISO
stamp → `datetime64[ms]` conversion with its closed-form day count (`daysOfCivil`), blank `int` fields → -1. -/

def isLeap (y : Nat) : Bool := (y % 4 == 0 && y % 100 != 0) || y % 400 == 0

def monthLen (y m : Nat) : Nat :=
  if m = 2 then (if isLeap y then 29 else 28) else if m = 4 ∨ m = 6 ∨ m = 9 ∨ m = 11 then 30 else 31

def yearLen (y : Nat) : Nat := if isLeap y then 366 else 365

/-- (year, day of the year counted from 0) reached from 1 January of `y` after `d` more days; `fuel > d` -/
def walkYears : Nat → Nat → Nat → Nat × Nat
  | 0, y, d => (y, d)
  | f + 1, y, d => if d < yearLen y then (y, d) else walkYears f (y + 1) (d - yearLen y)

/-- (month, day of the month counted from 0) reached from the first of month `m` after `d` more days -/
def walkMonths : Nat → Nat → Nat → Nat → Nat × Nat
  | 0, _, m, d => (m, d)
  | f + 1, y, m, d => if d < monthLen y m then (m, d) else walkMonths f y (m + 1) (d - monthLen y m)

structure Civil where
  y : Nat
  m : Nat
  d : Nat
  deriving Repr, DecidableEq

/-- calendar date of day number `n` (days since 1970-01-01) -/
def civilOfDay (n : Nat) : Civil :=
  let yd := walkYears (n + 1) 1970 n
  let md := walkMonths 12 yd.1 1 yd.2
  { y := yd.1, m := md.1, d := md.2 + 1 }

/-- numpy `get_datetimestruct_days`, the loop over the months before `m` -/
def monthsBefore (y m : Nat) : Nat := ((List.range (m - 1)).map (fun i => monthLen y (i + 1))).sum

/-- numpy `get_datetimestruct_days`, years ≥ 1970: `year * 365`, plus one day for every fourth year counted from 1968,
minus one for every hundredth counted from 1900, plus one for every four-hundredth counted from 1600 -/
def daysBeforeYearK (k : Nat) : Nat := k * 365 + (k + 1) / 4 + (k + 369) / 400 - (k + 69) / 100

def daysBeforeYear (y : Nat) : Nat := daysBeforeYearK (y - 1970)

/-- days since 1970-01-01 of a calendar date -/
def daysOfCivil (c : Civil) : Nat := daysBeforeYear c.y + monthsBefore c.y c.m + (c.d - 1)

def pad2 (n : Nat) : List Char := [Nat.digitChar (n / 10 % 10), Nat.digitChar (n % 10)]
def pad3 (n : Nat) : List Char := [Nat.digitChar (n / 100 % 10), Nat.digitChar (n / 10 % 10), Nat.digitChar (n % 10)]
def pad4 (n : Nat) : List Char :=
  [Nat.digitChar (n / 1000 % 10), Nat.digitChar (n / 100 % 10), Nat.digitChar (n / 10 % 10), Nat.digitChar (n % 10)]

/-- what the instrument writes for the instant `T` ms after 1970-01-01 00:00: `2024-07-17 13:12:58.112` -/
def fmtStamp (T : Nat) : List Char :=
  let c := civilOfDay (T / 86400000)
  let r := T % 86400000
  pad4 c.y ++ '-' :: pad2 c.m ++ '-' :: pad2 c.d ++ ' ' :: pad2 (r / 3600000) ++ ':' :: pad2 (r / 60000 % 60) ++
    ':' :: pad2 (r / 1000 % 60) ++ '.' :: pad3 (r % 1000)

/-- `datetime64[ms]` (ms since 1970-01-01) of an ISO stamp with a millisecond fraction, date and time separated by a
blank or a `T`; the ranges of month, day, hour … are not validated here -/
def parseStamp (cs : List Char) : Option Nat :=
  match cs with
  | [y1, y2, y3, y4, '-', m1, m2, '-', d1, d2, sep, h1, h2, ':', n1, n2, ':', s1, s2, '.', f1, f2, f3] =>
    if sep = ' ' ∨ sep = 'T' then do
      let y ← digitsVal [y1, y2, y3, y4]
      let m ← digitsVal [m1, m2]
      let d ← digitsVal [d1, d2]
      let h ← digitsVal [h1, h2]
      let n ← digitsVal [n1, n2]
      let s ← digitsVal [s1, s2]
      let f ← digitsVal [f1, f2, f3]
      pure (daysOfCivil { y := y, m := m, d := d } * 86400000 + ((h * 60 + n) * 60 + s) * 1000 + f)
    else none
  | _ => none

/-- `line.split(",")` -/
def splitComma : List Char → List (List Char)
  | [] => [[]]
  | c :: rest =>
    if c = ',' then [] :: splitComma rest
    else match splitComma rest with
      | [] => [[c]]
      | p :: ps => (c :: p) :: ps

def joinComma : List (List Char) → List Char
  | [] => []
  | [f] => f
  | f :: g :: fs => f ++ ',' :: joinComma (g :: fs)

/-- a stage coordinate in 1e-4 µm as the log prints it: sign, integer part, four decimals -/
def fmtFixed4 (u : Int) : List Char :=
  (if u < 0 then ['-'] else []) ++ Nat.toDigits 10 (u.natAbs / 10000) ++ '.' :: pad4 (u.natAbs % 10000)

/-- `float(field)` of such a number, in 1e-4 µm -/
def parseFixed4 (cs : List Char) : Option Int :=
  let neg := cs.head? == some '-'
  let body := if neg then cs.drop 1 else cs
  let ip := body.takeWhile (· != '.')
  let fp := (body.dropWhile (· != '.')).drop 1
  if fp.length = 4 then do
    let a ← digitsVal ip
    let b ← digitsVal fp
    pure (if neg then -((a * 10000 + b : Nat) : Int) else ((a * 10000 + b : Nat) : Int))
  else none

/-- the columns of a line that the synchronisation never reads: sub-point and vertex number, comment, intended
coordinates, scan velocity, repetition rate, spot type -/
structure Extras where
  sub : List Char
  vertex : List Char
  comment : List Char
  ix : List Char
  iy : List Char
  vel : List Char
  rate : List Char
  spotType : List Char

/-- no unread column holds a comma -/
def Extras.clean (e : Extras) : Prop :=
  ∀ f ∈ [e.sub, e.vertex, e.comment, e.ix, e.iy, e.vel, e.rate, e.spotType], ∀ c ∈ f, c ≠ ','

/-- the sequence number column: blank on all rows but the first of a pattern -/
def fmtSeq (s : Int) : List Char := if s = -1 then [] else Nat.toDigits 10 s.toNat

/-- an `int` column read by `np.genfromtxt`: a blank field is filled with -1 -/
def parseIntField (cs : List Char) : Option Int :=
  if cs.isEmpty then some (-1)
  else match digitsVal cs with
    | some n => some (Int.ofNat n)
    | none => none

/-- the line the instrument writes for row `r` when laser clock 0 is `base` ms after 1970-01-01 -/
def fmtLine (base : Int) (r : Row) (e : Extras) : List Char :=
  joinComma [fmtStamp (base + r.time).toNat, fmtSeq r.seq, e.sub, e.vertex, e.comment, fmtFixed4 r.x, fmtFixed4 r.y,
    e.ix, e.iy, e.vel, if r.on then ['O', 'n'] else ['O', 'f', 'f'], e.rate, e.spotType, r.spot.toList]

/-- `read_nwi_laser_log` on one line: columns 0, 1, 5, 6, 10, 13 (state kept to 3, spot size to 32 characters);
`none` = the line has fewer than 14 fields or a field does not convert -/
def parseLine (cs : List Char) : Option Row :=
  let f := splitComma cs
  if f.length < 14 then none
  else do
    let t ← parseStamp (f.getD 0 [])
    let s ← parseIntField (f.getD 1 [])
    let x ← parseFixed4 (f.getD 5 [])
    let y ← parseFixed4 (f.getD 6 [])
    pure { time := (t : Int), seq := s, x := x, y := y, on := (f.getD 10 []).take 3 == ['O', 'n'],
           spot := String.ofList ((f.getD 13 []).take 32) }

/-- a row at its absolute time: `b` = ms from 1970-01-01 to laser clock 0 -/
def shiftRow (b : Int) (r : Row) : Row := { r with time := b + r.time }

/-- the data lines of the log file -/
def renderLog (base : Int) (l : List (Row × Extras)) : List (List Char) := l.map (fun re => fmtLine base re.1 re.2)

/-- `read_nwi_laser_log` on the data lines (before the forward fill, which `selectRows` does) -/
def parseLog (lines : List (List Char)) : Option (List Row) := lines.mapM parseLine

/-- what the instrument writes in the unread columns: sub-point 1 and the comment on the first row of a pattern,
intended coordinates and the scan velocity on stage-move rows (laser off, not the end of a line), the repetition rate
while the laser fires -/
def extrasOf (prevOn : Bool) (r : Row) : Extras :=
  let hdr := r.seq != -1
  let move := !r.on && !prevOn && !hdr
  { sub := if hdr then ['1'] else []
    vertex := []
    comment := if hdr then "Image Raster".toList ++ Nat.toDigits 10 r.seq.toNat else []
    ix := if move then fmtFixed4 r.x else []
    iy := if move then fmtFixed4 r.y else []
    vel := if move then ['4', '0', '0'] else []
    rate := if r.on then ['2', '0', '0'] else ['0']
    spotType := [] }

def withExtras : Bool → List Row → List (Row × Extras)
  | _, [] => []
  | prevOn, r :: rs => (r, extrasOf prevOn r) :: withExtras r.on rs

/-- the hypotheses of the text layer that can be computed: the log starts after 1970-01-01, ends before the year
10000, sequence numbers are blank (-1) or ≥ 0, and no spot size needs more than the 32 characters the reader keeps -/
def textHyp (base : Int) (rows : List Row) : Bool :=
  rows.all (fun r => decide (0 ≤ base + r.time) && decide (base + r.time < 253402300800000) &&
    (decide (r.seq = -1) || decide (0 ≤ r.seq)) && decide (r.spot.toList.length ≤ 32) && !r.spot.toList.contains ',')

/-- the whole chain from the text: the data lines are read, then synchronised; an unreadable line is a ValueError -/
def syncText (lines : List (List Char)) (sel : Option (List Int)) (shape : List Nat) (clk : Clock) (delay : Rat)
    (isnan : Nat → Bool) (squeeze : Bool) : Except String Result :=
  match parseLog lines with
  | none => .error "ValueError"
  | some rows => syncClock rows sel shape clk delay isnan squeeze

/-! ## specification: rendering a rastered acquisition, and its ground-truth image -/

inductive Dir | lr | rl | tb | bt
  deriving DecidableEq, Repr

def Dir.opposite : Dir → Dir
  | .lr => .rl
  | .rl => .lr
  | .tb => .bt
  | .bt => .tb

structure LineSpec where
  gap : Nat          -- ms of laser-off time before this line's `On`
  gapSamples : Nat   -- samples recorded during that gap (none when gap = 0)
  moves : Nat        -- stage-move rows logged before the `On` row (0, 1 or 2)
  deriving Repr

structure Pattern where
  seq : Int
  dir : Dir
  serp : Bool
  X : Int            -- low corner of the raster, 1e-4 µm
  Y : Int
  sxu : Nat          -- spot size along x, 1e-4 µm
  syu : Nat
  circular : Bool    -- spot written as "a" instead of "a x b"
  npix : Nat
  dwell : Nat        -- ms per pixel
  lines : List LineSpec
  deriving Repr

structure Acq where
  patterns : List Pattern
  phase : Rat        -- position of the sample inside its dwell / gap slot, 0 < phase < 1
  tailGap : Nat      -- laser-off time after the last line
  tailSamples : Nat
  skip : Nat         -- leading samples of the acquisition that are not part of the signal
  take : Nat         -- length of the signal
  t0 : Rat           -- time stamp (s) of the first sample of the signal
  deriving Repr

/-- four-decimal fixed point → shortest decimal string ("40", "1.1", "12.5", "0.0001") -/
def fmtDecL (u : Nat) : List Char :=
  let ip := u / 10000
  let fp := u % 10000
  if fp = 0 then Nat.toDigits 10 ip
  else
    -- four digits with leading zeros, trailing zeros removed
    let digits := [Nat.digitChar (fp / 1000), Nat.digitChar (fp / 100 % 10), Nat.digitChar (fp / 10 % 10),
      Nat.digitChar (fp % 10)]
    let trimmed := (digits.reverse.dropWhile (· == '0')).reverse
    Nat.toDigits 10 ip ++ '.' :: trimmed

def fmtDec (u : Nat) : String := String.ofList (fmtDecL u)

def Pattern.spotL (p : Pattern) : List Char :=
  if p.circular then fmtDecL p.sxu else fmtDecL p.sxu ++ [' ', 'x', ' '] ++ fmtDecL p.syu

def Pattern.spotStr (p : Pattern) : String := String.ofList p.spotL

def Pattern.lineDir (p : Pattern) (i : Nat) : Dir :=
  if p.serp && i % 2 = 1 then p.dir.opposite else p.dir

/-- stage coordinates written in the `On` and the following `Off` row of line `i` -/
def Pattern.lineEnds (p : Pattern) (i : Nat) : (Int × Int) × (Int × Int) :=
  let far := (p.npix * p.sxu : Nat)
  let fary := (p.npix * p.syu : Nat)
  match p.lineDir i with
  | .lr => ((p.X, p.Y + (i * p.syu : Nat)), (p.X + far, p.Y + (i * p.syu : Nat)))
  | .rl => ((p.X + far, p.Y + (i * p.syu : Nat)), (p.X, p.Y + (i * p.syu : Nat)))
  | .tb => ((p.X + (i * p.sxu : Nat), p.Y), (p.X + (i * p.sxu : Nat), p.Y + fary))
  | .bt => ((p.X + (i * p.sxu : Nat), p.Y + fary), (p.X + (i * p.sxu : Nat), p.Y))

/-- stage coordinates (low corner) of the pixel under the laser at step `j` of line `i` -/
def Pattern.stepCell (p : Pattern) (i j : Nat) : Int × Int :=
  match p.lineDir i with
  | .lr => (p.X + (j * p.sxu : Nat), p.Y + (i * p.syu : Nat))
  | .rl => (p.X + ((p.npix - 1 - j) * p.sxu : Nat), p.Y + (i * p.syu : Nat))
  | .tb => (p.X + (i * p.sxu : Nat), p.Y + (j * p.syu : Nat))
  | .bt => (p.X + (i * p.sxu : Nat), p.Y + ((p.npix - 1 - j) * p.syu : Nat))

/-- a recorded sample: laser clock (ms) and, when the laser was on, the pattern's sequence number
and the stage cell under the laser -/
structure Sample where
  t : Rat
  cell : Option (Int × Int × Int)
  deriving Repr

/-- `k` samples spread over the slot `[start, start + len)` ms, each at fraction `phase` of its share -/
def slotSamples (phase : Rat) (start : Nat) (len : Nat) (k : Nat) (cell : Nat → Option (Int × Int × Int)) :
    List Sample :=
  (List.range k).map (fun (j : Nat) =>
    { t := (start : Rat) + ((j : Rat) + phase) * ((len : Rat) / (k : Rat)), cell := cell j })

/-! ### layout: one record per line, the laser clock threaded explicitly -/

/-- line `i` of pattern `p`; `clock` is the laser clock (ms) when the laser-off gap before the line
begins -/
structure LineRec where
  p : Pattern
  i : Nat
  ln : LineSpec
  clock : Nat
  deriving Repr

namespace LineRec

/-- laser clock of the `On` row -/
def on (l : LineRec) : Nat := l.clock + l.ln.gap

/-- laser clock of the `Off` row -/
def off (l : LineRec) : Nat := l.on + l.p.npix * l.p.dwell

/-- samples recorded during the gap before the line -/
def gapCount (l : LineRec) : Nat := if l.ln.gap = 0 then 0 else l.ln.gapSamples

def onRow (l : LineRec) : Row :=
  { time := l.on, seq := -1, x := (l.p.lineEnds l.i).1.1, y := (l.p.lineEnds l.i).1.2, on := true, spot := l.p.spotStr }

def offRow (l : LineRec) : Row :=
  { time := l.off, seq := -1, x := (l.p.lineEnds l.i).2.1, y := (l.p.lineEnds l.i).2.2, on := false, spot := l.p.spotStr }

/-- stage moves to outside the raster, logged with time stamps around the line like the real logs -/
def moveRows (l : LineRec) : List Row :=
  let p := l.p
  let ends := p.lineEnds l.i
  let horiz := (p.lineDir l.i == .lr) || (p.lineDir l.i == .rl)
  let out1 : Int × Int := if horiz then (p.X - (7 * p.sxu + 1234 : Nat), ends.1.2)
                          else (ends.1.1, p.Y - (7 * p.syu + 1234 : Nat))
  let out2 : Int × Int := if horiz then (p.X + ((p.npix + 7) * p.sxu + 4321 : Nat), ends.1.2)
                          else (ends.1.1, p.Y + ((p.npix + 7) * p.syu + 4321 : Nat))
  let mv1 : Row := { time := (l.on : Int) - 1, seq := -1, x := out1.1, y := out1.2, on := false, spot := p.spotStr }
  let mv2 : Row := { time := (l.off : Int) + 1, seq := -1, x := out2.1, y := out2.2, on := false, spot := p.spotStr }
  if l.ln.moves = 0 then [] else if l.ln.moves = 1 then [mv1] else [mv1, mv2]

/-- the log rows of the line: stage moves, `On`, `Off` -/
def rows (l : LineRec) : List Row := l.moveRows ++ [l.onRow, l.offRow]

/-- laser-off samples of the gap, strictly inside `(clock, on)` -/
def gapS (phase : Rat) (l : LineRec) : List Sample :=
  slotSamples phase l.clock l.ln.gap l.gapCount (fun _ => none)

/-- one sample per pixel, strictly inside its dwell slot -/
def pixS (phase : Rat) (l : LineRec) : List Sample :=
  slotSamples phase l.on (l.p.npix * l.p.dwell) l.p.npix
    (fun j => let c := l.p.stepCell l.i j; some (l.p.seq, c.1, c.2))

def samples (phase : Rat) (l : LineRec) : List Sample := l.gapS phase ++ l.pixS phase

end LineRec

/-- the lines `i, i+1, …` of pattern `p` laid out from laser clock `c` -/
def layLines (p : Pattern) : Nat → Nat → List LineSpec → List LineRec
  | _, _, [] => []
  | i, c, ln :: rest =>
    let l : LineRec := { p := p, i := i, ln := ln, clock := c }
    l :: layLines p (i + 1) l.off rest

/-- laser clock after the lines -/
def linesEnd (p : Pattern) : Nat → List LineSpec → Nat
  | c, [] => c
  | c, ln :: rest => linesEnd p (c + ln.gap + p.npix * p.dwell) rest

/-- a logged pattern: its header rows are written at laser clock `clock` -/
structure PatRec where
  p : Pattern
  clock : Nat
  lines : List LineRec
  deriving Repr

def PatRec.hdr (b : PatRec) : Row :=
  { time := b.clock, seq := b.p.seq, x := (b.p.lineEnds 0).1.1, y := (b.p.lineEnds 0).1.2, on := false,
    spot := b.p.spotStr }

/-- header row carrying the sequence number, a second row with the column blank, then the lines -/
def PatRec.rows (b : PatRec) : List Row :=
  b.hdr :: { b.hdr with seq := -1 } :: b.lines.flatMap LineRec.rows

def layPatterns : Nat → List Pattern → List PatRec
  | _, [] => []
  | c, p :: ps => { p := p, clock := c, lines := layLines p 0 c p.lines } :: layPatterns (linesEnd p c p.lines) ps

def patsEnd : Nat → List Pattern → Nat
  | c, [] => c
  | c, p :: ps => patsEnd (linesEnd p c p.lines) ps

def Acq.recs (a : Acq) : List PatRec := layPatterns 0 a.patterns

/-- all lines of the acquisition in the order of recording -/
def Acq.lines (a : Acq) : List LineRec := a.recs.flatMap (·.lines)

/-- laser-off samples after the last line -/
def Acq.tailS (a : Acq) : List Sample :=
  if a.tailGap = 0 then [] else slotSamples a.phase (patsEnd 0 a.patterns) a.tailGap a.tailSamples (fun _ => none)

structure Emit where
  rows : List Row := []
  samples : List Sample := []
  deriving Repr

def emitAll (a : Acq) : Emit :=
  { rows := a.recs.flatMap PatRec.rows
    samples := a.lines.flatMap (LineRec.samples a.phase) ++ a.tailS }

def isSelected (sel : Option (List Int)) (s : Int) : Bool :=
  match sel with
  | none => true
  | some l => l.contains s

/-- the recorded signal: samples `skip .. skip+take` of the acquisition -/
def signal (a : Acq) : List Sample := ((emitAll a).samples.drop a.skip).take a.take

/-- laser clock (ms) of the first firing of the selection -/
def firstFiring (a : Acq) (sel : Option (List Int)) : Option Int :=
  ((selectRows sel (emitAll a).rows).find? (·.on)).map (·.time)

structure Rendered where
  rows : List Row
  times : List Rat      -- s, as passed to the function
  delay : Rat           -- s
  deriving Repr

/-- the log, the sample times and the delay the caller passes for this acquisition -/
def render (a : Acq) (sel : Option (List Int)) : Option Rendered := do
  let f ← firstFiring a sel
  let s := signal a
  let s0 ← s.head?
  pure { rows := (emitAll a).rows
         times := s.map (fun x => a.t0 + (x.t - s0.t) / 1000)
         delay := (s0.t - (f : Rat)) / 1000 }

/-- the stamps are those of a signal sampled every `dt` seconds: stamp `k` is the first one plus `k * dt` -/
def isUniform (ts : List Rat) (dt : Rat) : Bool :=
  decide (0 ≤ dt) &&
    decide (ts = (List.range ts.length).map (fun (k : Nat) => ts.headD 0 + (k : Rat) * dt))

/-- the acquisition time per sample a caller may pass instead of the stamps: defined when the recorded
signal was sampled at a constant interval (all dwell times equal, every laser-off gap a whole number of
them).  A signal of a single sample is described by any interval; the first pattern's dwell time is
taken. -/
def Acq.interval (a : Acq) (ts : List Rat) : Option Rat :=
  match ts with
  | [] => none
  | [_] => a.patterns.head?.map (fun p => (p.dwell : Rat) / 1000)
  | t0 :: t1 :: _ => if isUniform ts (t1 - t0) then some (t1 - t0) else none

def selectedPatterns (a : Acq) (sel : Option (List Int)) : List Pattern :=
  a.patterns.filter (fun p => isSelected sel p.seq)

/-- origin of the selection: the per-axis minimum of the rasters' low corners -/
def truthOrigin (a : Acq) (sel : Option (List Int)) : Int × Int :=
  let ps := selectedPatterns a sel
  (minList (ps.map (·.X)), minList (ps.map (·.Y)))

/-- ground truth: `(row, col, k)` — pixel (row, col) was under the laser when sample `k` of the
signal was recorded.  Pixels are counted from the origin in units of the spot size. -/
def truthCells (a : Acq) (sel : Option (List Int)) : List (Int × Int × Nat) :=
  let o := truthOrigin a sel
  match (selectedPatterns a sel).head? with
  | none => []
  | some p0 =>
    (List.zip (List.range a.take) (signal a)).filterMap (fun ks =>
      match ks.2.cell with
      | none => none
      | some (s, x, y) =>
        if isSelected sel s then some ((y - o.2) / (p0.syu : Int), (x - o.1) / (p0.sxu : Int), ks.1) else none)

/-- the patterns that are imported, as laid-out records -/
def selRecs (a : Acq) (sel : Option (List Int)) : List PatRec :=
  a.recs.filter (fun b => isSelected sel b.p.seq)

/-- the lines that are imported, in the order of recording -/
def selLines (a : Acq) (sel : Option (List Int)) : List LineRec := (selRecs a sel).flatMap (·.lines)

/-- `On`/`Off` rows of a line as they appear after selection (labelled with the pattern's number) -/
def LineRec.pair (l : LineRec) : Row × Row := (setSeq l.onRow l.p.seq, setSeq l.offRow l.p.seq)

/-- ground-truth pixel (row, column) of travel step `j` of a line, `p0` the first selected pattern -/
def truthPixel (a : Acq) (sel : Option (List Int)) (p0 : Pattern) (l : LineRec) (j : Nat) : Int × Int :=
  (((l.p.stepCell l.i j).2 - (truthOrigin a sel).2) / (p0.syu : Int),
   ((l.p.stepCell l.i j).1 - (truthOrigin a sel).1) / (p0.sxu : Int))

/-- the lines with the index (in the acquisition's sample list) of the sample of their first pixel:
prefix sums of the gap and pixel sample counts -/
def lineStarts : Nat → List LineRec → List (LineRec × Nat)
  | _, [] => []
  | s, l :: rest => (l, s + l.gapCount) :: lineStarts (s + l.gapCount + l.p.npix) rest

/-- line `l`, whose pixel samples are `P .. P + npix`, is recorded from some pixel on to its end, or
not at all -/
def lineRecorded (a : Acq) (l : LineRec) (P : Nat) : Bool :=
  (decide (a.skip ≤ P + l.p.npix - 1) && decide (P + l.p.npix - 1 < a.skip + a.take)) ||
  (decide (P + l.p.npix ≤ a.skip) || decide (a.skip + a.take ≤ P))

/-- the inputs for which the ground truth is defined by the property's text: the samples sit strictly
inside their dwell / gap slots, the log numbers its patterns with non-negative non-decreasing
sequence numbers, every selected pattern has the spot size of the first one and sits on the common
pixel grid, every line of a selected pattern is recorded completely, not at all, or from some pixel
on to its end (a signal that starts late, i.e. a positive delay), and no pixel is visited twice by
the recorded lines of the selection -/
def truthHyp (a : Acq) (sel : Option (List Int)) : Bool :=
  let ps := selectedPatterns a sel
  let o := truthOrigin a sel
  match ps.head? with
  | none => false
  | some p0 =>
    decide (0 < a.phase) && decide (a.phase < 1) &&
    a.patterns.all (fun p => decide (0 ≤ p.seq) && decide (0 < p.dwell)) &&
    decide ((a.patterns.map (·.seq)).Pairwise (· ≤ ·)) &&
    decide (0 < p0.sxu) && decide (0 < p0.syu) && (!p0.circular || p0.sxu == p0.syu) &&
    ps.all (fun p => p.sxu == p0.sxu && p.syu == p0.syu && p.circular == p0.circular &&
      decide ((p.X - o.1) % (p0.sxu : Int) = 0) && decide ((p.Y - o.2) % (p0.syu : Int) = 0) &&
      decide (0 < p.npix) && !p.lines.isEmpty) &&
    -- complete or absent lines
    (lineStarts 0 a.lines).all (fun lP => !isSelected sel lP.1.p.seq || lineRecorded a lP.1 lP.2) &&
    decide (0 < a.take) && decide (a.skip + a.take ≤ (emitAll a).samples.length) &&
    decide (((truthCells a sel).map (fun e => (e.1, e.2.1))).Nodup)

/-- ground-truth image of the given size -/
def truthImage (a : Acq) (sel : Option (List Int)) (h w : Nat) : List (List (Option Nat)) :=
  let cells := truthCells a sel
  (List.range h).map (fun (r : Nat) => (List.range w).map (fun (c : Nat) =>
    (cells.find? (fun e => e.1 == (r : Int) && e.2.1 == (c : Int))).map (·.2.2)))

/-- the smallest image that holds every visited pixel -/
def truthBox (a : Acq) (sel : Option (List Int)) : Nat × Nat :=
  let cells := truthCells a sel
  ((maxList (cells.map (·.1)) + 1).toNat, (maxList (cells.map (·.2.1)) + 1).toNat)

end Pew.Sync
