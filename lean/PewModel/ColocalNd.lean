import PewModel.Colocal

/-!
# C14 — block shuffling of arrays of any dimension (`pewlib.process.calc.shuffle_blocks`, `view_as_blocks`)

The same mechanism as `PewModel/Colocal.lean` (which is its 2-D instance, see `PewTheorems/C14.lean`,
`nd_coincides_2d`), written the way the code is: dimension-generic.  Shapes, blocks and coordinates are lists
(one entry per axis), the block grid is indexed by flat row-major indices (`np.ravel_multi_index` /
`np.unravel_index`), and everything is done per axis:

* `prepareNd`: pad mode - `np.pad(x, [(0, (b - s % b) % b) ...], mode="edge")` for array and mask; in-place mode -
  one write `np.swapaxes(mask, 0, axis)[slice(t, None)] = False` per axis into (a copy of) the mask;
* `view_as_blocks`: block `B` (a coordinate of the block grid of shape `N // block`) holds the pixels
  `B * block + o` for the offsets `o` in the box `block`;
* the mask reduction `np.all` / `np.any` over the block axes, `np.nonzero` + `np.ravel_multi_index` (ascending flat
  block indices), `blocks[idx] = blocks[nidx]`, crop to the original shape.
-/
namespace Pew.Colocal

structure NdImg (α : Type) where
  shape : List Nat
  /-- indexed by the coordinate vector (one entry per axis) -/
  get : List Nat → α

/-- number of elements of a box -/
def prodL : List Nat → Nat
  | [] => 1
  | n :: ns => n * prodL ns

/-- all coordinate vectors of a box in row-major (C) order -/
def coords : List Nat → List (List Nat)
  | [] => [[]]
  | n :: ns => (List.range n).flatMap (fun i => (coords ns).map (fun c => i :: c))

/-- `np.ravel_multi_index(c, shape)` (row-major) -/
def ravel : List Nat → List Nat → Nat
  | _ :: ns, i :: is => i * prodL ns + ravel ns is
  | _, _ => 0

/-- `np.unravel_index(f, shape)` -/
def unravel : List Nat → Nat → List Nat
  | [], _ => []
  | _ :: ns, f => f / prodL ns :: unravel ns (f % prodL ns)

/-- `a < n` on every axis (and as many axes) -/
def ltAll : List Nat → List Nat → Bool
  | [], [] => true
  | a :: as, n :: ns => decide (a < n) && ltAll as ns
  | _, _ => false

def divL (c b : List Nat) : List Nat := List.zipWith (· / ·) c b

def modL (c b : List Nat) : List Nat := List.zipWith (· % ·) c b

/-- `G * b + o` per axis: the pixel with offset `o` inside block `G` -/
def recomb (G b o : List Nat) : List Nat := List.zipWith (· + ·) (List.zipWith (· * ·) G b) o

/-- the working array and mask after the mode-specific preparation -/
structure NdPrep (α : Type) where
  N : List Nat
  X : List Nat → α
  M : List Nat → Bool

/-- `trim = x.shape - (np.array(x.shape) % block)`, with the axis it belongs to -/
def trimExt (shape block : List Nat) : List (Nat × Nat) :=
  (List.zipWith (fun s b => s - s % b) shape block).zipIdx

/-- inside the last whole block on every axis -/
def inTrim (shape block : List Nat) (c : List Nat) : Bool :=
  (trimExt shape block).all (fun tk => decide (c.getD tk.2 0 < tk.1))

def prepareNd {α} (x : NdImg α) (mask : List Nat → Bool) (block : List Nat) (padMode : Bool) : NdPrep α :=
  if padMode then
    { N := List.zipWith padExt x.shape block,
      X := fun c => x.get (List.zipWith edge x.shape c),
      M := fun c => mask (List.zipWith edge x.shape c) }
  else
    { N := x.shape, X := x.get, M := fun c => mask c && inTrim x.shape block c }

/-- shape of the block grid: `(N - block) // block + 1` per axis -/
def nBlocksL (N block : List Nat) : List Nat := divL N block

/-- the values of the mask inside block `B` (row-major over the offsets) -/
def blockCellsNd (M : List Nat → Bool) (block B : List Nat) : List Bool :=
  (coords block).map (fun o => M (recomb B block o))

/-- `np.any` / `np.all` over the block axes -/
def blockMaskNd (M : List Nat → Bool) (block : List Nat) (part : Bool) (B : List Nat) : Bool :=
  if part then (blockCellsNd M block B).any id else (blockCellsNd M block B).all id

/-- `np.ravel_multi_index(np.nonzero(mask), mask.shape)`: flat indices of the selected blocks, ascending -/
def selectedNd (M : List Nat → Bool) (block nb : List Nat) (part : Bool) : List Nat :=
  (List.range (prodL nb)).filter (fun f => blockMaskNd M block part (unravel nb f))

/-- the source pixel of output pixel `c` in the working array -/
def phiNd (block nb : List Nat) (idx nidx : List Nat) (c : List Nat) : List Nat :=
  if ltAll (divL c block) nb then
    recomb (unravel nb (src idx nidx (ravel nb (divL c block)))) block (modL c block)
  else c

/-- `shuffle_blocks` after the mode-specific preparation (cf. `shuffleFromPrep`) -/
def shuffleFromPrepNd {α} (p : NdPrep α) (shape block : List Nat) (part aliases : Bool) (nidx : List Nat) : NdImg α :=
  let nb := nBlocksL p.N block
  let idx := selectedNd p.M block nb part
  let nidx := if aliases then nidx else idx
  { shape := shape, get := fun c => p.X (phiNd block nb idx nidx c) }

def shuffleBlocksNd {α} (x : NdImg α) (mask : List Nat → Bool) (block : List Nat) (padMode part : Bool)
    (nidx : List Nat) : NdImg α :=
  shuffleFromPrepNd (prepareNd x mask block padMode) x.shape block part true nidx

/-- the list `idx` handed to `numpy.random.permutation` -/
def shuffleIdxNd {α} (x : NdImg α) (mask : List Nat → Bool) (block : List Nat) (padMode part : Bool) : List Nat :=
  let p := prepareNd x mask block padMode
  selectedNd p.M block (nBlocksL p.N block) part

/-- with the memory layout (`aliases`, see `layoutAliases`): a block view of a copy loses the assignment -/
def shuffleBlocksLayoutNd {α} (aliases : Bool) (x : NdImg α) (mask : List Nat → Bool) (block : List Nat)
    (padMode part : Bool) (nidx : List Nat) : NdImg α :=
  shuffleFromPrepNd (prepareNd x mask block padMode) x.shape block part aliases nidx

/-! ### the call: what is left of the arguments (cf. `shuffleCall`) -/

/-- `np.swapaxes(mask, 0, k)[slice(t, None)] = False` -/
def cutAxis (k t : Nat) (M : List Nat → Bool) : List Nat → Bool := fun c => M c && decide (c.getD k 0 < t)

/-- `for axis, t in enumerate(trim): ...`: one write per axis -/
def trimCutsNd (shape block : List Nat) : List ((List Nat → Bool) → (List Nat → Bool)) :=
  (trimExt shape block).map (fun tk => cutAxis tk.2 tk.1)

structure CallNd (α : Type) where
  ret : NdImg α
  xAfter : NdImg α
  maskAfter : List Nat → Bool

def shuffleCallNd {α} (copies aliases : Bool) (x : NdImg α) (mask : List Nat → Bool) (block : List Nat)
    (padMode part : Bool) (nidx : List Nat) : CallNd α :=
  if padMode then
    { ret := shuffleFromPrepNd (prepareNd x mask block true) x.shape block part aliases nidx,
      xAfter := x, maskAfter := mask }
  else
    let rm := inplaceMask copies (trimCutsNd x.shape block) { caller := mask }
    let p : NdPrep α := { N := x.shape, X := x.get, M := rm.2.read rm.1 }
    let out := shuffleFromPrepNd p x.shape block part aliases nidx
    { ret := out, xAfter := out, maskAfter := rm.2.caller }

/-! ### specification of a shuffle result, as a checkable relation between input and output -/

/-- is pixel `c` inside one of the selected blocks -/
def inSelectedNd (block nb idx : List Nat) (c : List Nat) : Bool :=
  ltAll (divL c block) nb && idx.contains (ravel nb (divL c block))

/-- pixels outside the shuffled blocks never move -/
def specOutsideNd (x out : NdImg Rat) (mask : List Nat → Bool) (block : List Nat) (padMode part : Bool) : Bool :=
  let p := prepareNd x mask block padMode
  let nb := nBlocksL p.N block
  let idx := selectedNd p.M block nb part
  (coords x.shape).all (fun c => inSelectedNd block nb idx c || decide (out.get c = x.get c))

/-- every (visible part of a) selected output block equals the same part of some selected input block -/
def specBlocksNd (x out : NdImg Rat) (mask : List Nat → Bool) (block : List Nat) (padMode part : Bool) : Bool :=
  let p := prepareNd x mask block padMode
  let nb := nBlocksL p.N block
  let idx := selectedNd p.M block nb part
  idx.all (fun f => idx.any (fun g =>
    (coords block).all (fun o =>
      let c := recomb (unravel nb f) block o
      !(ltAll c x.shape) || decide (out.get c = p.X (recomb (unravel nb g) block o)))))

/-- pixel values are conserved (as a multiset) -/
def specConservedNd (x out : NdImg Rat) : Bool :=
  sortR ((coords x.shape).map out.get) == sortR ((coords x.shape).map x.get)

/-- when conservation is promised: shape a multiple of the block on every axis, or in-place mode -/
def conservedAppliesNd {α} (x : NdImg α) (block : List Nat) (padMode : Bool) : Bool :=
  !padMode || (List.zipWith (fun s b => s % b == 0) x.shape block).all id

/-! ### the 2-D model inside the n-D one -/

def Img.toNd {α} (x : Img α) : NdImg α :=
  { shape := [x.n0, x.n1], get := fun c => x.get (c.getD 0 0) (c.getD 1 0) }

def maskToNd (mask : Nat → Nat → Bool) : List Nat → Bool := fun c => mask (c.getD 0 0) (c.getD 1 0)

end Pew.Colocal
