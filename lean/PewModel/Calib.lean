/-!
# C06 — calibration fits (`pewlib.calibration`)

Mechanism (shaped like the code): `weights_from_weighting` with its empty / all-NaN / all-zero
branches and the zero → smallest-non-zero replacement, the `weights` property, `update_linreg`
(NaN-row mask, fewer than two usable rows → identity, weights derived from the *masked* rows, then
`weighted_linreg`), `calibrate`.

`np.polynomial.polynomial.polyfit(x, y, 1, w=sqrt(w))` is external: it is modelled by the solution
of the weighted normal equations in closed form (`gradient`, `intercept`); that polyfit returns
this minimiser is the trusted link measured by the correspondence check.  `weighted_rsq` is
modelled as written: weighted covariance matrix (`np.cov(aweights=w)`, including its normalisation
factor), divided by the standard deviations, clipped, squared.

Specification: the centred ("textbook") weighted least-squares line and the squared weighted
correlation written with raw sums.

Values are `Option Rat` (`none` = NaN; safe mode never produces an infinity, see `weights_finite`).
-/
namespace Pew.Calib

abbrev V := Option Rat

/-! ## weights_from_weighting -/

/-- the weighting string after `.replace("y", "x")` -/
inductive Kind | equal | lin | inv | inv2
  deriving DecidableEq, Repr

/-- an entry of `Calibration.KNOWN_WEIGHTING`; `onY` = the string contains "y" -/
structure Builtin where
  onY : Bool
  kind : Kind
  deriving DecidableEq, Repr

def parseBuiltin : String → Option Builtin
  | "Equal" => some ⟨false, .equal⟩
  | "x" => some ⟨false, .lin⟩
  | "1/x" => some ⟨false, .inv⟩
  | "1/(x^2)" => some ⟨false, .inv2⟩
  | "y" => some ⟨true, .lin⟩
  | "1/y" => some ⟨true, .inv⟩
  | "1/(y^2)" => some ⟨true, .inv2⟩
  | _ => none

def minRat : List Rat → Option Rat
  | [] => none
  | a :: l =>
    match minRat l with
    | none => some a
    | some b => some (min a b)

/-- `np.nanmin`: minimum of the non-NaN entries, NaN when there are none -/
def nanmin (xs : List V) : V := minRat (xs.filterMap id)

def isZero (v : V) : Bool := v == some 0

/-- `x[x == 0] = np.nanmin(x[x != 0])` (NaN ≠ 0 is true, so NaNs are handed to nanmin, which skips them) -/
def replaceZeros (xs : List V) : List V :=
  let m := nanmin (xs.filter (fun v => !isZero v))
  xs.map (fun v => if isZero v then m else v)

/-- `1.0 / q`; a division by zero would be ±inf, which `V` cannot hold: `none` -/
def recip (q : Rat) : V := if q = 0 then none else some (1 / q)

def applyKind (k : Kind) (v : V) : V :=
  match k with
  | .equal => some 1            -- `np.ones_like(x)`: also at NaN positions
  | .lin => v
  | .inv => v.bind recip
  | .inv2 => v.bind (fun q => recip (q * q))

/-- `weights_from_weighting(x, weighting, safe=True)` -/
def weightsFromWeighting (xs : List V) (k : Kind) : List V :=
  if xs.isEmpty then []
  else if xs.all (·.isNone) then xs.map (fun _ => none)
  else if xs.all isZero then xs.map (fun _ => some 1)
  else (replaceZeros xs).map (applyKind k)

/-! ## the Calibration object -/

/-- one calibration point with the custom weight stored beside it (ignored for built-in weightings) -/
structure Row where
  x : V
  y : V
  cw : V
  deriving Repr, DecidableEq

inductive Weighting
  | builtin (b : Builtin)
  | custom                       -- a (name, array) pair whose name is not in KNOWN_WEIGHTING
  deriving Repr, DecidableEq

/-- the `weights` property -/
def weights (wt : Weighting) (rows : List Row) : List V :=
  match wt with
  | .builtin b => weightsFromWeighting (rows.map (fun r => if b.onY then r.y else r.x)) b.kind
  | .custom => rows.map (·.cw)

structure Pt where
  x : Rat
  y : Rat
  w : Rat
  deriving Repr, DecidableEq

def S (f : Pt → Rat) : List Pt → Rat
  | [] => 0
  | p :: l => f p + S f l

def Sw (l : List Pt) : Rat := S (fun p => p.w) l
def Sww (l : List Pt) : Rat := S (fun p => p.w * p.w) l
def Swx (l : List Pt) : Rat := S (fun p => p.w * p.x) l
def Swy (l : List Pt) : Rat := S (fun p => p.w * p.y) l
def Swxx (l : List Pt) : Rat := S (fun p => p.w * p.x * p.x) l
def Swxy (l : List Pt) : Rat := S (fun p => p.w * p.x * p.y) l
def Swyy (l : List Pt) : Rat := S (fun p => p.w * p.y * p.y) l
def D (l : List Pt) : Rat := Sw l * Swxx l - Swx l ^ 2
def Dy (l : List Pt) : Rat := Sw l * Swyy l - Swy l ^ 2
def N (l : List Pt) : Rat := Sw l * Swxy l - Swx l * Swy l

/-- solution of the weighted normal equations (stands for `polyfit(x, y, 1, w=sqrt(w))`) -/
def gradient (l : List Pt) : Rat := N l / D l
def intercept (l : List Pt) : Rat := (Swy l - gradient l * Swx l) / Sw l

/-- weighted sum of squared residuals of the line `a·x + b` -/
def cost (a b : Rat) (l : List Pt) : Rat := S (fun p => p.w * (p.y - (a * p.x + b)) ^ 2) l

/-- `weighted_rsq`: `np.cov(x, y, aweights=w)` = centred weighted sums over
`fact = Σw − Σw²/Σw`; correlation clipped to [−1, 1] and squared (`min 1` on the square).
NaN (`none`) when a variance is 0 (0/0). -/
def rsqMech (l : List Pt) : V :=
  let ax := Swx l / Sw l
  let ay := Swy l / Sw l
  let fact := Sw l - Sww l / Sw l
  let cxx := S (fun p => p.w * (p.x - ax) * (p.x - ax)) l / fact
  let cyy := S (fun p => p.w * (p.y - ay) * (p.y - ay)) l / fact
  let cxy := S (fun p => p.w * (p.x - ax) * (p.y - ay)) l / fact
  if cxx = 0 ∨ cyy = 0 then none
  else some (min 1 (cxy * cxy / (cxx * cyy)))

/-- square of the returned `error` (unweighted residual variance with n − 2 degrees of freedom) -/
def err2 (l : List Pt) : Rat :=
  if l.length > 2 then
    let g := gradient l     -- `coef[1]`, `coef[0]`: computed once
    let c := intercept l
    S (fun p => ((c + p.x * g) - p.y) ^ 2) l / ((l.length : Rat) - 2)
  else 0

/-- attributes set by `update_linreg`; `rsq`/`err2` = `none` is Python `None`,
`rsq = some none` is NaN -/
structure Fit where
  gradient : Rat
  intercept : Rat
  rsq : Option V
  err2 : Option Rat
  deriving Repr, DecidableEq

def identityFit : Fit := { gradient := 1, intercept := 0, rsq := none, err2 := none }

def weightedLinreg (l : List Pt) : Fit :=
  { gradient := gradient l, intercept := intercept l, rsq := some (rsqMech l), err2 := some (err2 l) }

def Row.usable (r : Row) : Bool := r.x.isSome && r.y.isSome

/-- `self.x[no_nans], self.y[no_nans]` -/
def usableRows (rows : List Row) : List Row := rows.filter Row.usable

/-- weights of the masked rows as derived by the repaired `update_linreg` -/
def fitWeights (wt : Weighting) (us : List Row) : List V := weights wt us

/-- the (x, y, w) triples handed to `weighted_linreg`.  A NaN custom weight on a usable row is
outside the property ("custom positive weight vectors"); it is read as 0 here and the driver
refuses such a request. -/
def mkPts (us : List Row) (ws : List V) : List Pt :=
  List.zipWith (fun r w => { x := r.x.getD 0, y := r.y.getD 0, w := w.getD 0 }) us ws

def fitPts (wt : Weighting) (rows : List Row) : List Pt :=
  let us := usableRows rows
  mkPts us (fitWeights wt us)

/-- `Calibration.update_linreg` (as repaired by e83c784) -/
def updateLinreg (wt : Weighting) (rows : List Row) : Fit :=
  if rows.isEmpty then identityFit
  else if (usableRows rows).length < 2 then identityFit
  else weightedLinreg (fitPts wt rows)

/-- the mechanism before e83c784: weights derived from all rows, then masked -/
def fitPtsOld (wt : Weighting) (rows : List Row) : List Pt :=
  let ws := weights wt rows
  let kept := (List.zip rows ws).filter (fun rw => rw.1.usable)
  mkPts (kept.map (·.1)) (kept.map (·.2))

def updateLinregOld (wt : Weighting) (rows : List Row) : Fit :=
  if rows.isEmpty then identityFit
  else if (usableRows rows).length < 2 then identityFit
  else weightedLinreg (fitPtsOld wt rows)

/-- `Calibration.calibrate` on one element (NaN stays NaN; a zero gradient gives a non-finite value) -/
def calibrate (g c : Rat) (d : V) : V :=
  if c = 0 ∧ g = 1 then d
  else d.bind (fun q => if g = 0 then none else some ((q - c) / g))

/-- specification of `calibrate`: the concentration of a response `r` under the line `g·x + c` is the one value
`(r − c) / g` — the pure formula, no shortcut, whatever number type the array holds the response in (the harness
hands over every element as the exact rational its dtype denotes: raw counts of any integer width, binary32,
binary64).  NaN stays NaN. -/
def specCalibrate (g c : Rat) (d : V) : V := d.map (fun r => (r - c) / g)

/-- a response lies on the line at concentration `x` -/
def onLine (g c : Rat) (r x : V) : Bool :=
  match r, x with
  | some r, some x => decide (g * x + c = r)
  | none, none => true
  | _, _ => false

/-! ## sessions: several operations on one object

`calibrate` reads nothing but the `gradient` and `intercept` attributes at the time of the call.  They are
plain public attributes: written by the constructor, by `update_linreg` and by direct assignment
(`cal.gradient = g`).  A session is a list of such operations on ONE object; the arrays returned by its
`calibrate` calls are what is observed. -/

/-- one operation on a `Calibration` object, as far as `calibrate` can see it -/
inductive Step
  | assign (g c : Rat)                        -- `cal.gradient = g; cal.intercept = c`
  | refit (wt : Weighting) (rows : List Row)  -- `cal.points = …; cal.weights = …; cal.update_linreg()`
  | calibrate (data : List V)                 -- `cal.calibrate(data)`; the returned array is recorded
  deriving Repr, DecidableEq

/-- the object after one operation, and the array the operation returns (if any).  Assigning the two
attributes leaves `rsq`/`error` as they were; `update_linreg` overwrites all four. -/
def step (o : Fit) : Step → Fit × Option (List V)
  | .assign g c => ({ o with gradient := g, intercept := c }, none)
  | .refit wt rows => (updateLinreg wt rows, none)
  | .calibrate d => (o, some (d.map (calibrate o.gradient o.intercept)))

/-- the object after a session -/
def finalState (o : Fit) : List Step → Fit
  | [] => o
  | s :: l => finalState (step o s).1 l

/-- the arrays returned by the `calibrate` calls of a session, in order -/
def run (o : Fit) : List Step → List (List V)
  | [] => []
  | s :: l =>
    match (step o s).2 with
    | none => run (step o s).1 l
    | some out => out :: run (step o s).1 l

/-! ## specification -/

def meanX(l : List Pt) : Rat := Swx l / Sw l
def meanY (l : List Pt) : Rat := Swy l / Sw l
def sxx (l : List Pt) : Rat := let mx := meanX l; S (fun p => p.w * (p.x - mx) ^ 2) l
def syy (l : List Pt) : Rat := let my := meanY l; S (fun p => p.w * (p.y - my) ^ 2) l
def sxy (l : List Pt) : Rat := let mx := meanX l; let my := meanY l; S (fun p => p.w * (p.x - mx) * (p.y - my)) l

/-- textbook weighted least squares: slope = weighted covariance / weighted variance,
the line passes through the weighted centroid -/
def specGradient (l : List Pt) : Rat := sxy l / sxx l
def specIntercept (l : List Pt) : Rat := meanY l - specGradient l * meanX l
/-- squared weighted correlation -/
def specRsq (l : List Pt) : Rat := N l ^ 2 / (D l * Dy l)

/-! ### weights, stated entry by entry (independent of `weightsFromWeighting`) -/

/-- the smallest entry that is neither zero nor NaN, in one pass (NaN = `none` when there is none) -/
def leastNonzero : List V → V
  | [] => none
  | none :: l => leastNonzero l
  | some q :: l =>
    if q = 0 then leastNonzero l
    else
      match leastNonzero l with
      | none => some q
      | some m => some (if q ≤ m then q else m)

/-- the weight function of a weighting at a finite non-zero value -/
def wFun (k : Kind) (q : Rat) : Rat :=
  match k with
  | .equal => 1
  | .lin => q
  | .inv => 1 / q
  | .inv2 => 1 / (q * q)

/-- weight of one entry `v` of the array `xs` -/
def specWeight (xs : List V) (k : Kind) (v : V) : V :=
  if xs.all (·.isNone) then none                     -- nothing but NaN: NaN everywhere
  else if xs.all (fun u => u == some 0) then some 1  -- nothing but zeros: 1 everywhere ("impossible weighting")
  else if k = .equal then some 1                     -- `Equal`: 1 everywhere, also at NaN entries
  else
    match v with
    | none => none                                   -- NaN stays NaN
    | some q =>
      if q ≠ 0 then some (wFun k q)
      else (leastNonzero xs).map (wFun k)            -- a zero stands for the smallest non-zero level; NaN if there is none

def specWeights (xs : List V) (k : Kind) : List V := xs.map (specWeight xs k)

/-- the precondition under which no finite entry may get a NaN or infinite weight: some entry is finite
and not zero (implied by "two distinct concentrations") -/
def hasNonzero (xs : List V) : Bool := xs.any (fun v => match v with | some q => decide (q ≠ 0) | none => false)

/-- every finite entry has a finite weight -/
def finiteAtFinite (xs ws : List V) : Bool :=
  xs.length == ws.length && (List.zip xs ws).all (fun p => p.1.isNone || p.2.isSome)

/-! ### `error`, stated with raw sums -/

/-- the (unweighted) residual variance about the *textbook* line with n − 2 degrees of freedom:
`(Σy² − 2gΣxy − 2cΣy + g²Σx² + 2gcΣx + n c²) / (n − 2)`, and 0 for n ≤ 2 (as the code defines it) -/
def specErr2 (l : List Pt) : Rat :=
  let g := specGradient l
  let c := specIntercept l
  if l.length > 2 then
    (S (fun p => p.y * p.y) l - 2 * g * S (fun p => p.x * p.y) l - 2 * c * S (fun p => p.y) l
      + g ^ 2 * S (fun p => p.x * p.x) l + 2 * g * c * S (fun p => p.x) l + c ^ 2 * (l.length : Rat))
      / ((l.length : Rat) - 2)
  else 0

/-! ### the whole clause, stated on the NaN-free table

"…once rows containing NaN are set aside … the fit does not change when points are reordered or NaN rows are
interleaved": the table handed to pewlib (`rows`) is a NaN-free table (`clean`) with rows containing NaN inserted at
any positions — a relation stated by itself, without the mask `update_linreg` computes — in any order. -/

/-- `NanInsert clean rows`: `rows` is `clean` (every row with both cells finite) with any number of rows that have NaN
in either or both cells inserted at any positions -/
inductive NanInsert : List Row → List Row → Prop
  | nil : NanInsert [] []
  | keep (r : Row) {c l : List Row} : r.x.isSome = true → r.y.isSome = true → NanInsert c l → NanInsert (r :: c) (r :: l)
  | nan (n : Row) {c l : List Row} : (n.x = none ∨ n.y = none) → NanInsert c l → NanInsert c (n :: l)

/-- the (x, y, w) triples of a NaN-free table as the property states them: for a built-in weighting the
entry-by-entry weights (`specWeights`) of the concentration (response) column, for a custom weighting the vector
given — no mask, no `nanmin`, no replacement pass -/
def specPts (wt : Weighting) (clean : List Row) : List Pt :=
  let ws : List V := match wt with
    | .builtin b => specWeights (clean.map (fun r => if b.onY then r.y else r.x)) b.kind
    | .custom => clean.map (·.cw)
  mkPts clean ws

/-- the hypothesis of the property on the fitted rows: positive weights and two distinct
concentrations -/
def fitHyp (l : List Pt) : Bool :=
  l.all (fun p => decide (0 < p.w)) && l.any (fun p => l.any (fun q => decide (p.x ≠ q.x)))

end Pew.Calib
