/-!
# C16 — text-image and VTK export (`pewlib.io.textimage`, `pewlib.io.vtk`)

## Text image
`save` is `np.savetxt(path, data, delimiter=",", comments="#", header=header, fmt="%.18g")`: when
`header` is not empty the text `"#" + header.replace("\n", "\n#") + "\n"` (the comment prefix has no
space, every line of a multi-line header gets it), then one line per row, the fields printed by
`fmt` and joined by commas, every line terminated by `\n`.

`load` (no delimiter given) opens the file in text mode (universal newlines: `\r\n` and a lone `\r`
arrive as `\n`), replaces `;` and tab by `,` in every line and hands the lines to
`np.genfromtxt(delimiter=",", comments="#", dtype=float64, ndmin=2)`.  Its `LineSplitter` cuts the line
at the first `#`, strips the characters space, `\r`, `\n` from both ends, returns no field for an
empty rest and `rest.split(",")` otherwise.  Lines without fields are skipped; the first line with
fields fixes the number of columns; a later line with another number of fields makes the call
raise `ValueError`; with no line at all a warning is issued and an empty array comes back.  Every
field goes through the *loose* float converter `float(field)` with `nan` for a `ValueError`
(so an empty or unparsable field is NaN, never an error).  The result has shape (rows, columns);
`_ensure_ndmin_ndarray(ndmin=2)` squeezes nothing (the code before commit 9e652ea used the default
`ndmin=0`, which squeezes every axis of length one, and `atleast_2d` then made a column a row).

The number printer and the converter are opaque parameters `fmt : α → Str` / `conv : Str → α`
(`conv` is total: it is `float` with the NaN fallback).  The theorems assume `conv (fmt x) = x` and
that `fmt` prints no delimiter, comment, newline or space character (`%.18g` → `float` is the
identity on float64 — trusted, exercised by the correspondence check).

## VTK
`save` raises the image to 3-D, flips axis 0, swaps axes 0 and 1, writes the XML header (extents,
origin, spacing, one `DataArray` per element with its byte offset into the appended section) and
the appended section: per element a `UInt64` byte count followed by the values in Fortran order.
-/
namespace Pew.Export

/-! ## text: characters and lines -/

abbrev Str := List Char

/-- `d.join(fields)` -/
def join (d : Char) : List Str → Str
  | [] => []
  | [x] => x
  | x :: y :: r => x ++ d :: join d (y :: r)

/-- `line.split(d)` -/
def splitOn (d : Char) : Str → List Str
  | [] => [[]]
  | c :: cs =>
    if c = d then [] :: splitOn d cs
    else match splitOn d cs with
      | [] => [[c]]
      | h :: t => (c :: h) :: t

/-- fields joined by the given separators (one fewer than fields): files with mixed delimiters -/
def joinWith : List Char → List Str → Str
  | _, [] => []
  | _, [x] => x
  | [], x :: y :: r => x ++ ',' :: joinWith [] (y :: r)
  | s :: ss, x :: y :: r => x ++ s :: joinWith ss (y :: r)

/-- reading in text mode with `newline=None`: `\r\n` and a lone `\r` are delivered as `\n`
(`prevCR`: the character before was a `\r`, so a `\n` now belongs to it) -/
def universalNewlines (prevCR : Bool) : Str → Str
  | [] => []
  | c :: r =>
    if c = '\r' then '\n' :: universalNewlines true r
    else if c = '\n' then (if prevCR then universalNewlines false r else '\n' :: universalNewlines false r)
    else c :: universalNewlines false r

/-- `for line in fp`: every piece up to and including its `\n`, and a last unterminated piece when
it is not empty -/
def pyLines (s : Str) : List Str :=
  let p := splitOn '\n' s
  p.dropLast.map (· ++ ['\n']) ++ (match p.getLast? with
    | some [] => []
    | some l => [l]
    | none => [])

/-- `line.replace(";", ",").replace("\t", ",")` -/
def normalise (line : Str) : Str := line.map fun c => if c = ';' ∨ c = '\t' then ',' else c

/-- `line.split("#")[0]` -/
def cutComment (line : Str) : Str := line.takeWhile (· ≠ '#')

/-- the characters of `line.strip(" \r\n")` -/
def isStripChar (c : Char) : Bool := c = ' ' || c = '\r' || c = '\n'

/-- `line.strip(" \r\n")` -/
def strip (s : Str) : Str := ((s.dropWhile isStripChar).reverse.dropWhile isStripChar).reverse

/-- `LineSplitter._delimited_splitter` with `delimiter=","`, `comments="#"`: the fields of a line,
none for a blank or comment-only line -/
def splitLine (line : Str) : List Str :=
  let body := strip (cutComment line)
  if body = [] then [] else splitOn ',' body

/-! ## text: save and load -/

variable {α : Type}

/-- savetxt's header: `comments + header.replace("\n", "\n" + comments) + "\n"` when `len(header) > 0` -/
def headerText (h : Str) : Str :=
  if h = [] then [] else '#' :: h.flatMap (fun c => if c = '\n' then ['\n', '#'] else [c]) ++ ['\n']

def saveText (fmt : α → Str) (header : Str) (img : List (List α)) : Str :=
  headerText header ++ img.flatMap fun row => join ',' (row.map fmt) ++ ['\n']

/-- an image written with arbitrary separators from `,` `;` tab (one list of separators per row) -/
def saveWith (fmt : α → Str) (seps : List (List Char)) (img : List (List α)) : Str :=
  (List.zip seps img).flatMap fun (ss, row) => joinWith ss (row.map fmt) ++ ['\n']

/-- the lines genfromtxt sees: the file read with universal newlines, `;` and tab replaced -/
def loaderLines (file : Str) : List Str := (pyLines (universalNewlines false file)).map normalise

/-- genfromtxt's rows of fields: lines without fields are skipped -/
def fieldRows (lines : List Str) : List (List Str) := (lines.map splitLine).filter (· ≠ [])

/-- `_ensure_ndmin_ndarray(a, ndmin)` followed by `np.atleast_2d`, on the shape of `a` -/
def shapeRule (ndmin : Nat) (sh : List Nat) : List Nat :=
  let sq := if sh.length > ndmin then sh.filter (· ≠ 1) else sh       -- np.squeeze
  let mn :=
    if sq.length < ndmin then
      match sq with
      | [] => if ndmin = 2 then [1, 1] else if ndmin = 1 then [1] else []
      | [n] => if ndmin = 2 then [n, 1] else [n]                       -- np.atleast_2d(a).T
      | s => s
    else sq
  match mn with                                                        -- np.atleast_2d
  | [] => [1, 1]
  | [n] => [1, n]
  | s => s

/-- the table `genfromtxt` builds, before number conversion: shape and row-major field strings;
`none` = the call raises `ValueError` (a row with another number of fields than the first).
No row at all: `np.array([])` of shape `(0,)` (and a warning). -/
def loadFields (ndmin : Nat) (file : Str) : Option (List Nat × List Str) :=
  match fieldRows (loaderLines file) with
  | [] => some (shapeRule ndmin [0], [])
  | r :: rs =>
    if rs.all (fun q => q.length == r.length) then
      some (shapeRule ndmin [rs.length + 1, r.length], (r :: rs).flatten)
    else none

/-- genfromtxt warns "Empty input file" exactly when no line has a field -/
def loadWarns (file : Str) : Bool := (fieldRows (loaderLines file)).isEmpty

/-- `textimage.load(path)`: shape and row-major values; `none` = raises.  `conv` is the loose float
converter (`float(field)`, NaN when that fails) -/
def loadText (conv : Str → α) (ndmin : Nat) (file : Str) : Option (List Nat × List α) :=
  (loadFields ndmin file).map fun (sh, d) => (sh, d.map conv)

/-! ## text: files written by other tools

The class of "delimiter variants of an image" made explicit as a writer: every line is indented by
some spaces, holds cells (a value with spaces before and after) separated by any of `,` `;` tab,
may end in a comment, and is terminated by `\n`, `\r\n`, a lone `\r`, or (last line) nothing.  A
line without cells is a blank or comment-only line. -/

inductive Eol where
  | lf | crlf | cr | eof
  deriving DecidableEq, Repr

def Eol.str : Eol → Str
  | .lf => ['\n']
  | .crlf => ['\r', '\n']
  | .cr => ['\r']
  | .eof => []

structure FLine (α : Type) where
  indent : Nat
  cells : List (Nat × α × Nat)
  seps : List Char
  comment : Option Str
  eol : Eol

def spaces (n : Nat) : Str := List.replicate n ' '

def cellText (fmt : α → Str) (c : Nat × α × Nat) : Str := spaces c.1 ++ fmt c.2.1 ++ spaces c.2.2

def commentText : Option Str → Str
  | none => []
  | some c => '#' :: c

/-- the text of a line before its terminator -/
def FLine.content (fmt : α → Str) (l : FLine α) : Str :=
  spaces l.indent ++ joinWith l.seps (l.cells.map (cellText fmt)) ++ commentText l.comment

def foreignFile (fmt : α → Str) (ls : List (FLine α)) : Str :=
  ls.flatMap fun l => l.content fmt ++ l.eol.str

/-- the description is one of a file of this class: separators are delimiters, one fewer than
cells; comments hold no line break; only the last line may lack a terminator, and then it is not
empty; a line ended by a lone `\r` is not followed by an empty line ended by `\n` (that pair of
lines is the single terminator `\r\n`) -/
def foreignOk (fmt : α → Str) : List (FLine α) → Bool
  | [] => true
  | l :: rest =>
    l.seps.all (fun s => s = ',' || s = ';' || s = '\t') &&
    (l.seps.length + 1 == l.cells.length || (l.cells.isEmpty && l.seps.isEmpty)) &&
    (match l.comment with | none => true | some c => c.all (fun x => x ≠ '\n' && x ≠ '\r')) &&
    (if l.eol = .eof then rest.isEmpty && !(l.content fmt).isEmpty else true) &&
    (match l.eol, rest with
      | .cr, n :: _ => !((n.content fmt).isEmpty && n.eol = .lf)
      | _, _ => true) &&
    foreignOk fmt rest

/-- the image a file of the class stands for: the values of the lines that have cells -/
def foreignImage (ls : List (FLine α)) : List (List α) :=
  (ls.filter (fun l => !l.cells.isEmpty)).map fun l => l.cells.map (·.2.1)

/-! ## VTK -/

/-- a 3-D array: `get i j k` for `i < n0`, `j < n1`, `k < n2` -/
structure Vol (α : Type) where
  n0 : Nat
  n1 : Nat
  n2 : Nat
  get : Nat → Nat → Nat → α

/-- `np.flip(data, axis=0)` -/
def flip0 (v : Vol α) : Vol α := { v with get := fun i j k => v.get (v.n0 - 1 - i) j k }

/-- `data.swapaxes(0, 1)` -/
def swap01 (v : Vol α) : Vol α := { n0 := v.n1, n1 := v.n0, n2 := v.n2, get := fun i j k => v.get j i k }

/-- `a.ravel("F")`: first index fastest -/
def ravelF (v : Vol α) : List α :=
  (List.range v.n2).flatMap fun k => (List.range v.n1).flatMap fun j => (List.range v.n0).map fun i => v.get i j k

/-- the array as written: flipped, swapped, Fortran order -/
def vtkBlock (v : Vol α) : List α := ravelF (swap01 (flip0 v))

/-- specification of one block: position `x + nx·(y + ny·z)` holds `data[ny − 1 − y][x][z]`
(`nx` = columns, `ny` = rows of the image) -/
def vtkBlockSpec (v : Vol α) : List α :=
  (List.range (v.n1 * v.n0 * v.n2)).map fun p =>
    let x := p % v.n1
    let y := (p / v.n1) % v.n0
    let z := p / (v.n1 * v.n0)
    v.get (v.n0 - 1 - y) x z

/-- the running `offset` of the header loop: `offset += size * itemsize + 8` -/
def offsetsFrom : Nat → List Nat → List Nat
  | _, [] => []
  | o, n :: ns => o :: offsetsFrom (o + (n * 8 + 8)) ns

/-- the appended section in 8-byte words: a byte count, then the values -/
inductive Word (α : Type) where
  | len (bytes : Nat)
  | val (a : α)

def appended : List (List α) → List (Word α)
  | [] => []
  | b :: bs => Word.len (b.length * 8) :: b.map Word.val ++ appended bs

/-! ## XML escaping of element names -/

/-- `string.replace(c, rep)` for a one-character key -/
def replaceC (c : Char) (rep : Str) (s : Str) : Str := s.flatMap fun x => if x = c then rep else [x]

/-- `escape_xml`: the five replacements in dictionary order, `&` first -/
def escapeMech (s : Str) : Str :=
  replaceC '\'' "&apos;".toList (replaceC '"' "&quot;".toList (replaceC '>' "&gt;".toList
    (replaceC '<' "&lt;".toList (replaceC '&' "&amp;".toList s))))

def escChar (c : Char) : Str :=
  if c = '&' then "&amp;".toList
  else if c = '<' then "&lt;".toList
  else if c = '>' then "&gt;".toList
  else if c = '"' then "&quot;".toList
  else if c = '\'' then "&apos;".toList
  else [c]

/-- specification: every character is replaced independently -/
def escapeSpec (s : Str) : Str := s.flatMap escChar

/-- the five predefined entities, read just after an ampersand: the character and the rest -/
def entityAt : Str → Option (Char × Str)
  | 'a' :: 'm' :: 'p' :: ';' :: t => some ('&', t)
  | 'l' :: 't' :: ';' :: t => some ('<', t)
  | 'g' :: 't' :: ';' :: t => some ('>', t)
  | 'q' :: 'u' :: 'o' :: 't' :: ';' :: t => some ('"', t)
  | 'a' :: 'p' :: 'o' :: 's' :: ';' :: t => some ('\'', t)
  | _ => none

theorem entityAt_length (r : Str) (d : Char) (t : Str) (h : entityAt r = some (d, t)) :
    t.length < r.length := by
  unfold entityAt at h
  split at h <;> simp at h <;> (obtain ⟨_, rfl⟩ := h; simp <;> omega)

/-- what an XML parser does with the five predefined entities in an attribute value -/
def unescape : Str → Str
  | [] => []
  | c :: r =>
    if c = '&' then
      match h : entityAt r with
      | some (d, t) =>
        have : t.length < r.length := entityAt_length r d t h
        d :: unescape t
      | none => c :: unescape r
    else c :: unescape r
termination_by s => s.length
decreasing_by all_goals simp_wf <;> omega

end Pew.Export
