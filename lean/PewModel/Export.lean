/-!
# C16 — text-image and VTK export (`pewlib.io.textimage`, `pewlib.io.vtk`)

## Text image
`save` is `np.savetxt(path, data, delimiter=",", comments="#", header=header, fmt="%.18g")`: an
optional header line `# <header>`, then one line per row, the fields printed by `fmt` and joined
by commas, every line terminated by `\n`.  `load` (no delimiter given) replaces `;` and tab by
`,` in every line and hands the lines to `np.genfromtxt(delimiter=",", comments="#", ndmin=2)`:
the comment is cut, blank lines are skipped, the line is split at commas, every field is parsed,
all rows must have the same number of columns; the array has shape (rows, columns); with `ndmin=2`
nothing is squeezed (the code before commit 9e652ea called it with the default `ndmin=0`, which
squeezes every axis of length one, and `atleast_2d` then turns a column into a row).

The number printer and parser are opaque parameters `fmt` / `parse`; the theorems assume
`parse (fmt x) = x` and that `fmt` prints no delimiter, comment or newline character (`%.18g` →
`strtod` is the identity on float64 — trusted, exercised by the correspondence check).

## VTK
`save` raises the image to 3-D, flips axis 0, swaps axes 0 and 1, writes the extents, one
`DataArray` per element with its byte offset into the appended section, and the appended section:
per element a `UInt64` byte count followed by the values in Fortran order.
-/
namespace Pew.Export

/-! ## text: characters and lines -/

abbrev Str := List Char

/-- `d.join(fields)` -/
def join (d : Char) : List Str → Str
  | [] => []
  | [x] => x
  | x :: y :: r => x ++ d :: join d (y :: r)

/-- `line.split(d)` -/
def splitOn (d : Char) : Str → List Str
  | [] => [[]]
  | c :: cs =>
    if c = d then [] :: splitOn d cs
    else match splitOn d cs with
      | [] => [[c]]
      | h :: t => (c :: h) :: t

/-- fields joined by the given separators (one fewer than fields): files with mixed delimiters -/
def joinWith : List Char → List Str → Str
  | _, [] => []
  | _, [x] => x
  | [], x :: y :: r => x ++ ',' :: joinWith [] (y :: r)
  | s :: ss, x :: y :: r => x ++ s :: joinWith ss (y :: r)

/-- iteration over a text file: the pieces terminated by `\n` (terminator removed, as
genfromtxt's splitter strips it), and a last unterminated piece when it is not empty -/
def fileLines (s : Str) : List Str :=
  let p := splitOn '\n' s
  if p.getLast? = some [] then p.dropLast else p

/-- `line.replace(";", ",").replace("\t", ",")` -/
def normalise (line : Str) : Str := line.map fun c => if c = ';' ∨ c = '\t' then ',' else c

/-- `line.split("#")[0]` -/
def cutComment (line : Str) : Str := line.takeWhile (· ≠ '#')

/-! ## text: save and load -/

variable {α : Type}

def headerLines : Option Str → Str
  | none => []
  | some h => '#' :: ' ' :: h ++ ['\n']

def saveText (fmt : α → Str) (header : Option Str) (img : List (List α)) : Str :=
  headerLines header ++ img.flatMap fun row => join ',' (row.map fmt) ++ ['\n']

/-- an image written with arbitrary separators from `,` `;` tab (one list of separators per row) -/
def saveWith (fmt : α → Str) (seps : List (List Char)) (img : List (List α)) : Str :=
  (List.zip seps img).flatMap fun (ss, row) => joinWith ss (row.map fmt) ++ ['\n']

def parseFields (parse : Str → Option α) : List Str → Option (List α)
  | [] => some []
  | f :: fs => match parse f, parseFields parse fs with
    | some x, some xs => some (x :: xs)
    | _, _ => none

/-- genfromtxt's row loop: cut comments, skip blank lines, split, parse; `none` = the call raises -/
def parseRows (parse : Str → Option α) : List Str → Option (List (List α))
  | [] => some []
  | l :: ls =>
    let body := cutComment l
    if body = [] then parseRows parse ls
    else match parseFields parse (splitOn ',' body), parseRows parse ls with
      | some r, some rs => some (r :: rs)
      | _, _ => none

/-- `_ensure_ndmin_ndarray` followed by `np.atleast_2d` on the shape `(r, c)` of the parsed table -/
def shapeRule (ndmin r c : Nat) : List Nat :=
  let sq := if 2 > ndmin then [r, c].filter (· ≠ 1) else [r, c]      -- np.squeeze
  let mn := match sq with                                              -- raise to ndmin (≤ 2)
    | [n] => if ndmin = 2 then [n, 1] else [n]                         -- atleast_2d(a).T
    | [] => if ndmin = 2 then [1, 1] else if ndmin = 1 then [1] else []
    | s => s
  match mn with                                                        -- np.atleast_2d
  | [] => [1, 1]
  | [n] => [1, n]
  | s => s

/-- `textimage.load(path)`: shape and row-major values; `none` = raises -/
def loadText (parse : Str → Option α) (ndmin : Nat) (file : Str) : Option (List Nat × List α) :=
  match parseRows parse ((fileLines file).map normalise) with
  | none => none
  | some [] => none                                  -- genfromtxt on an empty table: not an image
  | some (r :: rs) =>
    if rs.all (fun q => q.length == r.length) then
      some (shapeRule ndmin (rs.length + 1) r.length, (r :: rs).flatten)
    else none

/-! ## VTK -/

/-- a 3-D array: `get i j k` for `i < n0`, `j < n1`, `k < n2` -/
structure Vol (α : Type) where
  n0 : Nat
  n1 : Nat
  n2 : Nat
  get : Nat → Nat → Nat → α

/-- `np.flip(data, axis=0)` -/
def flip0 (v : Vol α) : Vol α := { v with get := fun i j k => v.get (v.n0 - 1 - i) j k }

/-- `data.swapaxes(0, 1)` -/
def swap01 (v : Vol α) : Vol α := { n0 := v.n1, n1 := v.n0, n2 := v.n2, get := fun i j k => v.get j i k }

/-- `a.ravel("F")`: first index fastest -/
def ravelF (v : Vol α) : List α :=
  (List.range v.n2).flatMap fun k => (List.range v.n1).flatMap fun j => (List.range v.n0).map fun i => v.get i j k

/-- the array as written: flipped, swapped, Fortran order -/
def vtkBlock (v : Vol α) : List α := ravelF (swap01 (flip0 v))

/-- specification of one block: position `x + nx·(y + ny·z)` holds `data[ny − 1 − y][x][z]`
(`nx` = columns, `ny` = rows of the image) -/
def vtkBlockSpec (v : Vol α) : List α :=
  (List.range (v.n1 * v.n0 * v.n2)).map fun p =>
    let x := p % v.n1
    let y := (p / v.n1) % v.n0
    let z := p / (v.n1 * v.n0)
    v.get (v.n0 - 1 - y) x z

/-- the running `offset` of the header loop: `offset += size * itemsize + 8` -/
def offsetsFrom : Nat → List Nat → List Nat
  | _, [] => []
  | o, n :: ns => o :: offsetsFrom (o + (n * 8 + 8)) ns

/-- the appended section in 8-byte words: a byte count, then the values -/
inductive Word (α : Type) where
  | len (bytes : Nat)
  | val (a : α)

def appended : List (List α) → List (Word α)
  | [] => []
  | b :: bs => Word.len (b.length * 8) :: b.map Word.val ++ appended bs

/-! ## XML escaping of element names -/

/-- `string.replace(c, rep)` for a one-character key -/
def replaceC (c : Char) (rep : Str) (s : Str) : Str := s.flatMap fun x => if x = c then rep else [x]

/-- `escape_xml`: the five replacements in dictionary order, `&` first -/
def escapeMech (s : Str) : Str :=
  replaceC '\'' "&apos;".toList (replaceC '"' "&quot;".toList (replaceC '>' "&gt;".toList
    (replaceC '<' "&lt;".toList (replaceC '&' "&amp;".toList s))))

def escChar (c : Char) : Str :=
  if c = '&' then "&amp;".toList
  else if c = '<' then "&lt;".toList
  else if c = '>' then "&gt;".toList
  else if c = '"' then "&quot;".toList
  else if c = '\'' then "&apos;".toList
  else [c]

/-- specification: every character is replaced independently -/
def escapeSpec (s : Str) : Str := s.flatMap escChar

/-- the five predefined entities, read just after an ampersand: the character and the rest -/
def entityAt : Str → Option (Char × Str)
  | 'a' :: 'm' :: 'p' :: ';' :: t => some ('&', t)
  | 'l' :: 't' :: ';' :: t => some ('<', t)
  | 'g' :: 't' :: ';' :: t => some ('>', t)
  | 'q' :: 'u' :: 'o' :: 't' :: ';' :: t => some ('"', t)
  | 'a' :: 'p' :: 'o' :: 's' :: ';' :: t => some ('\'', t)
  | _ => none

theorem entityAt_length (r : Str) (d : Char) (t : Str) (h : entityAt r = some (d, t)) :
    t.length < r.length := by
  unfold entityAt at h
  split at h <;> simp at h <;> (obtain ⟨_, rfl⟩ := h; simp <;> omega)

/-- what an XML parser does with the five predefined entities in an attribute value -/
def unescape : Str → Str
  | [] => []
  | c :: r =>
    if c = '&' then
      match h : entityAt r with
      | some (d, t) =>
        have : t.length < r.length := entityAt_length r d t h
        d :: unescape t
      | none => c :: unescape r
    else c :: unescape r
termination_by s => s.length
decreasing_by all_goals simp_wf <;> omega

end Pew.Export
