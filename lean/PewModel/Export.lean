/-!
# C16 — text-image and VTK export (`pewlib.io.textimage`, `pewlib.io.vtk`)

## Text image
`save` is `np.savetxt(path, data, delimiter=",", comments="#", header=header, fmt="%.18g")`: when
`header` is not empty the text `"#" + header.replace("\n", "\n#") + "\n"` (the comment prefix has no
space, every line of a multi-line header gets it), then one line per row, the fields printed by
`fmt` and joined by commas, every line terminated by `\n`.

`load` (no delimiter given) opens the file in text mode (universal newlines: `\r\n` and a lone `\r`
arrive as `\n`), replaces `;` and tab by `,` in every line and hands the lines to
`np.genfromtxt(delimiter=",", comments="#", dtype=float64, ndmin=2)`.  Its `LineSplitter` cuts the line
at the first `#`, strips the characters space, `\r`, `\n` from both ends, returns no field for an
empty rest and `rest.split(",")` otherwise.  Lines without fields are skipped; the first line with
fields fixes the number of columns; a later line with another number of fields makes the call
raise `ValueError`; with no line at all a warning is issued and an empty array comes back.  Every
field goes through the *loose* float converter `float(field)` with `nan` for a `ValueError`
(so an empty or unparsable field is NaN, never an error).  The result has shape (rows, columns);
`_ensure_ndmin_ndarray(ndmin=2)` squeezes nothing (the code before commit 9e652ea used the default
`ndmin=0`, which squeezes every axis of length one, and `atleast_2d` then made a column a row).

The number printer and the converter are opaque parameters `fmt : α → Str` / `conv : Str → α`
(`conv` is total: it is `float` with the NaN fallback).  The theorems assume `conv (fmt x) = x` and
that `fmt` prints no delimiter, comment, newline or space character (`%.18g` → `float` is the
identity on float64 — trusted, exercised by the correspondence check).

## VTK
`save` raises the image to 3-D, flips axis 0, swaps axes 0 and 1, writes the XML header (extents,
origin, spacing, one `DataArray` per element with its byte offset into the appended section) and
the appended section: per element a `UInt64` byte count followed by the values in Fortran order.
-/
namespace Pew.Export

/-! ## text: characters and lines -/

abbrev Str := List Char

/-- `d.join(fields)` -/
def join (d : Char) : List Str → Str
  | [] => []
  | [x] => x
  | x :: y :: r => x ++ d :: join d (y :: r)

/-- `line.split(d)` -/
def splitOn (d : Char) : Str → List Str
  | [] => [[]]
  | c :: cs =>
    if c = d then [] :: splitOn d cs
    else match splitOn d cs with
      | [] => [[c]]
      | h :: t => (c :: h) :: t

/-- fields joined by the given separators (one fewer than fields): files with mixed delimiters -/
def joinWith : List Char → List Str → Str
  | _, [] => []
  | _, [x] => x
  | [], x :: y :: r => x ++ ',' :: joinWith [] (y :: r)
  | s :: ss, x :: y :: r => x ++ s :: joinWith ss (y :: r)

/-- reading in text mode with `newline=None`: `\r\n` and a lone `\r` are delivered as `\n`
(`prevCR`: the character before was a `\r`, so a `\n` now belongs to it) -/
def universalNewlines (prevCR : Bool) : Str → Str
  | [] => []
  | c :: r =>
    if c = '\r' then '\n' :: universalNewlines true r
    else if c = '\n' then (if prevCR then universalNewlines false r else '\n' :: universalNewlines false r)
    else c :: universalNewlines false r

/-- `for line in fp`: every piece up to and including its `\n`, and a last unterminated piece when
it is not empty -/
def pyLines (s : Str) : List Str :=
  let p := splitOn '\n' s
  p.dropLast.map (· ++ ['\n']) ++ (match p.getLast? with
    | some [] => []
    | some l => [l]
    | none => [])

/-- `line.replace(";", ",").replace("\t", ",")` -/
def normalise (line : Str) : Str := line.map fun c => if c = ';' ∨ c = '\t' then ',' else c

/-- `line.split("#")[0]` -/
def cutComment (line : Str) : Str := line.takeWhile (· ≠ '#')

/-- the characters of `line.strip(" \r\n")` -/
def isStripChar (c : Char) : Bool := c = ' ' || c = '\r' || c = '\n'

/-- `line.strip(" \r\n")` -/
def strip (s : Str) : Str := ((s.dropWhile isStripChar).reverse.dropWhile isStripChar).reverse

/-- `LineSplitter._delimited_splitter` with `delimiter=","`, `comments="#"`: the fields of a line,
none for a blank or comment-only line -/
def splitLine (line : Str) : List Str :=
  let body := strip (cutComment line)
  if body = [] then [] else splitOn ',' body

/-! ## text: save and load -/

variable {α : Type}

/-- savetxt's header: `comments + header.replace("\n", "\n" + comments) + "\n"` when `len(header) > 0` -/
def headerText (h : Str) : Str :=
  if h = [] then [] else '#' :: h.flatMap (fun c => if c = '\n' then ['\n', '#'] else [c]) ++ ['\n']

def saveText (fmt : α → Str) (header : Str) (img : List (List α)) : Str :=
  headerText header ++ img.flatMap fun row => join ',' (row.map fmt) ++ ['\n']

/-- an image written with arbitrary separators from `,` `;` tab (one list of separators per row) -/
def saveWith (fmt : α → Str) (seps : List (List Char)) (img : List (List α)) : Str :=
  (List.zip seps img).flatMap fun (ss, row) => joinWith ss (row.map fmt) ++ ['\n']

/-- the lines genfromtxt sees: the file read with universal newlines, `;` and tab replaced -/
def loaderLines (file : Str) : List Str := (pyLines (universalNewlines false file)).map normalise

/-- genfromtxt's rows of fields: lines without fields are skipped -/
def fieldRows (lines : List Str) : List (List Str) := (lines.map splitLine).filter (· ≠ [])

/-- `_ensure_ndmin_ndarray(a, ndmin)` followed by `np.atleast_2d`, on the shape of `a` -/
def shapeRule (ndmin : Nat) (sh : List Nat) : List Nat :=
  let sq := if sh.length > ndmin then sh.filter (· ≠ 1) else sh       -- np.squeeze
  let mn :=
    if sq.length < ndmin then
      match sq with
      | [] => if ndmin = 2 then [1, 1] else if ndmin = 1 then [1] else []
      | [n] => if ndmin = 2 then [n, 1] else [n]                       -- np.atleast_2d(a).T
      | s => s
    else sq
  match mn with                                                        -- np.atleast_2d
  | [] => [1, 1]
  | [n] => [1, n]
  | s => s

/-- the table `genfromtxt` builds, before number conversion: shape and row-major field strings;
`none` = the call raises `ValueError` (a row with another number of fields than the first).
No row at all: `np.array([])` of shape `(0,)` (and a warning). -/
def loadFields (ndmin : Nat) (file : Str) : Option (List Nat × List Str) :=
  match fieldRows (loaderLines file) with
  | [] => some (shapeRule ndmin [0], [])
  | r :: rs =>
    if rs.all (fun q => q.length == r.length) then
      some (shapeRule ndmin [rs.length + 1, r.length], (r :: rs).flatten)
    else none

/-- genfromtxt warns "Empty input file" exactly when no line has a field -/
def loadWarns (file : Str) : Bool := (fieldRows (loaderLines file)).isEmpty

/-- `textimage.load(path)`: shape and row-major values; `none` = raises.  `conv` is the loose float
converter (`float(field)`, NaN when that fails) -/
def loadText (conv : Str → α) (ndmin : Nat) (file : Str) : Option (List Nat × List α) :=
  (loadFields ndmin file).map fun (sh, d) => (sh, d.map conv)

/-! ## text: files written by other tools

The class of "delimiter variants of an image" made explicit as a writer: every line is indented by
some spaces, holds cells (a value with spaces before and after) separated by any of `,` `;` tab,
may end in a comment, and is terminated by `\n`, `\r\n`, a lone `\r`, or (last line) nothing.  A
line without cells is a blank or comment-only line. -/

inductive Eol where
  | lf | crlf | cr | eof
  deriving DecidableEq, Repr

def Eol.str : Eol → Str
  | .lf => ['\n']
  | .crlf => ['\r', '\n']
  | .cr => ['\r']
  | .eof => []

structure FLine (α : Type) where
  indent : Nat
  cells : List (Nat × α × Nat)
  seps : List Char
  comment : Option Str
  eol : Eol

def spaces (n : Nat) : Str := List.replicate n ' '

def cellText (fmt : α → Str) (c : Nat × α × Nat) : Str := spaces c.1 ++ fmt c.2.1 ++ spaces c.2.2

def commentText : Option Str → Str
  | none => []
  | some c => '#' :: c

/-- the text of a line before its terminator -/
def FLine.content (fmt : α → Str) (l : FLine α) : Str :=
  spaces l.indent ++ joinWith l.seps (l.cells.map (cellText fmt)) ++ commentText l.comment

def foreignFile (fmt : α → Str) (ls : List (FLine α)) : Str :=
  ls.flatMap fun l => l.content fmt ++ l.eol.str

/-- the description is one of a file of this class: separators are delimiters, one fewer than
cells; comments hold no line break; only the last line may lack a terminator, and then it is not
empty; a line ended by a lone `\r` is not followed by an empty line ended by `\n` (that pair of
lines is the single terminator `\r\n`) -/
def foreignOk (fmt : α → Str) : List (FLine α) → Bool
  | [] => true
  | l :: rest =>
    l.seps.all (fun s => s = ',' || s = ';' || s = '\t') &&
    (l.seps.length + 1 == l.cells.length || (l.cells.isEmpty && l.seps.isEmpty)) &&
    (match l.comment with | none => true | some c => c.all (fun x => x ≠ '\n' && x ≠ '\r')) &&
    (if l.eol = .eof then rest.isEmpty && !(l.content fmt).isEmpty else true) &&
    (match l.eol, rest with
      | .cr, n :: _ => !((n.content fmt).isEmpty && n.eol = .lf)
      | _, _ => true) &&
    foreignOk fmt rest

/-- the image a file of the class stands for: the values of the lines that have cells -/
def foreignImage (ls : List (FLine α)) : List (List α) :=
  (ls.filter (fun l => !l.cells.isEmpty)).map fun l => l.cells.map (·.2.1)

/-! ## text: `load` with its options

`load(path, delimiter=d)` with a delimiter hands the *path* to `np.genfromtxt(path, delimiter=d, comments="#",
dtype=float64, ndmin=2)`: genfromtxt opens it in text mode itself (universal newlines again), the lines are
NOT normalised, and `_delimited_splitter` cuts the comment, strips `" \r\n"` and splits at `d`.
`name=` turns the result into a single-field structured view (`data.dtype = [(name, float64)]`): same shape,
same values, one field. -/

/-- `LineSplitter._delimited_splitter` with `delimiter=d` (one character), `comments="#"` -/
def splitLineD (d : Char) (line : Str) : List Str :=
  let body := strip (cutComment line)
  if body = [] then [] else splitOn d body

/-- the rows of fields genfromtxt finds.  `delimiter=None`: the lines normalised by `load`, split at `,`;
`delimiter=d`: the lines of the file as they are, split at `d` -/
def loaderRows (delim : Option Char) (file : Str) : List (List Str) :=
  match delim with
  | none => fieldRows (loaderLines file)
  | some d => ((pyLines (universalNewlines false file)).map (splitLineD d)).filter (· ≠ [])

/-- from the rows of fields to genfromtxt's table (see `loadFields`) -/
def tableOf (ndmin : Nat) : List (List Str) → Option (List Nat × List Str)
  | [] => some (shapeRule ndmin [0], [])
  | r :: rs =>
    if rs.all (fun q => q.length == r.length) then
      some (shapeRule ndmin [rs.length + 1, r.length], (r :: rs).flatten)
    else none

/-- `loadFields` for `load(path, delimiter=delim)` -/
def loadFieldsD (delim : Option Char) (ndmin : Nat) (file : Str) : Option (List Nat × List Str) :=
  tableOf ndmin (loaderRows delim file)

/-- `textimage.load(path, delimiter=delim)`: shape and row-major values; `none` = raises -/
def loadTextD (conv : Str → α) (delim : Option Char) (ndmin : Nat) (file : Str) : Option (List Nat × List α) :=
  (loadFieldsD delim ndmin file).map fun (sh, d) => (sh, d.map conv)

/-- what `load` returns: shape, row-major values, and the field of the structured view when `name=` was given -/
structure Loaded (α : Type) where
  shape : List Nat
  data : List α
  field : Option Str
  deriving DecidableEq

/-! ## text: sessions — several `save` / `load` calls in one process

pewlib keeps no state between calls: the only thing one call leaves for a later one is the file it wrote.
The mechanism below threads that file system through a list of calls; the specification answers every
`load` from the calls before it (the last one that put a file at its path) and from its own options. -/

/-- where the text of a file comes from -/
inductive Src (α : Type) where
  /-- `textimage.save(path, img, header=header)` -/
  | saved (header : Str) (img : List (List α))
  /-- another tool wrote the image with these separators (one list per row) -/
  | delimited (seps : List (List Char)) (img : List (List α))
  /-- any text at all -/
  | other (text : Str)

def Src.text (fmt : α → Str) : Src α → Str
  | .saved h img => saveText fmt h img
  | .delimited seps img => saveWith fmt seps img
  | .other t => t

inductive Call (α : Type) where
  | put (path : Nat) (src : Src α)
  | load (path : Nat) (delim : Option Char) (name : Option Str)

inductive Reply (α : Type) where
  | done
  /-- no file at that path (`FileNotFoundError`) -/
  | missing
  /-- genfromtxt raised -/
  | raised
  | loaded (l : Loaded α)
  deriving DecidableEq

/-- `textimage.load(path, delimiter=delim, name=name)` on a file with this text -/
def loadReply (conv : Str → α) (delim : Option Char) (name : Option Str) (file : Str) : Reply α :=
  match loadTextD conv delim 2 file with
  | none => .raised
  | some (sh, d) => .loaded { shape := sh, data := d, field := name }

/-- the file system: the latest text put at a path comes first -/
def fsGet : List (Nat × Str) → Nat → Option Str
  | [], _ => none
  | (q, t) :: r, p => if q = p then some t else fsGet r p

/-- one call: the files afterwards and what the caller sees -/
def step (fmt : α → Str) (conv : Str → α) (fs : List (Nat × Str)) : Call α → List (Nat × Str) × Reply α
  | .put p s => ((p, s.text fmt) :: fs, .done)
  | .load p d n =>
    (fs, match fsGet fs p with
      | none => .missing
      | some f => loadReply conv d n f)

/-- mechanism: the calls one after the other, the file system handed from each to the next -/
def runSession (fmt : α → Str) (conv : Str → α) : List (Nat × Str) → List (Call α) → List (Reply α)
  | _, [] => []
  | fs, c :: cs => (step fmt conv fs c).2 :: runSession fmt conv (step fmt conv fs c).1 cs

/-- the source of the file at `p` after these calls: the last `put` there -/
def lastPut (p : Nat) : List (Call α) → Option (Src α)
  | [] => none
  | c :: cs =>
    match lastPut p cs with
    | some s => some s
    | none =>
      match c with
      | .put q s => if q = p then some s else none
      | .load _ _ _ => none

/-- specification of one call: a function of its own arguments and of the last `put` at its path among the
calls before it — of nothing else that happened earlier -/
def replyAt (fmt : α → Str) (conv : Str → α) (before : List (Call α)) : Call α → Reply α
  | .put _ _ => .done
  | .load p d n =>
    match lastPut p before with
    | none => .missing
    | some s => loadReply conv d n (s.text fmt)

def specFrom (fmt : α → Str) (conv : Str → α) (before : List (Call α)) : List (Call α) → List (Reply α)
  | [] => []
  | c :: cs => replyAt fmt conv before c :: specFrom fmt conv (before ++ [c]) cs

/-- specification of a session -/
def sessionSpec (fmt : α → Str) (conv : Str → α) (cs : List (Call α)) : List (Reply α) := specFrom fmt conv [] cs

def isDelimB (c : Char) : Bool := c = ',' || c = ';' || c = '\t'

/-- an image: at least one row, at least one column, all rows equally long -/
def imgOk (img : List (List α)) : Bool :=
  match img with
  | [] => false
  | r :: rs => !r.isEmpty && rs.all (fun q => q.length == r.length)

/-- well-formedness of a source: no carriage return in a header; separators are delimiters, one list per row,
one separator fewer than columns -/
def Src.ok : Src α → Bool
  | .saved h img => !h.contains '\r' && imgOk img
  | .delimited seps img =>
    seps.length == img.length && seps.all (·.all isDelimB) && imgOk img &&
      seps.all (fun ss => ss.length + 1 == (img.headD []).length)
  | .other _ => true

/-- the image the property says `load(path, delimiter=delim)` returns for a file from this source
(`none`: the property does not say): a saved image read with the default call (which delimiter `save`
writes is its own business: the property speaks of reading back, not of the bytes); a delimited file read
with the default, or with the delimiter it uses throughout -/
def Src.image? (delim : Option Char) : Src α → Option (List (List α))
  | .saved _ img => if delim = none then some img else none
  | .delimited seps img =>
    match delim with
    | none => some img
    | some d => if isDelimB d && seps.all (·.all (· == d)) then some img else none
  | .other _ => none

/-! ## VTK -/

/-- a 3-D array: `get i j k` for `i < n0`, `j < n1`, `k < n2` -/
structure Vol (α : Type) where
  n0 : Nat
  n1 : Nat
  n2 : Nat
  get : Nat → Nat → Nat → α

/-- `np.flip(data, axis=0)` -/
def flip0 (v : Vol α) : Vol α := { v with get := fun i j k => v.get (v.n0 - 1 - i) j k }

/-- `data.swapaxes(0, 1)` -/
def swap01 (v : Vol α) : Vol α := { n0 := v.n1, n1 := v.n0, n2 := v.n2, get := fun i j k => v.get j i k }

/-- `a.ravel("F")`: first index fastest -/
def ravelF (v : Vol α) : List α :=
  (List.range v.n2).flatMap fun k => (List.range v.n1).flatMap fun j => (List.range v.n0).map fun i => v.get i j k

/-- the array as written: flipped, swapped, Fortran order -/
def vtkBlock (v : Vol α) : List α := ravelF (swap01 (flip0 v))

/-- specification of one block: position `x + nx·(y + ny·z)` holds `data[ny − 1 − y][x][z]`
(`nx` = columns, `ny` = rows of the image) -/
def vtkBlockSpec (v : Vol α) : List α :=
  (List.range (v.n1 * v.n0 * v.n2)).map fun p =>
    let x := p % v.n1
    let y := (p / v.n1) % v.n0
    let z := p / (v.n1 * v.n0)
    v.get (v.n0 - 1 - y) x z

/-- the running `offset` of the header loop: `offset += size * itemsize + 8` -/
def offsetsFrom : Nat → List Nat → List Nat
  | _, [] => []
  | o, n :: ns => o :: offsetsFrom (o + (n * 8 + 8)) ns

/-- the appended section in 8-byte words: a byte count, then the values -/
inductive Word (α : Type) where
  | len (bytes : Nat)
  | val (a : α)

def appended : List (List α) → List (Word α)
  | [] => []
  | b :: bs => Word.len (b.length * 8) :: b.map Word.val ++ appended bs

/-! ## XML escaping of element names -/

/-- `string.replace(c, rep)` for a one-character key -/
def replaceC (c : Char) (rep : Str) (s : Str) : Str := s.flatMap fun x => if x = c then rep else [x]

/-- `escape_xml`: the five replacements in dictionary order, `&` first -/
def escapeMech (s : Str) : Str :=
  replaceC '\'' "&apos;".toList (replaceC '"' "&quot;".toList (replaceC '>' "&gt;".toList
    (replaceC '<' "&lt;".toList (replaceC '&' "&amp;".toList s))))

def escChar (c : Char) : Str :=
  if c = '&' then "&amp;".toList
  else if c = '<' then "&lt;".toList
  else if c = '>' then "&gt;".toList
  else if c = '"' then "&quot;".toList
  else if c = '\'' then "&apos;".toList
  else [c]

/-- specification: every character is replaced independently -/
def escapeSpec (s : Str) : Str := s.flatMap escChar

/-- the five predefined entities, read just after an ampersand: the character and the rest -/
def entityAt : Str → Option (Char × Str)
  | 'a' :: 'm' :: 'p' :: ';' :: t => some ('&', t)
  | 'l' :: 't' :: ';' :: t => some ('<', t)
  | 'g' :: 't' :: ';' :: t => some ('>', t)
  | 'q' :: 'u' :: 'o' :: 't' :: ';' :: t => some ('"', t)
  | 'a' :: 'p' :: 'o' :: 's' :: ';' :: t => some ('\'', t)
  | _ => none

theorem entityAt_length (r : Str) (d : Char) (t : Str) (h : entityAt r = some (d, t)) :
    t.length < r.length := by
  unfold entityAt at h
  split at h <;> simp at h <;> (obtain ⟨_, rfl⟩ := h; simp <;> omega)

/-- what an XML parser does with the five predefined entities in an attribute value -/
def unescape : Str → Str
  | [] => []
  | c :: r =>
    if c = '&' then
      match h : entityAt r with
      | some (d, t) =>
        have : t.length < r.length := entityAt_length r d t h
        d :: unescape t
      | none => c :: unescape r
    else c :: unescape r
termination_by s => s.length
decreasing_by all_goals simp_wf <;> omega

/-! ## VTK: the file as a whole

`vtk.save` writes text lines (XML declaration, `VTKFile`, `ImageData`, `Piece`, `CellData`, one
`DataArray` per element, the closing tags, `<AppendedData encoding="raw">`), the marker `_`, the
raw blocks, and the closing text.  Integers are printed in decimal; the spacing values are printed
by Python's `str` and stay opaque tokens here; the origin is the literal `0.0 0.0 0.0`
(`f"{origin[1]} {origin[1]} 0.0"` with `origin = 0.0, 0.0`); `byte_order` is the machine's. -/

def digitChar (d : Nat) : Char := Char.ofNat (48 + d)

/-- `str(n)` for a natural number -/
def natStr (n : Nat) : Str :=
  if _ : n < 10 then [digitChar n] else natStr (n / 10) ++ [digitChar (n % 10)]
termination_by n
decreasing_by omega

def digitVal (c : Char) : Option Nat :=
  if 48 ≤ c.toNat ∧ c.toNat ≤ 57 then some (c.toNat - 48) else none

def parseNatAux (acc : Nat) : Str → Option Nat
  | [] => some acc
  | c :: r => match digitVal c with
    | some d => parseNatAux (acc * 10 + d) r
    | none => none

/-- a non-empty string of decimal digits -/
def parseNat (s : Str) : Option Nat := if s = [] then none else parseNatAux 0 s

/-- one element of a structured image: its name and its values -/
structure Field (α : Type) where
  name : Str
  get : Nat → Nat → Nat → α

/-- a structured image of shape `(n0, n1, n2)` (`n2 = 1` for a 2-D image raised to 3-D) -/
structure Image (α : Type) where
  n0 : Nat
  n1 : Nat
  n2 : Nat
  fields : List (Field α)

def Image.vol (img : Image α) (f : Field α) : Vol α := { n0 := img.n0, n1 := img.n1, n2 := img.n2, get := f.get }

/-- ` key="value"` -/
def attr (k v : Str) : Str := ' ' :: k ++ '=' :: '"' :: v ++ ['"']

/-- `f"0 {nx} 0 {ny} 0 {nz}"` -/
def extentStr (nx ny nz : Nat) : Str :=
  '0' :: ' ' :: (natStr nx ++ ' ' :: '0' :: ' ' :: (natStr ny ++ ' ' :: '0' :: ' ' :: natStr nz))

def attrsText (attrs : List (Str × Str)) : Str := attrs.flatMap fun p => attr p.1 p.2

/-- `<name key="value" ...>` (closer `>`) or `<name .../>` (closer `/>`) -/
def tagLine (name : Str) (attrs : List (Str × Str)) (closer : Str) : Str := '<' :: (name ++ (attrsText attrs ++ closer))

def arrayLine (name : Str) (offset : Nat) : Str :=
  tagLine "DataArray".toList
    [("Name".toList, escapeMech name), ("type".toList, "Float64".toList), ("format".toList, "appended".toList),
     ("offset".toList, natStr offset)] ['/', '>']

/-- the text lines of the header, in order -/
def vtkHeadLines (endian : Str) (spacing : Str × Str × Str) (nx ny nz : Nat) (names : List Str) (offsets : List Nat) :
    List Str :=
  [ "<?xml version=\"1.0\"?>".toList,
    tagLine "VTKFile".toList [("type".toList, "ImageData".toList), ("version".toList, "1.0".toList),
      ("byte_order".toList, endian), ("header_type".toList, "UInt64".toList)] ['>'],
    tagLine "ImageData".toList [("WholeExtent".toList, extentStr nx ny nz), ("Origin".toList, "0.0 0.0 0.0".toList),
      ("Spacing".toList, spacing.1 ++ ' ' :: (spacing.2.1 ++ ' ' :: spacing.2.2))] ['>'],
    tagLine "Piece".toList [("Extent".toList, extentStr nx ny nz)] ['>'],
    tagLine "CellData".toList [("Scalars".toList, escapeMech (names.headD []))] ['>'] ]
  ++ ((List.zip names offsets).map (fun p => arrayLine p.1 p.2)
  ++ [ "</CellData>".toList, "</Piece>".toList, "</ImageData>".toList,
       tagLine "AppendedData".toList [("encoding".toList, "raw".toList)] ['>'] ])

/-- the file: header text up to and including the marker `_`, the appended 8-byte words, the closing text -/
structure VtkFile (α : Type) where
  head : Str
  body : List (Word α)
  tail : Str

/-- `vtk.save(path, data, spacing)`; `none`: no element (`data.dtype.names[0]` raises) -/
def vtkRender (endian : Str) (spacing : Str × Str × Str) (img : Image α) : Option (VtkFile α) :=
  match img.fields with
  | [] => none
  | f0 :: _ =>
    let w := swap01 (flip0 (img.vol f0))                        -- nx, ny, nz = data.shape
    let blocks := img.fields.map fun f => vtkBlock (img.vol f)  -- data[name].ravel("F")
    let offsets := offsetsFrom 0 (blocks.map List.length)        -- offset += size * itemsize + 8
    some { head := (vtkHeadLines endian spacing w.n0 w.n1 w.n2 (img.fields.map (·.name)) offsets).flatMap (· ++ ['\n']) ++ ['_'],
           body := appended blocks,
           tail := "</AppendedData>\n</VTKFile>".toList }

/-! ### a reader of the header: the fields a VTK reader needs

The reader takes the header line by line (one tag per line, attributes ` key="value"` separated by
single spaces, the five predefined entities decoded in values): the subset of XML `vtk.save` writes. -/

inductive Tag where
  | decl
  | opening (name : Str) (attrs : List (Str × Str))
  | empty (name : Str) (attrs : List (Str × Str))
  | closing (name : Str)
  deriving DecidableEq

inductive Scan where
  | start
  | key (acc : Str)
  | quote (k : Str)
  | val (k acc : Str)

/-- the attributes of a tag and what follows them -/
def scanAttrs : Scan → Str → Option (List (Str × Str) × Str)
  | .start, [] => some ([], [])
  | .start, c :: r => if c = ' ' then scanAttrs (.key []) r else some ([], c :: r)
  | .key _, [] => none
  | .key acc, c :: r => if c = '=' then scanAttrs (.quote acc) r else scanAttrs (.key (acc ++ [c])) r
  | .quote _, [] => none
  | .quote k, c :: r => if c = '"' then scanAttrs (.val k []) r else none
  | .val _ _, [] => none
  | .val k acc, c :: r =>
    if c = '"' then
      match scanAttrs .start r with
      | some (as, e) => some ((k, unescape acc) :: as, e)
      | none => none
    else scanAttrs (.val k (acc ++ [c])) r

def isNameChar (c : Char) : Bool := c ≠ ' ' && c ≠ '>' && c ≠ '/'

def parseTag : Str → Option Tag
  | [] => none
  | c :: r =>
    if c ≠ '<' then none
    else match r with
      | [] => none
      | d :: r' =>
        if d = '?' then some .decl
        else if d = '/' then (if r'.getLast? = some '>' then some (.closing r'.dropLast) else none)
        else
          match scanAttrs .start ((d :: r').dropWhile isNameChar) with
          | some (as, e) =>
            if e = ['>'] then some (.opening ((d :: r').takeWhile isNameChar) as)
            else if e = ['/', '>'] then some (.empty ((d :: r').takeWhile isNameChar) as)
            else none
          | none => none

def lookup (k : Str) : List (Str × Str) → Option Str
  | [] => none
  | (k', v) :: r => if k' = k then some v else lookup k r

def mapOpt {β γ : Type} (f : β → Option γ) : List β → Option (List γ)
  | [] => some []
  | x :: xs => match f x, mapOpt f xs with
    | some y, some ys => some (y :: ys)
    | _, _ => none

/-- `"0 3 0 2 0 1"` → `[0, 3, 0, 2, 0, 1]` -/
def parseNats (s : Str) : Option (List Nat) := mapOpt parseNat (splitOn ' ' s)

structure ArrayMeta where
  name : Str
  type : Str
  format : Str
  offset : Nat
  deriving DecidableEq

structure VtkMeta where
  fileType : Str
  version : Str
  byteOrder : Str
  headerType : Str
  whole : List Nat
  origin : List Str
  spacing : List Str
  piece : List Nat
  scalars : Str
  arrays : List ArrayMeta
  encoding : Str
  deriving DecidableEq

def arrayOf : Tag → Option ArrayMeta
  | .empty n as =>
    if n = "DataArray".toList then
      match lookup "Name".toList as, lookup "type".toList as, lookup "format".toList as,
            (lookup "offset".toList as).bind parseNat with
      | some nm, some ty, some fo, some off => some { name := nm, type := ty, format := fo, offset := off }
      | _, _, _, _ => none
    else none
  | _ => none

/-- the leading `DataArray` lines and the lines after them -/
def spanArrays : List Str → List ArrayMeta × List Str
  | [] => ([], [])
  | l :: ls =>
    match (parseTag l).bind arrayOf with
    | some a => ((a :: (spanArrays ls).1), (spanArrays ls).2)
    | none => ([], l :: ls)

def openAttrs (name : String) : Option Tag → Option (List (Str × Str))
  | some (.opening n as) => if n = name.toList then some as else none
  | _ => none

/-- reads the header text (up to and including the marker `_`) -/
def vtkParse (head : Str) : Option VtkMeta :=
  match splitOn '\n' head with
  | l0 :: l1 :: l2 :: l3 :: l4 :: rest =>
    match parseTag l0, openAttrs "VTKFile" (parseTag l1), openAttrs "ImageData" (parseTag l2),
          openAttrs "Piece" (parseTag l3), openAttrs "CellData" (parseTag l4) with
    | some .decl, some a1, some a2, some a3, some a4 =>
      match (spanArrays rest).2 with
      | [c0, c1, c2, ap, m] =>
        if parseTag c0 = some (.closing "CellData".toList) ∧ parseTag c1 = some (.closing "Piece".toList)
            ∧ parseTag c2 = some (.closing "ImageData".toList) ∧ m = ['_'] then
          match lookup "type".toList a1, lookup "version".toList a1, lookup "byte_order".toList a1,
                lookup "header_type".toList a1, (lookup "WholeExtent".toList a2).bind parseNats,
                lookup "Origin".toList a2, lookup "Spacing".toList a2, (lookup "Extent".toList a3).bind parseNats,
                lookup "Scalars".toList a4, (openAttrs "AppendedData" (parseTag ap)).bind (lookup "encoding".toList) with
          | some ft, some ve, some bo, some ht, some wh, some org, some sp, some pe, some sc, some enc =>
            some { fileType := ft, version := ve, byteOrder := bo, headerType := ht, whole := wh,
                   origin := splitOn ' ' org, spacing := splitOn ' ' sp, piece := pe, scalars := sc,
                   arrays := (spanArrays rest).1, encoding := enc }
          | _, _, _, _, _, _, _, _, _, _ => none
        else none
      | _ => none
    | _, _, _, _, _ => none
  | _ => none

/-- what a reader must find in the header of the file written for `img`: `nx` = columns, `ny` = rows -/
def vtkMetaSpec (endian : Str) (spacing : Str × Str × Str) (img : Image α) : VtkMeta :=
  { fileType := "ImageData".toList, version := "1.0".toList, byteOrder := endian, headerType := "UInt64".toList,
    whole := [0, img.n1, 0, img.n0, 0, img.n2],
    origin := ["0.0".toList, "0.0".toList, "0.0".toList],
    spacing := [spacing.1, spacing.2.1, spacing.2.2],
    piece := [0, img.n1, 0, img.n0, 0, img.n2],
    scalars := (img.fields.map (·.name)).headD [],
    arrays := (List.zip (img.fields.map (·.name)) (offsetsFrom 0 (img.fields.map fun _ => img.n1 * img.n0 * img.n2))).map
      fun p => { name := p.1, type := "Float64".toList, format := "appended".toList, offset := p.2 },
    encoding := "raw".toList }

/-- the reader above decodes the five predefined entities and nothing else: a header in which some
`&` starts anything else (a character reference such as `&#38;`) is outside the subset it reads -/
def entitiesKnown : Str → Bool
  | [] => true
  | c :: r => (if c = '&' then (entityAt r).isSome else true) && entitiesKnown r

/-- the header texts the reader above is a faithful XML reader for: only the predefined entities,
and no tab or carriage return anywhere (an XML parser turns white space inside an attribute value
into a space; this reader does not); line breaks are the line structure -/
def inReaderSubset (head : Str) : Bool := entitiesKnown head && !head.contains '\t' && !head.contains '\r'

/-- decidable form of the hypothesis `HeadOk` of the header theorems -/
def headOkB (endian : Str) (spacing : Str × Str × Str) (names : List Str) : Bool :=
  endian.all (fun c => c ≠ '"' && c ≠ '&' && c ≠ '\n') &&
  [spacing.1, spacing.2.1, spacing.2.2].all (fun t => t.all fun c => c ≠ '"' && c ≠ '&' && c ≠ '\n' && c ≠ ' ') &&
  names.all (fun n => !n.contains '\n')

/-- what a reader does with a declared offset: the byte count found there and the values after it -/
def readBlock (body : List (Word α)) (offset : Nat) : Option (Nat × List α) :=
  if offset % 8 ≠ 0 then none
  else match body[offset / 8]? with
    | some (.len n) =>
      let ws := (body.drop (offset / 8 + 1)).take (n / 8)
      if ws.length = n / 8 ∧ n % 8 = 0 then
        mapOpt (fun w => match w with | .val a => some a | .len _ => none) ws |>.map fun vs => (n, vs)
      else none
    | _ => none

/-! ## VTK: the appended section byte by byte

`fp.write(np.uint64(n))` writes the 8 bytes of `n` in the machine's byte order, `fp.write(a.ravel("F"))` the 8
bytes of every float64 in the machine's byte order — also of a field the array stores in the other byte order
(`.astype(dtype.newbyteorder("="))`, fix 6803b6f); the header names that order (`byte_order`).  The bytes of
a float64 value are opaque here (`enc`, lowest byte first). -/

/-- the 8 bytes of an unsigned 64-bit number, lowest first -/
def le64 (n : Nat) : List Nat := (List.range 8).map fun i => n / 256 ^ i % 256

/-- the number whose bytes, lowest first, these are -/
def ofLe64 : List Nat → Nat
  | [] => 0
  | b :: bs => b + 256 * ofLe64 bs

/-- the bytes written for one 8-byte word on a little-endian (`little`) or big-endian machine -/
def wordBytes (little : Bool) (enc : α → List Nat) : Word α → List Nat
  | .len n => if little then le64 n else (le64 n).reverse
  | .val a => if little then enc a else (enc a).reverse

def bodyBytes (little : Bool) (enc : α → List Nat) (ws : List (Word α)) : List Nat := ws.flatMap (wordBytes little enc)

/-- `"LittleEndian" if sys.byteorder == "little" else "BigEndian"` -/
def endianName (little : Bool) : Str := if little then "LittleEndian".toList else "BigEndian".toList

/-- a reader: the UInt64 at byte offset `o`, in the byte order the header declares -/
def readU64 (little : Bool) (bytes : List Nat) (o : Nat) : Option Nat :=
  let b := (bytes.drop o).take 8
  if b.length = 8 then some (ofLe64 (if little then b else b.reverse)) else none

/-- `n` groups of 8 bytes -/
def groups8 : Nat → List Nat → List (List Nat)
  | 0, _ => []
  | n + 1, bs => bs.take 8 :: groups8 n (bs.drop 8)

/-- what a reader does with a declared offset into the appended bytes: the byte count found there, then that many
bytes as 8-byte values (each delivered lowest byte first) -/
def readBlockBytes (little : Bool) (bytes : List Nat) (o : Nat) : Option (Nat × List (List Nat)) :=
  match readU64 little bytes o with
  | none => none
  | some n =>
    let body := (bytes.drop (o + 8)).take n
    if n % 8 = 0 ∧ body.length = n then
      some (n, (groups8 (n / 8) body).map fun g => if little then g else g.reverse)
    else none

end Pew.Export
