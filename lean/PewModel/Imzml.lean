/-!
# C05 — imzML mass-window extraction (`pewlib.io.imzml.ImzML`)

Mechanism (shaped like the code as it is now):

* `Spectrum.get_binary_data`: `fp.seek(offset)`, `fp.read(length)`, `np.frombuffer(buffer, dtype)`
  (`getBinaryData`): the bytes `[offset, offset + length)` of the `.ibd` file (fewer at the end of
  the file), cut into elements of the dtype's width, each element the bit pattern of its bytes
  (native = little-endian); ValueError when the buffer is not a whole number of elements.  IEEE
  patterns are decoded to exact rationals by `ieeeVal`.
* `ImzML.spectra` is a dict keyed by `(x, y)`: a later spectrum with the same position replaces
  the value and keeps the place of the first one in the iteration order (`spectraDict`).
* `extract_masses`: window edges `m ∓ w/2` (`w = m·ppm/10⁶` or the absolute width) are flattened to
  `[lo₀, hi₀, lo₁, hi₁, …]`, turned into indices by `np.searchsorted(mz, ·)`, the intensities get a
  trailing zero (`np.append(it, 0)`), `np.add.reduceat` makes segment sums, `[::2]` keeps the even
  ones and `sums[idx[::2] >= idx[1::2]] = 0` zeroes the empty windows; the result is stored at
  `data[y-1, x-1]` of a NaN canvas of shape `(Y, X, N)`.  The subscripts are NumPy subscripts:
  `-1` (position 0) is the last row/column, a subscript outside `[-n, n)` raises IndexError
  (`pyIndex`); a negative image size raises ValueError (`shapeOf`).
* `extract_tic`: stored TIC, else `np.sum(intensities)`, same placement.
* `mass_range`: running `min` of the first and `max` of the last m/z of every spectrum in the dict
  (IndexError on a spectrum without peaks).
* `binned_masses`: `bins = arange(min, max + w, w)`, `searchsorted`, clip of the indices to `n-1`,
  `reduceat` over the *unpadded* intensities (this is the unrepaired mechanism, see
  `known_findings.json`, id `C05-binned-masses-empty-bins`).

Specification: `windowSum mz it lo hi = Σ {it_p | lo ≤ mz_p < hi}`; the pixel `[r][c]` belongs to
the spectrum recorded at position `(c+1, r+1)` (`specAt`).

Values are exact rationals; NaN pixels are `none`; a call that raises is `none` at the outer level.
-/
namespace Pew.Imzml

/-! ## NumPy primitives -/

/-- `np.searchsorted(mz, v)` (side = left) on a sorted array: the number of leading elements `< v` -/
def ssLeft (mz : List Rat) (v : Rat) : Nat := (mz.takeWhile (· < v)).length

/-- `a[i:j].sum()` -/
def sliceSum (a : List Rat) (i j : Nat) : Rat := ((a.drop i).take (j - i)).sum

/-- `np.add.reduceat(a, idx)`: entry `k` is `a[idx[k]:idx[k+1]].sum()` when `idx[k] < idx[k+1]`,
else the single element `a[idx[k]]`; the last entry sums to the end of `a`.
(NumPy raises for an index `≥ len(a)`; with as many intensities as m/z values the callers below
never produce one.) -/
def reduceat (a : List Rat) : List Nat → List Rat
  | [] => []
  | [i] => [(a.drop i).sum]
  | i :: j :: r => (if i < j then sliceSum a i j else a.getD i 0) :: reduceat a (j :: r)

/-- `v[::2]` -/
def evens {α} : List α → List α
  | [] => []
  | [x] => [x]
  | x :: _ :: r => x :: evens r

/-- `v[1::2]` -/
def odds {α} : List α → List α
  | [] => []
  | [_] => []
  | _ :: y :: r => y :: odds r

/-- strictly increasing (the m/z axis of a spectrum) -/
def Incr : List Rat → Prop
  | [] => True
  | [_] => True
  | a :: b :: r => a < b ∧ Incr (b :: r)

def incrB : List Rat → Bool
  | [] => true
  | [_] => true
  | a :: b :: r => decide (a < b) && incrB (b :: r)

/-! ## the external binary (`Spectrum.get_binary_data`, imzml.py 232-259) -/

/-- the element types of `ParamGroup.type_names` -/
inductive DType
  | u8 | u16 | u32 | u64 | f32 | f64
  deriving Repr, DecidableEq

/-- `dtype.itemsize` -/
def DType.width : DType → Nat
  | .u8 => 1
  | .u16 => 2
  | .u32 => 4
  | .u64 => 8
  | .f32 => 4
  | .f64 => 8

inductive ByteOrder
  | little | big
  deriving Repr, DecidableEq

/-- `fp.seek(off); fp.read(len)`: at most `len` bytes starting at `off`; fewer when the file ends
first, none when `off` is at or beyond the end -/
def readBytes (ibd : List UInt8) (off len : Nat) : List UInt8 := (ibd.drop off).take len

/-- unsigned value of a little-endian byte string -/
def leNat : List UInt8 → Nat
  | [] => 0
  | b :: r => b.toNat + 256 * leNat r

/-- the bit pattern of one element -/
def bitsOf (bo : ByteOrder) (bs : List UInt8) : Nat :=
  match bo with
  | .little => leNat bs
  | .big => leNat bs.reverse

/-- `np.frombuffer(buffer, dtype)` for an element width `w`: ValueError (`none`) when the buffer is
not a whole number of elements; element `i` is the bit pattern of the bytes `[i·w, (i+1)·w)` -/
def frombuffer (bo : ByteOrder) (w : Nat) (buf : List UInt8) : Option (List Nat) :=
  if w = 0 ∨ buf.length % w ≠ 0 then none
  else some ((List.range (buf.length / w)).map (fun i => bitsOf bo ((buf.drop (i * w)).take w)))

/-- `Spectrum.get_binary_data`: offset and (encoded) length in bytes, as written in the imzML -/
def getBinaryData (bo : ByteOrder) (ibd : List UInt8) (off len : Nat) (dt : DType) : Option (List Nat) :=
  frombuffer bo dt.width (readBytes ibd off len)

/-- `2^k` for an integer `k` -/
def pow2 (k : Int) : Rat := if 0 ≤ k then (2 : Rat) ^ k.toNat else 1 / (2 : Rat) ^ (-k).toNat

/-- the value of an IEEE-754 binary pattern with `eb` exponent and `mb` fraction bits;
`none` for NaN and the infinities -/
def ieeeVal (eb mb : Nat) (bits : Nat) : Option Rat :=
  let m := bits % 2 ^ mb
  let e := (bits / 2 ^ mb) % 2 ^ eb
  let neg := (bits / 2 ^ (mb + eb)) % 2 = 1
  let bias : Int := 2 ^ (eb - 1) - 1
  if e = 2 ^ eb - 1 then none
  else
    let mag : Rat :=
      if e = 0 then (m : Rat) * pow2 (1 - bias - mb)
      else ((2 ^ mb + m : Nat) : Rat) * pow2 ((e : Int) - bias - mb)
    some (if neg then -mag else mag)

/-- the number an element's bit pattern stands for -/
def valueOf : DType → Nat → Option Rat
  | .f32, b => ieeeVal 8 23 b
  | .f64, b => ieeeVal 11 52 b
  | _, b => some (b : Rat)

/-- an array as the rest of the code sees it: `none` when the read raises or an element is not finite -/
def readValues (bo : ByteOrder) (ibd : List UInt8) (off len : Nat) (dt : DType) : Option (List Rat) :=
  (getBinaryData bo ibd off len dt).bind (fun bits => bits.mapM (valueOf dt))

/-! ## window edges -/

inductive Width
  | ppm (p : Rat)
  | mz (w : Rat)
  deriving Repr

/-- `target_widths`: half of the window width for the target mass `m` -/
def halfWidth : Width → Rat → Rat
  | .ppm p, m => m * p / 1000000 / 2
  | .mz w, _ => w / 2

/-- `target_windows`: one `(lo, hi)` row per target mass -/
def windows (masses : List Rat) (w : Width) : List (Rat × Rat) :=
  masses.map (fun m => (m - halfWidth w m, m + halfWidth w m))

/-- `target_windows.flat` -/
def flatten (wins : List (Rat × Rat)) : List Rat := wins.flatMap (fun w => [w.1, w.2])

/-- the adjacent windows `[e₀, e₁), [e₁, e₂), …` between consecutive edges (what target masses
`m, m + w, m + 2w, …` with an absolute width `w` ask for): neighbours share an edge -/
def chain : List Rat → List (Rat × Rat)
  | [] => []
  | [_] => []
  | a :: b :: r => (a, b) :: chain (b :: r)

/-! ## one spectrum -/

/-- `sums[idx[::2] >= idx[1::2]] = 0` -/
def zeroEmpty : List Rat → List Nat → List Nat → List Rat
  | s :: ss, a :: as, b :: bs => (if a ≥ b then 0 else s) :: zeroEmpty ss as bs
  | _, _, _ => []

/-- the loop body of `extract_masses` for one spectrum -/
def extractSpectrum (mz it : List Rat) (wins : List (Rat × Rat)) : List Rat :=
  let idx := (flatten wins).map (ssLeft mz)
  let sums := evens (reduceat (it ++ [0]) idx)
  zeroEmpty sums (evens idx) (odds idx)

/-- specification: the sum of the intensities whose m/z lies in `[lo, hi)` -/
def windowSum : List Rat → List Rat → Rat → Rat → Rat
  | m :: ms, i :: is, lo, hi => (if lo ≤ m ∧ m < hi then i else 0) + windowSum ms is lo hi
  | _, _, _, _ => 0

def specSpectrum (mz it : List Rat) (wins : List (Rat × Rat)) : List Rat :=
  wins.map (fun w => windowSum mz it w.1 w.2)

/-- the mechanism before `fix: sum exactly the peaks inside each imzML mass window` (kept as
documentation; it is still what `binned_masses` does): clip to `n-1`, no sentinel, no zeroing -/
def clip (n : Nat) (idx : List Nat) : List Nat := idx.map (fun i => if i > n - 1 then n - 1 else i)

def extractSpectrumOld (mz it : List Rat) (wins : List (Rat × Rat)) : List Rat :=
  evens (reduceat it (clip it.length ((flatten wins).map (ssLeft mz))))

/-! ## the parsed file -/

/-- one `<spectrum>`: position as `int(value)` of the position cvParams (any integer), the stored
TIC, and the two arrays as read from the external binary -/
structure Spectrum where
  x : Int
  y : Int
  tic : Option Rat
  mz : List Rat
  it : List Rat
  deriving Repr, DecidableEq

/-- same dict key `(x, y)` -/
def samePos (s t : Spectrum) : Bool := s.x == t.x && s.y == t.y

/-- `spectra[(s.x, s.y)] = s` on a dict kept as the list of its values in iteration order: an
existing key keeps its place and gets the new value, a new key goes to the end -/
def dictSet (d : List Spectrum) (s : Spectrum) : List Spectrum :=
  if d.any (samePos s) then d.map (fun t => if samePos s t then s else t) else d ++ [s]

/-- `ImzML.spectra.values()` for the `<spectrum>` elements of a file, in file order -/
def spectraDict (file : List Spectrum) : List Spectrum := file.foldl dictSet []

/-! ## the image -/

/-- a canvas of pixels; `none` is NaN -/
abbrev Canvas (β : Type) := Nat → Nat → Option β

/-- `np.full((Y, X, …), np.nan)` -/
def blank {β} : Canvas β := fun _ _ => none

/-- `data[r, c] = v` -/
def Canvas.set {β} (img : Canvas β) (r c : Nat) (v : β) : Canvas β :=
  fun r' c' => if r' = r ∧ c' = c then some v else img r' c'

/-- a subscript `i` into an axis of length `n`, as Python and NumPy normalise it: `0 ≤ i < n` is
itself, `-n ≤ i < 0` counts from the end, anything else is an IndexError (`none`) -/
def pyIndex (n : Nat) (i : Int) : Option Nat :=
  if 0 ≤ i then (if i < n then some i.toNat else none)
  else if -(n : Int) ≤ i then some (i + n).toNat else none

/-- one pass of `data[y - 1, x - 1] = f(spectra)` on a canvas of shape `(Y, X) = shape` -/
def placeStep {β} (shape : Nat × Nat) (f : Spectrum → β) (img : Option (Canvas β)) (s : Spectrum) :
    Option (Canvas β) :=
  match img, pyIndex shape.1 (s.y - 1), pyIndex shape.2 (s.x - 1) with
  | some img, some r, some c => some (img.set r c (f s))
  | _, _, _ => none

/-- the loop `for spectra in self.spectra.values(): data[y - 1, x - 1] = f(spectra)`;
`none` when a subscript is out of bounds -/
def place {β} (shape : Nat × Nat) (f : Spectrum → β) (d : List Spectrum) : Option (Canvas β) :=
  d.foldl (placeStep shape f) (some blank)

def maxInt : List Int → Int
  | [] => 0
  | x :: xs => xs.foldl max x

/-- `ImzML.image_size` : `(X, Y)`; the maximum position when the scan settings have no size
(IndexError, `none`, when there is no spectrum either) -/
def imageSize (size : Option (Int × Int)) (d : List Spectrum) : Option (Int × Int) :=
  match size with
  | some s => some s
  | none => if d.isEmpty then none else some (maxInt (d.map (·.x)), maxInt (d.map (·.y)))

/-- the shape `(Y, X)` of `np.full((image_size[1], image_size[0], …), nan)`; ValueError (`none`)
for a negative dimension -/
def shapeOf (size : Int × Int) : Option (Nat × Nat) :=
  if 0 ≤ size.1 ∧ 0 ≤ size.2 then some (size.2.toNat, size.1.toNat) else none

/-- an image method: size, canvas, placement loop.  Result: shape `(Y, X)` and pixels -/
def image {β} (size : Option (Int × Int)) (f : Spectrum → β) (d : List Spectrum) :
    Option ((Nat × Nat) × Canvas β) :=
  match (imageSize size d).bind shapeOf with
  | none => none
  | some shape => (place shape f d).map (fun img => (shape, img))

/-- row-major table of a canvas of shape `(Y, X)` -/
def tabulate {β} (shape : Nat × Nat) (img : Canvas β) : List (List (Option β)) :=
  (List.range shape.1).map (fun r => (List.range shape.2).map (fun c => img r c))

/-- `extract_masses` on the dict values `d` -/
def extractImage (size : Option (Int × Int)) (d : List Spectrum) (masses : List Rat) (w : Width) :
    Option ((Nat × Nat) × Canvas (List Rat)) :=
  image size (fun s => extractSpectrum s.mz s.it (windows masses w)) d

def ticOf (s : Spectrum) : Rat :=
  match s.tic with
  | none => s.it.sum
  | some t => t

/-- `extract_tic` on the dict values `d` -/
def ticImage (size : Option (Int × Int)) (d : List Spectrum) : Option ((Nat × Nat) × Canvas Rat) :=
  image size ticOf d

/-- what the placement loop does, pixel by pixel: `[r][c]` belongs to the last spectrum of the
loop whose two subscripts normalise to `(r, c)` -/
def lastAt (shape : Nat × Nat) (d : List Spectrum) (r c : Nat) : Option Spectrum :=
  d.reverse.find? (fun s => pyIndex shape.1 (s.y - 1) == some r && pyIndex shape.2 (s.x - 1) == some c)

/-- specification of placement: the pixel `[r][c]` belongs to the (last) spectrum recorded at
position `(x, y) = (c+1, r+1)` -/
def specAt (l : List Spectrum) (r c : Nat) : Option Spectrum :=
  l.reverse.find? (fun s => s.y == (r : Int) + 1 && s.x == (c : Int) + 1)

/-- every recorded position is 1-based and inside the canvas of shape `(Y, X)` -/
def InDomain (shape : Nat × Nat) (l : List Spectrum) : Prop :=
  ∀ s ∈ l, 1 ≤ s.x ∧ s.x ≤ shape.2 ∧ 1 ≤ s.y ∧ s.y ≤ shape.1

def inDomainB (shape : Nat × Nat) (l : List Spectrum) : Bool :=
  l.all (fun s => decide (1 ≤ s.x) && decide (s.x ≤ shape.2) && decide (1 ≤ s.y) && decide (s.y ≤ shape.1))

/-- no position is recorded twice ("any subset of pixels present") -/
def distinctB : List Spectrum → Bool
  | [] => true
  | s :: r => !(r.any (samePos s)) && distinctB r

/-! ## mass range -/

/-- `low = min(low, mz[0]); high = max(high, mz[-1])`; the inner `none` stands for the infinite
start values, the outer `none` for the IndexError on an empty m/z array -/
def rangeStep (lh : Option (Option Rat × Option Rat)) (s : Spectrum) : Option (Option Rat × Option Rat) :=
  match lh, s.mz.head?, s.mz.getLast? with
  | some (l, h), some a, some b =>
    some (some (match l with
                | none => a
                | some l => if a < l then a else l),
          some (match h with
                | none => b
                | some h => if h < b then b else h))
  | _, _, _ => none

/-- `mass_range` on the dict values `d` -/
def massRange (d : List Spectrum) : Option (Option Rat × Option Rat) :=
  d.foldl rangeStep (some (none, none))

/-! ## binning -/

/-- `np.arange(start, stop, step)` for `step > 0` -/
def arange (start stop step : Rat) : List Rat :=
  (List.range ((stop - start) / step).ceil.toNat).map (fun (k : Nat) => start + (k : Rat) * step)

/-- the loop body of `binned_masses` for one spectrum (unrepaired mechanism) -/
def binSpectrum (mz it : List Rat) (bins : List Rat) : List Rat :=
  reduceat it (clip it.length (bins.map (ssLeft mz)))

/-- right edges of the bins: the next bin's left edge, `last + w` for the last one -/
def rightEdges (bins : List Rat) (w : Rat) : List Rat :=
  match bins.getLast? with
  | none => []
  | some l => bins.drop 1 ++ [l + w]

/-- specification: bin `k` holds the peaks in `[bins[k], bins[k+1])`, the last bin those in
`[bins[last], bins[last] + w)` (for edges stepping by `w` every bin is `[bins[k], bins[k] + w)`) -/
def binSpec (mz it : List Rat) (bins : List Rat) (w : Rat) : List Rat :=
  List.zipWith (fun lo hi => windowSum mz it lo hi) bins (rightEdges bins w)

/-- strictly increasing indices that stay inside the array: every bin of the pixel holds a peak
and the last bin holds the last peak (the class for which `binned_masses` is proved correct) -/
def denseIdx (n : Nat) : List Nat → Bool
  | [] => true
  | [i] => decide (i < n)
  | i :: j :: r => decide (i < j) && denseIdx n (j :: r)

def dense (mz : List Rat) (bins : List Rat) : Bool := denseIdx mz.length (bins.map (ssLeft mz))

/-- the bin edges of `binned_masses`: `np.arange(mass_min, mass_max + w, w)`; `none` when
`mass_range` raises or returns its infinite start values -/
def binEdges (d : List Spectrum) (w : Rat) : Option (List Rat) :=
  match massRange d with
  | some (some lo, some hi) => some (arange lo (hi + w) w)
  | _ => none

/-- `binned_masses` on the dict values `d`: the edges, the shape and the pixels -/
def binImage (size : Option (Int × Int)) (d : List Spectrum) (w : Rat) :
    Option (List Rat × (Nat × Nat) × Canvas (List Rat)) :=
  match binEdges d w with
  | none => none
  | some bins => (image size (fun s => binSpectrum s.mz s.it bins) d).map (fun r => (bins, r.1, r.2))

end Pew.Imzml
