/-!
# C05 — imzML mass-window extraction (`pewlib.io.imzml.ImzML`)

Mechanism (shaped like the code as it is now):

* `extract_masses`: window edges `m ∓ w/2` (`w = m·ppm/10⁶` or the absolute width) are flattened to
  `[lo₀, hi₀, lo₁, hi₁, …]`, turned into indices by `np.searchsorted(mz, ·)`, the intensities get a
  trailing zero (`np.append(it, 0)`), `np.add.reduceat` makes segment sums, `[::2]` keeps the even
  ones and `sums[idx[::2] >= idx[1::2]] = 0` zeroes the empty windows; the result is stored at
  `data[y-1, x-1]` of a NaN canvas of shape `(Y, X, N)`.
* `extract_tic`: stored TIC, else `np.sum(intensities)`, same placement.
* `mass_range`: running `min` of the first and `max` of the last m/z of every spectrum.
* `binned_masses`: `bins = arange(min, max + w, w)`, `searchsorted`, clip of the indices to `n-1`,
  `reduceat` over the *unpadded* intensities (this is the unrepaired mechanism, see
  `known_findings.json`, id `C05-binned-masses-empty-bins`).

Specification: `windowSum mz it lo hi = Σ {it_p | lo ≤ mz_p < hi}`.

Values are exact rationals; NaN pixels are `none`.
-/
namespace Pew.Imzml

/-! ## NumPy primitives -/

/-- `np.searchsorted(mz, v)` (side = left) on a sorted array: the number of leading elements `< v` -/
def ssLeft (mz : List Rat) (v : Rat) : Nat := (mz.takeWhile (· < v)).length

/-- `a[i:j].sum()` -/
def sliceSum (a : List Rat) (i j : Nat) : Rat := ((a.drop i).take (j - i)).sum

/-- `np.add.reduceat(a, idx)`: entry `k` is `a[idx[k]:idx[k+1]].sum()` when `idx[k] < idx[k+1]`,
else the single element `a[idx[k]]`; the last entry sums to the end of `a`.
(NumPy raises for an index `≥ len(a)`; the callers below never produce one.) -/
def reduceat (a : List Rat) : List Nat → List Rat
  | [] => []
  | [i] => [(a.drop i).sum]
  | i :: j :: r => (if i < j then sliceSum a i j else a.getD i 0) :: reduceat a (j :: r)

/-- `v[::2]` -/
def evens {α} : List α → List α
  | [] => []
  | [x] => [x]
  | x :: _ :: r => x :: evens r

/-- `v[1::2]` -/
def odds {α} : List α → List α
  | [] => []
  | [_] => []
  | _ :: y :: r => y :: odds r

/-- strictly increasing (the m/z axis of a spectrum) -/
def Incr : List Rat → Prop
  | [] => True
  | [_] => True
  | a :: b :: r => a < b ∧ Incr (b :: r)

def incrB : List Rat → Bool
  | [] => true
  | [_] => true
  | a :: b :: r => decide (a < b) && incrB (b :: r)

/-! ## window edges -/

inductive Width
  | ppm (p : Rat)
  | mz (w : Rat)
  deriving Repr

/-- `target_widths`: half of the window width for the target mass `m` -/
def halfWidth : Width → Rat → Rat
  | .ppm p, m => m * p / 1000000 / 2
  | .mz w, _ => w / 2

/-- `target_windows`: one `(lo, hi)` row per target mass -/
def windows (masses : List Rat) (w : Width) : List (Rat × Rat) :=
  masses.map (fun m => (m - halfWidth w m, m + halfWidth w m))

/-- `target_windows.flat` -/
def flatten (wins : List (Rat × Rat)) : List Rat := wins.flatMap (fun w => [w.1, w.2])

/-! ## one spectrum -/

/-- `sums[idx[::2] >= idx[1::2]] = 0` -/
def zeroEmpty : List Rat → List Nat → List Nat → List Rat
  | s :: ss, a :: as, b :: bs => (if a ≥ b then 0 else s) :: zeroEmpty ss as bs
  | _, _, _ => []

/-- the loop body of `extract_masses` for one spectrum -/
def extractSpectrum (mz it : List Rat) (wins : List (Rat × Rat)) : List Rat :=
  let idx := (flatten wins).map (ssLeft mz)
  let sums := evens (reduceat (it ++ [0]) idx)
  zeroEmpty sums (evens idx) (odds idx)

/-- specification: the sum of the intensities whose m/z lies in `[lo, hi)` -/
def windowSum : List Rat → List Rat → Rat → Rat → Rat
  | m :: ms, i :: is, lo, hi => (if lo ≤ m ∧ m < hi then i else 0) + windowSum ms is lo hi
  | _, _, _, _ => 0

def specSpectrum (mz it : List Rat) (wins : List (Rat × Rat)) : List Rat :=
  wins.map (fun w => windowSum mz it w.1 w.2)

/-- the mechanism before `fix: sum exactly the peaks inside each imzML mass window` (kept as
documentation; it is still what `binned_masses` does): clip to `n-1`, no sentinel, no zeroing -/
def clip (n : Nat) (idx : List Nat) : List Nat := idx.map (fun i => if i > n - 1 then n - 1 else i)

def extractSpectrumOld (mz it : List Rat) (wins : List (Rat × Rat)) : List Rat :=
  evens (reduceat it (clip it.length ((flatten wins).map (ssLeft mz))))

/-! ## the image -/

structure Spectrum where
  x : Nat
  y : Nat
  tic : Option Rat
  mz : List Rat
  it : List Rat
  deriving Repr

/-- a canvas of pixels; `none` is NaN -/
abbrev Canvas (β : Type) := Nat → Nat → Option β

/-- `np.full((Y, X, …), np.nan)` -/
def blank {β} : Canvas β := fun _ _ => none

/-- `data[r, c] = v` -/
def Canvas.set {β} (img : Canvas β) (r c : Nat) (v : β) : Canvas β :=
  fun r' c' => if r' = r ∧ c' = c then some v else img r' c'

/-- the loop `for spectra in self.spectra.values(): data[y - 1, x - 1] = f(spectra)` -/
def place {β} (f : Spectrum → β) (specs : List Spectrum) : Canvas β :=
  specs.foldl (fun img s => img.set (s.y - 1) (s.x - 1) (f s)) blank

def maxList : List Nat → Nat
  | [] => 0
  | x :: xs => xs.foldl max x

/-- `ImzML.image_size` : `(X, Y)`; the maximum position when the scan settings have no size -/
def imageSize (size : Option (Nat × Nat)) (specs : List Spectrum) : Nat × Nat :=
  match size with
  | some s => s
  | none => (maxList (specs.map (·.x)), maxList (specs.map (·.y)))

/-- row-major table of a canvas of shape `(Y, X)` -/
def tabulate {β} (size : Nat × Nat) (img : Canvas β) : List (List (Option β)) :=
  (List.range size.2).map (fun r => (List.range size.1).map (fun c => img r c))

def extractImage (specs : List Spectrum) (masses : List Rat) (w : Width) : Canvas (List Rat) :=
  place (fun s => extractSpectrum s.mz s.it (windows masses w)) specs

def ticOf (s : Spectrum) : Rat :=
  match s.tic with
  | none => s.it.sum
  | some t => t

def ticImage (specs : List Spectrum) : Canvas Rat := place ticOf specs

/-- specification of placement: the pixel `[r][c]` belongs to the last spectrum recorded at
position `(c+1, r+1)` (the parser's dictionary keeps one spectrum per position) -/
def lastAt (specs : List Spectrum) (r c : Nat) : Option Spectrum :=
  specs.reverse.find? (fun s => s.y - 1 = r ∧ s.x - 1 = c)

def specImage {β} (f : Spectrum → β) (specs : List Spectrum) : Canvas β :=
  fun r c => (lastAt specs r c).map f

/-! ## mass range -/

/-- `low, high = inf, -inf; for s: low = min(low, mz[0]); high = max(high, mz[-1])`;
`none` stands for the infinite start values -/
def rangeStep (lh : Option Rat × Option Rat) (s : Spectrum) : Option Rat × Option Rat :=
  (match lh.1, s.mz.head? with
    | none, m => m
    | some l, some m => some (if m < l then m else l)
    | some l, none => some l,
   match lh.2, s.mz.getLast? with
    | none, m => m
    | some h, some m => some (if h < m then m else h)
    | some h, none => some h)

def massRange (specs : List Spectrum) : Option Rat × Option Rat :=
  specs.foldl rangeStep (none, none)

/-! ## binning -/

/-- `np.arange(start, stop, step)` for `step > 0` -/
def arange (start stop step : Rat) : List Rat :=
  (List.range ((stop - start) / step).ceil.toNat).map (fun (k : Nat) => start + (k : Rat) * step)

/-- the loop body of `binned_masses` for one spectrum (unrepaired mechanism) -/
def binSpectrum (mz it : List Rat) (bins : List Rat) : List Rat :=
  reduceat it (clip it.length (bins.map (ssLeft mz)))

/-- right edges of the bins: the next bin's left edge, `last + w` for the last one -/
def rightEdges (bins : List Rat) (w : Rat) : List Rat :=
  match bins.getLast? with
  | none => []
  | some l => bins.drop 1 ++ [l + w]

/-- specification: bin `k` holds the peaks in `[bins[k], bins[k] + w)` -/
def binSpec (mz it : List Rat) (bins : List Rat) (w : Rat) : List Rat :=
  List.zipWith (fun lo hi => windowSum mz it lo hi) bins (rightEdges bins w)

/-- strictly increasing indices that stay inside the array: every bin of the pixel holds a peak
and the last bin holds the last peak (the class for which `binned_masses` is proved correct) -/
def denseIdx (n : Nat) : List Nat → Bool
  | [] => true
  | [i] => decide (i < n)
  | i :: j :: r => decide (i < j) && denseIdx n (j :: r)

def dense (mz : List Rat) (bins : List Rat) : Bool := denseIdx mz.length (bins.map (ssLeft mz))

def binImage (specs : List Spectrum) (bins : List Rat) : Canvas (List Rat) :=
  place (fun s => binSpectrum s.mz s.it bins) specs

end Pew.Imzml
