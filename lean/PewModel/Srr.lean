/-!
# C09 — SRR reconstruction (`pewlib.srr.srr.SRRLaser`, `pewlib.srr.config.SRRConfig`,
`pewlib.process.calc.subpixel_offset`)   (+ the array/rounding vocabulary shared with C10)

Arrays are a shape plus an index function (`Arr2`, `Arr3`); every NumPy step of the code is one
function on them (column slice with Python's index normalisation, `np.repeat`, `.T`, assignment
into a slot of `np.empty`/`np.zeros`, `np.mean(axis=2)`).  A step whose NumPy counterpart raises
because two shapes differ returns `none`.  (Broadcasting of a length-1 axis in an assignment is not
modelled: NumPy would accept a prepared layer with an axis of length 1 where the model answers `none`.
For crossed stacks - the only ones the property quantifies over - an accepted configuration makes every
prepared layer exactly as large as its slot (`valid_implies_shapes_agree`), so the rule is never used;
`harness/c09.py` re-checks this on every accepted case: the model's answer `none` against a successful
real reconstruction is a reported difference.  It can only happen for configurations the validity check
rejects, e.g. one line per layer and too few samples.)

Floating point: every float64 operation of `SRRConfig` whose result decides an integer (the warm-up
quotient `seconds / scantime`, `magnification = spotsize / (speed * scantime)`, `1.0 / magnification`)
and the `warmup` getter `_warmup * scantime` are modelled exactly: `fl` rounds the exact rational
result to the nearest float64 (ties to even, normal range).  Inputs are the exact values of the floats.

Mechanism: `validForData`, `aligned` (lengths, trimming, stretching, transposition, stacking),
`subpixelOffset` (effective offsets, overlap, zero canvas, block placement), `krisskross`,
`getLayer`, `getFlat`, `srrGet`, `SrrConfig.make / apply (setters) / toArray / fromArray / toRec / fromRec`.
Specification: `voxel`, the closed geometric formula of one output voxel; `validSpec`; `layerSpec`.
The object between two reconstructions: `Stack` (fields `(name, dtype)` + layers of pixel tuples), `StackOp`
(`SRRLaser.rename / remove / add`, `laser.data` assigned / appended / popped / written into), `Stack.apply`.
The model has no state besides the stack and the configuration: a reconstruction is a function of the two.
-/
namespace Pew

/-! ## arrays -/

structure Arr2 (α : Type) where
  rows : Nat
  cols : Nat
  get : Nat → Nat → α

structure Arr3 (α : Type) where
  rows : Nat
  cols : Nat
  depth : Nat
  get : Nat → Nat → Nat → α

/-- one bound of a Python slice (step 1) on an axis of length `n`, as CPython adjusts it:
negative values count from the end, everything is clamped into `[0, n]` -/
def normIdx (n : Nat) (i : Int) : Nat :=
  if i < 0 then (i + (n : Int)).toNat else min i.toNat n

/-- `(start, stop)` of `a[lo:hi]`; `none` is an omitted bound.  The slice has `stop - start`
elements (none when `stop ≤ start`). -/
def sliceBounds (n : Nat) (lo hi : Option Int) : Nat × Nat :=
  (match lo with | none => 0 | some i => normIdx n i,
   match hi with | none => n | some i => normIdx n i)

namespace Arr2
variable {α : Type}

def dim (a : Arr2 α) (axis : Nat) : Nat := if axis = 0 then a.rows else a.cols

/-- `a[r0:r1, c0:c1]` -/
def slice (a : Arr2 α) (r0 r1 c0 c1 : Option Int) : Arr2 α :=
  let rb := sliceBounds a.rows r0 r1
  let cb := sliceBounds a.cols c0 c1
  { rows := rb.2 - rb.1, cols := cb.2 - cb.1, get := fun r c => a.get (rb.1 + r) (cb.1 + c) }

/-- `a[:, c0:c1]` -/
def sliceCols (a : Arr2 α) (c0 c1 : Option Int) : Arr2 α := a.slice none none c0 c1

/-- `np.repeat(a, k, axis)` -/
def rep (a : Arr2 α) (k : Nat) (axis : Nat) : Arr2 α :=
  if axis = 0 then { rows := a.rows * k, cols := a.cols, get := fun r c => a.get (r / k) c }
  else { rows := a.rows, cols := a.cols * k, get := fun r c => a.get r (c / k) }

/-- `a.T` -/
def T (a : Arr2 α) : Arr2 α := { rows := a.cols, cols := a.rows, get := fun r c => a.get c r }

end Arr2

/-! ## rounding -/

/-- round half to even (`np.round`, Python's `round`) of an exact value -/
def roundHalfEven (x : Rat) : Int :=
  let f := x.floor
  let r := x - (f : Rat)
  if r < 1 / 2 then f else if 1 / 2 < r then f + 1 else if f % 2 = 0 then f else f + 1

/-- round half up: `⌊x + 1/2⌋` -/
def roundHalfUp (x : Rat) : Int := (x + 1 / 2).floor

/-! ## float64 -/

/-- `a / 2^k` for an integer `k` -/
def scale2 (a : Rat) (k : Int) : Rat :=
  if 0 ≤ k then a / ((2 ^ k.toNat : Nat) : Rat) else a * ((2 ^ (-k).toNat : Nat) : Rat)

/-- the float64 nearest to `x` (round to nearest, ties to even; exponent range not modelled: no overflow,
no subnormals): the significand `q = |x| / 2^k` is brought into `[2^52, 2^53)` and rounded half-even.
(`⌊log₂ num⌋ - ⌊log₂ den⌋` is `⌊log₂ |x|⌋` or one more, hence the single adjustment; the last `else` is never
taken and keeps the definition total without a proof about `Nat.log2`.) -/
def fl (x : Rat) : Rat :=
  if x = 0 then 0 else
  let a := if x < 0 then -x else x
  let e0 : Int := (Nat.log2 a.num.natAbs : Int) - (Nat.log2 a.den : Int)
  let e := if scale2 a (e0 - 52) < 4503599627370496 then e0 - 1 else e0
  let k := e - 52
  let q := scale2 a k
  if 4503599627370496 ≤ q ∧ q < 9007199254740992 then
    let r := scale2 (roundHalfEven q : Rat) (-k)
    if x < 0 then -r else r
  else x

namespace Srr

/-! ## configuration (`SRRConfig`) -/

/-- the state of an `SRRConfig` object: the three raster parameters, `_warmup` (samples),
`_subpixel_size` and `_subpixel_offsets` -/
structure SrrConfig where
  spotsize : Rat
  speed : Rat
  scantime : Rat
  warmup : Int
  size : Nat
  offs : List Nat
  deriving DecidableEq, Repr

/-- `np.lcm.reduce` -/
def lcmList (l : List Nat) : Nat := l.foldl Nat.lcm 1

/-- the `warmup` setter: `np.round(seconds / self.scantime).astype(int)` (one float division, then half-even) -/
def SrrConfig.setWarmup (c : SrrConfig) (seconds : Rat) : SrrConfig :=
  { c with warmup := roundHalfEven (fl (seconds / c.scantime)) }

/-- the `subpixel_offsets` setter: `lcm.reduce` of the denominators, `offset * size // denominator` -/
def SrrConfig.setOffsets (c : SrrConfig) (pairs : List (Nat × Nat)) : SrrConfig :=
  let size := lcmList (pairs.map (·.2))
  { c with size := size, offs := pairs.map (fun od => od.1 * size / od.2) }

/-- `set_equal_subpixel_offsets(width)`: offsets `arange(0, width)`, sub-pixel size `width` -/
def SrrConfig.setEqualOffsets (c : SrrConfig) (width : Nat) : SrrConfig :=
  { c with size := width, offs := List.range width }

/-- assignment of the three raster attributes (`_warmup` stays what it is, in samples) -/
def SrrConfig.setParams (c : SrrConfig) (spotsize speed scantime : Rat) : SrrConfig :=
  { c with spotsize := spotsize, speed := speed, scantime := scantime }

/-- `__init__`: the raster parameters, then the `warmup` setter, then the `subpixel_offsets` setter -/
def SrrConfig.make (spotsize speed scantime warmupSeconds : Rat) (pairs : List (Nat × Nat)) : SrrConfig :=
  let size := lcmList (pairs.map (·.2))
  { spotsize := spotsize, speed := speed, scantime := scantime,
    warmup := roundHalfEven (fl (warmupSeconds / scantime)),
    size := size,
    offs := pairs.map (fun od => od.1 * size / od.2) }

/-- a change of a configuration object through its public interface -/
inductive CfgOp
  | warmup (seconds : Rat)
  | offsets (pairs : List (Nat × Nat))
  | equalOffsets (width : Nat)
  | params (spotsize speed scantime : Rat)
  | replace (spotsize speed scantime warmupSeconds : Rat) (pairs : List (Nat × Nat))   -- a new object
  deriving Repr

def SrrConfig.apply (c : SrrConfig) : CfgOp → SrrConfig
  | .warmup s => c.setWarmup s
  | .offsets ps => c.setOffsets ps
  | .equalOffsets w => c.setEqualOffsets w
  | .params a b t => c.setParams a b t
  | .replace a b t w ps => SrrConfig.make a b t w ps

/-- the specification of the warm-up in samples: the exact quotient rounded half-even.  It can differ from the
setter only when the float rounding of the quotient crosses a rounding tie; such inputs are undetermined. -/
def warmupSpec (seconds scantime : Rat) : Int := roundHalfEven (seconds / scantime)

/-- `warmup` getter (seconds): `self._warmup * self.scantime` -/
def SrrConfig.warmupSeconds (c : SrrConfig) : Rat := fl ((c.warmup : Rat) * c.scantime)

/-- `subpixel_offsets` getter: rows `[offset, size]` -/
def SrrConfig.subpixelOffsets (c : SrrConfig) : List (Nat × Nat) := c.offs.map (fun o => (o, c.size))

/-- `magnification`: `self.spotsize / (self.speed * self.scantime)`, two float operations -/
def SrrConfig.magnification (c : SrrConfig) : Rat := fl (c.spotsize / fl (c.speed * c.scantime))

/-- the same quotient in exact arithmetic -/
def SrrConfig.magnificationExact (c : SrrConfig) : Rat := c.spotsize / (c.speed * c.scantime)

/-- the array form: `(spotsize, speed, scantime, warmup [s], subpixel_offsets)` -/
structure SrrArray where
  spotsize : Rat
  speed : Rat
  scantime : Rat
  warmup : Rat
  offsets : List (Nat × Nat)
  deriving DecidableEq, Repr

def SrrConfig.toArray (c : SrrConfig) : SrrArray :=
  { spotsize := c.spotsize, speed := c.speed, scantime := c.scantime,
    warmup := c.warmupSeconds, offsets := c.subpixelOffsets }

def SrrConfig.fromArray (a : SrrArray) : SrrConfig :=
  SrrConfig.make a.spotsize a.speed a.scantime a.warmup a.offsets

/-! ### the arrays as NumPy builds them: structured dtypes

`to_array` returns a structured array: field names in order, a shape (0-d for `Config` and `SRRConfig`, `(2,)`
for `SpotConfig`) and one record per element.  A field is a float64 scalar or (SRR `subpixel_offsets`) an
integer sub-array of shape `(k, 2)`.  `from_array` reads fields *by name* (`array["speed"]`, or the keyword
arguments `{name: array[name]}`), so any array with the right names is accepted, whatever the order and whatever
else it holds.  Arrays of two or more dimensions are outside the model. -/

inductive FVal
  | num (v : Rat)
  | table (rows : List (Int × Int))
  deriving DecidableEq, Repr

structure RecArr where
  names : List String
  /-- `none`: 0-d; `some n`: shape `(n,)` -/
  dim : Option Nat
  /-- one record per element (one for a 0-d array), each with one value per name -/
  recs : List (List FVal)
  deriving DecidableEq, Repr

/-- what the real call raises; `unmodelled` = the input is outside the modelled arrays, nothing is claimed -/
inductive ArrErr | valueError | typeError | indexError | unmodelled
  deriving DecidableEq, Repr

/-- position of a field name in the dtype -/
def RecArr.fieldIdx (a : RecArr) (name : String) : Option Nat :=
  let i := a.names.findIdx (· == name)
  if i < a.names.length then some i else none

/-- `array[name]`: the column of that field (ValueError "no field of name …"), with the array's shape -/
def RecArr.field (a : RecArr) (name : String) : Except ArrErr (List FVal) :=
  match a.fieldIdx name with
  | some i => .ok (a.recs.map (fun r => r.getD i (.num 0)))
  | none => .error .valueError

/-- `float(array[name])`: only a 0-d array of one number converts (NumPy ≥ 2.x: TypeError otherwise) -/
def RecArr.floatField (a : RecArr) (name : String) : Except ArrErr Rat := do
  let col ← a.field name
  match a.dim, col with
  | none, [.num v] => pure v
  | _, _ => throw .typeError

def srrNames : List String := ["spotsize", "speed", "scantime", "warmup", "subpixel_offsets"]

/-- `SRRConfig.to_array`: a 0-d record of the four floats and the `(k, 2)` integer table of the getter -/
def SrrConfig.toRec (c : SrrConfig) : RecArr :=
  let a := c.toArray
  { names := srrNames, dim := none,
    recs := [[.num a.spotsize, .num a.speed, .num a.scantime, .num a.warmup,
              .table (a.offsets.map (fun p => ((p.1 : Int), (p.2 : Int))))]] }

/-- one keyword argument of `SRRConfig(**{name: array[name]})`: the default when the array has no such field -/
def kwNum (a : RecArr) (r : List FVal) (name : String) (dflt : Rat) : Except ArrErr Rat :=
  match a.fieldIdx name with
  | none => pure dflt
  | some i => match r.getD i (.num 0) with
    | .num v => pure v
    | .table _ => throw .unmodelled

/-- `SRRConfig.from_array`: `cls(**{name: array[name] for name in array.dtype.names})`.  A name that is no
parameter of `__init__` is a TypeError; a missing one takes the default (35, 140, 0.25, 12.5, ((0,2),(1,2)));
an offsets value that is not 2-d (a scalar, or the getter's empty array) is the setter's ValueError.
Only 0-d arrays with a non-zero scan time and non-negative integers in the table are modelled. -/
def SrrConfig.fromRec (a : RecArr) : Except ArrErr SrrConfig :=
  match a.dim, a.recs with
  | none, [r] =>
    if a.names.any (fun n => !srrNames.contains n) then throw .typeError else do
    let spotsize ← kwNum a r "spotsize" 35
    let speed ← kwNum a r "speed" 140
    let scantime ← kwNum a r "scantime" (1 / 4)
    let warmup ← kwNum a r "warmup" (25 / 2)
    if scantime = 0 then throw .unmodelled
    let pairs ← (match a.fieldIdx "subpixel_offsets" with
      | none => pure [(0, 2), (1, 2)]
      | some i => match r.getD i (.num 0) with
        | .num _ => throw .valueError
        | .table rows =>
          if rows.isEmpty then throw .valueError
          else if rows.all (fun p => decide (0 ≤ p.1) && decide (0 ≤ p.2)) then
            pure (rows.map (fun p => (p.1.toNat, p.2.toNat)))
          else throw .unmodelled : Except ArrErr (List (Nat × Nat)))
    pure (SrrConfig.make spotsize speed scantime warmup pairs)
  | _, _ => throw .unmodelled

/-- `np.round(1.0 / mag if mag < 1.0 else mag).astype(int)`; `m` is the value of `magnification` -/
def magInt (m : Rat) : Nat := (roundHalfEven (if m < 1 then fl (1 / m) else m)).toNat

/-- `mag_axis = 0 if magnification >= 1.0 else 1` -/
def magAxis (m : Rat) : Nat := if 1 ≤ m then 0 else 1

/-- `subpixels_per_pixel = lcm(_subpixel_size, mag) // mag` -/
def subpixelsPerPixel (size : Nat) (m : Rat) : Nat := Nat.lcm size (magInt m) / magInt m

/-! ## validity (`SRRConfig.valid_for_data`); `none` = `data[0]`/`data[1]` do not exist -/

def validForData {α : Type} (c : SrrConfig) (m : Rat) (layers : List (Arr2 α)) : Option Bool :=
  match layers[0]?, layers[1]? with
  | some d0, some d1 =>
    if c.warmupSeconds < 0 then some false
    else
      let mag := magInt m
      let ax := magAxis m
      let limit0 := d1.dim ax * mag
      let limit1 := d0.dim ax * mag
      if (d0.cols : Int) < c.warmup + (limit0 : Int) then some false
      else if (d1.cols : Int) < c.warmup + (limit1 : Int) then some false
      else some true
  | _, _ => none

/-! ## `SRRLaser.krisskross` -/

/-- the body of the loop for layer `i`: trim warm-up and excess, stretch, transpose odd layers -/
def prepLayer {α : Type} (w : Int) (mag ax len0 len1 : Nat) (i : Nat) (layer : Arr2 α) : Arr2 α :=
  let len := if i % 2 = 0 then len0 else len1
  let trimmed := layer.sliceCols (some w) (some (w + (len : Int)))
  let stretched := trimmed.rep mag ax
  if i % 2 = 1 then stretched.T else stretched

/-- `aligned`: `np.empty((length[1], length[0], layers))` with slot `[:, :, i]` assigned from the
prepared layer `i`.  `none` when `data[0]`/`data[1]` are missing or an assignment's shapes differ. -/
def aligned {α : Type} (z : α) (c : SrrConfig) (m : Rat) (layers : List (Arr2 α)) : Option (Arr3 α) :=
  match layers[0]?, layers[1]? with
  | some d0, some d1 =>
    let mag := magInt m
    let ax := magAxis m
    let len0 := d1.dim ax * mag
    let len1 := d0.dim ax * mag
    let prep := fun (i : Nat) (l : Arr2 α) => prepLayer c.warmup mag ax len0 len1 i l
    if (List.range layers.length).all (fun i =>
        match layers[i]? with
        | some l => decide ((prep i l).rows = len1) && decide ((prep i l).cols = len0)
        | none => true) then
      some { rows := len1, cols := len0, depth := layers.length,
             get := fun r cc i => match layers[i]? with
               | some l => (prep i l).get r cc
               | none => z }
    else none
  | _, _ => none

/-! ## `subpixel_offset` -/

/-- a zero offset is prepended when the first offset is not zero -/
def effOffsets (offs : List (Nat × Nat)) : List (Nat × Nat) :=
  match offs with
  | [] => []
  | o :: _ => if o ≠ (0, 0) then (0, 0) :: offs else offs

def maxList (l : List Nat) : Nat := l.foldl max 0

/-- `-(overlap - start) or None` -/
def endBound (overlap start : Nat) : Option Int :=
  if (overlap : Int) - (start : Int) = 0 then none else some (-((overlap : Int) - (start : Int)))

/-- target region `data[start[0]:end[0], start[1]:end[1], i]` of layer `i` -/
def region (eff : List (Nat × Nat)) (ov0 ov1 nr nc : Nat) (i : Nat) : (Nat × Nat) × (Nat × Nat) :=
  let st := eff.getD (i % eff.length) (0, 0)
  (sliceBounds nr (some (st.1 : Int)) (endBound ov0 st.1),
   sliceBounds nc (some (st.2 : Int)) (endBound ov1 st.2))

/-- `subpixel_offset(x, offsets, pixelsize)`; `none` when the offsets list is empty (IndexError) or
an assignment's shapes differ -/
def subpixelOffset {α : Type} (z : α) (x : Arr3 α) (offs : List (Nat × Nat)) (ps : Nat × Nat) :
    Option (Arr3 α) :=
  let eff := effOffsets offs
  if eff.isEmpty then none else
  let ov0 := maxList (eff.map (·.1))
  let ov1 := maxList (eff.map (·.2))
  let nr := x.rows * ps.1 + ov0
  let nc := x.cols * ps.2 + ov1
  if (List.range x.depth).all (fun i =>
      let rg := region eff ov0 ov1 nr nc i
      decide (rg.1.2 - rg.1.1 = x.rows * ps.1) && decide (rg.2.2 - rg.2.1 = x.cols * ps.2)) then
    some { rows := nr, cols := nc, depth := x.depth,
           get := fun r cc i =>
             let rg := region eff ov0 ov1 nr nc i
             if rg.1.1 ≤ r ∧ r < rg.1.2 ∧ rg.2.1 ≤ cc ∧ cc < rg.2.2 then
               -- `np.repeat(x[:, :, i], ps0, axis=0).repeat(ps1, axis=1)` at the local index
               x.get ((r - rg.1.1) / ps.1) ((cc - rg.2.1) / ps.2) i
             else z }
  else none

/-- `subpixel_offset_equal` applied to `aligned` -/
def krisskross {α : Type} (z : α) (c : SrrConfig) (m : Rat) (layers : List (Arr2 α)) : Option (Arr3 α) :=
  match aligned z c m layers with
  | some a =>
    let p := subpixelsPerPixel c.size m
    subpixelOffset z a (c.offs.map (fun o => (o, o))) (p, p)
  | none => none

/-! ## `SRRLaser.get` (layer / flat) -/

/-- `get(layer=i)`: a copy of layer `i`, transposed when `i` is odd -/
def getLayer {α : Type} (layers : List (Arr2 α)) (i : Nat) : Option (Arr2 α) :=
  match layers[i]? with
  | some a => some (if i % 2 = 1 then a.T else a)
  | none => none

/-- `np.mean(data, axis=2)` -/
def meanDepth (a : Arr3 Rat) : Arr2 Rat :=
  { rows := a.rows, cols := a.cols,
    get := fun r c => ((List.range a.depth).map (fun i => a.get r c i)).sum / (a.depth : Rat) }

/-- `get(flat=True)` -/
def getFlat (c : SrrConfig) (m : Rat) (layers : List (Arr2 Rat)) : Option (Arr2 Rat) :=
  (krisskross 0 c m layers).map meanDepth

/-- what `SRRLaser.get` returns: a 2-d image or the 3-d reconstruction -/
inductive GetOut (α : Type)
  | img (a : Arr2 α)
  | stack (a : Arr3 α)

/-- `SRRLaser.get(layer=…, flat=…)` (one element or all, no extent, no calibration) as the code runs:
`data = self.data[layer].copy()`, `.T` when `layer % 2 == 1`, else `data = self.krisskross()`; at the end
`if flat and data.ndim > 2: data = np.mean(data, axis=2)` (`mean` stands for that NumPy call).
`none`: the layer does not exist (IndexError) or the reconstruction raises.  Negative layer numbers are not
modelled. -/
def srrGet {α : Type} (z : α) (mean : Arr3 α → Arr2 α) (c : SrrConfig) (m : Rat) (layers : List (Arr2 α))
    (layer : Option Nat) (flat : Bool) : Option (GetOut α) :=
  let data : Option (GetOut α) :=
    match layer with
    | some i =>
      (match layers[i]? with
       | some a => some (.img (if i % 2 = 1 then a.T else a))
       | none => none)
    | none => (krisskross z c m layers).map .stack
  data.map (fun d =>
    match d with
    | .stack a => if flat then .img (mean a) else .stack a
    | .img a => .img a)

/-! ## specification: the geometric model -/

/-- a crossed stack: at least two layers, even layers are `l0 × s0`, odd layers `l1 × s1` -/
def Crossed {α : Type} (layers : List (Arr2 α)) (l0 s0 l1 s1 : Nat) : Prop :=
  2 ≤ layers.length ∧
  ∀ (i : Nat) (l : Arr2 α), layers[i]? = some l →
    l.rows = (if i % 2 = 0 then l0 else l1) ∧ l.cols = (if i % 2 = 0 then s0 else s1)

/-- a stack with the lines of a crossed stack whose layers may differ in length: even layers have `l0` lines, odd layers
`l1`, and EVERY layer holds the warm-up `w` and the samples the reconstruction reads from it (`l1 * M` for even layers,
`l0 * M` for odd ones) - "s exceeding the needed length by any amount", layer by layer -/
def Ragged {α : Type} (layers : List (Arr2 α)) (l0 l1 M w : Nat) : Prop :=
  2 ≤ layers.length ∧
  ∀ (i : Nat) (l : Arr2 α), layers[i]? = some l →
    l.rows = (if i % 2 = 0 then l0 else l1) ∧ w + (if i % 2 = 0 then l1 else l0) * M ≤ l.cols

/-- effective offset list of the layers: a zero is prepended when the first offset is not zero -/
def effList (offs : List Nat) : List Nat :=
  match offs with
  | [] => []
  | o :: _ => if o ≠ 0 then 0 :: offs else offs

/-- offset (in sub-pixels) of layer `i` -/
def layerOffset (offs : List Nat) (i : Nat) : Nat := (effList offs).getD (i % (effList offs).length) 0

/-- shape of the reconstruction of a crossed stack with `l0` (even) and `l1` (odd) lines -/
def reconRows (l0 mag p : Nat) (offs : List Nat) : Nat := l0 * mag * p + maxList offs
def reconCols (l1 mag p : Nat) (offs : List Nat) : Nat := l1 * mag * p + maxList offs

/-- is `(r, cc)` inside the footprint of layer `i` -/
def inFootprint (l0 l1 mag p : Nat) (offs : List Nat) (r cc i : Nat) : Bool :=
  let o := layerOffset offs i
  decide (o ≤ r) && decide (r < o + l0 * mag * p) && decide (o ≤ cc) && decide (cc < o + l1 * mag * p)

/-- source index `(line, sample)` in layer `i` of output voxel `(r, cc, i)` -/
def sourceIndex (mag p w : Nat) (offs : List Nat) (r cc i : Nat) : Nat × Nat :=
  let o := layerOffset offs i
  let rr := (r - o) / p
  let c' := (cc - o) / p
  if i % 2 = 0 then (rr / mag, w + c') else (c' / mag, w + rr)

/-- the voxel prescribed by the geometric model: the sample of the trimmed, stretched,
(for odd layers) transposed, enlarged and shifted layer; zero outside its footprint -/
def voxel {α : Type} (z : α) (l0 l1 mag p w : Nat) (offs : List Nat) (layers : List (Arr2 α))
    (r cc i : Nat) : α :=
  match layers[i]? with
  | some l =>
    if inFootprint l0 l1 mag p offs r cc i then
      let s := sourceIndex mag p w offs r cc i
      l.get s.1 s.2
    else z
  | none => z

/-- the source index of an in-footprint voxel exists in its layer -/
def voxelInRange {α : Type} (l0 l1 mag p w : Nat) (offs : List Nat) (layers : List (Arr2 α))
    (r cc i : Nat) : Bool :=
  match layers[i]? with
  | some l =>
    if inFootprint l0 l1 mag p offs r cc i then
      let s := sourceIndex mag p w offs r cc i
      decide (s.1 < l.rows) && decide (s.2 < l.cols)
    else true
  | none => false

/-- the specification of acceptance, for a crossed stack (even layers `l0 × s0`, odd layers `l1 × s1`), warm-up
`w` samples and integer magnification `M`: the warm-up is not negative and every line holds the warm-up and the
samples the geometric model reads from it (`valid_iff_evaluable`: exactly when every source index exists) -/
def validSpec (w : Int) (M l0 s0 l1 s1 : Nat) : Bool :=
  decide (0 ≤ w) && decide (w + ((l1 * M : Nat) : Int) ≤ (s0 : Int)) && decide (w + ((l0 * M : Nat) : Int) ≤ (s1 : Int))

/-- the specification of a single-layer read, pixel by pixel: pixel `(r, cc)` of the result is pixel `(r, cc)`
of the stored layer, `(cc, r)` for odd layers; nothing is trimmed, stretched or shifted -/
def layerSpec {α : Type} (l : Arr2 α) (i : Nat) : Arr2 α :=
  if i % 2 = 0 then { rows := l.rows, cols := l.cols, get := fun r cc => l.get r cc }
  else { rows := l.cols, cols := l.rows, get := fun r cc => l.get cc r }

/-- flattened image prescribed by the model: the mean over layers of the voxels -/
def flatSpec (l0 l1 mag p w : Nat) (offs : List Nat) (layers : List (Arr2 Rat)) (r cc : Nat) : Rat :=
  ((List.range layers.length).map (fun i => voxel 0 l0 l1 mag p w offs layers r cc i)).sum
    / (layers.length : Rat)

/-! ## the stack an `SRRLaser` object holds, and what changes it between two reconstructions

`laser.data` is a public list of structured arrays.  Its element set is changed by the methods `rename`, `remove`,
`add` of `SRRLaser` (each rebuilds every layer with a new structured dtype), by assigning other layers
(`laser.data = [...]`, `laser.data[i] = ...`, `laser.data.append(...)`, `laser.data.pop()`) and by writing into a layer.
A pixel of the model is the tuple of its field values in dtype order; a field is `(name, dtype string)`. -/

/-- `np.ndarray.map`: the same shape, every cell through `f` (a pixelwise change of the structured dtype) -/
def _root_.Pew.Arr2.map {α β : Type} (f : α → β) (a : Arr2 α) : Arr2 β :=
  { rows := a.rows, cols := a.cols, get := fun r c => f (a.get r c) }

def _root_.Pew.Arr3.map {α β : Type} (f : α → β) (a : Arr3 α) : Arr3 β :=
  { rows := a.rows, cols := a.cols, depth := a.depth, get := fun r c i => f (a.get r c i) }

structure Stack where
  fields : List (String × String)
  layers : List (Arr2 (List Int))

def Stack.names (s : Stack) : List String := s.fields.map (·.1)

def distinct : List String → Bool
  | [] => true
  | a :: l => !l.contains a && distinct l

/-- `names.get(name, name)` -/
def renameName (m : List (String × String)) (n : String) : String := (m.lookup n).getD n

/-- the fields `drop_fields` keeps, as positions in the old dtype -/
def keepIdx (fields : List (String × String)) (names : List String) : List Nat :=
  (List.range fields.length).filter (fun i => match fields[i]? with
    | some f => !names.contains f.1
    | none => false)

/-- a pixel restricted to the positions `keep` -/
def pickIdx (keep : List Nat) (px : List Int) : List Int := keep.map (fun i => px.getD i 0)

/-- a pixel of `n` fields with one more value appended (`new_data[name] = old[name]` for the old names, then the new one) -/
def appendField (n : Nat) (px : List Int) (v : Int) : List Int := (List.range n).map (fun k => px.getD k 0) ++ [v]

inductive StackOp
  /-- `SRRLaser.rename(names)`: `rfn.rename_fields(layer, names)` on every layer -/
  | rename (m : List (String × String))
  /-- `SRRLaser.remove(names)`: `rfn.drop_fields(layer, names, usemask=False)` on every layer -/
  | remove (names : List String)
  /-- `SRRLaser.add(element, data)`: a new dtype `descr + [(element, data[i].dtype.str)]`, old fields copied -/
  | add (name dtype : String) (data : List (Arr2 Int))
  /-- `laser.data = [...]` (or every item assigned): another stack altogether -/
  | setData (s : Stack)
  /-- `laser.data.append(layer)` -/
  | append (layer : Arr2 (List Int))
  /-- `laser.data.pop()` -/
  | pop
  /-- `delta` added to every field of the cells `cells` of layer `i` (in place, or as a new array assigned to
  `laser.data[i]`) -/
  | addTo (i : Nat) (cells : List (Nat × Nat)) (delta : Int)

/-- the stack after one change.  `none`: outside the model - pewlib raises (a name that is already there / not there,
a duplicate after renaming, data of another shape or another number of layers) or would leave layers without a field. -/
def Stack.apply (s : Stack) : StackOp → Option Stack
  | .rename m =>
    let fs := s.fields.map (fun f => (renameName m f.1, f.2))
    if distinct (fs.map (·.1)) then some { s with fields := fs } else none
  | .remove names =>
    let keep := keepIdx s.fields names
    if distinct names && names.all (fun n => s.names.contains n) && !keep.isEmpty then
      some { fields := keep.filterMap (fun i => s.fields[i]?), layers := s.layers.map (Arr2.map (pickIdx keep)) }
    else none
  | .add name dt data =>
    if s.names.contains name || data.length != s.layers.length ||
        !(List.zip s.layers data).all (fun (l, d) => l.rows == d.rows && l.cols == d.cols) then none
    else
      some { fields := s.fields ++ [(name, dt)],
             layers := List.zipWith (fun (l : Arr2 (List Int)) (d : Arr2 Int) =>
               ({ rows := l.rows, cols := l.cols,
                  get := fun r c => appendField s.fields.length (l.get r c) (d.get r c) } : Arr2 (List Int)))
               s.layers data }
  | .setData s' => some s'
  | .append l => some { s with layers := s.layers ++ [l] }
  | .pop => if s.layers.isEmpty then none else some { s with layers := s.layers.dropLast }
  | .addTo i cells delta =>
    match s.layers[i]? with
    | some l =>
      if cells.all (fun rc => decide (rc.1 < l.rows) && decide (rc.2 < l.cols)) then
        let l' : Arr2 (List Int) :=
          { l with get := fun r c => if cells.contains (r, c) then (l.get r c).map (· + delta) else l.get r c }
        some { s with layers := s.layers.set i l' }
      else none
    | none => none

/-- a history of changes, one after the other -/
def Stack.applyAll (s : Stack) : List StackOp → Option Stack
  | [] => some s
  | op :: ops => match s.apply op with
    | some s' => s'.applyAll ops
    | none => none

/-- the zero record of a structured dtype with `n` fields (`np.zeros`) -/
def zeroPx (n : Nat) : List Int := List.replicate n 0

/-- field `e` of a structured array: `array[name]` for the `e`-th name -/
def fieldOf (e : Nat) (px : List Int) : Int := px.getD e 0

/-! ## the `SRRLaser` object between calls: buffers, views, `get` with calibration

`SRRLaser.get` is the one method of the anchored code that WRITES into an array: under `calibrate` with no element it
runs `data[name] = self.calibration[name].calibrate(data[name])` for every field, in place.  Whether that is harmless
depends on what the local `data` refers to: a private copy (`self.data[layer].copy()`, then perhaps a `.T` view of that
copy), the fresh array `krisskross()` built - or memory the object keeps.  So the object is modelled with identities:
a heap of 2-d buffers, `self.data` a list of buffer numbers, a 2-d array a buffer seen directly or through `.T`.
The mechanism `Laser.get` follows the statements of the method (copy = a new buffer, `.T` = a view, field assignment =
a write through the view); the specification `getSpec` is a function of the stored layers, the calibrations and the
configuration alone and returns the store as it was.  `Calibration.calibrate` is any function `ρ → ρ` per element
(`Calib.apply` below for the real one).  An unstructured result (`get(element)`) is shown as an image of 1-tuples.
`extent` is not modelled (C10), negative layer numbers are not modelled. -/

/-- `Calibration.calibrate` in exact arithmetic: the data itself when intercept = 0 and gradient = 1, else
`(x - intercept) / gradient` -/
structure Calib where
  intercept : Rat
  gradient : Rat
  deriving DecidableEq, Repr

def Calib.apply (k : Calib) (x : Rat) : Rat :=
  if k.intercept = 0 ∧ k.gradient = 1 then x else (x - k.intercept) / k.gradient

/-- a record of a dtype with `n` fields after `rec[name_k] = v` -/
def setField {ρ : Type} (z : ρ) (n k : Nat) (v : ρ) (px : List ρ) : List ρ :=
  (List.range n).map (fun j => if j = k then v else px.getD j z)

/-- one turn of the calibration loop on one record: field `k` through `g` -/
def stepPx {ρ : Type} (z : ρ) (n k : Nat) (g : ρ → ρ) (px : List ρ) : List ρ :=
  setField z n k (g (px.getD k z)) px

/-- the arguments of `SRRLaser.get` that are modelled -/
structure GetArgs where
  element : Option String
  calibrate : Bool
  flat : Bool
  layer : Option Nat
  deriving DecidableEq, Repr

/-- position of a field name (`data[element]`: ValueError for a name that is not there) -/
def fieldIdx? (names : List String) (nm : String) : Option Nat :=
  if names.idxOf nm < names.length then some (names.idxOf nm) else none

/-- an `SRRLaser`: every 2-d buffer that exists (`heap`, a buffer is known by its position), `self.data` (one buffer
per layer), the field names of the layers' dtype, `self.calibration`, `self.config` -/
structure Laser (ρ : Type) where
  heap : List (Arr2 (List ρ))
  data : List Nat
  names : List String
  cal : List (String × (ρ → ρ))
  cfg : SrrConfig

/-- a 2-d array object: buffer `id`, seen through `.T` when `t` -/
def readView {ρ : Type} (heap : List (Arr2 (List ρ))) (id : Nat) (t : Bool) : Option (Arr2 (List ρ)) :=
  (heap[id]?).map (fun b => if t then b.T else b)

/-- `view[name_k] = vals` (`vals` has the shape of the view): a write into the buffer behind the view -/
def writeField {ρ : Type} (z : ρ) (n : Nat) (heap : List (Arr2 (List ρ))) (id : Nat) (t : Bool) (k : Nat)
    (vals : Arr2 ρ) : List (Arr2 (List ρ)) :=
  match heap[id]? with
  | some b => heap.set id { b with get := fun r c => setField z n k (if t then vals.get c r else vals.get r c) (b.get r c) }
  | none => heap

/-- `for name in data.dtype.names: data[name] = self.calibration[name].calibrate(data[name])` on a 2-d view; `k` counts
the fields done.  `none`: KeyError (no calibration under that name). -/
def calLoopView {ρ : Type} (z : ρ) (n : Nat) (cal : List (String × (ρ → ρ))) (id : Nat) (t : Bool) :
    List String → Nat → List (Arr2 (List ρ)) → Option (List (Arr2 (List ρ)))
  | [], _, h => some h
  | nm :: rest, k, h =>
    match cal.lookup nm, readView h id t with
    | some g, some v =>
      calLoopView z n cal id t rest (k + 1) (writeField z n h id t k (v.map (fun px => g (px.getD k z))))
    | _, _ => none

/-- the same loop on the 3-d array `krisskross()` returned (a local value: nothing else refers to it) -/
def calLoop3 {ρ : Type} (z : ρ) (n : Nat) (cal : List (String × (ρ → ρ))) :
    List String → Nat → Arr3 (List ρ) → Option (Arr3 (List ρ))
  | [], _, a => some a
  | nm :: rest, k, a =>
    match cal.lookup nm with
    | some g => calLoop3 z n cal rest (k + 1) (a.map (stepPx z n k g))
    | none => none

/-- the layers `self.data` refers to (`none`: a dangling buffer number) -/
def Laser.layers? {ρ : Type} (o : Laser ρ) : Option (List (Arr2 (List ρ))) :=
  o.data.mapM (fun id => o.heap[id]?)

/-- `np.mean(data[name], axis=2)` for the first `w` fields (`structured[name] = …` for every name; `w = 1` for an
unstructured array); `mean` stands for NumPy's mean of the values along the layer axis -/
def meanPx {ρ : Type} (z : ρ) (mean : List ρ → ρ) (w : Nat) (a : Arr3 (List ρ)) : Arr2 (List ρ) :=
  { rows := a.rows, cols := a.cols,
    get := fun r c => (List.range w).map (fun j => mean ((List.range a.depth).map (fun i => (a.get r c i).getD j z))) }

/-- **`SRRLaser.get(element, calibrate, flat=…, layer=…)` as the code runs** on the object: the object afterwards (its
heap has grown by the copy and the copy may have been written to) and the array returned.
`none`: IndexError (no such layer), ValueError (no such element / the reconstruction fails), KeyError (no calibration). -/
def Laser.get {ρ : Type} (z : ρ) (mean : List ρ → ρ) (o : Laser ρ) (a : GetArgs) :
    Option (Laser ρ × GetOut (List ρ)) :=
  let n := o.names.length
  match a.layer with
  | some i =>
    match o.data[i]? with
    | none => none
    | some id =>
      match o.heap[id]? with
      | none => none
      | some buf =>
        -- `data = self.data[layer].copy()`: a new buffer; `data = data.T` for odd layers: a view of it
        let id1 := o.heap.length
        let heap1 := o.heap ++ [buf]
        let t := decide (i % 2 = 1)
        match a.element with
        | none =>
          -- `if calibrate: for name in data.dtype.names: data[name] = …` writes through the view
          match (if a.calibrate then calLoopView z n o.cal id1 t o.names 0 heap1 else some heap1) with
          | none => none
          | some heap2 => (readView heap2 id1 t).map (fun v => ({ o with heap := heap2 }, .img v))
        | some nm =>
          -- `data = data[element]` (a view of one field), `data = self.calibration[element].calibrate(data)` (a new array)
          match fieldIdx? o.names nm, readView heap1 id1 t with
          | some k, some v =>
            let col : Arr2 ρ := v.map (fun px => px.getD k z)
            let res : Option (Arr2 ρ) := if a.calibrate then (o.cal.lookup nm).map (fun g => col.map g) else some col
            res.map (fun c => ({ o with heap := heap1 }, .img (c.map (fun x => [x]))))
          | _, _ => none
  | none =>
    -- `data = self.krisskross()`: a fresh 3-d array
    match o.layers? with
    | none => none
    | some ls =>
      match krisskross (List.replicate n z) o.cfg o.cfg.magnification ls with
      | none => none
      | some rec3 =>
        match a.element with
        | none =>
          match (if a.calibrate then calLoop3 z n o.cal o.names 0 rec3 else some rec3) with
          | none => none
          | some b => some (o, if a.flat then .img (meanPx z mean n b) else .stack b)
        | some nm =>
          match fieldIdx? o.names nm with
          | none => none
          | some k =>
            let col : Arr3 ρ := rec3.map (fun px => px.getD k z)
            let res : Option (Arr3 ρ) := if a.calibrate then (o.cal.lookup nm).map (fun g => col.map g) else some col
            res.map (fun c =>
              let c1 : Arr3 (List ρ) := c.map (fun x => [x])
              (o, if a.flat then .img (meanPx z mean 1 c1) else .stack c1))

/-! ### specification of a read: a function of the stored layers, the calibrations and the configuration -/

/-- `[self.calibration[name] for name in names]` -/
def lookupAll {κ : Type} (cal : List (String × κ)) : List String → Option (List κ)
  | [] => some []
  | n :: ns =>
    match cal.lookup n, lookupAll cal ns with
    | some g, some gs => some (g :: gs)
    | _, _ => none

/-- what a read does to one record: all fields or the selected one, each through its OWN calibration when `calibrate` -/
def readPx {ρ : Type} (z : ρ) (names : List String) (cal : List (String × (ρ → ρ))) (a : GetArgs) :
    Option (List ρ → List ρ) :=
  match a.element with
  | none =>
    if a.calibrate then
      (lookupAll cal names).map (fun gs => fun px => (List.range names.length).map (fun j => (gs.getD j id) (px.getD j z)))
    else some id
  | some nm =>
    match fieldIdx? names nm with
    | none => none
    | some k =>
      if a.calibrate then (cal.lookup nm).map (fun g => fun px => [g (px.getD k z)])
      else some (fun px => [px.getD k z])

/-- number of values per pixel of a read -/
def readWidth (names : List String) (a : GetArgs) : Nat :=
  match a.element with
  | none => names.length
  | some _ => 1

/-- **what `get` owes**: pixel by pixel the stored layer (`layerSpec`) or the reconstruction of the stored layers, each
record through `readPx`; with `flat` the mean over the layer axis of those records -/
def getSpec {ρ : Type} (z : ρ) (mean : List ρ → ρ) (layers : List (Arr2 (List ρ))) (names : List String)
    (cal : List (String × (ρ → ρ))) (cfg : SrrConfig) (a : GetArgs) : Option (GetOut (List ρ)) :=
  match readPx z names cal a with
  | none => none
  | some f =>
    match a.layer with
    | some i => (layers[i]?).map (fun l => .img ((layerSpec l i).map f))
    | none =>
      (krisskross (List.replicate names.length z) cfg cfg.magnification layers).map (fun r =>
        if a.flat then .img (meanPx z mean (readWidth names a) (r.map f)) else .stack (r.map f))

/-! ### histories of one object -/

/-- what a caller does to an `SRRLaser` between two observations -/
inductive Step (ρ : Type)
  /-- a call of `get` -/
  | get (a : GetArgs)
  /-- `laser.data = [...]` with new arrays, and the methods that rebuild every layer (`rename`, `add`, `remove`); a
  structured dtype has at least one field (no names: outside the model) -/
  | setData (layers : List (Arr2 (List ρ))) (names : List String)
  /-- `laser.data[i] = array` (a new array) -/
  | setItem (i : Nat) (layer : Arr2 (List ρ))
  /-- `laser.data[i][r, c] = record`: a write into the stored layer -/
  | write (i r c : Nat) (px : List ρ)
  /-- a change of `laser.config` -/
  | config (op : CfgOp)
  /-- `laser.calibration = {...}` -/
  | setCal (cal : List (String × (ρ → ρ)))

/-- one cell of an array overwritten -/
def _root_.Pew.Arr2.setCell {α : Type} (b : Arr2 α) (r c : Nat) (px : α) : Arr2 α :=
  { b with get := fun r' c' => if r' = r ∧ c' = c then px else b.get r' c' }

def Laser.step {ρ : Type} (z : ρ) (mean : List ρ → ρ) (o : Laser ρ) :
    Step ρ → Option (Laser ρ × Option (GetOut (List ρ)))
  | .get a => (o.get z mean a).map (fun p => (p.1, some p.2))
  | .setData ls names =>
    if names.isEmpty then none else
    some ({ o with heap := o.heap ++ ls, data := (List.range ls.length).map (fun k => o.heap.length + k), names := names }, none)
  | .setItem i l =>
    if i < o.data.length then some ({ o with heap := o.heap ++ [l], data := o.data.set i o.heap.length }, none) else none
  | .write i r c px =>
    match o.data[i]? with
    | none => none
    | some id =>
      match o.heap[id]? with
      | none => none
      | some b => some ({ o with heap := o.heap.set id (b.setCell r c px) }, none)
  | .config op => some ({ o with cfg := o.cfg.apply op }, none)
  | .setCal cal => some ({ o with cal := cal }, none)

/-- a history: the object afterwards and what the calls returned, in order -/
def Laser.run {ρ : Type} (z : ρ) (mean : List ρ → ρ) : Laser ρ → List (Step ρ) → Option (Laser ρ × List (GetOut (List ρ)))
  | o, [] => some (o, [])
  | o, s :: rest =>
    match o.step z mean s with
    | none => none
    | some (o', out) =>
      match Laser.run z mean o' rest with
      | none => none
      | some (o'', outs) => some (o'', (match out with | some x => [x] | none => []) ++ outs)

/-- the specification's state: the layers as values, no identities -/
structure Store (ρ : Type) where
  layers : List (Arr2 (List ρ))
  names : List String
  cal : List (String × (ρ → ρ))
  cfg : SrrConfig

/-- the specification of a step: a call of `get` returns `getSpec` of the store and leaves the store as it is -/
def Store.step {ρ : Type} (z : ρ) (mean : List ρ → ρ) (s : Store ρ) :
    Step ρ → Option (Store ρ × Option (GetOut (List ρ)))
  | .get a => (getSpec z mean s.layers s.names s.cal s.cfg a).map (fun out => (s, some out))
  | .setData ls names => if names.isEmpty then none else some ({ s with layers := ls, names := names }, none)
  | .setItem i l => if i < s.layers.length then some ({ s with layers := s.layers.set i l }, none) else none
  | .write i r c px =>
    match s.layers[i]? with
    | none => none
    | some b => some ({ s with layers := s.layers.set i (b.setCell r c px) }, none)
  | .config op => some ({ s with cfg := s.cfg.apply op }, none)
  | .setCal cal => some ({ s with cal := cal }, none)

def Store.run {ρ : Type} (z : ρ) (mean : List ρ → ρ) : Store ρ → List (Step ρ) → Option (Store ρ × List (GetOut (List ρ)))
  | s, [] => some (s, [])
  | s, st :: rest =>
    match s.step z mean st with
    | none => none
    | some (s', out) =>
      match Store.run z mean s' rest with
      | none => none
      | some (s'', outs) => some (s'', (match out with | some x => [x] | none => []) ++ outs)

/-- an object built from layers: one buffer per layer -/
def Laser.load {ρ : Type} (layers : List (Arr2 (List ρ))) (names : List String) (cal : List (String × (ρ → ρ)))
    (cfg : SrrConfig) : Laser ρ :=
  { heap := layers, data := List.range layers.length, names := names, cal := cal, cfg := cfg }

/-- the store an object stands for: the contents of the buffers `self.data` names -/
def Laser.store {ρ : Type} (o : Laser ρ) : Store ρ :=
  { layers := o.data.filterMap (fun id => o.heap[id]?), names := o.names, cal := o.cal, cfg := o.cfg }

/-- every layer is a buffer that exists, no two layers share a buffer, the dtype has at least one field -/
def Laser.WF {ρ : Type} (o : Laser ρ) : Prop :=
  (∀ id ∈ o.data, id < o.heap.length) ∧ (∀ (i j id : Nat), o.data[i]? = some id → o.data[j]? = some id → i = j) ∧
    o.names ≠ []

/-- `self.calibration` after a change of the element set, as `SRRLaser.rename / remove / add` leave it (`ident` = the
default `Calibration()`); the other changes of the stack do not touch it -/
def calAfter {κ : Type} (ident : κ) (cal : List (String × κ)) : StackOp → List (String × κ)
  | .rename m => cal.map (fun nk => (renameName m nk.1, nk.2))
  | .remove names => cal.filter (fun nk => !names.contains nk.1)
  | .add name _ _ => cal.filter (fun nk => nk.1 != name) ++ [(name, ident)]
  | _ => cal

end Srr
end Pew
