/-!
# C09 — SRR reconstruction (`pewlib.srr.srr.SRRLaser`, `pewlib.srr.config.SRRConfig`,
`pewlib.process.calc.subpixel_offset`)   (+ the array/rounding vocabulary shared with C10)

Arrays are a shape plus an index function (`Arr2`, `Arr3`); every NumPy step of the code is one
function on them (column slice with Python's index normalisation, `np.repeat`, `.T`, assignment
into a slot of `np.empty`/`np.zeros`, `np.mean(axis=2)`).  A step whose NumPy counterpart raises
because two shapes differ returns `none`.  (Broadcasting of a length-1 axis in an assignment is not
modelled: it cannot occur for crossed stacks, the only ones the property quantifies over.)

Mechanism: `validForData`, `aligned` (lengths, trimming, stretching, transposition, stacking),
`subpixelOffset` (effective offsets, overlap, zero canvas, block placement), `krisskross`,
`getLayer`, `getFlat`, `SrrConfig.make / toArray / fromArray`.
Specification: `voxel`, the closed geometric formula of one output voxel.
-/
namespace Pew

/-! ## arrays -/

structure Arr2 (α : Type) where
  rows : Nat
  cols : Nat
  get : Nat → Nat → α

structure Arr3 (α : Type) where
  rows : Nat
  cols : Nat
  depth : Nat
  get : Nat → Nat → Nat → α

/-- one bound of a Python slice (step 1) on an axis of length `n`, as CPython adjusts it:
negative values count from the end, everything is clamped into `[0, n]` -/
def normIdx (n : Nat) (i : Int) : Nat :=
  if i < 0 then (i + (n : Int)).toNat else min i.toNat n

/-- `(start, stop)` of `a[lo:hi]`; `none` is an omitted bound.  The slice has `stop - start`
elements (none when `stop ≤ start`). -/
def sliceBounds (n : Nat) (lo hi : Option Int) : Nat × Nat :=
  (match lo with | none => 0 | some i => normIdx n i,
   match hi with | none => n | some i => normIdx n i)

namespace Arr2
variable {α : Type}

def dim (a : Arr2 α) (axis : Nat) : Nat := if axis = 0 then a.rows else a.cols

/-- `a[r0:r1, c0:c1]` -/
def slice (a : Arr2 α) (r0 r1 c0 c1 : Option Int) : Arr2 α :=
  let rb := sliceBounds a.rows r0 r1
  let cb := sliceBounds a.cols c0 c1
  { rows := rb.2 - rb.1, cols := cb.2 - cb.1, get := fun r c => a.get (rb.1 + r) (cb.1 + c) }

/-- `a[:, c0:c1]` -/
def sliceCols (a : Arr2 α) (c0 c1 : Option Int) : Arr2 α := a.slice none none c0 c1

/-- `np.repeat(a, k, axis)` -/
def rep (a : Arr2 α) (k : Nat) (axis : Nat) : Arr2 α :=
  if axis = 0 then { rows := a.rows * k, cols := a.cols, get := fun r c => a.get (r / k) c }
  else { rows := a.rows, cols := a.cols * k, get := fun r c => a.get r (c / k) }

/-- `a.T` -/
def T (a : Arr2 α) : Arr2 α := { rows := a.cols, cols := a.rows, get := fun r c => a.get c r }

end Arr2

/-! ## rounding -/

/-- round half to even (`np.round`, Python's `round`) of an exact value -/
def roundHalfEven (x : Rat) : Int :=
  let f := x.floor
  let r := x - (f : Rat)
  if r < 1 / 2 then f else if 1 / 2 < r then f + 1 else if f % 2 = 0 then f else f + 1

/-- round half up: `⌊x + 1/2⌋` -/
def roundHalfUp (x : Rat) : Int := (x + 1 / 2).floor

namespace Srr

/-! ## configuration (`SRRConfig`) -/

/-- the state of an `SRRConfig` object: the three raster parameters, `_warmup` (samples),
`_subpixel_size` and `_subpixel_offsets` -/
structure SrrConfig where
  spotsize : Rat
  speed : Rat
  scantime : Rat
  warmup : Int
  size : Nat
  offs : List Nat
  deriving DecidableEq, Repr

/-- `np.lcm.reduce` -/
def lcmList (l : List Nat) : Nat := l.foldl Nat.lcm 1

/-- `__init__`: the `warmup` setter (`np.round(seconds / scantime).astype(int)`) and the
`subpixel_offsets` setter (`lcm.reduce` of the denominators, `offset * size // denominator`) -/
def SrrConfig.make (spotsize speed scantime warmupSeconds : Rat) (pairs : List (Nat × Nat)) : SrrConfig :=
  let size := lcmList (pairs.map (·.2))
  { spotsize := spotsize, speed := speed, scantime := scantime,
    warmup := roundHalfEven (warmupSeconds / scantime),
    size := size,
    offs := pairs.map (fun od => od.1 * size / od.2) }

/-- `warmup` getter (seconds) -/
def SrrConfig.warmupSeconds (c : SrrConfig) : Rat := (c.warmup : Rat) * c.scantime

/-- `subpixel_offsets` getter: rows `[offset, size]` -/
def SrrConfig.subpixelOffsets (c : SrrConfig) : List (Nat × Nat) := c.offs.map (fun o => (o, c.size))

/-- `magnification` -/
def SrrConfig.magnification (c : SrrConfig) : Rat := c.spotsize / (c.speed * c.scantime)

/-- the array form: `(spotsize, speed, scantime, warmup [s], subpixel_offsets)` -/
structure SrrArray where
  spotsize : Rat
  speed : Rat
  scantime : Rat
  warmup : Rat
  offsets : List (Nat × Nat)
  deriving DecidableEq, Repr

def SrrConfig.toArray (c : SrrConfig) : SrrArray :=
  { spotsize := c.spotsize, speed := c.speed, scantime := c.scantime,
    warmup := c.warmupSeconds, offsets := c.subpixelOffsets }

def SrrConfig.fromArray (a : SrrArray) : SrrConfig :=
  SrrConfig.make a.spotsize a.speed a.scantime a.warmup a.offsets

/-- `np.round(1.0 / mag if mag < 1.0 else mag).astype(int)`; `m` is the value of `magnification` -/
def magInt (m : Rat) : Nat := (roundHalfEven (if m < 1 then 1 / m else m)).toNat

/-- `mag_axis = 0 if magnification >= 1.0 else 1` -/
def magAxis (m : Rat) : Nat := if 1 ≤ m then 0 else 1

/-- `subpixels_per_pixel = lcm(_subpixel_size, mag) // mag` -/
def subpixelsPerPixel (size : Nat) (m : Rat) : Nat := Nat.lcm size (magInt m) / magInt m

/-! ## validity (`SRRConfig.valid_for_data`); `none` = `data[0]`/`data[1]` do not exist -/

def validForData {α : Type} (c : SrrConfig) (m : Rat) (layers : List (Arr2 α)) : Option Bool :=
  match layers[0]?, layers[1]? with
  | some d0, some d1 =>
    if c.warmupSeconds < 0 then some false
    else
      let mag := magInt m
      let ax := magAxis m
      let limit0 := d1.dim ax * mag
      let limit1 := d0.dim ax * mag
      if (d0.cols : Int) < c.warmup + (limit0 : Int) then some false
      else if (d1.cols : Int) < c.warmup + (limit1 : Int) then some false
      else some true
  | _, _ => none

/-! ## `SRRLaser.krisskross` -/

/-- the body of the loop for layer `i`: trim warm-up and excess, stretch, transpose odd layers -/
def prepLayer {α : Type} (w : Int) (mag ax len0 len1 : Nat) (i : Nat) (layer : Arr2 α) : Arr2 α :=
  let len := if i % 2 = 0 then len0 else len1
  let trimmed := layer.sliceCols (some w) (some (w + (len : Int)))
  let stretched := trimmed.rep mag ax
  if i % 2 = 1 then stretched.T else stretched

/-- `aligned`: `np.empty((length[1], length[0], layers))` with slot `[:, :, i]` assigned from the
prepared layer `i`.  `none` when `data[0]`/`data[1]` are missing or an assignment's shapes differ. -/
def aligned {α : Type} (z : α) (c : SrrConfig) (m : Rat) (layers : List (Arr2 α)) : Option (Arr3 α) :=
  match layers[0]?, layers[1]? with
  | some d0, some d1 =>
    let mag := magInt m
    let ax := magAxis m
    let len0 := d1.dim ax * mag
    let len1 := d0.dim ax * mag
    let prep := fun (i : Nat) (l : Arr2 α) => prepLayer c.warmup mag ax len0 len1 i l
    if (List.range layers.length).all (fun i =>
        match layers[i]? with
        | some l => decide ((prep i l).rows = len1) && decide ((prep i l).cols = len0)
        | none => true) then
      some { rows := len1, cols := len0, depth := layers.length,
             get := fun r cc i => match layers[i]? with
               | some l => (prep i l).get r cc
               | none => z }
    else none
  | _, _ => none

/-! ## `subpixel_offset` -/

/-- a zero offset is prepended when the first offset is not zero -/
def effOffsets (offs : List (Nat × Nat)) : List (Nat × Nat) :=
  match offs with
  | [] => []
  | o :: _ => if o ≠ (0, 0) then (0, 0) :: offs else offs

def maxList (l : List Nat) : Nat := l.foldl max 0

/-- `-(overlap - start) or None` -/
def endBound (overlap start : Nat) : Option Int :=
  if (overlap : Int) - (start : Int) = 0 then none else some (-((overlap : Int) - (start : Int)))

/-- target region `data[start[0]:end[0], start[1]:end[1], i]` of layer `i` -/
def region (eff : List (Nat × Nat)) (ov0 ov1 nr nc : Nat) (i : Nat) : (Nat × Nat) × (Nat × Nat) :=
  let st := eff.getD (i % eff.length) (0, 0)
  (sliceBounds nr (some (st.1 : Int)) (endBound ov0 st.1),
   sliceBounds nc (some (st.2 : Int)) (endBound ov1 st.2))

/-- `subpixel_offset(x, offsets, pixelsize)`; `none` when the offsets list is empty (IndexError) or
an assignment's shapes differ -/
def subpixelOffset {α : Type} (z : α) (x : Arr3 α) (offs : List (Nat × Nat)) (ps : Nat × Nat) :
    Option (Arr3 α) :=
  let eff := effOffsets offs
  if eff.isEmpty then none else
  let ov0 := maxList (eff.map (·.1))
  let ov1 := maxList (eff.map (·.2))
  let nr := x.rows * ps.1 + ov0
  let nc := x.cols * ps.2 + ov1
  if (List.range x.depth).all (fun i =>
      let rg := region eff ov0 ov1 nr nc i
      decide (rg.1.2 - rg.1.1 = x.rows * ps.1) && decide (rg.2.2 - rg.2.1 = x.cols * ps.2)) then
    some { rows := nr, cols := nc, depth := x.depth,
           get := fun r cc i =>
             let rg := region eff ov0 ov1 nr nc i
             if rg.1.1 ≤ r ∧ r < rg.1.2 ∧ rg.2.1 ≤ cc ∧ cc < rg.2.2 then
               -- `np.repeat(x[:, :, i], ps0, axis=0).repeat(ps1, axis=1)` at the local index
               x.get ((r - rg.1.1) / ps.1) ((cc - rg.2.1) / ps.2) i
             else z }
  else none

/-- `subpixel_offset_equal` applied to `aligned` -/
def krisskross {α : Type} (z : α) (c : SrrConfig) (m : Rat) (layers : List (Arr2 α)) : Option (Arr3 α) :=
  match aligned z c m layers with
  | some a =>
    let p := subpixelsPerPixel c.size m
    subpixelOffset z a (c.offs.map (fun o => (o, o))) (p, p)
  | none => none

/-! ## `SRRLaser.get` (layer / flat) -/

/-- `get(layer=i)`: a copy of layer `i`, transposed when `i` is odd -/
def getLayer {α : Type} (layers : List (Arr2 α)) (i : Nat) : Option (Arr2 α) :=
  match layers[i]? with
  | some a => some (if i % 2 = 1 then a.T else a)
  | none => none

/-- `np.mean(data, axis=2)` -/
def meanDepth (a : Arr3 Rat) : Arr2 Rat :=
  { rows := a.rows, cols := a.cols,
    get := fun r c => ((List.range a.depth).map (fun i => a.get r c i)).sum / (a.depth : Rat) }

/-- `get(flat=True)` -/
def getFlat (c : SrrConfig) (m : Rat) (layers : List (Arr2 Rat)) : Option (Arr2 Rat) :=
  (krisskross 0 c m layers).map meanDepth

/-! ## specification: the geometric model -/

/-- a crossed stack: at least two layers, even layers are `l0 × s0`, odd layers `l1 × s1` -/
def Crossed {α : Type} (layers : List (Arr2 α)) (l0 s0 l1 s1 : Nat) : Prop :=
  2 ≤ layers.length ∧
  ∀ (i : Nat) (l : Arr2 α), layers[i]? = some l →
    l.rows = (if i % 2 = 0 then l0 else l1) ∧ l.cols = (if i % 2 = 0 then s0 else s1)

/-- effective offset list of the layers: a zero is prepended when the first offset is not zero -/
def effList (offs : List Nat) : List Nat :=
  match offs with
  | [] => []
  | o :: _ => if o ≠ 0 then 0 :: offs else offs

/-- offset (in sub-pixels) of layer `i` -/
def layerOffset (offs : List Nat) (i : Nat) : Nat := (effList offs).getD (i % (effList offs).length) 0

/-- shape of the reconstruction of a crossed stack with `l0` (even) and `l1` (odd) lines -/
def reconRows (l0 mag p : Nat) (offs : List Nat) : Nat := l0 * mag * p + maxList offs
def reconCols (l1 mag p : Nat) (offs : List Nat) : Nat := l1 * mag * p + maxList offs

/-- is `(r, cc)` inside the footprint of layer `i` -/
def inFootprint (l0 l1 mag p : Nat) (offs : List Nat) (r cc i : Nat) : Bool :=
  let o := layerOffset offs i
  decide (o ≤ r) && decide (r < o + l0 * mag * p) && decide (o ≤ cc) && decide (cc < o + l1 * mag * p)

/-- source index `(line, sample)` in layer `i` of output voxel `(r, cc, i)` -/
def sourceIndex (mag p w : Nat) (offs : List Nat) (r cc i : Nat) : Nat × Nat :=
  let o := layerOffset offs i
  let rr := (r - o) / p
  let c' := (cc - o) / p
  if i % 2 = 0 then (rr / mag, w + c') else (c' / mag, w + rr)

/-- the voxel prescribed by the geometric model: the sample of the trimmed, stretched,
(for odd layers) transposed, enlarged and shifted layer; zero outside its footprint -/
def voxel {α : Type} (z : α) (l0 l1 mag p w : Nat) (offs : List Nat) (layers : List (Arr2 α))
    (r cc i : Nat) : α :=
  match layers[i]? with
  | some l =>
    if inFootprint l0 l1 mag p offs r cc i then
      let s := sourceIndex mag p w offs r cc i
      l.get s.1 s.2
    else z
  | none => z

/-- the source index of an in-footprint voxel exists in its layer -/
def voxelInRange {α : Type} (l0 l1 mag p w : Nat) (offs : List Nat) (layers : List (Arr2 α))
    (r cc i : Nat) : Bool :=
  match layers[i]? with
  | some l =>
    if inFootprint l0 l1 mag p offs r cc i then
      let s := sourceIndex mag p w offs r cc i
      decide (s.1 < l.rows) && decide (s.2 < l.cols)
    else true
  | none => false

/-- flattened image prescribed by the model: the mean over layers of the voxels -/
def flatSpec (l0 l1 mag p w : Nat) (offs : List Nat) (layers : List (Arr2 Rat)) (r cc : Nat) : Rat :=
  ((List.range layers.length).map (fun i => voxel 0 l0 l1 mag p w offs layers r cc i)).sum
    / (layers.length : Rat)

end Srr
end Pew
