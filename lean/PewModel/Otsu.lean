/-!
# C15 — Otsu threshold (`pewlib.process.threshold.otsu`)

Mechanism (shaped like the code), from a histogram (`counts`, `edges`): bin centres, forward and
backward cumulative class weights (`cumsum`, `cumsum` of the reversed array reversed), class means,
criterion `w1[:-1] * w2[1:] * (u1[:-1] - u2[1:])²`, first-maximum argmax, returned centre.

Specification: for the cut after bin `i`, class 1 = bins `≤ i`, class 2 = bins `> i`;
`specCrit i = W1 · W2 · (μ1 − μ2)²` (N² times the between-class variance) written directly with
sums over the two classes.

A NaN-carrying copy of the mechanism (`critListN`, `argmaxN`, `otsuHistN`) keeps what floating point does when
a class is empty: `0/0` is not a number, and `np.argmax` returns the first not-a-number.

Binning, three layers: (1) the specification `binByEdges` - the bin `k` with `e_k ≤ x < e_{k+1}`, the last bin
closed - for *any* increasing list of edges; (2) exact uniform edges (`uniformEdges`, `binOf`), an instance of (1);
(3) `np.histogram(x, bins=n)` as NumPy computes it in double precision (`npHistogram`: `np.linspace` edges, the
index estimate `((x - first) / (last - first)) * n` truncated, the clamp and the two correction steps against the
edges), written with Lean's `Float`, whose operations are the IEEE-754 binary64 operations of `Float.Model`
(kernel-reducible, and executed natively by the compiled driver).

NaN in the data: an array is a `List (Option Rat)` (`none` = NaN); `otsuArr` follows the code - the boolean mask
`x[~np.isnan(x)]`, then `np.histogram`, whose range detection raises on a NaN that is still there.
`np.histogram` and `np.argmax` are external; they are tied by the correspondence check.
-/
namespace Pew.Otsu

def sumR : List Rat → Rat
  | [] => 0
  | a :: l => a + sumR l

/-- `np.cumsum` -/
def cumsum : List Rat → List Rat
  | [] => []
  | a :: l => a :: (cumsum l).map (a + ·)

/-- `(bin_edges[1:] + bin_edges[:-1]) / 2.0` (zipWith stops at the shorter list, i.e. `[:-1]`) -/
def centres (edges : List Rat) : List Rat :=
  List.zipWith (fun a b => (a + b) / 2) edges.tail edges

/-- `np.argmax`: index of the first occurrence of the maximum -/
def argmaxFirst : List Rat → Nat
  | [] => 0
  | [_] => 0
  | a :: b :: l =>
    let r := argmaxFirst (b :: l)
    if a < (b :: l).getD r 0 then r + 1 else 0

/-- the criterion array `w1[:-1] * w2[1:] * (u1[:-1] - u2[1:]) ** 2` -/
def critList (hist : List Nat) (cs : List Rat) : List Rat :=
  let h : List Rat := hist.map (fun (k : Nat) => (k : Rat))
  let w1 := cumsum h
  let w2 := (cumsum h.reverse).reverse
  let hc := List.zipWith (· * ·) h cs
  let u1 := List.zipWith (· / ·) (cumsum hc) w1
  let u2 := (List.zipWith (· / ·) (cumsum hc.reverse) w2.reverse).reverse
  -- `[:-1]` against `[1:]`: zipWith against the tail stops one short of the end
  let ww := List.zipWith (· * ·) w1 w2.tail
  let du := List.zipWith (· - ·) u1 u2.tail
  List.zipWith (fun a d => a * d ^ 2) ww du

/-- `otsu` from the histogram on -/
def otsuHist (hist : List Nat) (edges : List Rat) : Rat :=
  let cs := centres edges
  cs.getD (argmaxFirst (critList hist cs)) 0

/-! ## specification -/

/-- between-class criterion of the cut after bin `i`, straight from the two classes -/
def specCrit (hist : List Nat) (cs : List Rat) (i : Nat) : Rat :=
  let h : List Rat := hist.map (fun (k : Nat) => (k : Rat))
  let hc := List.zipWith (· * ·) h cs
  let W1 := sumR (h.take (i + 1))
  let W2 := sumR (h.drop (i + 1))
  let M1 := sumR (hc.take (i + 1))
  let M2 := sumR (hc.drop (i + 1))
  W1 * W2 * (M1 / W1 - M2 / W2) ^ 2

/-- all cut points, brute force -/
def specCritList (hist : List Nat) (cs : List Rat) : List Rat :=
  (List.range (hist.length - 1)).map (specCrit hist cs)

/-- `i` is a maximiser of the criterion over all cut points -/
def isBestCut (hist : List Nat) (cs : List Rat) (i : Nat) : Bool :=
  decide (i < hist.length - 1) &&
    (List.range (hist.length - 1)).all (fun j => decide (specCrit hist cs j ≤ specCrit hist cs i))

/-! ## the histogram (`np.histogram(x, bins=n)`, uniform bins, last bin closed) -/

def minL : List Rat → Rat
  | [] => 0
  | a :: l => l.foldl min a

def maxL : List Rat → Rat
  | [] => 0
  | a :: l => l.foldl max a

/-- the range NumPy uses: (min, max), widened by ±1/2 when all values are equal -/
def histRange (xs : List Rat) : Rat × Rat :=
  let lo := minL xs
  let hi := maxL xs
  if lo = hi then (lo - 1 / 2, hi + 1 / 2) else (lo, hi)

/-- `np.linspace(lo, hi, n + 1)` -/
def uniformEdges (lo hi : Rat) (n : Nat) : List Rat :=
  (List.range (n + 1)).map (fun (k : Nat) => lo + (hi - lo) * (k : Rat) / (n : Rat))

def binOf (lo hi : Rat) (n : Nat) (x : Rat) : Nat :=
  if x = hi then n - 1 else ((x - lo) / (hi - lo) * (n : Rat)).floor.toNat

def histogram (xs : List Rat) (n : Nat) : List Nat × List Rat :=
  let (lo, hi) := histRange xs
  let bins := xs.map (binOf lo hi n)
  ((List.range n).map (fun k => bins.count k), uniformEdges lo hi n)

/-- `otsu(x)` on NaN-free data -/
def otsuData (xs : List Rat) (n : Nat := 256) : Rat :=
  let (hist, edges) := histogram xs n
  otsuHist hist edges

/-! ## what floating point does with an empty class: `0/0`, and `np.argmax` over NaN -/

/-- a float quotient as far as the mechanism can reach it: `x / 0` is not a number (`none`).  In the mechanism
the numerator is a sum over the same (empty) class as the denominator, so it is `0/0` = NaN, never ±inf
(theorem `zero_over_zero`). -/
def divN (a b : Rat) : Option Rat := if b = 0 then none else some (a / b)

/-- NaN-propagating subtraction -/
def subN : Option Rat → Option Rat → Option Rat
  | some a, some b => some (a - b)
  | _, _ => none

/-- the criterion array as floating point produces it: NaN (`none`) wherever a class is empty -/
def critListN (hist : List Nat) (cs : List Rat) : List (Option Rat) :=
  let h : List Rat := hist.map (fun (k : Nat) => (k : Rat))
  let w1 := cumsum h
  let w2 := (cumsum h.reverse).reverse
  let hc := List.zipWith (· * ·) h cs
  let u1 := List.zipWith divN (cumsum hc) w1
  let u2 := (List.zipWith divN (cumsum hc.reverse) w2.reverse).reverse
  let ww := List.zipWith (· * ·) w1 w2.tail
  let du := List.zipWith subN u1 u2.tail
  List.zipWith (fun (a : Rat) (d : Option Rat) => d.map (fun d => a * d ^ 2)) ww du

/-- `np.argmax` on an array that may hold NaN: the index of the first NaN if there is one, otherwise the index of
the first maximum -/
def argmaxN (l : List (Option Rat)) : Nat :=
  if l.findIdx (·.isNone) < l.length then l.findIdx (·.isNone) else argmaxFirst (l.map (·.getD 0))

/-- `otsu` from the histogram on, NaN included -/
def otsuHistN (hist : List Nat) (edges : List Rat) : Rat :=
  let cs := centres edges
  cs.getD (argmaxN (critListN hist cs)) 0

/-! ## the rescaling step: class means in units of a power of two near the data range

```
_, exponent = np.frexp(np.amax(np.abs(bin_edges[[0, -1]])))
centers = np.ldexp(bin_centers, -exponent)
```
-/

def absQ (q : Rat) : Rat := if q < 0 then -q else q

/-- `2^k` for an integer `k` -/
def pow2 (k : Int) : Rat :=
  if 0 ≤ k then ((2 ^ k.toNat : Nat) : Rat) else 1 / ((2 ^ (-k).toNat : Nat) : Rat)

/-- the exponent `np.frexp` returns: `e` with `2^(e-1) ≤ |q| < 2^e`, and 0 for 0.
(`⌊log₂ num⌋ − ⌊log₂ den⌋` is `⌊log₂ |q|⌋` or one more: one comparison decides) -/
def frexpExp (q : Rat) : Int :=
  if q = 0 then 0 else
  let e0 : Int := (Nat.log2 q.num.natAbs : Int) - (Nat.log2 q.den : Int)
  if pow2 e0 ≤ absQ q then e0 + 1 else e0

/-- `np.amax(np.abs(bin_edges[[0, -1]]))`: the larger of the two outer edges in magnitude -/
def outerMag (edges : List Rat) : Rat :=
  max (absQ (edges.getD 0 0)) (absQ (edges.getD (edges.length - 1) 0))

/-- `exponent` -/
def scaleExp (edges : List Rat) : Int := frexpExp (outerMag edges)

/-- `centers = np.ldexp(bin_centers, -exponent)` -/
def scaledCentres (edges : List Rat) : List Rat :=
  (centres edges).map (pow2 (-(scaleExp edges)) * ·)

/-- `otsu` from the histogram on, as the code is: the criterion is formed from the rescaled centres, the value
returned is the (unscaled) centre at the position of its maximum -/
def otsuHistS (hist : List Nat) (edges : List Rat) : Rat :=
  (centres edges).getD (argmaxN (critListN hist (scaledCentres edges))) 0

/-! ## the criterion in binary floating point, and its rounding budget

`fl` is the rounding function of the arithmetic (`np.float64`: round to nearest even).  `critListR fl` is the program
of `otsu` from `hist * centers` on with every arithmetic result rounded; `critListB u η` runs the same program on pairs
(exact value, bound on the distance of the computed value from it) for any `fl` with `|fl x − x| ≤ u·|x| + η`. -/

/-- `np.cumsum` in floating point from a running sum: `s_i = fl (s_{i-1} + a_i)` -/
def cumsumFromR (fl : Rat → Rat) (acc : Rat) : List Rat → List Rat
  | [] => []
  | a :: l => fl (acc + a) :: cumsumFromR fl (fl (acc + a)) l

/-- `np.cumsum` in floating point: the first entry is copied, every further partial sum is rounded -/
def cumsumR (fl : Rat → Rat) : List Rat → List Rat
  | [] => []
  | a :: l => a :: cumsumFromR fl a l

/-- `(bin_edges[1:] + bin_edges[:-1]) / 2.0` in floating point (halving is exact except for subnormal sums) -/
def centresR (fl : Rat → Rat) (edges : List Rat) : List Rat :=
  List.zipWith (fun a b => fl (fl (a + b) / 2)) edges.tail edges

/-- `np.ldexp(bin_centers, -exponent)` (exact) -/
def scaledCentresR (fl : Rat → Rat) (edges : List Rat) : List Rat :=
  (centresR fl edges).map (pow2 (-(scaleExp edges)) * ·)

/-- the criterion array as binary floating point computes it: every arithmetic result goes through the rounding
function `fl`; the class weights are integers (exact) -/
def critListR (fl : Rat → Rat) (hist : List Nat) (cs : List Rat) : List Rat :=
  let h : List Rat := hist.map (fun (k : Nat) => (k : Rat))
  let w1 := cumsum h
  let w2 := (cumsum h.reverse).reverse
  let hc := List.zipWith (fun a c => fl (a * c)) h cs
  let u1 := List.zipWith (fun s w => fl (s / w)) (cumsumR fl hc) w1
  let u2 := (List.zipWith (fun s w => fl (s / w)) (cumsumR fl hc.reverse) w2.reverse).reverse
  let ww := List.zipWith (· * ·) w1 w2.tail
  let du := List.zipWith (fun a b => fl (a - b)) u1 u2.tail
  List.zipWith (fun a d => fl (fl a * fl (d * d))) ww du

def otsuHistR (fl : Rat → Rat) (hist : List Nat) (edges : List Rat) : Rat :=
  (centresR fl edges).getD (argmaxFirst (critListR fl hist (scaledCentresR fl edges))) 0

/-- an exact value together with a bound on the distance of the computed value from it -/
abbrev EB := Rat × Rat

/-- the least multiple of `2^-1200` that is `≥ q`: keeps the numbers of the budget short (a bound may only grow) -/
def upB (q : Rat) : Rat := ((q * ((2 ^ 1200 : Nat) : Rat)).ceil : Rat) / ((2 ^ 1200 : Nat) : Rat)

/-- after rounding: `|fl x − x| ≤ u·|x| + η` -/
def rndB (u η : Rat) (p : EB) : EB := (p.1, upB ((1 + u) * p.2 + u * absQ p.1 + η))
def addB (p q : EB) : EB := (p.1 + q.1, p.2 + q.2)
def subB (p q : EB) : EB := (p.1 - q.1, p.2 + q.2)
def mulB (p q : EB) : EB := (p.1 * q.1, absQ p.1 * q.2 + absQ q.1 * p.2 + p.2 * q.2)
/-- division by an exact number -/
def divB (p : EB) (w : Rat) : EB := (p.1 / w, p.2 / absQ w)

def cumsumFromB (u η : Rat) (acc : EB) : List EB → List EB
  | [] => []
  | a :: l => rndB u η (addB acc a) :: cumsumFromB u η (rndB u η (addB acc a)) l

def cumsumB (u η : Rat) : List EB → List EB
  | [] => []
  | a :: l => a :: cumsumFromB u η a l

def centresB (u η : Rat) (edges : List Rat) : List EB :=
  List.zipWith (fun a b => rndB u η (divB (rndB u η (a + b, 0)) 2)) edges.tail edges

def scaledCentresB (u η : Rat) (edges : List Rat) : List EB :=
  (centresB u η edges).map (fun p => mulB (pow2 (-(scaleExp edges)), 0) p)

/-- the criterion array with its rounding budget: the program of `critListR` on (exact value, error bound) pairs -/
def critListB (u η : Rat) (hist : List Nat) (cs : List EB) : List EB :=
  let h : List Rat := hist.map (fun (k : Nat) => (k : Rat))
  let w1 := cumsum h
  let w2 := (cumsum h.reverse).reverse
  let hc := List.zipWith (fun a c => rndB u η (mulB (a, 0) c)) h cs
  let u1 := List.zipWith (fun s w => rndB u η (divB s w)) (cumsumB u η hc) w1
  let u2 := (List.zipWith (fun s w => rndB u η (divB s w)) (cumsumB u η hc.reverse) w2.reverse).reverse
  let ww := List.zipWith (· * ·) w1 w2.tail
  let du := List.zipWith (fun a b => rndB u η (subB a b)) u1 u2.tail
  List.zipWith (fun a d => rndB u η (mulB (rndB u η (a, 0)) (rndB u η (mulB d d)))) ww du

/-! ## runs of empty bins: cuts that separate the same two groups -/

/-- the first cut of the run of cuts that `i` belongs to: cuts `i-1` and `i` separate the same two groups of
values when bin `i` is empty -/
def classStart (hist : List Nat) : Nat → Nat
  | 0 => 0
  | i + 1 => if hist.getD (i + 1) 0 = 0 then classStart hist i else i + 1

/-- the four sums the criterion of cut `i` is computed from - weight and first moment of either class; they are
entry `i` of `cumsum(hist)`, entry `i + 1` of `cumsum(hist[::-1])[::-1]`, and the same of `hist * bin_centers` -/
def cutSums (hist : List Nat) (cs : List Rat) (i : Nat) : Rat × Rat × Rat × Rat :=
  let h : List Rat := hist.map (fun (k : Nat) => (k : Rat))
  let hc := List.zipWith (· * ·) h cs
  (sumR (h.take (i + 1)), sumR (h.drop (i + 1)), sumR (hc.take (i + 1)), sumR (hc.drop (i + 1)))

/-! ## binning against a list of edges -/

/-- specification: the bin of `x` is the number of interior edges `≤ x` (for increasing edges the `k` with
`e_k ≤ x < e_{k+1}`; the last bin is closed, `x = e_n` falls into bin `n - 1`) -/
def binByEdges (edges : List Rat) (x : Rat) : Nat :=
  (edges.tail.dropLast.filter (fun e => decide (e ≤ x))).length

/-- counts per bin -/
def countBins (bins : List Nat) (n : Nat) : List Nat := (List.range n).map (fun k => bins.count k)

def histogramE (edges : List Rat) (xs : List Rat) : List Nat :=
  countBins (xs.map (binByEdges edges)) (edges.length - 1)

/-- Otsu's threshold of data binned against the given edges -/
def otsuEdges (edges : List Rat) (xs : List Rat) : Rat := otsuHistS (histogramE edges xs) edges

/-- NumPy's bin index from its floating-point estimate `est = trunc(((x - first) / (last - first)) * n)`:
`indices[indices == n] -= 1`; `indices[x < edges[indices]] -= 1`;
`indices[(x >= edges[indices + 1]) & (indices != n - 1)] += 1` -/
def npBin (edges : List Rat) (n : Nat) (est : Nat) (x : Rat) : Nat :=
  let i0 := if est = n then est - 1 else est
  let i1 := if x < edges.getD i0 0 then i0 - 1 else i0
  if edges.getD (i1 + 1) 0 ≤ x ∧ i1 ≠ n - 1 then i1 + 1 else i1

/-! ## NaN in the data: `otsu(x, remove_nan)` on an array that may hold NaN (`none`) -/

/-- boolean-mask indexing `x[m]` -/
def maskSelect {α : Type} : List α → List Bool → List α
  | a :: l, b :: m => if b then a :: maskSelect l m else maskSelect l m
  | _, _ => []

/-- NaN-propagating reduction (`np.min`, `np.max`): NaN as soon as one operand is NaN -/
def reduceN (f : Rat → Rat → Rat) : List (Option Rat) → Option Rat
  | [] => none
  | a :: l => l.foldl (fun acc v => match acc, v with
      | some p, some q => some (f p q)
      | _, _ => none) a

/-- `_get_outer_edges(a, range=None)`: (0, 1) for an empty array, min and max otherwise - `none` stands for the
`ValueError` ("autodetected range of [nan, nan] is not finite") -, widened by ±1/2 when they coincide -/
def outerEdges (xs : List (Option Rat)) : Option (Rat × Rat) :=
  if xs.isEmpty then some (0, 1) else
    match reduceN min xs, reduceN max xs with
    | some lo, some hi => some (if lo = hi then (lo - 1 / 2, hi + 1 / 2) else (lo, hi))
    | _, _ => none

/-- `keep = (a >= first_edge) & (a <= last_edge)`: comparisons with NaN are false -/
def keepInRange (lo hi : Rat) (xs : List (Option Rat)) : List Rat :=
  xs.filterMap (fun v => match v with
    | some q => if lo ≤ q ∧ q ≤ hi then some q else none
    | none => none)

/-- `np.histogram(x, bins=n)` on an array that may hold NaN (exact uniform edges); `none` = raises -/
def histogramN (xs : List (Option Rat)) (n : Nat) : Option (List Nat × List Rat) :=
  (outerEdges xs).map (fun r =>
    (countBins ((keepInRange r.1 r.2 xs).map (binOf r.1 r.2 n)) n, uniformEdges r.1 r.2 n))

/-- `otsu(x, remove_nan)`; `none` = the call raises (`np.histogram` refuses a range that is not finite) -/
def otsuArr (removeNan : Bool) (xs : List (Option Rat)) (n : Nat := 256) : Option Rat :=
  let x := if removeNan then maskSelect xs (xs.map (fun v => !v.isNone)) else xs
  (histogramN x n).map (fun he => otsuHistS he.1 he.2)

/-! ## `np.histogram(x, bins=n)` in double precision -/

/-- the exact value of a finite double (sign, 11 exponent bits, 52 fraction bits) -/
def f64ToRat (f : Float) : Rat :=
  let b := f.toBits.toNat
  let e := (b / 2 ^ 52) % 2048
  let m := b % 2 ^ 52
  let mag : Rat :=
    if e = 0 then ((m : Nat) : Rat) / ((2 ^ 1074 : Nat) : Rat)
    else if 1075 ≤ e then (((2 ^ 52 + m) * 2 ^ (e - 1075) : Nat) : Rat)
    else ((2 ^ 52 + m : Nat) : Rat) / ((2 ^ (1075 - e) : Nat) : Rat)
  if b / 2 ^ 63 = 1 then -mag else mag

/-- `np.linspace(start, stop, n + 1)`: `step = (stop - start) / n`, `y = arange(n + 1) * step + start` (for a step
that underflows to zero: `arange(n + 1) / n * (stop - start) + start`), and the last point is set to `stop` -/
def linspaceF (start stop : Float) (n : Nat) : List Float :=
  let div := Float.ofNat n
  let delta := stop - start
  let step := delta / div
  let ys := (List.range n).map (fun k =>
    (if step == 0 then Float.ofNat k / div * delta else Float.ofNat k * step) + start)
  ys ++ [stop]

/-- `f_indices.astype(np.intp)` of `((x - first_edge) / norm_denom) * n_equal_bins` -/
def estIndex (first denom : Float) (n : Nat) (x : Float) : Nat :=
  (((x - first) / denom) * Float.ofNat n).toUInt64.toNat

/-- `a.min()` / `a.max()` of a non-empty double array (NaN propagates) -/
def minF : List Float → Float
  | [] => 0
  | a :: l => l.foldl (fun acc v => if acc.isNaN || v.isNaN then 0 / 0 else if v < acc then v else acc) a

def maxF : List Float → Float
  | [] => 0
  | a :: l => l.foldl (fun acc v => if acc.isNaN || v.isNaN then 0 / 0 else if acc < v then v else acc) a

structure NpHist where
  hist : List Nat
  edges : List Float
  /-- the bin of every value, in order -/
  bins : List Nat
  /-- the truncated index estimate of every value (what the correction steps start from) -/
  ests : List Nat

/-- `np.histogram(x, bins=n)` for a double array, as NumPy computes it; an error string where NumPy raises -/
def npHistogram (xs : List Float) (n : Nat) : Except String NpHist :=
  let lohi : Float × Float := if xs.isEmpty then (0, 1) else (minF xs, maxF xs)
  if !(lohi.1.isFinite && lohi.2.isFinite) then .error "ValueError: autodetected range is not finite" else
  let first := if lohi.1 == lohi.2 then lohi.1 - 0.5 else lohi.1
  let last := if lohi.1 == lohi.2 then lohi.2 + 0.5 else lohi.2
  let edges := linspaceF first last n
  if (List.zipWith (fun a b => decide (a ≥ b)) edges edges.tail).any id then
    .error "ValueError: Too many bins for data range" else
  let denom := last - first
  let er := edges.map f64ToRat
  let kept := xs.filter (fun x => x ≥ first && x ≤ last)
  let ests := kept.map (estIndex first denom n)
  if ests.any (fun e => decide (n < e)) then .error "index estimate out of range" else
  let bins := List.zipWith (fun e x => npBin er n e (f64ToRat x)) ests kept
  .ok { hist := countBins bins n, edges := edges, bins := bins, ests := ests }

end Pew.Otsu
