/-!
# C15 — Otsu threshold (`pewlib.process.threshold.otsu`)

Mechanism (shaped like the code), from a histogram (`counts`, `edges`): bin centres, forward and
backward cumulative class weights (`cumsum`, `cumsum` of the reversed array reversed), class means,
criterion `w1[:-1] * w2[1:] * (u1[:-1] - u2[1:])²`, first-maximum argmax, returned centre.

Specification: for the cut after bin `i`, class 1 = bins `≤ i`, class 2 = bins `> i`;
`specCrit i = W1 · W2 · (μ1 − μ2)²` (N² times the between-class variance) written directly with
sums over the two classes.

A second layer models `np.histogram(x, bins=256)` in exact arithmetic: uniform edges between
min and max, bin = ⌊(x − min)/(max − min) · n⌋ with the maximum placed in the last bin.
`np.histogram` and `np.argmax` are external; they are tied by the correspondence check.
-/
namespace Pew.Otsu

def sumR : List Rat → Rat
  | [] => 0
  | a :: l => a + sumR l

/-- `np.cumsum` -/
def cumsum : List Rat → List Rat
  | [] => []
  | a :: l => a :: (cumsum l).map (a + ·)

/-- `(bin_edges[1:] + bin_edges[:-1]) / 2.0` (zipWith stops at the shorter list, i.e. `[:-1]`) -/
def centres (edges : List Rat) : List Rat :=
  List.zipWith (fun a b => (a + b) / 2) edges.tail edges

/-- `np.argmax`: index of the first occurrence of the maximum -/
def argmaxFirst : List Rat → Nat
  | [] => 0
  | [_] => 0
  | a :: b :: l =>
    let r := argmaxFirst (b :: l)
    if a < (b :: l).getD r 0 then r + 1 else 0

/-- the criterion array `w1[:-1] * w2[1:] * (u1[:-1] - u2[1:]) ** 2` -/
def critList (hist : List Nat) (cs : List Rat) : List Rat :=
  let h : List Rat := hist.map (fun (k : Nat) => (k : Rat))
  let w1 := cumsum h
  let w2 := (cumsum h.reverse).reverse
  let hc := List.zipWith (· * ·) h cs
  let u1 := List.zipWith (· / ·) (cumsum hc) w1
  let u2 := (List.zipWith (· / ·) (cumsum hc.reverse) w2.reverse).reverse
  -- `[:-1]` against `[1:]`: zipWith against the tail stops one short of the end
  let ww := List.zipWith (· * ·) w1 w2.tail
  let du := List.zipWith (· - ·) u1 u2.tail
  List.zipWith (fun a d => a * d ^ 2) ww du

/-- `otsu` from the histogram on -/
def otsuHist (hist : List Nat) (edges : List Rat) : Rat :=
  let cs := centres edges
  cs.getD (argmaxFirst (critList hist cs)) 0

/-! ## specification -/

/-- between-class criterion of the cut after bin `i`, straight from the two classes -/
def specCrit (hist : List Nat) (cs : List Rat) (i : Nat) : Rat :=
  let h : List Rat := hist.map (fun (k : Nat) => (k : Rat))
  let hc := List.zipWith (· * ·) h cs
  let W1 := sumR (h.take (i + 1))
  let W2 := sumR (h.drop (i + 1))
  let M1 := sumR (hc.take (i + 1))
  let M2 := sumR (hc.drop (i + 1))
  W1 * W2 * (M1 / W1 - M2 / W2) ^ 2

/-- all cut points, brute force -/
def specCritList (hist : List Nat) (cs : List Rat) : List Rat :=
  (List.range (hist.length - 1)).map (specCrit hist cs)

/-- `i` is a maximiser of the criterion over all cut points -/
def isBestCut (hist : List Nat) (cs : List Rat) (i : Nat) : Bool :=
  decide (i < hist.length - 1) &&
    (List.range (hist.length - 1)).all (fun j => decide (specCrit hist cs j ≤ specCrit hist cs i))

/-! ## the histogram (`np.histogram(x, bins=n)`, uniform bins, last bin closed) -/

def minL : List Rat → Rat
  | [] => 0
  | a :: l => l.foldl min a

def maxL : List Rat → Rat
  | [] => 0
  | a :: l => l.foldl max a

/-- the range NumPy uses: (min, max), widened by ±1/2 when all values are equal -/
def histRange (xs : List Rat) : Rat × Rat :=
  let lo := minL xs
  let hi := maxL xs
  if lo = hi then (lo - 1 / 2, hi + 1 / 2) else (lo, hi)

/-- `np.linspace(lo, hi, n + 1)` -/
def uniformEdges (lo hi : Rat) (n : Nat) : List Rat :=
  (List.range (n + 1)).map (fun (k : Nat) => lo + (hi - lo) * (k : Rat) / (n : Rat))

def binOf (lo hi : Rat) (n : Nat) (x : Rat) : Nat :=
  if x = hi then n - 1 else ((x - lo) / (hi - lo) * (n : Rat)).floor.toNat

def histogram (xs : List Rat) (n : Nat) : List Nat × List Rat :=
  let (lo, hi) := histRange xs
  let bins := xs.map (binOf lo hi n)
  ((List.range n).map (fun k => bins.count k), uniformEdges lo hi n)

/-- `otsu(x)` on NaN-free data -/
def otsuData (xs : List Rat) (n : Nat := 256) : Rat :=
  let (hist, edges) := histogram xs n
  otsuHist hist edges

/-- `otsu(x, remove_nan=True)`: `x[~np.isnan(x)]` first -/
def otsuRemoveNan (xs : List (Option Rat)) (n : Nat := 256) : Rat :=
  otsuData (xs.filterMap id) n

end Pew.Otsu
