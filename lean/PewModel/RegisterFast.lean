import PewModel.Register
/-!
# C12 — array twin of the correlation functions of `PewModel.Register`

`xcorr` / `xcorrCirc` read an image through a function on index lists and cost about half a
microsecond per product, which rules out axes whose transform length exceeds 1024.  The functions of
this file evaluate the same sums on flat integer arrays.  They are what `PewDriver.C12` runs for long
axes; `PewTheorems.C12` proves them equal to the model for every shape, every number of dimensions
and every data list (`fastLin_eq_xcorr`, `fastCirc_eq_xcorrCirc`, `peakOfTable_fast_eq_peak`,
`registerOf_fast_eq_register`).
-/
namespace Pew.Register

/-! ## an image given as shape + flat row-major data (what the driver parses) -/

def flatIndex : List Nat → List Nat → Option Nat
  | [], [] => some 0
  | s :: ss, i :: is =>
    if i < s then (flatIndex ss is).map (fun r => i * ss.foldl (· * ·) 1 + r) else none
  | _, _ => none

def mkGet (shape : List Nat) (data : Array Rat) : List Nat → Rat := fun idx =>
  match flatIndex shape idx with
  | some k => data.getD k 0
  | none => 0

/-- the model image of a shape and a flat row-major data list -/
def mkImg (shape : List Nat) (data : List Rat) : Img :=
  { shape := shape, get := mkGet shape data.toArray }

/-! ## array twin of the correlation

Values are brought to a common denominator and the common factor of the numerators is taken out
(`toFImg`); then

* `fastLin`  — `xcorr a b l`  (`Σ_{n ∈ box b} a[n + l] · b[n]`, reads outside `a` are zero),
* `fastCirc` — `xcorrCirc a b k` (`Σ_{n ∈ box b} apad[(n + k) mod s] · b[n]`; the terms `n ∉ box b`, which
  the model adds as zeros, are skipped),

and `peakOfTable` / `peakOf` / `registerOf` are `Pew.Register.peak` / `register` with the correlation
passed in. -/

structure FImg where
  shape : List Nat
  strides : List Nat
  data : Array Int
  /-- value = data · scale -/
  scale : Rat

def stridesOf : List Nat → List Nat
  | [] => []
  | _ :: ss => ss.foldl (· * ·) 1 :: stridesOf ss

def toFImg (shape : List Nat) (data : List Rat) : FImg :=
  let D := data.foldl (fun d q => Nat.lcm d q.den) 1
  let ints := data.map fun q => q.num * ((D / q.den : Nat) : Int)
  let G := ints.foldl (fun g v => Nat.gcd g v.natAbs) 0
  let G := if G = 0 then 1 else G
  { shape := shape, strides := stridesOf shape, data := (ints.map (· / (G : Int))).toArray,
    scale := mkRat (G : Int) D }

def sumLoop (lo n : Nat) (f : Nat → Int) : Int := go n lo 0
where
  go : Nat → Nat → Int → Int
    | 0, _, acc => acc
    | k + 1, i, acc => go k (i + 1) (acc + f i)

/-- axes: `(a, b, stride of a, stride of b)` -/
def linGo (A B : Array Int) : List (Nat × Nat × Nat × Nat) → List Int → Nat → Nat → Int
  | [], _, ia, ib => A.getD ia 0 * B.getD ib 0
  | [(a, b, sa, sb)], [l], ia, ib =>
    -- innermost axis, the same sum as the general case written without the recursive call
    let lo := (-l).toNat
    let hi := min b ((a : Int) - l).toNat
    sumLoop lo (hi - lo) fun n => A.getD (ia + ((n : Int) + l).toNat * sa) 0 * B.getD (ib + n * sb) 0
  | (a, b, sa, sb) :: rest, l :: ls, ia, ib =>
    -- the `n` with `0 ≤ n + l < a`, `n < b`
    let lo := (-l).toNat
    let hi := min b ((a : Int) - l).toNat
    sumLoop lo (hi - lo) fun n => linGo A B rest ls (ia + ((n : Int) + l).toNat * sa) (ib + n * sb)
  | _ :: _, [], _, _ => 0

def circGo (A B : Array Int) : List (Nat × Nat × Nat × Nat) → List Nat → Nat → Nat → Int
  | [], _, ia, ib => A.getD ia 0 * B.getD ib 0
  | [(a, b, sa, sb)], [k], ia, ib =>
    let s := a + b - 1
    sumLoop 0 b fun n =>
      let m := (n + k) % s
      if m < a then A.getD (ia + m * sa) 0 * B.getD (ib + n * sb) 0 else 0
  | (a, b, sa, sb) :: rest, k :: ks, ia, ib =>
    let s := a + b - 1
    sumLoop 0 b fun n =>
      let m := (n + k) % s
      if m < a then circGo A B rest ks (ia + m * sa) (ib + n * sb) else 0
  | _ :: _, [], _, _ => 0

def axesOf (a b : FImg) : List (Nat × Nat × Nat × Nat) :=
  (List.zip (List.zip a.shape b.shape) (List.zip a.strides b.strides)).map
    fun p => (p.1.1, p.1.2, p.2.1, p.2.2)

def fastLin (a b : FImg) (l : List Int) : Rat :=
  ((linGo a.data b.data (axesOf a b) l 0 0 : Int) : Rat) * (a.scale * b.scale)

def fastCirc (a b : FImg) (k : List Nat) : Rat :=
  ((circGo a.data b.data (axesOf a b) k 0 0 : Int) : Rat) * (a.scale * b.scale)

/-- `Pew.Register.peak` with the correlation passed in -/
def peakOfTable (tbl : List (List Int × Rat)) : Option Peak :=
  match tbl with
  | [] => none
  | p :: ps =>
    let best := ps.foldl (fun best q => if best.2 < q.2 then q else best) p
    let others := ((p :: ps).filter (fun q => q.1 != best.1)).map (·.2)
    let ru := match others with
      | [] => none
      | o :: os => some (os.foldl (fun m v => if m < v then v else m) o)
    some { lag := best.1, value := best.2, runnerUp := ru }

def peakOf (f : List Int → Rat) (ls : List (List Int)) : Option Peak :=
  peakOfTable (ls.map (fun l => (l, f l)))

/-- `Pew.Register.register` with the circular correlation passed in -/
def registerOf (f : List Nat → Rat) (sa sb : List Nat) : List Int :=
  let s := padShape sa sb
  match argmaxFirst f (allIdx s) with
  | some (k, _) => decode sa s k
  | none => []
end Pew.Register
