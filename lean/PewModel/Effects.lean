/-!
# C19 — effect IR with a heap, its concrete semantics and the flow-sensitive may-write / may-alias analysis

The IR is produced from pewlib's Python source on every run by `harness/effects/translate.py`.

Objects are pairs `(identity class, serial)`.  Parameter `i` of the analysed function is the object `(i, 0)`,
`i < np`; a parameter together with everything reachable from it when the call starts (elements, attributes,
views) is that ONE object (a region).  An object allocated at allocation site `k` is `(np + k, serial)`.
Objects reference each other through labelled heap edges `(o, l, o')` ("`o` holds a reference to `o'` in
slot `l`"; label `0` is the wildcard: elements of containers, `setattr`, `vars(o)[k]`).  The heap is what lets
several names of ONE container see what was stored through any of them.

`Exec` is the concrete (nondeterministic) semantics: branches are free, loops run any number of times, ANY
statement may raise (`done = false`), leaving the state reached so far.  A read of an unbound variable has no
execution other than `raise` (Python: `UnboundLocalError`); the translator never emits one (it checks definite
assignment of its own output and fails closed).
`kill xs` ends the scope of the locals of an inlined callee: they are unbound again (so a read of one of them afterwards
has, again, no execution but `raise`; the translator's definite-assignment check treats `kill` as unbinding), which
lets the analysis forget them.
`ana` is the abstract interpretation (abstract objects: parameters and allocation sites; one abstract heap);
`report` / `reportRet` are what the check consumes.  `history c ms` (below) is the program of all call histories on one
object; `retProg` what a constructed object retains.
-/
namespace Pew.Effects

abbrev Var := Nat
abbrev Lbl := Nat
abbrev Obj := Nat × Nat
abbrev Edge := Obj × Lbl × Obj

inductive Src where
  | param (i : Nat)
  /-- a new object of allocation site `k` -/
  | fresh (k : Nat)
  /-- the object of one of `ys` -/
  | alias (ys : List Var)
  /-- what slot `l` of the object of one of `ys` holds; a parameter region holds itself; or a value computed on
      the fly (a new object of site `k`) -/
  | load (ys : List Var) (l : Lbl) (k : Nat)
  /-- any object reachable (in zero or more steps) from the object of one of `ys` -/
  | reach (ys : List Var)
  /-- any parameter or any object allocated so far -/
  | unknown
deriving Repr

inductive Stmt where
  | skip | bind (x : Var) (s : Src) | write (x : Var) | ret (x : Var)
  /-- the object of `x` now holds, in slot `l`, a reference to the object of `y` -/
  | store (x : Var) (l : Lbl) (y : Var)
  /-- the variables `xs` go out of scope (the locals of an inlined callee when it has returned): they are unbound
      again, so a later read of one of them has no execution (like any read of an unbound variable) -/
  | kill (xs : List Var)
  | seq (a b : Stmt) | branch (a b : Stmt) | loop (b : Stmt)
deriving Repr

structure St where
  env : Var → Option Obj
  next : Nat
  objs : List Obj
  heap : List Edge
  written : List Obj
  returned : List Obj

def upd (e : Var → Option Obj) (x : Var) (o : Obj) : Var → Option Obj :=
  fun y => if y = x then some o else e y

/-- label `0` matches every label -/
def lmatch (l l' : Lbl) : Bool := l == 0 || l' == 0 || l == l'

inductive Reach (h : List Edge) : Obj → Obj → Prop where
  | refl (o) : Reach h o o
  | step (o l o' o'') : (o, l, o') ∈ h → Reach h o' o'' → Reach h o o''

/-- `Exec np s σ done σ'`: running `s` from `σ` can reach `σ'`; `done = false` means an exception
    was raised somewhere inside (the state is whatever had been done by then). -/
inductive Exec (np : Nat) : Stmt → St → Bool → St → Prop where
  | raise (s σ) : Exec np s σ false σ
  | skip (σ) : Exec np .skip σ true σ
  | bindParam (x i σ) : i < np → Exec np (.bind x (.param i)) σ true { σ with env := upd σ.env x (i, 0) }
  | bindFresh (x k σ) : Exec np (.bind x (.fresh k)) σ true
      { σ with env := upd σ.env x (np + k, σ.next), next := σ.next + 1, objs := (np + k, σ.next) :: σ.objs }
  | bindAlias (x ys y o σ) : y ∈ ys → σ.env y = some o →
      Exec np (.bind x (.alias ys)) σ true { σ with env := upd σ.env x o }
  | bindLoadEdge (x ys l k y o l' o' σ) : y ∈ ys → σ.env y = some o → (o, l', o') ∈ σ.heap → lmatch l l' = true →
      Exec np (.bind x (.load ys l k)) σ true { σ with env := upd σ.env x o' }
  | bindLoadSelf (x ys l k y o σ) : y ∈ ys → σ.env y = some o → o.1 < np →
      Exec np (.bind x (.load ys l k)) σ true { σ with env := upd σ.env x o }
  | bindLoadNew (x ys l k σ) : Exec np (.bind x (.load ys l k)) σ true
      { σ with env := upd σ.env x (np + k, σ.next), next := σ.next + 1, objs := (np + k, σ.next) :: σ.objs }
  | bindReach (x ys y o o' σ) : y ∈ ys → σ.env y = some o → Reach σ.heap o o' →
      Exec np (.bind x (.reach ys)) σ true { σ with env := upd σ.env x o' }
  | bindUnknown (x o σ) : (o.1 < np ∨ o ∈ σ.objs) → Exec np (.bind x .unknown) σ true { σ with env := upd σ.env x o }
  | write (x o σ) : σ.env x = some o → Exec np (.write x) σ true { σ with written := o :: σ.written }
  | ret (x o σ) : σ.env x = some o → Exec np (.ret x) σ true { σ with returned := o :: σ.returned }
  | store (x l y o o' σ) : σ.env x = some o → σ.env y = some o' →
      Exec np (.store x l y) σ true { σ with heap := (o, l, o') :: σ.heap }
  | kill (xs σ) : Exec np (.kill xs) σ true { σ with env := fun y => if xs.contains y then none else σ.env y }
  | seq (a b σ σ₁ d σ₂) : Exec np a σ true σ₁ → Exec np b σ₁ d σ₂ → Exec np (.seq a b) σ d σ₂
  | seqRaise (a b σ σ₁) : Exec np a σ false σ₁ → Exec np (.seq a b) σ false σ₁
  | branchL (a b σ d σ') : Exec np a σ d σ' → Exec np (.branch a b) σ d σ'
  | branchR (a b σ d σ') : Exec np b σ d σ' → Exec np (.branch a b) σ d σ'
  | loopDone (b σ) : Exec np (.loop b) σ true σ
  | loopStep (b σ σ₁ d σ₂) : Exec np b σ true σ₁ → Exec np (.loop b) σ₁ d σ₂ → Exec np (.loop b) σ d σ₂
  | loopRaise (b σ σ₁) : Exec np b σ false σ₁ → Exec np (.loop b) σ false σ₁

/-! ## call histories on one object

A constructor that keeps (a reference to) a caller-owned container and a method that later writes into what the object
holds is a violation no single call exhibits.  `history c ms` is the IR program whose executions are exactly the call
histories `construct; m_{i1}; …; m_{ik}` (any length, any order, the last call possibly raising): `c` is the (inlined)
constructor call binding the receiver variable from the parameters of the history, `ms` the (inlined) method calls on
that receiver; the parameters of the history are the constructor's and the methods' own arguments, so a write to a
parameter is a write to an object the CALLER passed, at construction or later. -/

/-- nondeterministic choice among the statements -/
def choice : List Stmt → Stmt
  | [] => .skip
  | m :: ms => .branch m (choice ms)

/-- every history `c; m_{i1}; …; m_{ik}` -/
def history (c : Stmt) (ms : List Stmt) : Stmt := .seq c (.loop (choice ms))

/-- `c`, then return anything reachable from the object of variable `x` (through the temporary `t`): what the
    object built by `c` retains -/
def retProg (c : Stmt) (x t : Var) : Stmt := .seq c (.seq (.bind t (.reach [x])) (.ret t))

/-- a sequence of calls of the method bodies `ms`, each starting in the state the previous one left: all of them
    return, or the last one raises -/
inductive Calls (np : Nat) (ms : List Stmt) : St → Bool → St → Prop where
  | done (σ) : Calls np ms σ true σ
  | call (m σ σ₁ d σ₂) : m ∈ ms → Exec np m σ true σ₁ → Calls np ms σ₁ d σ₂ → Calls np ms σ d σ₂
  | raised (m σ σ₁) : m ∈ ms → Exec np m σ false σ₁ → Calls np ms σ false σ₁

/-- a call history: the constructor raises, or it returns and calls follow -/
inductive Hist (np : Nat) (c : Stmt) (ms : List Stmt) : St → Bool → St → Prop where
  | ctorRaised (σ σ') : Exec np c σ false σ' → Hist np c ms σ false σ'
  | calls (σ σ₁ d σ₂) : Exec np c σ true σ₁ → Calls np ms σ₁ d σ₂ → Hist np c ms σ d σ₂

/-! ## abstract interpretation

abstract objects are numbers: parameter `i < np`, allocation site `k` as `np + k` -/

abbrev AEdge := Nat × Lbl × Nat

structure A where
  top : Bool
  /-- per variable: the abstract objects it may hold -/
  env : List (Var × List Nat)
  /-- abstract heap (weak updates only: edges are never removed) -/
  heap : List AEdge
  /-- allocation sites that may have allocated -/
  alloc : List Nat
  /-- parameters possibly written; abstract objects (parameters AND sites) possibly returned -/
  w : List Nat
  r : List Nat
deriving Repr

def allParams (np : Nat) : List Nat := List.range np

def A.raw (a : A) (x : Var) : List Nat := (a.env.lookup x).getD []
/-- rebinding replaces the old entry; lists are kept duplicate-free so that joins stay small -/
def A.set (a : A) (x : Var) (ps : List Nat) : A :=
  { a with env := (x, ps.eraseDups) :: a.env.filter (fun p => p.1 != x) }
def A.vars (a : A) : List Var := a.env.map (·.1)

/-- `a` followed by the elements of `b` not in `a` (duplicate-free when both are) -/
def unionL {α : Type} [BEq α] (a b : List α) : List α := a ++ b.filter (fun x => !a.contains x)

def joinA (a b : A) : A :=
  { top := a.top || b.top
    env := (a.vars ++ b.vars).eraseDups.map (fun x => (x, (a.raw x ++ b.raw x).eraseDups))
    heap := unionL a.heap b.heap
    alloc := unionL a.alloc b.alloc
    w := unionL a.w b.w
    r := unionL a.r b.r }

def leA (a b : A) : Bool :=
  b.top || (!a.top && a.vars.all (fun x => (a.raw x).all (fun p => (b.raw x).contains p))
            && a.heap.all (fun e => b.heap.contains e) && a.alloc.all (fun k => b.alloc.contains k)
            && a.w.all (fun p => b.w.contains p) && a.r.all (fun p => b.r.contains p))

def topA : A := { top := true, env := [], heap := [], alloc := [], w := [], r := [] }

def iter (f : A → A) : Nat → A → Option A
  | 0, _ => none
  | n + 1, a => let a' := joinA a (f a); if leA a' a then some a else iter f n a'

/-- targets of the edges leaving one of `os` through a slot matching `l` -/
def targets (h : List AEdge) (os : List Nat) (l : Lbl) : List Nat :=
  h.filterMap (fun e => if os.contains e.1 && lmatch l e.2.1 then some e.2.2 else none)

/-- one round of following every edge -/
def succs (h : List AEdge) (os : List Nat) : List Nat :=
  h.filterMap (fun e => if os.contains e.1 then some e.2.2 else none)

/-- rounds of `succs` until nothing is added (or the fuel runs out): a candidate closure, CHECKED by `closedB` where
    it is used -/
def closeN (h : List AEdge) : Nat → List Nat → List Nat
  | 0, os => os
  | n + 1, os =>
    let os' := (os ++ succs h os).eraseDups
    if os'.length ≤ os.length then os' else closeN h n os'

/-- `os` is closed under the edges of `h` -/
def closedB (h : List AEdge) (os : List Nat) : Bool :=
  h.all (fun e => !os.contains e.1 || os.contains e.2.2)

/-- `k` added to a duplicate-free list (linear, where `(k :: l).eraseDups` is quadratic) -/
def insertNat (k : Nat) (l : List Nat) : List Nat := if l.contains k then l else k :: l

def ana (np : Nat) : Stmt → A → A
  | .skip, a => a
  | .kill xs, a => { a with env := a.env.filter (fun p => !xs.contains p.1) }
  | .bind x (.param i), a => a.set x [i]
  | .bind x (.fresh k), a => { a.set x [np + k] with alloc := insertNat (np + k) a.alloc }
  | .bind x (.alias ys), a => a.set x (ys.flatMap a.raw)
  | .bind x (.load ys l k), a =>
      let os := ys.flatMap a.raw
      { a.set x ((np + k) :: (os.filter (· < np) ++ targets a.heap os l)) with alloc := insertNat (np + k) a.alloc }
  | .bind x (.reach ys), a =>
      let os := (ys.flatMap a.raw).eraseDups
      let c := closeN a.heap (a.heap.length + 1) os
      if closedB a.heap c then a.set x c else topA
  | .bind x .unknown, a => a.set x (allParams np ++ a.alloc)
  | .write x, a => { a with w := ((a.raw x).filter (· < np) ++ a.w).eraseDups }
  | .ret x, a => { a with r := (a.raw x ++ a.r).eraseDups }
  | .store x l y, a =>
      { a with heap := ((a.raw x).flatMap (fun o => (a.raw y).map (fun o' => (o, l, o'))) ++ a.heap).eraseDups }
  | .seq s t, a => ana np t (ana np s a)
  | .branch s t, a => joinA (ana np s a) (ana np t a)
  | .loop b, a =>
      match iter (ana np b) 12 a with
      | some a' => if leA (ana np b a') a' && leA a a' then a' else topA
      | none => topA

/-- what is reported: the parameters a function may write -/
def A.report (np : Nat) (a : A) : List Nat := if a.top then allParams np else a.w

/-- parameter `p` may be, or may (at the end) hold a reference to, a returned object: some possibly returned abstract
    object lies in the (checked) closure of `p` under the final abstract heap -/
def A.reachesRet (a : A) (p : Nat) : Bool :=
  let c := closeN a.heap (a.heap.length + 1) [p]
  !closedB a.heap c || a.r.any (fun o => c.contains o)

/-- the parameters the result may share memory with: a returned object is (in the region of) the parameter, or the
    parameter has come to hold a reference to it (the function stored part of its result INTO the argument) -/
def A.reportRet (np : Nat) (a : A) : List Nat :=
  if a.top then allParams np else (allParams np).filter a.reachesRet

def A.empty : A := ⟨false, [], [], [], [], []⟩

end Pew.Effects
