/-!
# C19 — effect IR, its concrete semantics and the flow-sensitive may-write / may-alias analysis

The IR is produced from pewlib's Python source on every run by `harness/effects/translate.py`.
Objects are numbers; the parameters of the analysed function are the objects `< np`; a parameter
together with everything reachable from it (elements, attributes, views) is one object/region.
`Exec` is the concrete (nondeterministic) semantics: branches are free, loops run any number of
times, ANY statement may raise (`done = false`), leaving the state reached so far.
`ana` is the abstract interpretation; `report`/`reportRet` are what the check consumes.
-/
namespace Pew.Effects

abbrev Var := Nat
abbrev Obj := Nat

inductive Src where
  | param (i : Nat) | fresh | alias (ys : List Var) | unknown
deriving Repr

inductive Stmt where
  | skip | bind (x : Var) (s : Src) | write (x : Var) | ret (x : Var)
  | seq (a b : Stmt) | branch (a b : Stmt) | loop (b : Stmt)
deriving Repr

structure St where
  env : Var → Option Obj
  next : Nat
  written : List Obj
  returned : List Obj

def upd (e : Var → Option Obj) (x : Var) (o : Obj) : Var → Option Obj :=
  fun y => if y = x then some o else e y

/-- `Exec np s σ done σ'`: running `s` from `σ` can reach `σ'`; `done = false` means an exception
    was raised somewhere inside (the state is whatever had been done by then). -/
inductive Exec (np : Nat) : Stmt → St → Bool → St → Prop where
  | raise (s σ) : Exec np s σ false σ
  | skip (σ) : Exec np .skip σ true σ
  | bindParam (x i σ) : i < np → Exec np (.bind x (.param i)) σ true { σ with env := upd σ.env x i }
  | bindFresh (x σ) : Exec np (.bind x .fresh) σ true { σ with env := upd σ.env x σ.next, next := σ.next + 1 }
  | bindAlias (x ys y o σ) : y ∈ ys → σ.env y = some o →
      Exec np (.bind x (.alias ys)) σ true { σ with env := upd σ.env x o }
  | bindUnknown (x o σ) : o < σ.next → Exec np (.bind x .unknown) σ true { σ with env := upd σ.env x o }
  | write (x o σ) : σ.env x = some o → Exec np (.write x) σ true { σ with written := o :: σ.written }
  | ret (x o σ) : σ.env x = some o → Exec np (.ret x) σ true { σ with returned := o :: σ.returned }
  | seq (a b σ σ₁ d σ₂) : Exec np a σ true σ₁ → Exec np b σ₁ d σ₂ → Exec np (.seq a b) σ d σ₂
  | seqRaise (a b σ σ₁) : Exec np a σ false σ₁ → Exec np (.seq a b) σ false σ₁
  | branchL (a b σ d σ') : Exec np a σ d σ' → Exec np (.branch a b) σ d σ'
  | branchR (a b σ d σ') : Exec np b σ d σ' → Exec np (.branch a b) σ d σ'
  | loopDone (b σ) : Exec np (.loop b) σ true σ
  | loopStep (b σ σ₁ d σ₂) : Exec np b σ true σ₁ → Exec np (.loop b) σ₁ d σ₂ → Exec np (.loop b) σ d σ₂
  | loopRaise (b σ σ₁) : Exec np b σ false σ₁ → Exec np (.loop b) σ false σ₁

/-- abstract state: per variable the parameters it may point into; parameters possibly written -/
structure A where
  top : Bool
  env : List (Var × List Nat)
  w : List Nat
  r : List Nat
deriving Repr

def allParams (np : Nat) : List Nat := List.range np

def A.raw (a : A) (x : Var) : List Nat := (a.env.lookup x).getD []
/-- rebinding replaces the old entry; lists are kept duplicate-free so that joins stay small -/
def A.set (a : A) (x : Var) (ps : List Nat) : A :=
  { a with env := (x, ps.eraseDups) :: a.env.filter (fun p => p.1 != x) }
def A.vars (a : A) : List Var := a.env.map (·.1)

def joinA (a b : A) : A :=
  { top := a.top || b.top
    env := (a.vars ++ b.vars).eraseDups.map (fun x => (x, (a.raw x ++ b.raw x).eraseDups))
    w := (a.w ++ b.w).eraseDups
    r := (a.r ++ b.r).eraseDups }

def leA (a b : A) : Bool :=
  b.top || (!a.top && a.vars.all (fun x => (a.raw x).all (fun p => (b.raw x).contains p))
            && a.w.all (fun p => b.w.contains p) && a.r.all (fun p => b.r.contains p))

def topA : A := { top := true, env := [], w := [], r := [] }

def iter (f : A → A) : Nat → A → Option A
  | 0, _ => none
  | n + 1, a => let a' := joinA a (f a); if leA a' a then some a else iter f n a'

def ana (np : Nat) : Stmt → A → A
  | .skip, a => a
  | .bind x (.param i), a => a.set x [i]
  | .bind x .fresh, a => a.set x []
  | .bind x (.alias ys), a => a.set x (ys.flatMap a.raw)
  | .bind x .unknown, a => a.set x (allParams np)
  | .write x, a => { a with w := (a.raw x ++ a.w).eraseDups }
  | .ret x, a => { a with r := (a.raw x ++ a.r).eraseDups }
  | .seq s t, a => ana np t (ana np s a)
  | .branch s t, a => joinA (ana np s a) (ana np t a)
  | .loop b, a =>
      match iter (ana np b) 8 a with
      | some a' => if leA (ana np b a') a' && leA a a' then a' else topA
      | none => topA

/-- what is reported: the parameters a function may write -/
def A.report (np : Nat) (a : A) : List Nat := if a.top then allParams np else a.w

/-- the parameters the result may share memory with -/
def A.reportRet (np : Nat) (a : A) : List Nat := if a.top then allParams np else a.r

def A.empty : A := ⟨false, [], [], []⟩



end Pew.Effects
