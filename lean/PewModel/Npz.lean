/-!
# C01 — pew's `.npz` format: `pewlib.io.npz.save` / `load`

Mechanism (shaped like the code): `packInfo`/`unpackInfo` (tab join / split, dict insertion
semantics), NumPy `U` string storage (`stripNul`, `npStr`), `Cal.toArray`/`Cal.fromArray`
(NaN padding, strip mask, `None`↔NaN, built-in vs custom weights), `packCalibration` /
`unpackCalibration`, the array forms of `Config`, `SpotConfig`, `SRRConfig` (with the SRR
constructor's recomputation), `compareVersion`, `save`, the historical renderers `saveV06`,
`saveV07`, and `load` with its header / version / class dispatch (legacy class names: `legacyOf`,
`NpzFile.mapCls`; a `config` member read by the `from_array` of another class: `rasterFromArray`,
`spotFromArray`, `srrFromArray` on every `CfgArr`).

Specification: `normalise` — the laser with the info the format can carry; `compareSpec` — version
comparison on arbitrary strings; `specOld` — files of the old layouts, accepted or rejected.

Strings are `List Char` (code points).  Floats that are only stored and read back are opaque
tokens `Flt` (the IEEE bit pattern, tagged with its NaN-ness because the code branches on
`isnan`).  Image data are opaque records (one `List Int` of bit patterns per pixel).
-/
namespace Pew.Npz

abbrev Str := List Char

def NUL : Char := Char.ofNat 0

/-! ## strings -/

/-- `s.replace(a, b)` for single characters -/
def replaceChar (a b : Char) (s : Str) : Str := s.map fun c => if c = a then b else c

def tabToSpace (s : Str) : Str := replaceChar '\t' ' ' s

/-- `sep.join(parts)` -/
def joinSep (sep : Char) : List Str → Str
  | [] => []
  | [a] => a
  | a :: b :: r => a ++ sep :: joinSep sep (b :: r)

/-- `s.split(sep)`: never empty -/
def splitOn (sep : Char) : Str → List Str
  | [] => [[]]
  | c :: cs =>
    if c = sep then [] :: splitOn sep cs
    else match splitOn sep cs with
      | [] => [[c]]           -- unreachable
      | h :: t => (c :: h) :: t

/-- reading a NumPy `U` string back: trailing NULs are padding -/
def stripNul (s : Str) : Str := (s.reverse.dropWhile (· == NUL)).reverse

/-- storing in a `U<w>` field and reading back -/
def npStr (w : Nat) (s : Str) : Str := stripNul (s.take w)

/-- the string does not end in NUL (so `U` storage returns it unchanged) -/
def noNulEnd (s : Str) : Bool := s.getLast? != some NUL

def tabFree (s : Str) : Bool := !s.contains '\t'

/-! ## Python dicts as association lists in insertion order -/

/-- `d[k] = v`: a key that is present keeps its position (and its first key object) -/
def dictInsert {β} (d : List (Str × β)) (k : Str) (v : β) : List (Str × β) :=
  match d with
  | [] => [(k, v)]
  | (k', v') :: r => if k' = k then (k', v) :: r else (k', v') :: dictInsert r k v

/-- `d.update(e)` -/
def dictUpdate {β} (d e : List (Str × β)) : List (Str × β) :=
  e.foldl (fun d kv => dictInsert d kv.1 kv.2) d

/-- `{k: v for k, v in l}` -/
def dictOfList {β} (l : List (Str × β)) : List (Str × β) := dictUpdate [] l

def dictGet {β} (d : List (Str × β)) (k : Str) : Option β :=
  match d with
  | [] => none
  | (k', v) :: r => if k' = k then some v else dictGet r k

def keys {β} (d : List (Str × β)) : List Str := d.map (·.1)

/-- `d.pop(k)` / `del d[k]` of a present key (keys of a dict are distinct) -/
def dictErase {β} (d : List (Str × β)) (k : Str) : List (Str × β) := d.filter fun kv => kv.1 ≠ k

/-! ## info -/

abbrev Info := List (Str × Str)

def kFilePath : Str := ['F','i','l','e',' ','P','a','t','h']
def kName : Str := ['N','a','m','e']
def kFileVersion : Str := ['F','i','l','e',' ','V','e','r','s','i','o','n']
def kVersion : Str := ['v','e','r','s','i','o','n']
def kClass : Str := ['c','l','a','s','s']
def kTime : Str := ['t','i','m','e']

/-- the string `pack_info` builds (before it is stored in a NumPy array) -/
def packInfoRaw (info : Info) : Str :=
  joinSep '\t' ((info.filter fun kv => kv.1 ≠ kFilePath).map
    fun kv => tabToSpace kv.1 ++ '\t' :: tabToSpace kv.2)

/-- `pack_info`: what reading the stored 0-d `U` array gives back -/
def packInfo (info : Info) : Str := stripNul (packInfoRaw info)

/-- `zip(tokens[::2], tokens[1::2])` -/
def pairUp : List Str → List (Str × Str)
  | k :: v :: r => (k, v) :: pairUp r
  | _ => []

def unpackInfo (s : Str) : Info := dictOfList (pairUp (splitOn '\t' s))

/-- specification of the info that survives: tabs become spaces, `File Path` is dropped, and the
entries form a dict (a key repeated after the replacement keeps its first place and last value) -/
def infoSpec (info : Info) : Info :=
  dictOfList ((info.filter fun kv => kv.1 ≠ kFilePath).map fun kv => (tabToSpace kv.1, tabToSpace kv.2))

/-! ## floats as tokens -/

inductive Flt
  | nan (bits : Int)
  | num (bits : Int)
  deriving DecidableEq, Repr, Inhabited

def Flt.isNaN : Flt → Bool
  | .nan _ => true
  | .num _ => false

/-- `np.nan` -/
def qnan : Flt := .nan 0x7ff8000000000000
def fzero : Flt := .num 0
def fone : Flt := .num 0x3ff0000000000000

/-- `x == 0` (both signed zeros) -/
def Flt.isZero : Flt → Bool
  | .num b => b == 0 || b == -0x8000000000000000
  | .nan _ => false

/-! ## calibration -/

structure Cal where
  intercept : Flt
  gradient : Flt
  unit : Str
  rsq : Option Flt
  error : Option Flt
  points : List (Flt × Flt)
  weighting : Str
  /-- `_weights`: empty unless custom weights were given -/
  weights : List Flt
  deriving DecidableEq, Repr

/-- the structured scalar `Calibration.to_array` builds -/
structure CalArr where
  intercept : Flt
  gradient : Flt
  unit : Str
  rsq : Flt
  error : Flt
  points : List (Flt × Flt)
  weights : List Flt
  weighting : Str
  deriving DecidableEq, Repr

def wEqual : Str := ['E','q','u','a','l']
def knownWeighting : List Str :=
  [wEqual, ['x'], ['1','/','x'], ['1','/','(','x','^','2',')'], ['y'], ['1','/','y'], ['1','/','(','y','^','2',')']]

/-- `Calibration()` -/
def Cal.default : Cal :=
  { intercept := fzero, gradient := fone, unit := [], rsq := none, error := none, points := [],
    weighting := wEqual, weights := [] }

/-- NaN-ness of `weights_from_weighting(col, weighting, safe=True)`; of the values only this is
ever read again (by the strip mask of `from_array`), so a derived weight is `qnan` or `fone`. -/
def derivedWeights (col : List Flt) (equal : Bool) : List Flt :=
  if col.all (·.isNaN) then col.map fun _ => qnan           -- also the empty column
  else if col.all (·.isZero) then col.map fun _ => fone
  else
    -- zeros are replaced by nanmin of the entries that are `!= 0` (NaN counts as `!= 0`)
    let minIsNaN := col.all fun x => x.isZero || x.isNaN
    if equal then col.map fun _ => fone
    else col.map fun x => if x.isNaN || (x.isZero && minIsNaN) then qnan else fone

/-- the `weights` property -/
def Cal.effWeights (c : Cal) : List Flt :=
  if c.weighting ∈ knownWeighting then
    if c.weighting.contains 'y' then derivedWeights (c.points.map (·.2)) false
    else derivedWeights (c.points.map (·.1)) (c.weighting == wEqual)
  else c.weights

/-- `Calibration.to_array(size)`; the real code raises for `size < #points`, `pack_calibration`
always passes the maximum -/
def Cal.toArray (c : Cal) (size : Nat) : CalArr :=
  { intercept := c.intercept
    gradient := c.gradient
    unit := npStr 32 c.unit
    rsq := c.rsq.getD qnan
    error := c.error.getD qnan
    points := c.points ++ List.replicate (size - c.points.length) (qnan, qnan)
    weights := c.effWeights ++ List.replicate (size - c.effWeights.length) qnan
    weighting := npStr 32 c.weighting }

/-- rows that `from_array` strips: NaN weight and both cells NaN -/
def rowIsPad (r : Flt × (Flt × Flt)) : Bool := r.1.isNaN && (r.2.1.isNaN && r.2.2.isNaN)

def optOfNaN (f : Flt) : Option Flt := if f.isNaN then none else some f

/-- `Calibration.from_array` -/
def Cal.fromArray (a : CalArr) : Cal :=
  let rows := (a.weights.zip a.points).filter fun r => !rowIsPad r
  { intercept := a.intercept
    gradient := a.gradient
    unit := a.unit
    rsq := optOfNaN a.rsq
    error := optOfNaN a.error
    points := rows.map (·.2)
    weighting := a.weighting
    weights := if a.weighting ∈ knownWeighting then [] else rows.map (·.1) }

/-- `max(v.x.size for v in dict.values())` for a non-empty dict (Python's `max` raises on an empty
one: `save` models that raise) -/
def maxLen (d : List (Str × Cal)) : Nat := d.foldl (fun m kc => max m kc.2.points.length) 0

/-- `pack_calibration` of a non-empty dict: one record per dict entry, element names in a `U<max>` field -/
def packCalibration (d : List (Str × Cal)) : List (Str × CalArr) :=
  d.map fun kc => (stripNul kc.1, kc.2.toArray (maxLen d))

/-- `unpack_calibration` -/
def unpackCalibration (x : List (Str × CalArr)) : List (Str × Cal) :=
  dictOfList (x.map fun ea => (ea.1, Cal.fromArray ea.2))

/-! ## configurations -/

/-- `np.round` of an exact value: half to even -/
def roundHalfEven (q : Rat) : Int :=
  let f := q.floor
  let r := q - (f : Rat)
  if r < 1/2 then f else if 1/2 < r then f + 1 else if f % 2 = 0 then f else f + 1

structure SRR where
  spotsize : Flt
  speed : Flt
  /-- exact value of the float (positive) -/
  scantime : Rat
  /-- `_warmup`: warm-up in samples -/
  warmupN : Int
  /-- `_subpixel_size` -/
  subSize : Nat
  /-- `_subpixel_offsets` -/
  subOffsets : List Int
  deriving DecidableEq, Repr

inductive Config
  | raster (spotsize speed scantime : Flt)
  | spot (spotsize spotsizeY : Flt)
  | srr (c : SRR)
  deriving DecidableEq, Repr

inductive CfgArr
  | raster (spotsize speed scantime : Flt)
  | spot (spotsize spotsizeY : Flt)
  | srr (spotsize speed : Flt) (scantime warmup : Rat) (offsets : List (Int × Int))
  deriving DecidableEq, Repr

def lcmList (l : List Int) : Nat := l.foldl (fun a b => Nat.lcm a b.natAbs) 1

/-- `SRRConfig.__init__`; `fl` is the rounding of one float operation (the driver uses `id`) -/
def SRR.mk' (fl : Rat → Rat) (spotsize speed : Flt) (scantime warmup : Rat) (offsets : List (Int × Int)) : SRR :=
  let size := lcmList (offsets.map (·.2))
  { spotsize := spotsize, speed := speed, scantime := scantime
    warmupN := roundHalfEven (fl (warmup / scantime))
    subSize := size
    subOffsets := offsets.map fun od => (od.1 * (size : Int)) / od.2 }   -- `//` on positive denominators

def classOf : Config → Str
  | .raster .. => ['R','a','s','t','e','r']
  | .spot .. => ['S','p','o','t']
  | .srr .. => ['S','R','R']

/-- `config.to_array()` -/
def Config.toArray (fl : Rat → Rat) : Config → CfgArr
  | .raster a b c => .raster a b c
  | .spot a b => .spot a b
  | .srr c => .srr c.spotsize c.speed c.scantime (fl ((c.warmupN : Rat) * c.scantime))
      (c.subOffsets.map fun o => (o, (c.subSize : Int)))

inductive Err
  | valueError | keyError | assertionError | typeError | indexError
  /-- not an exception of the code: the model declines to say what happens (see `srrFromArray`) -/
  | unmodelled
  deriving DecidableEq, Repr

/-! ### a binary64 bit pattern and its exact value

Only needed where a configuration array is read by the `from_array` of another class (a file whose
class name and `config` member disagree): a raster scan time is an opaque `Flt`, an SRR scan time
an exact `Rat`. -/

def pow2 (e : Int) : Rat := if 0 ≤ e then (2 : Rat) ^ e.toNat else 1 / (2 : Rat) ^ (-e).toNat

/-- exact value of a binary64 bit pattern (given as a signed 64-bit integer); `none` for NaN and ±inf -/
def valueOfBits (b : Int) : Option Rat :=
  let u : Nat := (if b < 0 then b + 2 ^ 64 else b).toNat
  let neg := decide (2 ^ 63 ≤ u)
  let e : Nat := (u / 2 ^ 52) % 2048
  let m : Nat := u % 2 ^ 52
  if e = 2047 then none
  else
    let a : Rat := if e = 0 then (m : Rat) * pow2 (-1074) else (((2 ^ 52 + m : Nat) : Int) : Rat) * pow2 ((e : Int) - 1075)
    some (if neg then -a else a)

def Flt.toRat? : Flt → Option Rat
  | .num b => valueOfBits b
  | .nan _ => none

/-- bit pattern (signed 64-bit integer) of the binary64 whose exact value is `q`; meaningful only for
`q` that is such a value (every scan time the driver receives is one) -/
def bitsOfRat (q : Rat) : Int :=
  if q = 0 then 0
  else
    let a : Rat := if q < 0 then -q else q
    -- ⌊log₂ a⌋ up to one, corrected below
    let e0 : Int := (Nat.log2 a.num.natAbs : Int) - (Nat.log2 a.den : Int)
    let e : Int := if a < pow2 e0 then e0 - 1 else if pow2 (e0 + 1) ≤ a then e0 + 1 else e0
    let u : Int :=
      if -1022 ≤ e then (e + 1023) * 2 ^ 52 + ((a * pow2 (52 - e)).floor - 2 ^ 52)
      else (a * pow2 1074).floor
    if q < 0 then u - 2 ^ 63 else u

def fltOfRat (q : Rat) : Flt := .num (bitsOfRat q)

/-- `Config.from_array`: reads the fields `spotsize`, `speed`, `scantime`; further fields (an SRR
array's `warmup`, `subpixel_offsets`) are ignored; a spot array's `spotsize` holds two numbers, so
`float()` of it raises TypeError -/
def rasterFromArray : CfgArr → Except Err Config
  | .raster a b c => pure (.raster a b c)
  | .srr a b s _ _ => pure (.raster a b (fltOfRat s))
  | .spot .. => throw .typeError

/-- `SpotConfig.from_array`: `array["spotsize"][0]` on a 0-d field -/
def spotFromArray : CfgArr → Except Err Config
  | .spot a b => pure (.spot a b)
  | _ => throw .indexError

/-- `SRRConfig()`'s default warm-up (12.5 s) and sub-pixel offsets -/
def srrDefaultWarmup : Rat := 25 / 2
def srrDefaultOffsets : List (Int × Int) := [(0, 2), (1, 2)]

/-- `SRRConfig.from_array`: `cls(**{name: array[name]})`.  A raster array has no `warmup` /
`subpixel_offsets`, the constructor's defaults apply.  Not modelled (`unmodelled`, never generated,
counted as undetermined by the harness): a raster scan time that is zero, not finite or so small
that 12.5 s are more than 2⁵² samples (the warm-up becomes `np.round(±inf or nan).astype(int)` or an
integer the float cannot hold), and a spot array (the call succeeds with an
array-valued `spotsize`, which `Config` here cannot hold). -/
def srrFromArray (fl : Rat → Rat) : CfgArr → Except Err Config
  | .srr a b s w o => if o = [] then throw .valueError else pure (.srr (SRR.mk' fl a b s w o))
  | .raster a b c =>
    match c.toRat? with
    | some s =>
      -- beyond 2⁵² samples the float quotient is no integer the conversion to `int` could keep (overflow above 2⁶³)
      if s = 0 ∨ (2 : Rat) ^ 52 * s < srrDefaultWarmup ∧ 0 < s ∨ srrDefaultWarmup < -((2 : Rat) ^ 52) * s ∧ s < 0 then throw .unmodelled
      else pure (.srr (SRR.mk' fl a b s srrDefaultWarmup srrDefaultOffsets))
    | none => throw .unmodelled
  | .spot .. => throw .unmodelled

/-! ## versions -/

def parseNat (s : Str) : Except Err Nat :=
  if s ≠ [] ∧ s.all Char.isDigit then
    pure (s.foldl (fun n c => 10 * n + (c.toNat - '0'.toNat)) 0)
  else throw .valueError          -- `int()` of a non-number (signs, blanks, `_` are not modelled)

def cmpComponents : List Str → List Str → Except Err Int
  | a :: as, b :: bs => do
    let x ← parseNat a
    let y ← parseNat b
    if x > y then pure 1 else if x < y then pure (-1) else cmpComponents as bs
  | _, _ => pure 0

/-- `compare_version` -/
def compareVersion (va vb : Str) : Except Err Int :=
  cmpComponents (splitOn '.' va) (splitOn '.' vb)

/-- specification: lexicographic order of the common prefix of the numeric components -/
def lexZip : List Nat → List Nat → Int
  | a :: as, b :: bs => if a > b then 1 else if a < b then -1 else lexZip as bs
  | _, _ => 0

/-- a decimal number as `parseNat` accepts it -/
def isNum (s : Str) : Bool := !s.isEmpty && s.all Char.isDigit

def numVal (s : Str) : Nat := s.foldl (fun n c => 10 * n + (c.toNat - '0'.toNat)) 0

/-- a pair of components that does not let the comparison pass on: one of them is not a number, or
the numbers differ -/
def decisive (ab : Str × Str) : Bool := !(isNum ab.1 && isNum ab.2 && numVal ab.1 == numVal ab.2)

/-- specification of `compare_version` for arbitrary strings, stated on the list of component pairs
(`zip` stops at the shorter version): the first decisive pair decides — `ValueError` if one of its
components is not a number, else the sign of the difference; no decisive pair: equal.  Components
after the decisive pair, and components beyond the shorter version, are never looked at
("0.6.0.x" equals "0.6.0", "1.x" is newer than "0.6.0", "0.x" against "0.6.0" raises). -/
def compareSpec (va vb : Str) : Except Err Int :=
  match ((splitOn '.' va).zip (splitOn '.' vb)).find? decisive with
  | none => .ok 0
  | some ab =>
    if isNum ab.1 && isNum ab.2 then .ok (if numVal ab.1 > numVal ab.2 then 1 else -1)
    else .error .valueError

def v060 : Str := ['0','.','6','.','0']
def v070 : Str := ['0','.','7','.','0']
def v080 : Str := ['0','.','8','.','0']

/-! ## lasers and files -/

structure Layer where
  shape : List Nat
  /-- one opaque record per pixel, row-major -/
  cells : List (List Int)
  deriving DecidableEq, Repr

structure DataArr where
  fields : List (Str × Str)
  shape : List Nat
  cells : List (List Int)
  deriving DecidableEq, Repr

inductive Kind | laser | srr
  deriving DecidableEq, Repr

structure Laser where
  kind : Kind
  /-- `(name, dtype)` of the structured dtype -/
  fields : List (Str × Str)
  /-- `Laser`: exactly one; `SRRLaser`: the list of layers -/
  layers : List Layer
  cal : List (Str × Cal)
  config : Config
  info : Info
  deriving DecidableEq, Repr

structure NpzFile where
  header : Option Str
  version : Option Str         -- `_version`
  cls : Option Str             -- `_class`
  data : DataArr
  name : Option Str
  info : Option Str
  config : CfgArr
  calibration : Option (List (Str × CalArr))
  calibrationOf : List (Str × CalArr)   -- members `calibration_<element>`
  deriving DecidableEq, Repr

structure PathInfo where
  stem : Str
  resolved : Str
  deriving DecidableEq, Repr

def prod (l : List Nat) : Nat := l.foldl (· * ·) 1

/-- a dtype string in native byte order (the check runs on little-endian machines: `'>f8'` becomes
`'<f8'`; `'<'`, `'|'` and `'='` forms are native) -/
def nativeDtype : Str → Str
  | '>' :: r => '<' :: r
  | d => d

def isNativeDtype (d : Str) : Bool := d.head? != some '>'

/-- `np.asanyarray(laser.data)` as `np.savez` does it.  The layer list of an SRR laser is stacked into
ONE new array: NumPy builds it in native byte order, so a `'>f8'` field of the layers is stored (and
loaded) as `'<f8'` — same values, other dtype (known finding `C01-srr-byteorder`; `Laser.ok` asks for
native field dtypes in SRR lasers).  The single array of a `Laser` is written as it is. -/
def dataToArray (L : Laser) : Except Err DataArr :=
  match L.kind, L.layers with
  | .laser, [l] => pure ⟨L.fields, l.shape, l.cells⟩
  | .laser, _ => throw .typeError
  | .srr, [] => throw .typeError
  | .srr, l :: ls =>
    if ls.all (·.shape == l.shape) then
      pure ⟨L.fields.map fun f => (f.1, nativeDtype f.2), (ls.length + 1) :: l.shape, (l :: ls).flatMap (·.cells)⟩
    else throw .valueError       -- inhomogeneous shape

/-- `n` consecutive chunks of `k` -/
def chunks (k : Nat) : Nat → List (List Int) → List (List (List Int))
  | 0, _ => []
  | n + 1, l => l.take k :: chunks k n (l.drop k)

/-- `list(data)`: iterate over the first axis -/
def splitLayers (a : DataArr) : Except Err (List Layer) :=
  match a.shape with
  | [] => throw .typeError
  | n :: sh => pure ((chunks (prod sh) n a.cells).map fun c => ⟨sh, c⟩)

/-- `Laser.__init__` / `SRRLaser.__init__`: a default calibration per element, updated by the given ones -/
def mkLaser (kind : Kind) (fields : List (Str × Str)) (layers : List Layer)
    (cal : List (Str × Cal)) (config : Config) (info : Info) : Laser :=
  { kind := kind, fields := fields, layers := layers,
    cal := dictUpdate (fields.map fun f => (f.1, Cal.default)) cal,
    config := config, info := info }

/-- `npz.save` (0.8+ header layout); `ver` = `version("pewlib")`, `time` = `str(time.time())`.
The arguments of `np.savez_compressed` are evaluated first: `pack_calibration` of a laser without
elements (empty calibration dict) raises `ValueError: max() iterable argument is empty` before
anything is written or the data are converted. -/
def save (fl : Rat → Rat) (ver time : Str) (L : Laser) : Except Err NpzFile := do
  if L.cal.isEmpty then throw .valueError
  let data ← dataToArray L
  pure { header := some (packInfo [(kVersion, ver), (kClass, classOf L.config), (kTime, time)])
         version := none, cls := none, data := data, name := none
         info := some (packInfo L.info)
         config := L.config.toArray fl
         calibration := some (packCalibration L.cal)
         calibrationOf := [] }

/-- a 0.7.x file: `_version`, `_class`, packed info, one calibration member per element -/
def saveV07 (fl : Rat → Rat) (ver : Str) (L : Laser) : Except Err NpzFile := do
  let data ← dataToArray L
  pure { header := none, version := some (stripNul ver), cls := some (classOf L.config), data := data
         name := none, info := some (packInfo L.info), config := L.config.toArray fl
         calibration := none
         calibrationOf := L.cal.map fun kc => (kc.1, kc.2.toArray kc.2.points.length) }

/-- a 0.6.x file: like 0.7 but only a `name` member instead of the info -/
def saveV06 (fl : Rat → Rat) (ver : Str) (L : Laser) : Except Err NpzFile := do
  let data ← dataToArray L
  pure { header := none, version := some (stripNul ver), cls := some (classOf L.config), data := data
         name := some (stripNul ((dictGet L.info kName).getD [])), info := none
         config := L.config.toArray fl
         calibration := none
         calibrationOf := L.cal.map fun kc => (kc.1, kc.2.toArray kc.2.points.length) }

def getOr {α} (e : Err) : Option α → Except Err α
  | some a => pure a
  | none => throw e

def clsLaser : List Str := [['L','a','s','e','r'], ['R','a','s','t','e','r']]
def clsSpot : List Str := [['S','p','o','t']]
def clsSRR : List Str := [['S','R','R','L','a','s','e','r'], ['S','R','R']]

def cRaster : Str := ['R','a','s','t','e','r']
def cSRR : Str := ['S','R','R']

/-- the class names the oldest files carry: `Laser` for `Raster`, `SRRLaser` for `SRR` -/
def legacyOf (c : Str) : Str :=
  if c = cRaster then ['L','a','s','e','r'] else if c = cSRR then ['S','R','R','L','a','s','e','r'] else c

/-- the same file with its `_class` member renamed -/
def NpzFile.mapCls (f : NpzFile) (g : Str → Str) : NpzFile := { f with cls := f.cls.map g }

/-- the `header` dict of `load`: version and (looked up later) class -/
def loadHeader (f : NpzFile) : Except Err (Str × Option Str) :=
  match f.header with
  | none =>
    match f.version with
    | none => throw Err.valueError
    | some v => do
      if (← compareVersion v v060) = -1 then throw Err.valueError
      let c ← getOr .keyError f.cls
      pure (v, some c)
  | some h => do
    let d := unpackInfo h
    let v ← getOr .keyError (dictGet d kVersion)
    pure (v, dictGet d kClass)

/-- before 0.7.0 only a name was stored -/
def loadInfo (f : NpzFile) (ver : Str) : Except Err Info := do
  if (← compareVersion ver v070) = -1 then
    let n ← getOr .keyError f.name
    pure [(kName, n)]
  else
    let s ← getOr .keyError f.info
    pure (unpackInfo s)

/-- before 0.8.0 one member per element, afterwards the packed table -/
def loadCal (f : NpzFile) (ver : Str) : Except Err (List (Str × Cal)) := do
  if (← compareVersion ver v080) = -1 then
    f.data.fields.foldlM (fun (d : List (Str × Cal)) nf => do
      let a ← getOr .keyError (dictGet f.calibrationOf nf.1)
      pure (dictInsert d nf.1 (Cal.fromArray a))) []
  else
    let x ← getOr .keyError f.calibration
    pure (unpackCalibration x)

/-- class dispatch -/
def loadConfig (fl : Rat → Rat) (cls : Str) (a : CfgArr) : Except Err (Kind × Config) :=
  if cls ∈ clsLaser then do pure (Kind.laser, ← rasterFromArray a)
  else if cls ∈ clsSpot then do pure (Kind.laser, ← spotFromArray a)
  else if cls ∈ clsSRR then do pure (Kind.srr, ← srrFromArray fl a)
  else throw Err.valueError

/-- `Name` is ensured, `File Path` and `File Version` are set -/
def finishInfo (p : PathInfo) (ver : Str) (i : Info) : Info :=
  dictInsert (dictInsert (dictInsert i kName ((dictGet i kName).getD p.stem)) kFilePath p.resolved)
    kFileVersion ver

/-- the constructor call at the end of `load` -/
def construct (kind : Kind) (data : DataArr) (cal : List (Str × Cal)) (config : Config) (info : Info) :
    Except Err Laser :=
  match kind with
  | .laser => pure (mkLaser .laser data.fields [⟨data.shape, data.cells⟩] cal config info)
  | .srr => do
    let layers ← splitLayers data
    if layers.length ≤ 1 then throw Err.assertionError
    pure (mkLaser .srr data.fields layers cal config info)

/-- `npz.load` -/
def load (fl : Rat → Rat) (p : PathInfo) (f : NpzFile) : Except Err Laser := do
  let hdr ← loadHeader f
  let info ← loadInfo f hdr.1
  let cal ← loadCal f hdr.1
  let cls ← getOr .keyError hdr.2
  let kc ← loadConfig fl cls f.config
  construct kc.1 f.data cal kc.2 (finishInfo p hdr.1 info)

/-! ## specification -/

/-- the calibration dict a loaded laser must have: for every element of the data, in element order,
the calibration the saved laser held **under that element's name** — wherever that entry stood in
the saved laser's calibration dict (a Python dict keeps insertion order, and `laser.calibration` is a
public attribute: entries are popped and re-inserted, the dict is reassigned, `rename` rebuilds it) -/
def calByName (fields : List (Str × Str)) (cal : List (Str × Cal)) : List (Str × Cal) :=
  fields.map fun f => (f.1, (dictGet cal f.1).getD Cal.default)

/-- what `load (save L)` must be: everything as it was — data, element names and dtypes, configuration,
every element with its own calibration (`calByName`: the order of the calibration dict is not part of
the object, Python dicts compare as mappings) — info with tabs→spaces, `File Path` replaced,
`Name` / `File Version` added -/
def normalise (p : PathInfo) (ver : Str) (L : Laser) : Laser :=
  { L with cal := calByName L.fields L.cal, info := finishInfo p ver (infoSpec L.info) }

/-- a laser loaded from a 0.6 file carries only its name -/
def normaliseV06 (p : PathInfo) (ver : Str) (L : Laser) : Laser :=
  { L with cal := calByName L.fields L.cal, info := finishInfo p ver [(kName, (dictGet L.info kName).getD [])] }

/-- specification of loading a file that describes `L` in an old layout (`v06`: the 0.6 layout, else
the 0.7 layout) and declares version `ver`: rejected with `ValueError` when `ver` is older than 0.6.0
or cannot be compared with it, else the laser with the info that layout carries.  Stated with
`compareSpec`, not with the loader's `compareVersion`. -/
def specOld (v06 : Bool) (p : PathInfo) (ver : Str) (L : Laser) : Except Err Laser :=
  match compareSpec ver v060 with
  | .error _ => .error .valueError
  | .ok r =>
    if r = -1 then .error .valueError
    else .ok (if v06 then normaliseV06 p ver L else normalise p ver L)

/-- two lasers equal as Python objects: dicts (calibration, info) compare without order -/
def Laser.same (a b : Laser) : Prop :=
  a.kind = b.kind ∧ a.fields = b.fields ∧ a.layers = b.layers ∧ (∀ k, dictGet a.cal k = dictGet b.cal k) ∧
    a.config = b.config ∧ ∀ k, dictGet a.info k = dictGet b.info k

/-- `n` generations of save → load -/
def generations (fl : Rat → Rat) (ver time : Str) (p : PathInfo) : Nat → Laser → Except Err Laser
  | 0, L => pure L
  | n + 1, L => do
    let f ← save fl ver time L
    let L' ← load fl p f
    generations fl ver time p n L'

/-! ## hypotheses (decidable; evaluated by the driver for every generated case) -/

/-- a calibration inside the property's quantifier -/
def Cal.ok (c : Cal) : Bool :=
  decide (c.unit.length ≤ 32) && noNulEnd c.unit
  && decide (c.weighting.length ≤ 32) && noNulEnd c.weighting
  && !(c.rsq.any (·.isNaN)) && !(c.error.any (·.isNaN))
  -- no row that is NaN in x, y and weight (indistinguishable from padding)
  && (c.effWeights.zip c.points).all (fun r => !rowIsPad r)
  -- built-in weighting: no stored weights; custom: one weight per point
  && (if c.weighting ∈ knownWeighting then c.weights == [] else c.weights.length == c.points.length)

def SRR.ok (c : SRR) : Bool :=
  decide (0 < c.scantime) && decide (0 < c.subSize) && !c.subOffsets.isEmpty
  && decide (c.warmupN.natAbs ≤ 2 ^ 50)

def Config.ok : Config → Bool
  | .srr c => c.ok
  | _ => true

def Config.isSRR : Config → Bool
  | .srr _ => true
  | _ => false

def layersOk (kind : Kind) (layers : List Layer) : Bool :=
  match kind, layers with
  | .laser, [_] => true
  | .srr, l :: ls =>
    decide (1 ≤ ls.length) && (l :: ls).all fun m => m.shape == l.shape && m.cells.length == prod l.shape
  | _, _ => false

/-- a laser inside the property's quantifier: at least one element (a structured array without
fields makes a `Laser` that `save` cannot write), element names without trailing NUL (distinct by
construction of a structured dtype), exactly one calibration per element **in any dict order** (the
keys of the calibration dict are distinct, each is an element, each element is a key), every
calibration `Cal.ok`, configuration class matching the laser class and `Config.ok`, one layer or ≥ 2
layers of equal shape, native byte order of every field of an SRR laser (the stacked array is native:
known finding `C01-srr-byteorder`), packed info not ending in NUL -/
def Laser.ok (L : Laser) : Bool :=
  !L.fields.isEmpty
  && (keys L.fields).all noNulEnd && decide (keys L.fields).Nodup
  && (decide (keys L.cal).Nodup && (keys L.cal).all (fun k => decide (k ∈ keys L.fields))
      && (keys L.fields).all (fun k => decide (k ∈ keys L.cal)))
  && L.cal.all (·.2.ok)
  && (L.config.isSRR == (L.kind == .srr)) && L.config.ok
  && layersOk L.kind L.layers
  && (L.kind != .srr || L.fields.all fun f => isNativeDtype f.2)
  && noNulEnd (packInfoRaw L.info)

/-- the version string `save` writes: digits and dots, not older than 0.8.0 -/
def versionOk (ver : Str) : Bool :=
  ver.all (fun c => c.isDigit || c == '.')
  && (match compareVersion ver v070 with | .ok r => r != -1 | _ => false)
  && (match compareVersion ver v080 with | .ok r => r != -1 | _ => false)

def cmpGe (va vb : Str) : Bool := match compareVersion va vb with | .ok r => r != -1 | _ => false
def cmpLt (va vb : Str) : Bool := match compareVersion va vb with | .ok r => r == -1 | _ => false

/-- a version string of the 0.7 generation: 0.7.0 ≤ ver < 0.8.0 as `compare_version` sees it -/
def version07Ok (ver : Str) : Bool :=
  noNulEnd ver && cmpGe ver v060 && cmpGe ver v070 && cmpLt ver v080

/-- a version string of the 0.6 generation: 0.6.0 ≤ ver < 0.7.0 -/
def version06Ok (ver : Str) : Bool :=
  noNulEnd ver && cmpGe ver v060 && cmpLt ver v070 && cmpLt ver v080

/-- hypothesis of the fixpoint theorem: no info value ends in NUL -/
def infoNoNul (i : Info) : Bool := i.all fun kv => kv.1 == kFilePath || noNulEnd kv.2

/-! ## histories: the public mutators of a laser between saves

`laser.calibration` and `laser.info` are plain dicts, `laser.config` a plain object with attributes,
two properties with setters (`warmup`, `subpixel_offsets`) and `set_equal_subpixel_offsets`; the
calibrations are objects edited in place; `add` / `remove` / `rename` change the elements.  An `Op` is
one such call, written from `laser.py`, `srr/srr.py`, `config.py`, `srr/config.py` and
`calibration.py`; the state of the object after a history of them is what `npz.save` has to write. -/

/-- an edit of one `Calibration` object in place -/
inductive CalEdit
  | intercept (f : Flt)
  | gradient (f : Flt)
  | unit (u : Str)
  | rsq (o : Option Flt)
  | error (o : Option Flt)
  /-- the `points` setter: `_weights` is left as it is -/
  | points (pts : List (Flt × Flt))
  /-- `weights = "<name>"`: `_weights` is emptied -/
  | weighting (w : Str)
  /-- `weights = (name, array)`: ValueError unless there is one weight per point -/
  | custom (w : Str) (ws : List Flt)
  deriving DecidableEq, Repr

def Cal.edit (c : Cal) : CalEdit → Except Err Cal
  | .intercept f => pure { c with intercept := f }
  | .gradient f => pure { c with gradient := f }
  | .unit u => pure { c with unit := u }
  | .rsq o => pure { c with rsq := o }
  | .error o => pure { c with error := o }
  | .points pts => pure { c with points := pts }
  | .weighting w => pure { c with weighting := w, weights := [] }
  | .custom w ws =>
    if ws.length = c.points.length then pure { c with weighting := w, weights := ws } else throw .valueError

/-- the `warmup` setter: `_warmup = np.round(seconds / scantime).astype(int)` -/
def SRR.setWarmup (fl : Rat → Rat) (c : SRR) (seconds : Rat) : SRR :=
  { c with warmupN := roundHalfEven (fl (seconds / c.scantime)) }

/-- the `subpixel_offsets` setter -/
def SRR.setOffsets (c : SRR) (offsets : List (Int × Int)) : SRR :=
  let size := lcmList (offsets.map (·.2))
  { c with subSize := size, subOffsets := offsets.map fun od => (od.1 * (size : Int)) / od.2 }

/-- `set_equal_subpixel_offsets(width)`: offsets `0 .. width-1`, size `width` -/
def SRR.setEqualOffsets (c : SRR) (w : Nat) : SRR :=
  { c with subSize := w, subOffsets := (List.range w).map Int.ofNat }

/-- the float quotient `seconds / scantime` rounds like the exact one: it is at most 2⁴⁰ in size and
at least 2⁻¹⁰ away from every half-integer (one float division is within relative error 2⁻⁵³).
The driver evaluates the warm-up setter exactly; a case where this fails is counted undetermined. -/
def warmupDetermined (seconds scantime : Rat) : Bool :=
  let q := seconds / scantime
  let d := q - (q.floor : Rat) - 1 / 2
  decide (0 < scantime) && decide (-(2 : Rat) ^ 40 ≤ q) && decide (q ≤ (2 : Rat) ^ 40)
    && (decide (1 / (2 : Rat) ^ 10 ≤ d) || decide (d ≤ -(1 / (2 : Rat) ^ 10)))

/-- an assignment to an attribute (or a call of a mutator) of `laser.config` -/
inductive CfgOp
  | spotsize (f : Flt)
  | speed (f : Flt)
  | scantime (f : Flt)
  | spotsizeY (f : Flt)
  /-- `config.warmup = seconds` (exact value of the float) -/
  | warmup (seconds : Rat)
  /-- `config.subpixel_offsets = offsets` -/
  | offsets (offsets : List (Int × Int))
  /-- `config.set_equal_subpixel_offsets(width)` -/
  | equalOffsets (width : Nat)
  deriving DecidableEq, Repr

/-- the constructor call `Config(..)` / `SpotConfig(..)` / `SRRConfig(..)`: the arguments are the
fields of the array form -/
def Config.ofArgs (fl : Rat → Rat) : CfgArr → Except Err Config
  | .raster a b c => pure (.raster a b c)
  | .spot a b => pure (.spot a b)
  | .srr a b s w o => if o = [] then throw .valueError else pure (.srr (SRR.mk' fl a b s w o))

/-- attributes a class does not have, a non-positive or non-finite SRR scan time, an empty offset
list are not modelled (never generated; counted undetermined) -/
def Config.apply (fl : Rat → Rat) : Config → CfgOp → Except Err Config
  | .raster _ b c, .spotsize f => pure (.raster f b c)
  | .raster a _ c, .speed f => pure (.raster a f c)
  | .raster a b _, .scantime f => pure (.raster a b f)
  | .spot _ b, .spotsize f => pure (.spot f b)
  | .spot a _, .spotsizeY f => pure (.spot a f)
  | .srr c, .spotsize f => pure (.srr { c with spotsize := f })
  | .srr c, .speed f => pure (.srr { c with speed := f })
  | .srr c, .scantime f =>
    match f.toRat? with
    | some q => if 0 < q then pure (.srr { c with scantime := q }) else throw .unmodelled
    | none => throw .unmodelled
  | .srr c, .warmup s => pure (.srr (c.setWarmup fl s))
  | .srr c, .offsets o => if o = [] then throw .unmodelled else pure (.srr (c.setOffsets o))
  | .srr c, .equalOffsets w => if w = 0 then throw .unmodelled else pure (.srr (c.setEqualOffsets w))
  | _, _ => throw .unmodelled

/-- delete the positions `idx` of a record -/
def dropIdx {α} (idx : List Nat) (l : List α) : List α :=
  (l.zipIdx.filter fun xi => !idx.contains xi.2).map (·.1)

/-- positions of the fields named in `names` -/
def fieldIdx (fields : List (Str × Str)) (names : List Str) : List Nat :=
  (fields.zipIdx.filter fun fi => names.contains fi.1.1).map (·.2)

/-- one call on the laser object between two saves -/
inductive Op
  /-- `laser.calibration[k] = c`: a present key keeps its place, a new one goes last -/
  | calSet (k : Str) (c : Cal)
  /-- `laser.calibration.pop(k)` -/
  | calPop (k : Str)
  /-- `c = laser.calibration.pop(k); laser.calibration[k] = c`: the entry moves to the end -/
  | calMoveEnd (k : Str)
  /-- `laser.calibration = {k: laser.calibration[k] for k in order}` -/
  | calReorder (order : List Str)
  /-- an edit of `laser.calibration[k]` in place -/
  | calEdit (k : Str) (e : CalEdit)
  | infoSet (k v : Str)
  | infoPop (k : Str)
  /-- `laser.info = dict(items)` -/
  | infoAssign (i : Info)
  | cfg (o : CfgOp)
  /-- `laser.config = <a new configuration object>` -/
  | cfgAssign (a : CfgArr)
  /-- `laser.rename(names)` -/
  | rename (names : List (Str × Str))
  /-- `laser.add(name, data, calibration)`: `vals` holds, per layer, one value per pixel -/
  | add (name dtype : Str) (vals : List (List Int)) (c : Option Cal)
  /-- `laser.remove(names)` -/
  | remove (names : List Str)
  /-- `laser.data = <the same image with its fields in another order>` (every layer of an SRR laser) -/
  | dataReorder (order : List Str)
  deriving DecidableEq, Repr

/-- position of the field called `n` -/
def fieldPos (fields : List (Str × Str)) (n : Str) : Option Nat :=
  match fields.findIdx? fun f => f.1 == n with
  | some i => some i
  | none => none

def renameKey (names : List (Str × Str)) (k : Str) : Str := (dictGet names k).getD k

/-- what the call does to the object; `keyError` as Python raises it, `unmodelled` where the model
declines (duplicate field names, shape mismatches, removing every element, ...) -/
def applyOp (fl : Rat → Rat) (L : Laser) : Op → Except Err Laser
  | .calSet k c => pure { L with cal := dictInsert L.cal k c }
  | .calPop k =>
    match dictGet L.cal k with
    | none => throw .keyError
    | some _ => pure { L with cal := dictErase L.cal k }
  | .calMoveEnd k =>
    match dictGet L.cal k with
    | none => throw .keyError
    | some c => pure { L with cal := dictInsert (dictErase L.cal k) k c }
  | .calReorder order => do
    let d ← order.mapM fun k => (getOr .keyError (dictGet L.cal k)).map fun c => (k, c)
    pure { L with cal := dictOfList d }
  | .calEdit k e =>
    match dictGet L.cal k with
    | none => throw .keyError
    | some c => do pure { L with cal := dictInsert L.cal k (← c.edit e) }
  | .infoSet k v => pure { L with info := dictInsert L.info k v }
  | .infoPop k =>
    match dictGet L.info k with
    | none => throw .keyError
    | some _ => pure { L with info := dictErase L.info k }
  | .infoAssign i => pure { L with info := dictOfList i }
  | .cfg o => do pure { L with config := ← L.config.apply fl o }
  | .cfgAssign a => do pure { L with config := ← Config.ofArgs fl a }
  | .rename names =>
    let fields := L.fields.map fun f => (renameKey names f.1, f.2)
    if (keys fields).Nodup then
      pure { L with fields := fields, cal := dictOfList (L.cal.map fun kc => (renameKey names kc.1, kc.2)) }
    else throw .unmodelled
  | .add name dtype vals c =>
    if name ∈ keys L.fields ∨ name = [] ∨ vals.length ≠ L.layers.length
        ∨ !((L.layers.zip vals).all fun lv => lv.1.cells.length == lv.2.length) then throw .unmodelled
    else
      pure { L with
        fields := L.fields ++ [(name, dtype)]
        layers := (L.layers.zip vals).map fun lv => { lv.1 with cells := (lv.1.cells.zip lv.2).map fun rv => rv.1 ++ [rv.2] }
        cal := dictInsert L.cal name (c.getD Cal.default) }
  | .remove names =>
    if !(names.all fun n => decide (n ∈ keys L.fields)) ∨ (L.fields.all fun f => names.contains f.1) then throw .unmodelled
    else
      -- `drop_fields` first, then one `pop` per name (KeyError on a key that is not there)
      let idx := fieldIdx L.fields names
      let data : Laser := { L with
        fields := dropIdx idx L.fields
        layers := L.layers.map fun l => { l with cells := l.cells.map (dropIdx idx) } }
      names.foldlM (fun (M : Laser) n =>
        match dictGet M.cal n with
        | none => throw Err.keyError
        | some _ => pure { M with cal := dictErase M.cal n }) data
  | .dataReorder order =>
    match order.mapM (fieldPos L.fields) with
    | none => throw .unmodelled
    | some idx =>
      if order.length ≠ L.fields.length ∨ ¬ order.Nodup then throw .unmodelled
      else
        pure { L with
          fields := idx.filterMap fun i => L.fields[i]?
          layers := L.layers.map fun l => { l with cells := l.cells.map fun r => idx.filterMap fun i => r[i]? } }

/-- the constructor call the harness makes: `Laser(data, calibration, config, info)` or `SRRLaser(..)` -/
def construct' (fl : Rat → Rat) (kind : Kind) (fields : List (Str × Str)) (layers : List Layer)
    (cal : List (Str × Cal)) (config : CfgArr) (info : Info) : Except Err Laser := do
  let c ← Config.ofArgs fl config
  pure (mkLaser kind fields layers (dictOfList cal) c (dictOfList info))

/-- one step of a history: a call on the current object, `npz.save(path, current)` followed by
`npz.load` of the file written, or going on with the object the last load returned -/
inductive Step
  | op (o : Op)
  | save (p : PathInfo)
  | adopt
  deriving DecidableEq, Repr

/-- **mechanism**: the history run through `save` and `load`; one result per `save` step; the first
exception ends the history (its entry is the last one) -/
def runHistory (fl : Rat → Rat) (ver time : Str) : List Step → Laser → Option Laser → List (Except Err Laser)
  | [], _, _ => []
  | .op o :: r, cur, last =>
    match applyOp fl cur o with
    | .ok c => runHistory fl ver time r c last
    | .error e => [.error e]
  | .save p :: r, cur, _ =>
    match save fl ver time cur >>= load fl p with
    | .ok l => .ok l :: runHistory fl ver time r cur (some l)
    | .error e => [.error e]
  | .adopt :: r, _, last =>
    match last with
    | some l => runHistory fl ver time r l last
    | none => [.error .unmodelled]

/-- **specification**: no file is involved; every `save` step yields `normalise` of the state the
object has at that moment -/
def specHistory (fl : Rat → Rat) (ver : Str) : List Step → Laser → Option Laser → List (Except Err Laser)
  | [], _, _ => []
  | .op o :: r, cur, last =>
    match applyOp fl cur o with
    | .ok c => specHistory fl ver r c last
    | .error e => [.error e]
  | .save p :: r, cur, _ => .ok (normalise p ver cur) :: specHistory fl ver r cur (some (normalise p ver cur))
  | .adopt :: r, _, last =>
    match last with
    | some l => specHistory fl ver r l last
    | none => [.error .unmodelled]

/-- every state that is saved along the history is inside the quantifier (one flag per `save` step) -/
def historyOks (fl : Rat → Rat) (ver : Str) : List Step → Laser → Option Laser → List Bool
  | [], _, _ => []
  | .op o :: r, cur, last =>
    match applyOp fl cur o with
    | .ok c => historyOks fl ver r c last
    | .error _ => []
  | .save p :: r, cur, _ => cur.ok :: historyOks fl ver r cur (some (normalise p ver cur))
  | .adopt :: r, _, last =>
    match last with
    | some l => historyOks fl ver r l last
    | none => []

def historyOk (fl : Rat → Rat) (ver : Str) (steps : List Step) (cur : Laser) (last : Option Laser) : Bool :=
  (historyOks fl ver steps cur last).all id

/-- the warm-up an operation sets is decided by its exact quotient (`warmupDetermined`) -/
def opDetermined (cur : Laser) : Op → Bool
  | .cfg (.warmup s) =>
    match cur.config with
    | .srr c => warmupDetermined s c.scantime
    | _ => true
  | .cfgAssign (.srr _ _ s w _) => warmupDetermined w s
  | _ => true

/-- every warm-up set along the history is decided by its exact quotient: then the driver's exact
evaluation (`fl = id`) and the float evaluation of the code agree on the state -/
def stepsDetermined : List Step → Laser → Option Laser → Bool
  | [], _, _ => true
  | .op o :: r, cur, last =>
    opDetermined cur o &&
      (match applyOp id cur o with
        | .ok c => stepsDetermined r c last
        | .error _ => true)
  | .save _ :: r, cur, _ => stepsDetermined r cur (some cur)
  | .adopt :: r, _, last =>
    match last with
    | some l => stepsDetermined r l last
    | none => true

end Pew.Npz
