/-!
# C20 — the command line (`pewlib/__main__.py`)

Data are 2-D grids of opaque value tokens (`Tok`; the harness sends the bit pattern of every
float64), a structured array is a grid of pixels `String → Tok` (field name ↦ value) together
with the ordered list of its field names, files are records.  The model follows the code:

* `deriveOutputs`   — `create_parser_and_parse_args`, lines 220-241 (output path derivation)
* `parse`           — the remaining argument checks (existing inputs, `choices` of `--format`,
                      element names against the union of all inputs)
* `convertStep`     — `main`, lines 353-370 (`--config`, `--elements`, skip when nothing is left)
* `filterStep`      — `main`, lines 372-384 (`args.filter_elements or laser.elements`, sequential
                      field assignment; requested elements the input lacks are skipped)
* `stack`           — `stack`, lines 294-311 (pad to the common size on the *other* axis, concatenate)
* `save`            — `save`, lines 260-278 (dispatch on the lower-cased suffix)
* `run`             — `main` on the loaded images
* `overlay`/`configOf` — `load`, lines 62-70 (loader parameters assigned to a fresh `Config()`)
* `loadMech`        — `load`, lines 13-60 (format dispatch, Agilent method fallback, exceptions)
* `mainRun`         — `main` from the paths on: `check_exists`, `load` of every input, `--calibrate`, `run`

The filter and the library loaders are opaque function parameters.  The specification side (`specOutputs`,
`restrictSpec`, `filterSpec`, `stackSpec`, `specRun`) says where files go and what they hold,
without following the control flow of the code.  `RunEq` / `FilesEq` (end of the file) say when two
results are the same — images are functions, so sameness is pointwise — and
`PewTheorems.C20.run_refines_spec` proves `RunEq (run a) (specRun a)` for every command line.
-/
namespace Pew.Cli

abbrev Tok := Int

/-! ## grids -/

structure Grid (α : Type) where
  h : Nat
  w : Nat
  get : Nat → Nat → α

inductive Orient | vertical | horizontal
  deriving DecidableEq, Repr

/-- `np.pad(d, ((0, dh), (0, dw)), constant_values=pad)` -/
def Grid.pad {α} (d : Grid α) (dh dw : Nat) (pad : α) : Grid α :=
  { h := d.h + dh, w := d.w + dw, get := fun i j => if i < d.h ∧ j < d.w then d.get i j else pad }

/-- `np.concatenate([a, b], axis=0)`: the widths must agree -/
def vcat {α} (a b : Grid α) : Option (Grid α) :=
  if a.w = b.w then
    some { h := a.h + b.h, w := a.w, get := fun i j => if i < a.h then a.get i j else b.get (i - a.h) j }
  else none

/-- `np.concatenate([a, b], axis=1)`: the heights must agree -/
def hcat {α} (a b : Grid α) : Option (Grid α) :=
  if a.h = b.h then
    some { h := a.h, w := a.w + b.w, get := fun i j => if j < a.w then a.get i j else b.get i (j - a.w) }
  else none

/-- `np.concatenate(list, axis)`: an empty list is an error -/
def concat {α} (cat : Grid α → Grid α → Option (Grid α)) : List (Grid α) → Option (Grid α)
  | [] => none
  | [g] => some g
  | g :: g' :: gs => (concat cat (g' :: gs)).bind (cat g)

/-- `max(... for d in datas)` -/
def maxOf : List Nat → Nat
  | [] => 0
  | x :: xs => max x (maxOf xs)

/-- `__main__.stack` on the data arrays (current code) -/
def stack {α} (o : Orient) (pad : α) (ds : List (Grid α)) : Option (Grid α) :=
  match o with
  | .horizontal =>
    let maxY := maxOf (ds.map (·.h))
    concat hcat (ds.map fun d => d.pad (maxY - d.h) 0 pad)
  | .vertical =>
    let maxX := maxOf (ds.map (·.w))
    concat vcat (ds.map fun d => d.pad 0 (maxX - d.w) pad)

/-- the code before 802513a: the common size and the pad amount were taken from the stacking axis -/
def stackOld {α} (o : Orient) (pad : α) (ds : List (Grid α)) : Option (Grid α) :=
  match o with
  | .horizontal =>
    let maxY := maxOf (ds.map (·.w))
    concat hcat (ds.map fun d => d.pad (maxY - d.w) 0 pad)
  | .vertical =>
    let maxX := maxOf (ds.map (·.h))
    concat vcat (ds.map fun d => d.pad 0 (maxX - d.h) pad)

/-! ### specification of stacking -/

/-- sum of the first `k` sizes: where input `k` starts along the stacking axis -/
def prefixSum (l : List Nat) (k : Nat) : Nat := (l.take k).sum

/-- which input covers position `r` along the stacking axis, and the position inside it -/
def locate : List Nat → Nat → Option (Nat × Nat)
  | [], _ => none
  | s :: ss, r => if r < s then some (0, r) else (locate ss (r - s)).map fun p => (p.1 + 1, p.2)

/-- every input unchanged at its stacked position, the pad value everywhere else -/
def stackSpec {α} (o : Orient) (pad : α) (ds : List (Grid α)) : Grid α :=
  match o with
  | .vertical =>
    { h := (ds.map (·.h)).sum, w := maxOf (ds.map (·.w)),
      get := fun r c =>
        match locate (ds.map (·.h)) r with
        | some (k, i) =>
          match ds[k]? with
          | some d => if c < d.w then d.get i c else pad
          | none => pad
        | none => pad }
  | .horizontal =>
    { h := maxOf (ds.map (·.h)), w := (ds.map (·.w)).sum,
      get := fun r c =>
        match locate (ds.map (·.w)) c with
        | some (k, j) =>
          match ds[k]? with
          | some d => if r < d.h then d.get r j else pad
          | none => pad
        | none => pad }

/-! ## paths -/

/-- a path as `pathlib` splits it: parent, stem and suffix of the final component -/
structure Path where
  dir : String
  stem : String
  suffix : String
  deriving DecidableEq, Repr, Inhabited

namespace Path
def name (p : Path) : String := p.stem ++ p.suffix
def full (p : Path) : String := p.dir ++ "/" ++ p.name
def withSuffix (p : Path) (s : String) : Path := { p with suffix := s }
def withStem (p : Path) (s : String) : Path := { p with stem := s }
/-- `d.joinpath(q.name)` -/
def join (d q : Path) : Path := { dir := d.full, stem := q.stem, suffix := q.suffix }
end Path

inductive Fail | usage | crash
  deriving DecidableEq, Repr

/-- `str.lower()` on the ASCII names the harness generates -/
def lower (s : String) : String := String.ofList (s.toList.map Char.toLower)

/-- lines 224-245: first the two `parser.error` checks on the kind of output, then the three-way
derivation -/
def deriveOutputs (isStack : Bool) (inputs : List Path) (format : String) (output : Option Path)
    (isDir : Path → Bool) : Except Fail (List Path) :=
  let rejected : Bool :=
    if isStack then
      match output with
      | none => true
      | some o => isDir o
    else
      match output with
      | none => false
      | some o => !isDir o && decide (inputs.length > 1)
  if rejected then .error .usage
  else
    match output with
    | none => .ok (inputs.map (·.withSuffix format))
    | some o =>
      if isDir o then .ok (inputs.map fun i => o.join (i.withSuffix format))
      else if lower o.suffix != format then .error .usage
      else .ok [o]

/-- where the property says outputs go; `none` = the combination is rejected -/
def specOutputs (isStack : Bool) (inputs : List Path) (format : String) (output : Option Path)
    (isDir : Path → Bool) : Option (List Path) :=
  match output with
  | none => if isStack then none else some (inputs.map fun i => { i with suffix := format })
  | some o =>
    if isDir o then
      if isStack then none else some (inputs.map fun i => { dir := o.full, stem := i.stem, suffix := format })
    else if (isStack ∨ inputs.length ≤ 1) ∧ lower o.suffix = format then some [o]
    else none

/-! ## lasers -/

/-- the stored form of a configuration: a raster `Config` (spotsize, speed, scantime) or a
`SpotConfig` (x and y distance between spots; its array form holds nothing else) -/
inductive Cfg
  | raster (spotsize speed scantime : Tok)
  | spot (x y : Tok)
  deriving DecidableEq, Repr

abbrev Px := String → Tok

structure Laser where
  elements : List String
  data : Grid Px
  config : Cfg
  /-- `laser.calibration[e]`, one opaque token per element name (0 = the default `Calibration()`,
  which is what every loader but `io.npz.load` gives) -/
  calib : String → Tok := fun _ => 0

/-- `laser.data[e]` -/
def Laser.field (l : Laser) (e : String) : Grid Tok :=
  { h := l.data.h, w := l.data.w, get := fun i j => l.data.get i j e }

/-- `laser.data[e] = g` -/
def Laser.setField (l : Laser) (e : String) (g : Grid Tok) : Laser :=
  { l with data := { l.data with get := fun i j n => if n = e then g.get i j else l.data.get i j n } }

/-- `Laser.remove(names)`: `rfn.drop_fields` keeps the remaining fields in their order -/
def Laser.remove (l : Laser) (names : List String) : Laser :=
  { l with elements := l.elements.filter fun e => !names.contains e }

/-- the `spotsize` a loader reports: one number, or an (x, y) tuple (Nu Instruments directories) -/
inductive Spot
  | one (s : Tok)
  | two (x y : Tok)

/-- loader parameters (`full=True`) that `load` copies into the config (lines 62-72) -/
structure Params where
  spotsize : Option Spot
  speed : Option Tok
  scantime : Option Tok

/-- a configuration object in memory: `Config` (`spot = false`) or `SpotConfig`; the latter keeps the
attributes `speed` and `scantime` of its base class (0.0 after `__init__`) beside `spotsize_y` -/
structure MemCfg where
  spot : Bool
  spotsize : Tok
  speed : Tok
  scantime : Tok
  spotsizeY : Tok

/-- `to_array`: what an .npz keeps of a configuration (`SpotConfig.to_array` holds the two spacings only) -/
def MemCfg.stored (c : MemCfg) : Cfg :=
  if c.spot then .spot c.spotsize c.spotsizeY else .raster c.spotsize c.speed c.scantime

/-- lines 14 and 62-70, statement by statement: `config = Config()`; `if "spotsize" in params:` a
tuple gives `SpotConfig(*params["spotsize"])` (speed = scantime = 0.0; the token of 0.0 is 0), a
number is assigned to `config.spotsize`; then `config.speed` and `config.scantime` are assigned
when the loader reported them — also on a `SpotConfig`, where `to_array` does not keep them -/
def overlay (dSpot dSpeed dScan : Tok) (p : Params) : MemCfg :=
  let c : MemCfg := { spot := false, spotsize := dSpot, speed := dSpeed, scantime := dScan, spotsizeY := 0 }
  let c := match p.spotsize with
    | some (.two x y) => { spot := true, spotsize := x, speed := 0, scantime := 0, spotsizeY := y }
    | some (.one s) => { c with spotsize := s }
    | none => c
  let c := match p.speed with
    | some v => { c with speed := v }
    | none => c
  match p.scantime with
    | some v => { c with scantime := v }
    | none => c

/-- the stored configuration of the image `load` builds -/
def configOf (dSpot dSpeed dScan : Tok) (p : Params) : Cfg := (overlay dSpot dSpeed dScan p).stored

/-- the configuration rule of the property ("the image exactly as the library's loader returns it"):
an (x, y) spot spacing gives a `SpotConfig` of exactly these two numbers; otherwise a raster `Config`
whose every field is the loader's parameter when it reported one and the `Config()` default when not -/
def configSpec (dSpot dSpeed dScan : Tok) (p : Params) : Cfg :=
  match p.spotsize with
  | some (.two x y) => .spot x y
  | some (.one s) => .raster s (p.speed.getD dSpeed) (p.scantime.getD dScan)
  | none => .raster dSpot (p.speed.getD dSpeed) (p.scantime.getD dScan)

/-- lines 353-370; `none` = "skipping: no matching elements" -/
def convertStep (config : Option Cfg) (elements : Option (List String)) (l : Laser) : Option Laser :=
  let l := match config with
    | some c => { l with config := c }
    | none => l
  match elements with
  | none => some l
  | some req =>
    let remove := l.elements.filter fun e => !req.contains e
    let l := l.remove remove
    if l.elements.length = 0 then none else some l

/-- the image restricted to the requested elements, in the image's own order -/
def restrictSpec (config : Option Cfg) (elements : Option (List String)) (l : Laser) : Option Laser :=
  match elements with
  | none => some { l with config := config.getD l.config }
  | some req =>
    let els := l.elements.filter fun e => req.contains e
    if els = [] then none else some { l with elements := els, config := config.getD l.config }

/-- the body of the loop at lines 381-387: one field assignment; a requested element the input does
not have is skipped -/
def fstep (f : String → Grid Tok → Grid Tok) (l : Laser) (e : String) : Laser :=
  if l.elements.contains e then l.setField e (f e (l.field e)) else l

/-- lines 376-387: `elements = args.filter_elements or laser.elements`, then the loop -/
def filterStep (f : String → Grid Tok → Grid Tok) (sel : Option (List String)) (l : Laser) : Laser :=
  let elements := match sel with
    | none => l.elements
    | some s => if s.isEmpty then l.elements else s
  elements.foldl (fstep f) l

/-- is element `n` of image `l` selected by `--elements` (all elements when the option is absent) -/
def selected (sel : Option (List String)) (l : Laser) (n : String) : Bool :=
  l.elements.contains n && (match sel with
    | none => true
    | some s => s.isEmpty || s.contains n)

/-- selected elements hold the filter applied to the original field, everything else is unchanged:
`done` pairs every selected element of the image with the filter of its ORIGINAL field (each filter
call is made once, outside the pixel function) -/
def filterSpec (f : String → Grid Tok → Grid Tok) (sel : Option (List String)) (l : Laser) : Laser :=
  let done : List (String × Grid Tok) :=
    (l.elements.filter (selected sel l)).map fun n => (n, f n (l.field n))
  let get : Nat → Nat → Px := fun i j n =>
    match done.lookup n with
    | some g => g.get i j
    | none => l.data.get i j n
  { l with data := { l.data with get := get } }

/-- `__main__.stack`: the arrays must have the same fields (otherwise `np.concatenate` fails);
config of the first input -/
def stackLasers (o : Orient) (pad : Tok) (ls : List Laser) : Option Laser :=
  match ls with
  | [] => none
  | l0 :: _ =>
    if ls.all (fun l => l.elements == l0.elements) then
      (stack o (fun _ => pad) (ls.map (·.data))).map fun g =>
        { elements := l0.elements, data := g, config := l0.config, calib := l0.calib }
    else none

def stackLasersSpec (o : Orient) (pad : Tok) (ls : List Laser) : Option Laser :=
  match ls with
  | [] => none
  | l0 :: _ =>
    if ls.all (fun l => l.elements == l0.elements) then
      some { elements := l0.elements, data := stackSpec o (fun _ => pad) (ls.map (·.data)), config := l0.config,
             calib := l0.calib }
    else none

/-! ## files -/

inductive Content
  | npz (l : Laser)
  | csv (g : Grid Tok)
  /-- `io.vtk.save(path, laser.data, spacing)`: every element of the image; the spacing is computed
  from the configuration -/
  | vtk (l : Laser)

structure File where
  path : Path
  content : Content

/-- lines 260-278 -/
def save (l : Laser) (p : Path) : Except Fail (List File) :=
  if lower p.suffix == ".csv" then
    pure (l.elements.map fun n => ⟨p.withStem (p.stem ++ "_" ++ n), .csv (l.field n)⟩)
  else if lower p.suffix == ".npz" then
    pure [⟨p, .npz l⟩]
  else if lower p.suffix == ".vtk" then
    pure [⟨p, .vtk l⟩]
  else throw .crash

/-- the files the property expects for image `l` at output `p` in format `format` -/
def specFiles (format : String) (l : Laser) (p : Path) : List File :=
  if format = ".csv" then
    l.elements.map fun n => ⟨{ p with stem := p.stem ++ "_" ++ n }, .csv (l.field n)⟩
  else if format = ".npz" then [⟨p, .npz l⟩]
  else [⟨p, .vtk l⟩]

/-! ## the whole run -/

structure Input where
  path : Path
  present : Bool
  laser : Laser

inductive Cmd
  | convert (config : Option Cfg) (elements : Option (List String))
  /-- `f k` is the library filter (type, window and threshold fixed) as applied to input `k` -/
  | filter (f : Nat → String → Grid Tok → Grid Tok) (sel : Option (List String))
  | stack (o : Orient) (pad : Tok)

def Cmd.isStack : Cmd → Bool
  | .stack _ _ => true
  | _ => false

/-- the `--elements` of the command, if any -/
def Cmd.requested : Cmd → Option (List String)
  | .convert _ e => e
  | .filter _ s => s
  | .stack _ _ => none

structure Args where
  cmd : Cmd
  inputs : List Input
  format : String
  output : Option Path
  isDir : Path → Bool

inductive Status | ok | error
  deriving DecidableEq, Repr

structure Result where
  status : Status
  files : List File

def validFormats : List String := [".csv", ".npz", ".vtk"]

/-- `create_parser_and_parse_args` after the loaders ran -/
def parse (a : Args) : Except Fail (List Path) := do
  if a.inputs.isEmpty then throw .usage                        -- nargs="+"
  if a.inputs.any (fun i => !i.present) then throw .usage      -- type=check_exists
  if !validFormats.contains a.format then throw .usage         -- choices=valid_formats
  let outs ← deriveOutputs a.cmd.isStack (a.inputs.map (·.path)) a.format a.output a.isDir
  let valid := a.inputs.flatMap (·.laser.elements)
  match a.cmd.requested with
  | some els => if !els.all valid.contains then throw .usage
  | none => pure ()
  pure outs

/-- the loop of `main` over `zip(lasers, inputs, outputs)`; files written so far stay on a failure -/
def loop (cmd : Cmd) : List (Nat × Laser × Path) → List File → Result
  | [], acc => ⟨.ok, acc⟩
  | (k, l, out) :: rest, acc =>
    match cmd with
    | .convert cfg els =>
      match convertStep cfg els l with
      | none => loop cmd rest acc
      | some l' =>
        match save l' out with
        | .ok fs => loop cmd rest (acc ++ fs)
        | .error _ => ⟨.error, acc⟩
    | .filter f sel =>
      match save (filterStep (f k) sel l) out with
      | .ok fs => loop cmd rest (acc ++ fs)
      | .error _ => ⟨.error, acc⟩
    | .stack _ _ => ⟨.error, acc⟩

def enum {α} (l : List α) : List (Nat × α) := (List.range l.length).zip l

/-- `main` -/
def run (a : Args) : Result :=
  match parse a with
  | .error _ => ⟨.error, []⟩
  | .ok outs =>
    match a.cmd with
    | .stack o pad =>
      match stackLasers o pad (a.inputs.map (·.laser)), outs with
      | some l, out :: _ =>
        match save l out with
        | .ok fs => ⟨.ok, fs⟩
        | .error _ => ⟨.error, []⟩
      | _, _ => ⟨.error, []⟩
    | cmd => loop cmd (enum ((a.inputs.map (·.laser)).zip outs)) []

/-- what the property says a run leaves behind -/
def specRun (a : Args) : Result :=
  let paths := a.inputs.map (·.path)
  let known (els : Option (List String)) : Bool :=
    match els with
    | none => true
    | some els => els.all fun e => a.inputs.any fun i => i.laser.elements.contains e
  if a.inputs.isEmpty || a.inputs.any (fun i => !i.present) || !validFormats.contains a.format
      || !known a.cmd.requested then ⟨.error, []⟩
  else
    match specOutputs a.cmd.isStack paths a.format a.output a.isDir with
    | none => ⟨.error, []⟩
    | some outs =>
      match a.cmd with
      | .stack o pad =>
        match stackLasersSpec o pad (a.inputs.map (·.laser)), outs with
        | some l, out :: _ => ⟨.ok, specFiles a.format l out⟩
        | _, _ => ⟨.error, []⟩
      | .convert cfg els =>
        ⟨.ok, ((a.inputs.map (·.laser)).zip outs).flatMap fun (l, out) =>
          match restrictSpec cfg els l with
          | none => []
          | some l' => specFiles a.format l' out⟩
      | .filter f sel =>
        ⟨.ok, (enum ((a.inputs.map (·.laser)).zip outs)).flatMap fun (k, l, out) =>
          specFiles a.format (filterSpec (f k) sel l) out⟩

/-- file `f` is the output `out` itself or one of its per-element text images -/
def placedAt (f : File) (out : Path) : Prop :=
  f.path = out ∨ ∃ n, f.path = { out with stem := out.stem ++ "_" ++ n }

/-! ## sameness of results

Images are functions, so "the run leaves behind what the specification says" cannot be an equation
between `Result`s; it is stated with the relations below: the same files in the same order, each at
the same path, of the same kind, with the same element names, configuration and shape, and the same
value at every pixel of the image (every field name). -/

/-- same shape, same value at every pixel inside the shape -/
def GridEq {α} (g g' : Grid α) : Prop :=
  g.h = g'.h ∧ g.w = g'.w ∧ ∀ i j, i < g.h → j < g.w → g.get i j = g'.get i j

/-- same element names in the same order, same configuration, same calibrations, same shape, and at
every pixel inside the shape the same value of every field -/
def LaserEq (l l' : Laser) : Prop :=
  l.elements = l'.elements ∧ l.config = l'.config ∧ l.calib = l'.calib ∧ GridEq l.data l'.data

def ContentEq : Content → Content → Prop
  | .npz l, .npz l' => LaserEq l l'
  | .csv g, .csv g' => GridEq g g'
  | .vtk l, .vtk l' => LaserEq l l'
  | _, _ => False

def FileEq (f f' : File) : Prop := f.path = f'.path ∧ ContentEq f.content f'.content

/-- the same files, in the same order -/
def FilesEq : List File → List File → Prop
  | [], [] => True
  | f :: fs, f' :: fs' => FileEq f f' ∧ FilesEq fs fs'
  | _, _ => False

/-- same exit status, same files -/
def RunEq (r r' : Result) : Prop := r.status = r'.status ∧ FilesEq r.files r'.files

/-- what the property expects of one turn of the loop of `main` for input number `k`: the image the
library calls give (`none` = skipped), ... -/
def specStep (cmd : Cmd) (k : Nat) (l : Laser) : Option Laser :=
  match cmd with
  | .convert cfg els => restrictSpec cfg els l
  | .filter f sel => some (filterSpec (f k) sel l)
  | .stack _ _ => none

/-- ... and its files at output `out`, in the format the suffix of `out` names -/
def specItem (cmd : Cmd) (x : Nat × Laser × Path) : List File :=
  match specStep cmd x.1 x.2.1 with
  | none => []
  | some l' => specFiles (lower x.2.2.suffix) l' x.2.2

/-- image `l` has been written to output `out` in format `format`: among the files `fs` there is
the .npz / .vtk file at exactly `out` holding an image that is the same as `l` (`LaserEq`: element
names in order, configuration, shape, every pixel of every element), or, for .csv, for every element
`n` of `l` the text image `<stem>_<n><suffix>` beside `out` holding the same grid as `l.field n` -/
def Written (fs : List File) (format : String) (l : Laser) (out : Path) : Prop :=
  (format = ".npz" → ∃ f ∈ fs, f.path = out ∧ ∃ m, f.content = .npz m ∧ LaserEq m l) ∧
  (format = ".vtk" → ∃ f ∈ fs, f.path = out ∧ ∃ m, f.content = .vtk m ∧ LaserEq m l) ∧
  (format = ".csv" → ∀ n ∈ l.elements, ∃ f ∈ fs,
      f.path = { out with stem := out.stem ++ "_" ++ n } ∧ ∃ g, f.content = .csv g ∧ GridEq g (l.field n))

/-! ## loading: `load` (lines 13-72) and the front end of `main`

The library loaders and predicates are opaque: a `Source` records what `load` can ask about a path
and what each library call it may make returns. -/

/-- how a library call ends: with a result, with a `ValueError` (or a subclass such as
`UnicodeDecodeError`), or with any other exception -/
inductive Outcome (α : Type)
  | ok (a : α)
  | valueError
  | otherError

/-- `(data, params)` of a loader called with `full=True` (`io.textimage.load` has no parameters) -/
structure Loaded where
  elements : List String
  data : Grid Px
  params : Params

/-- the library calls `load` chooses between -/
inductive Loader
  /-- `io.agilent.load(path, collection_methods=methods, full=True)` -/
  | agilent (methods : List String)
  /-- `io.perkinelmer.load(path, full=True)` -/
  | perkinelmer
  /-- `io.csv.load(path, full=True)` -/
  | csvdir
  /-- `io.npz.load(path)` -/
  | npz
  /-- `io.thermo.load(path, full=True)` -/
  | thermo
  /-- `io.textimage.load(path, name="_element_")` -/
  | textimage
  deriving DecidableEq, Repr

structure Source where
  path : Path
  /-- `check_exists` -/
  present : Bool
  /-- `path.is_dir()` -/
  isDir : Bool
  /-- `io.perkinelmer.is_valid_directory(path)` -/
  perkinValid : Bool
  /-- `io.csv.is_valid_directory(path)` -/
  csvValid : Bool
  /-- `io.thermo.icap_csv_sample_format(path)` -/
  sniff : Outcome String
  /-- how `io.agilent.load_info(path)` ends -/
  info : Outcome Unit
  /-- the loaders that return `(data, params)` -/
  call : Loader → Outcome Loaded
  /-- `io.npz.load(path)`: a complete image with its stored configuration -/
  npz : Outcome Laser

/-- `path.suffix.lower()` -/
def Source.sfx (s : Source) : String := lower s.path.suffix

/-- `Laser(data=data, config=config, info=info)` with the configuration `cfg` makes of the parameters -/
def Loaded.toLaser (cfg : Params → Cfg) (x : Loaded) : Laser :=
  { elements := x.elements, data := x.data, config := cfg x.params }

def agilentMethods : List (List String) := [["batch_xml", "batch_csv"], ["acq_method_xml"]]

/-- lines 27-36: `data = None; for methods in …: try: data, params = io.agilent.load(…);
info.update(io.agilent.load_info(path)); break; except ValueError: pass`.  The second argument is
what `data, params` hold so far: a `ValueError` of `load_info` is caught by the same `except`, AFTER
the assignment, so the loop goes on with the data in hand.  Any other exception — of the loader or
of `load_info` — leaves `load`. -/
def agilentLoop (s : Source) : List (List String) → Option (Loader × Loaded) →
    Except Fail (Option (Loader × Loaded))
  | [], data => .ok data
  | m :: ms, data =>
    match s.call (.agilent m) with
    | .ok x =>
      match s.info with
      | .ok _ => .ok (some (.agilent m, x))                     -- break
      | .valueError => agilentLoop s ms (some (.agilent m, x))   -- except ValueError: pass
      | .otherError => .error .crash
    | .valueError => agilentLoop s ms data
    | .otherError => .error .crash

/-- a single library call inside `load`: a `ValueError` reaches `parser.error` (exit status 2, usage
text), any other exception is a traceback (exit status 1) -/
def callOnce (s : Source) (ld : Loader) : Except Fail (Loader × Loaded) :=
  match s.call ld with
  | .ok x => .ok (ld, x)
  | .valueError => .error .usage
  | .otherError => .error .crash

/-- `load`, lines 13-72, as the code branches: directory or not, then the lower-cased suffix.  The
result names the library call whose data the image holds.  `.usage`: a `ValueError` (raised by
`load` itself for an unknown extension or a batch no method can read, or by a library call), which
`create_parser_and_parse_args` turns into `parser.error("argument input: …")`. -/
def loadMech (d : Tok × Tok × Tok) (s : Source) : Except Fail (Loader × Laser) :=
  let finish : Loader × Loaded → Loader × Laser := fun x => (x.1, x.2.toLaser (configOf d.1 d.2.1 d.2.2))
  if s.isDir then
    if s.sfx == ".b" then
      match agilentLoop s agilentMethods none with
      | .error e => .error e
      | .ok none => .error .usage                 -- raise ValueError("unable to import batch …")
      | .ok (some x) => .ok (finish x)
    else if s.perkinValid then (callOnce s .perkinelmer).map finish
    else if s.csvValid then (callOnce s .csvdir).map finish
    else .error .usage                            -- raise ValueError("unknown extention …")
  else
    if s.sfx == ".npz" then
      match s.npz with                            -- `return laser`: the stored configuration is kept
      | .ok l => .ok (.npz, l)
      | .valueError => .error .usage
      | .otherError => .error .crash
    else if s.sfx == ".csv" then
      match s.sniff with
      | .ok fmt =>
        if fmt == "columns" || fmt == "rows" then (callOnce s .thermo).map finish
        else (callOnce s .textimage).map finish
      | .valueError => .error .usage
      | .otherError => .error .crash
    else if s.sfx == ".txt" || s.sfx == ".text" then (callOnce s .textimage).map finish
    else .error .usage

/-! ### specification of loading: a table -/

/-- one row of the table of supported inputs: when it applies, and the library calls that may
deliver the image, in the order in which they are tried -/
structure Row where
  name : String
  guard : Source → Bool
  candidates : List Loader

def sniffIs (s : Source) (p : String → Bool) : Bool :=
  match s.sniff with
  | .ok fmt => p fmt
  | _ => false

def isThermo (fmt : String) : Bool := fmt == "columns" || fmt == "rows"

/-! when each row applies -/
def isAgilentBatch (s : Source) : Bool := s.isDir && s.sfx == ".b"
def isPerkinDir (s : Source) : Bool := s.isDir && s.sfx != ".b" && s.perkinValid
def isCsvDir (s : Source) : Bool := s.isDir && s.sfx != ".b" && !s.perkinValid && s.csvValid
def isNpzFile (s : Source) : Bool := !s.isDir && s.sfx == ".npz"
def isThermoCsv (s : Source) : Bool := !s.isDir && s.sfx == ".csv" && sniffIs s isThermo
def isTextImage (s : Source) : Bool :=
  !s.isDir && ((s.sfx == ".csv" && sniffIs s (fun f => !isThermo f)) || s.sfx == ".txt" || s.sfx == ".text")

def rowAgilent : Row :=
  { name := "Agilent batch: a directory named *.b (any case)",
    guard := isAgilentBatch, candidates := agilentMethods.map .agilent }
def rowPerkin : Row :=
  { name := "PerkinElmer directory: any other directory that holds *.xl files",
    guard := isPerkinDir, candidates := [.perkinelmer] }
def rowCsvDir : Row :=
  { name := "CSV directory: any other directory that holds *.csv files and no *.xl file",
    guard := isCsvDir, candidates := [.csvdir] }
def rowNpz : Row :=
  { name := "pew image: a file named *.npz (any case)",
    guard := isNpzFile, candidates := [.npz] }
def rowThermo : Row :=
  { name := "Thermo iCap CSV: a file named *.csv (any case) with 'MainRuns' in line 1 or 3",
    guard := isThermoCsv, candidates := [.thermo] }
def rowText : Row :=
  { name := "text image: any other readable *.csv file, or a file named *.txt / *.text (any case)",
    guard := isTextImage, candidates := [.textimage] }

/-- the supported inputs.  The guards exclude one another (`PewTheorems.C20.table_exclusive`), so
the order of the rows means nothing. -/
def table : List Row := [rowAgilent, rowPerkin, rowCsvDir, rowNpz, rowThermo, rowText]

/-- what the library call `ld` on this path gives, as the image `load` is to return: an .npz is
returned as stored; `(data, params)` become an image with the configuration rule `configSpec` -/
def Source.image (d : Tok × Tok × Tok) (s : Source) (ld : Loader) : Outcome Laser :=
  match ld with
  | .npz => s.npz
  | _ =>
    match s.call ld with
    | .ok x => .ok (x.toLaser (configSpec d.1 d.2.1 d.2.2))
    | .valueError => .valueError
    | .otherError => .otherError

def Outcome.isValueError {α} : Outcome α → Bool
  | .valueError => true
  | _ => false

def Outcome.isOther {α} : Outcome α → Bool
  | .otherError => true
  | _ => false

def okOf {α β} (x : α × Outcome β) : Option (α × β) :=
  match x.2 with
  | .ok b => some (x.1, b)
  | _ => none

/-- which of the attempted library calls delivers the image; `info` is how `load_info` ends for this
path (consulted after a successful Agilent call only: `Source.infoFor`).  Ordinarily the first call that does not end in a
`ValueError` decides: its result is the image, or its (other) exception ends the run.  When
`load_info` fails with a `ValueError`, every call is made — unless one ends in another exception —
and the last successful one delivers.  When `load_info` fails otherwise, the first successful call
is followed by that failure.  No successful call: usage error. -/
def choose {α} (info : Outcome Unit) (os : List (Loader × Outcome α)) : Except Fail (Loader × α) :=
  match info with
  | .valueError =>
    if os.any (·.2.isOther) then .error .crash
    else match (os.filterMap okOf).getLast? with
      | some x => .ok x
      | none => .error .usage
  | .ok _ =>
    match os.find? (fun o => !o.2.isValueError) with
    | none => .error .usage
    | some o =>
      match o.2 with
      | .ok a => .ok (o.1, a)
      | _ => .error .crash
  | .otherError =>
    match os.find? (fun o => !o.2.isValueError) with
    | none => .error .usage
    | some _ => .error .crash

/-- `load_info` is called for Agilent batches only -/
def Source.infoFor (s : Source) (row : Row) : Outcome Unit :=
  if row.candidates.all (fun ld => match ld with | .agilent _ => true | _ => false) then s.info else .ok ()

/-- the specification of `load`: a `.csv` file that cannot be sniffed is rejected; otherwise the
(at most one) row of the table that applies names the candidates and `choose` picks among their
outcomes; no row: the input is not supported (usage error, nothing is loaded) -/
def loadSpec (d : Tok × Tok × Tok) (s : Source) : Except Fail (Loader × Laser) :=
  match table.filter (·.guard s) with
  | [row] => choose (s.infoFor row) (row.candidates.map fun ld => (ld, s.image d ld))
  | _ =>
    if !s.isDir && s.sfx == ".csv" && s.sniff.isOther then .error .crash else .error .usage

/-! ### the front end of `main` -/

structure CmdLine where
  cmd : Cmd
  /-- `--calibrate` was given -/
  calibrate : Bool
  sources : List Source
  format : String
  output : Option Path
  isDir : Path → Bool
  /-- the fields of `Config()` -/
  defaults : Tok × Tok × Tok

/-- the arguments after `args.lasers = [load(input) for input in args.input]` -/
def CmdLine.args (c : CmdLine) (ls : List (Loader × Laser)) : Args :=
  { cmd := c.cmd, format := c.format, output := c.output, isDir := c.isDir,
    inputs := (c.sources.zip ls).map fun x => { path := x.1.path, present := x.1.present, laser := x.2.2 } }

/-- `main` from the command line on, with `load` and the rest as parameters: `check_exists` rejects a
missing input while the arguments are parsed; then every input is loaded, in order, and the first
failure ends the run (nothing has been written yet); `--calibrate` is an unknown option for
`convert` / `filter` and `raise NotImplementedError` in `stack`; then the run proper -/
def mainWith (load : Source → Except Fail (Loader × Laser)) (runner : Args → Result) (c : CmdLine) : Result :=
  if c.sources.any (fun s => !s.present) then ⟨.error, []⟩
  else
    match c.sources.mapM load with
    | .error _ => ⟨.error, []⟩
    | .ok ls => if c.calibrate then ⟨.error, []⟩ else runner (c.args ls)

/-- `main` -/
def mainRun (c : CmdLine) : Result := mainWith (loadMech c.defaults) run c

/-- what the property says of a command line -/
def specMain (c : CmdLine) : Result := mainWith (loadSpec c.defaults) specRun c

/-! ## storage types (`dtype`) of the fields

Every loader but `io.npz.load` returns float64 fields; an .npz keeps whatever its fields were stored
as (float32, integers, big-endian, …).  Values stay tokens of their float64 widening; what NumPy does
when a value is put into a field of another storage type is an opaque function (`Casting.cast`), as
is the type `np.concatenate` promotes to (`Casting.promote`, `np.result_type`). -/

/-- a storage type, by its NumPy name -/
abbrev DType := String

structure Casting where
  /-- the value a field of storage type `t` holds after `v` was assigned to it -/
  cast : DType → Tok → Tok
  /-- `np.result_type(*types)`: the type `np.concatenate` gives the joined field -/
  promote : List DType → DType

def Grid.map {α β} (f : α → β) (g : Grid α) : Grid β :=
  { h := g.h, w := g.w, get := fun i j => f (g.get i j) }

/-- a pixel (every field) put into fields of the storage types `ty` -/
def castPx (C : Casting) (ty : String → DType) (p : Px) : Px := fun n => C.cast (ty n) (p n)

/-- `__main__.stack` with the storage types: `np.pad(d, …, constant_values=pad)` holds the pad value
in the types of `d` itself; `np.concatenate` converts every padded input to the promoted types. -/
def stackT (C : Casting) (o : Orient) (pad : Tok) (ds : List (Grid Px × (String → DType))) :
    Option (Grid Px) :=
  let out : String → DType := fun n => C.promote (ds.map (·.2 n))
  match o with
  | .horizontal =>
    let maxY := maxOf (ds.map (·.1.h))
    concat hcat (ds.map fun d =>
      (d.1.pad (maxY - d.1.h) 0 (castPx C d.2 fun _ => pad)).map (castPx C out))
  | .vertical =>
    let maxX := maxOf (ds.map (·.1.w))
    concat vcat (ds.map fun d =>
      (d.1.pad 0 (maxX - d.1.w) (castPx C d.2 fun _ => pad)).map (castPx C out))

/-- the change C20-c2 (a preallocated output of the FIRST input's types, filled by slice assignment):
every value — of every input, and the pad value — is converted to the first input's types -/
def stackFirstT (C : Casting) (o : Orient) (pad : Tok) (ds : List (Grid Px × (String → DType))) :
    Option (Grid Px) :=
  match ds with
  | [] => none
  | d0 :: _ => (stack o (fun _ => pad) (ds.map (·.1))).map (Grid.map (castPx C d0.2))

/-- the type `np.concatenate` gives field `n` of the stack of inputs `0 … len-1` whose field types are `ty k` -/
def promotedType (C : Casting) (ty : Nat → String → DType) (len : Nat) (n : String) : DType :=
  C.promote ((List.range len).map fun k => ty k n)

def stackLasersT (C : Casting) (o : Orient) (pad : Tok) (ls : List (Laser × (String → DType))) : Option Laser :=
  match ls with
  | [] => none
  | l0 :: _ =>
    if ls.all (fun l => l.1.elements == l0.1.elements) then
      (stackT C o pad (ls.map fun l => (l.1.data, l.2))).map fun g =>
        { elements := l0.1.elements, data := g, config := l0.1.config, calib := l0.1.calib }
    else none

/-- `laser.data[element] = func(laser.data[element], …)`: the result of the filter is stored in the
field, i.e. converted to the field's storage type -/
def storedFilter (C : Casting) (ty : Nat → String → DType) (f : Nat → String → Grid Tok → Grid Tok) :
    Nat → String → Grid Tok → Grid Tok :=
  fun k e g => (f k e g).map (C.cast (ty k e))

/-- `main` with the storage types of the loaded images (`ty k` = field types of input `k`): `filter`
stores each result in its field, `stack` pads and promotes; `convert` moves no value -/
def runT (C : Casting) (ty : Nat → String → DType) (a : Args) : Result :=
  match a.cmd with
  | .convert _ _ => run a
  | .filter f sel => run { a with cmd := .filter (storedFilter C ty f) sel }
  | .stack o pad =>
    match parse a with
    | .error _ => ⟨.error, []⟩
    | .ok outs =>
      match stackLasersT C o pad ((enum (a.inputs.map (·.laser))).map fun x => (x.2, ty x.1)), outs with
      | some l, out :: _ =>
        match save l out with
        | .ok fs => ⟨.ok, fs⟩
        | .error _ => ⟨.error, []⟩
      | _, _ => ⟨.error, []⟩

/-- the conditions of `PewTheorems.C20.runT_refines_spec` on the storage types, for the arguments `a` -/
def TypesHold (C : Casting) (ty : Nat → String → DType) (a : Args) : Prop :=
  (∀ f sel, a.cmd = .filter f sel → ∀ k (hk : k < a.inputs.length),
    ∀ n ∈ a.inputs[k].laser.elements, ∀ i j,
      C.cast (ty k n) ((f k n (a.inputs[k].laser.field n)).get i j) = (f k n (a.inputs[k].laser.field n)).get i j) ∧
  (∀ o pad, a.cmd = .stack o pad →
    (∀ k, k < a.inputs.length → ∀ n, C.cast (ty k n) pad = pad) ∧
    (∀ n, C.cast (promotedType C ty a.inputs.length n) pad = pad) ∧
    (∀ k (hk : k < a.inputs.length) i j, i < a.inputs[k].laser.data.h → j < a.inputs[k].laser.data.w → ∀ n,
      C.cast (promotedType C ty a.inputs.length n) (a.inputs[k].laser.data.get i j n)
        = a.inputs[k].laser.data.get i j n))

/-- `main` from the paths on, with storage types -/
def mainRunT (C : Casting) (ty : Nat → String → DType) (c : CmdLine) : Result :=
  mainWith (loadMech c.defaults) (runT C ty) c

/-! ## objects: `args.lasers` holds references

`main` works on the OBJECTS `load` returned: `laser.config = …`, `laser.remove(…)` and
`laser.data[element] = …` change the object in place.  `heap` is the list of objects, a work item
names its object by index.  `create_parser_and_parse_args` builds `args.lasers = [load(input) for
input in args.input]`: one fresh object per command-line argument (`freshRefs`), also when a path is
named twice. -/

/-- one turn of the loop on the object itself: the object after the statements, and what is saved
(`none` = "skipping") -/
def stepObj (cmd : Cmd) (k : Nat) (l : Laser) : Laser × Option Laser :=
  match cmd with
  | .convert cfg els =>
    let l1 := match cfg with
      | some c => { l with config := c }
      | none => l
    match els with
    | none => (l1, some l1)
    | some req =>
      let l2 := l1.remove (l1.elements.filter fun e => !req.contains e)
      (l2, if l2.elements.length = 0 then none else some l2)
  | .filter f sel => let l' := filterStep (f k) sel l; (l', some l')
  | .stack _ _ => (l, none)

/-- the loop of `main` over `(input number, object reference, output)` -/
def loopRef (cmd : Cmd) : List (Nat × Nat × Path) → List Laser → List File → Result
  | [], _, acc => ⟨.ok, acc⟩
  | (k, r, out) :: rest, heap, acc =>
    match cmd, heap[r]? with
    | .stack _ _, _ => ⟨.error, acc⟩
    | _, none => ⟨.error, acc⟩
    | cmd, some l =>
      let (obj, saved) := stepObj cmd k l
      let heap' := heap.set r obj
      match saved with
      | none => loopRef cmd rest heap' acc
      | some l' =>
        match save l' out with
        | .ok fs => loopRef cmd rest heap' (acc ++ fs)
        | .error _ => ⟨.error, acc⟩

/-- `[load(input) for input in args.input]`: argument `k` is object `k` -/
def freshRefs (n : Nat) : List Nat := List.range n

/-- the change C20-c1 (`lasers: dict[Path, Laser]`, a path is loaded the first time it is seen):
argument `k` is the object of the first argument with the same path -/
def sharedRefs (paths : List Path) : List Nat := paths.map fun p => paths.idxOf p

/-- `main` on objects: argument `k` works on object `refs[k]` of the heap `load` filled; `stack`
changes no object (`np.pad` / `np.concatenate` build new arrays) -/
def runRef (refs : List Nat) (a : Args) : Result :=
  match parse a with
  | .error _ => ⟨.error, []⟩
  | .ok outs =>
    match a.cmd with
    | .stack _ _ => run a
    | cmd => loopRef cmd (enum (refs.zip outs)) (a.inputs.map (·.laser)) []

/-! ## what is on disk afterwards -/

/-- the files left after writing `fs` in order: a later file replaces an earlier one at the same path -/
def finalFiles : List File → List File
  | [] => []
  | f :: fs => if fs.any (fun g => g.path == f.path) then finalFiles fs else f :: finalFiles fs

/-- the content at path `p` after writing `fs` in order -/
def lastAt (fs : List File) (p : Path) : Option Content :=
  (fs.reverse.find? fun f => f.path == p).map (·.content)

end Pew.Cli
