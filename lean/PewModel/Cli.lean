/-!
# C20 — the command line (`pewlib/__main__.py`)

Data are 2-D grids of opaque value tokens (`Tok`; the harness sends the bit pattern of every
float64), a structured array is a grid of pixels `String → Tok` (field name ↦ value) together
with the ordered list of its field names, files are records.  The model follows the code:

* `deriveOutputs`   — `create_parser_and_parse_args`, lines 220-241 (output path derivation)
* `parse`           — the remaining argument checks (existing inputs, `choices` of `--format`,
                      element names against the union of all inputs)
* `convertStep`     — `main`, lines 353-370 (`--config`, `--elements`, skip when nothing is left)
* `filterStep`      — `main`, lines 372-384 (`args.filter_elements or laser.elements`, sequential
                      field assignment; requested elements the input lacks are skipped)
* `stack`           — `stack`, lines 294-311 (pad to the common size on the *other* axis, concatenate)
* `save`            — `save`, lines 260-278 (dispatch on the lower-cased suffix)
* `run`             — `main`

The filter itself is an opaque function parameter.  The specification side (`specOutputs`,
`restrictSpec`, `filterSpec`, `stackSpec`, `specRun`) says where files go and what they hold,
without following the control flow of the code.  `RunEq` / `FilesEq` (end of the file) say when two
results are the same — images are functions, so sameness is pointwise — and
`PewTheorems.C20.run_refines_spec` proves `RunEq (run a) (specRun a)` for every command line.
-/
namespace Pew.Cli

abbrev Tok := Int

/-! ## grids -/

structure Grid (α : Type) where
  h : Nat
  w : Nat
  get : Nat → Nat → α

inductive Orient | vertical | horizontal
  deriving DecidableEq, Repr

/-- `np.pad(d, ((0, dh), (0, dw)), constant_values=pad)` -/
def Grid.pad {α} (d : Grid α) (dh dw : Nat) (pad : α) : Grid α :=
  { h := d.h + dh, w := d.w + dw, get := fun i j => if i < d.h ∧ j < d.w then d.get i j else pad }

/-- `np.concatenate([a, b], axis=0)`: the widths must agree -/
def vcat {α} (a b : Grid α) : Option (Grid α) :=
  if a.w = b.w then
    some { h := a.h + b.h, w := a.w, get := fun i j => if i < a.h then a.get i j else b.get (i - a.h) j }
  else none

/-- `np.concatenate([a, b], axis=1)`: the heights must agree -/
def hcat {α} (a b : Grid α) : Option (Grid α) :=
  if a.h = b.h then
    some { h := a.h, w := a.w + b.w, get := fun i j => if j < a.w then a.get i j else b.get i (j - a.w) }
  else none

/-- `np.concatenate(list, axis)`: an empty list is an error -/
def concat {α} (cat : Grid α → Grid α → Option (Grid α)) : List (Grid α) → Option (Grid α)
  | [] => none
  | [g] => some g
  | g :: g' :: gs => (concat cat (g' :: gs)).bind (cat g)

/-- `max(... for d in datas)` -/
def maxOf : List Nat → Nat
  | [] => 0
  | x :: xs => max x (maxOf xs)

/-- `__main__.stack` on the data arrays (current code) -/
def stack {α} (o : Orient) (pad : α) (ds : List (Grid α)) : Option (Grid α) :=
  match o with
  | .horizontal =>
    let maxY := maxOf (ds.map (·.h))
    concat hcat (ds.map fun d => d.pad (maxY - d.h) 0 pad)
  | .vertical =>
    let maxX := maxOf (ds.map (·.w))
    concat vcat (ds.map fun d => d.pad 0 (maxX - d.w) pad)

/-- the code before 802513a: the common size and the pad amount were taken from the stacking axis -/
def stackOld {α} (o : Orient) (pad : α) (ds : List (Grid α)) : Option (Grid α) :=
  match o with
  | .horizontal =>
    let maxY := maxOf (ds.map (·.w))
    concat hcat (ds.map fun d => d.pad (maxY - d.w) 0 pad)
  | .vertical =>
    let maxX := maxOf (ds.map (·.h))
    concat vcat (ds.map fun d => d.pad 0 (maxX - d.h) pad)

/-! ### specification of stacking -/

/-- sum of the first `k` sizes: where input `k` starts along the stacking axis -/
def prefixSum (l : List Nat) (k : Nat) : Nat := (l.take k).sum

/-- which input covers position `r` along the stacking axis, and the position inside it -/
def locate : List Nat → Nat → Option (Nat × Nat)
  | [], _ => none
  | s :: ss, r => if r < s then some (0, r) else (locate ss (r - s)).map fun p => (p.1 + 1, p.2)

/-- every input unchanged at its stacked position, the pad value everywhere else -/
def stackSpec {α} (o : Orient) (pad : α) (ds : List (Grid α)) : Grid α :=
  match o with
  | .vertical =>
    { h := (ds.map (·.h)).sum, w := maxOf (ds.map (·.w)),
      get := fun r c =>
        match locate (ds.map (·.h)) r with
        | some (k, i) =>
          match ds[k]? with
          | some d => if c < d.w then d.get i c else pad
          | none => pad
        | none => pad }
  | .horizontal =>
    { h := maxOf (ds.map (·.h)), w := (ds.map (·.w)).sum,
      get := fun r c =>
        match locate (ds.map (·.w)) c with
        | some (k, j) =>
          match ds[k]? with
          | some d => if r < d.h then d.get r j else pad
          | none => pad
        | none => pad }

/-! ## paths -/

/-- a path as `pathlib` splits it: parent, stem and suffix of the final component -/
structure Path where
  dir : String
  stem : String
  suffix : String
  deriving DecidableEq, Repr, Inhabited

namespace Path
def name (p : Path) : String := p.stem ++ p.suffix
def full (p : Path) : String := p.dir ++ "/" ++ p.name
def withSuffix (p : Path) (s : String) : Path := { p with suffix := s }
def withStem (p : Path) (s : String) : Path := { p with stem := s }
/-- `d.joinpath(q.name)` -/
def join (d q : Path) : Path := { dir := d.full, stem := q.stem, suffix := q.suffix }
end Path

inductive Fail | usage | crash
  deriving DecidableEq, Repr

/-- `str.lower()` on the ASCII names the harness generates -/
def lower (s : String) : String := String.ofList (s.toList.map Char.toLower)

/-- lines 224-245: first the two `parser.error` checks on the kind of output, then the three-way
derivation -/
def deriveOutputs (isStack : Bool) (inputs : List Path) (format : String) (output : Option Path)
    (isDir : Path → Bool) : Except Fail (List Path) :=
  let rejected : Bool :=
    if isStack then
      match output with
      | none => true
      | some o => isDir o
    else
      match output with
      | none => false
      | some o => !isDir o && decide (inputs.length > 1)
  if rejected then .error .usage
  else
    match output with
    | none => .ok (inputs.map (·.withSuffix format))
    | some o =>
      if isDir o then .ok (inputs.map fun i => o.join (i.withSuffix format))
      else if lower o.suffix != format then .error .usage
      else .ok [o]

/-- where the property says outputs go; `none` = the combination is rejected -/
def specOutputs (isStack : Bool) (inputs : List Path) (format : String) (output : Option Path)
    (isDir : Path → Bool) : Option (List Path) :=
  match output with
  | none => if isStack then none else some (inputs.map fun i => { i with suffix := format })
  | some o =>
    if isDir o then
      if isStack then none else some (inputs.map fun i => { dir := o.full, stem := i.stem, suffix := format })
    else if (isStack ∨ inputs.length ≤ 1) ∧ lower o.suffix = format then some [o]
    else none

/-! ## lasers -/

/-- the stored form of a configuration: a raster `Config` (spotsize, speed, scantime) or a
`SpotConfig` (x and y distance between spots; its array form holds nothing else) -/
inductive Cfg
  | raster (spotsize speed scantime : Tok)
  | spot (x y : Tok)
  deriving DecidableEq, Repr

abbrev Px := String → Tok

structure Laser where
  elements : List String
  data : Grid Px
  config : Cfg

/-- `laser.data[e]` -/
def Laser.field (l : Laser) (e : String) : Grid Tok :=
  { h := l.data.h, w := l.data.w, get := fun i j => l.data.get i j e }

/-- `laser.data[e] = g` -/
def Laser.setField (l : Laser) (e : String) (g : Grid Tok) : Laser :=
  { l with data := { l.data with get := fun i j n => if n = e then g.get i j else l.data.get i j n } }

/-- `Laser.remove(names)`: `rfn.drop_fields` keeps the remaining fields in their order -/
def Laser.remove (l : Laser) (names : List String) : Laser :=
  { l with elements := l.elements.filter fun e => !names.contains e }

/-- the `spotsize` a loader reports: one number, or an (x, y) tuple (Nu Instruments directories) -/
inductive Spot
  | one (s : Tok)
  | two (x y : Tok)

/-- loader parameters (`full=True`) that `load` copies into the config (lines 62-72) -/
structure Params where
  spotsize : Option Spot
  speed : Option Tok
  scantime : Option Tok

/-- lines 62-72: a fresh `Config()` overlaid with the parameters the loader returned; an (x, y)
spot spacing gives a `SpotConfig` (speed and scantime assigned to it afterwards are not stored) -/
def configOf (dSpot dSpeed dScan : Tok) (p : Params) : Cfg :=
  match p.spotsize with
  | some (.two x y) => .spot x y
  | some (.one s) => .raster s (p.speed.getD dSpeed) (p.scantime.getD dScan)
  | none => .raster dSpot (p.speed.getD dSpeed) (p.scantime.getD dScan)

/-- lines 353-370; `none` = "skipping: no matching elements" -/
def convertStep (config : Option Cfg) (elements : Option (List String)) (l : Laser) : Option Laser :=
  let l := match config with
    | some c => { l with config := c }
    | none => l
  match elements with
  | none => some l
  | some req =>
    let remove := l.elements.filter fun e => !req.contains e
    let l := l.remove remove
    if l.elements.length = 0 then none else some l

/-- the image restricted to the requested elements, in the image's own order -/
def restrictSpec (config : Option Cfg) (elements : Option (List String)) (l : Laser) : Option Laser :=
  match elements with
  | none => some { l with config := config.getD l.config }
  | some req =>
    let els := l.elements.filter fun e => req.contains e
    if els = [] then none else some { elements := els, data := l.data, config := config.getD l.config }

/-- the body of the loop at lines 381-387: one field assignment; a requested element the input does
not have is skipped -/
def fstep (f : String → Grid Tok → Grid Tok) (l : Laser) (e : String) : Laser :=
  if l.elements.contains e then l.setField e (f e (l.field e)) else l

/-- lines 376-387: `elements = args.filter_elements or laser.elements`, then the loop -/
def filterStep (f : String → Grid Tok → Grid Tok) (sel : Option (List String)) (l : Laser) : Laser :=
  let elements := match sel with
    | none => l.elements
    | some s => if s.isEmpty then l.elements else s
  elements.foldl (fstep f) l

/-- is element `n` of image `l` selected by `--elements` (all elements when the option is absent) -/
def selected (sel : Option (List String)) (l : Laser) (n : String) : Bool :=
  l.elements.contains n && (match sel with
    | none => true
    | some s => s.isEmpty || s.contains n)

/-- selected elements hold the filter applied to the original field, everything else is unchanged -/
def filterSpec (f : String → Grid Tok → Grid Tok) (sel : Option (List String)) (l : Laser) : Laser :=
  let get : Nat → Nat → Px := fun i j n =>
    if selected sel l n then (f n (l.field n)).get i j else l.data.get i j n
  { l with data := { l.data with get := get } }

/-- `__main__.stack`: the arrays must have the same fields (otherwise `np.concatenate` fails);
config of the first input -/
def stackLasers (o : Orient) (pad : Tok) (ls : List Laser) : Option Laser :=
  match ls with
  | [] => none
  | l0 :: _ =>
    if ls.all (fun l => l.elements == l0.elements) then
      (stack o (fun _ => pad) (ls.map (·.data))).map fun g =>
        { elements := l0.elements, data := g, config := l0.config }
    else none

def stackLasersSpec (o : Orient) (pad : Tok) (ls : List Laser) : Option Laser :=
  match ls with
  | [] => none
  | l0 :: _ =>
    if ls.all (fun l => l.elements == l0.elements) then
      some { elements := l0.elements, data := stackSpec o (fun _ => pad) (ls.map (·.data)), config := l0.config }
    else none

/-! ## files -/

inductive Content
  | npz (l : Laser)
  | csv (g : Grid Tok)
  | vtk

structure File where
  path : Path
  content : Content

/-- lines 260-278 -/
def save (l : Laser) (p : Path) : Except Fail (List File) :=
  if lower p.suffix == ".csv" then
    pure (l.elements.map fun n => ⟨p.withStem (p.stem ++ "_" ++ n), .csv (l.field n)⟩)
  else if lower p.suffix == ".npz" then
    pure [⟨p, .npz l⟩]
  else if lower p.suffix == ".vtk" then
    pure [⟨p, .vtk⟩]
  else throw .crash

/-- the files the property expects for image `l` at output `p` in format `format` -/
def specFiles (format : String) (l : Laser) (p : Path) : List File :=
  if format = ".csv" then
    l.elements.map fun n => ⟨{ p with stem := p.stem ++ "_" ++ n }, .csv (l.field n)⟩
  else if format = ".npz" then [⟨p, .npz l⟩]
  else [⟨p, .vtk⟩]

/-! ## the whole run -/

structure Input where
  path : Path
  present : Bool
  laser : Laser

inductive Cmd
  | convert (config : Option Cfg) (elements : Option (List String))
  /-- `f k` is the library filter (type, window and threshold fixed) as applied to input `k` -/
  | filter (f : Nat → String → Grid Tok → Grid Tok) (sel : Option (List String))
  | stack (o : Orient) (pad : Tok)

def Cmd.isStack : Cmd → Bool
  | .stack _ _ => true
  | _ => false

/-- the `--elements` of the command, if any -/
def Cmd.requested : Cmd → Option (List String)
  | .convert _ e => e
  | .filter _ s => s
  | .stack _ _ => none

structure Args where
  cmd : Cmd
  inputs : List Input
  format : String
  output : Option Path
  isDir : Path → Bool

inductive Status | ok | error
  deriving DecidableEq, Repr

structure Result where
  status : Status
  files : List File

def validFormats : List String := [".csv", ".npz", ".vtk"]

/-- `create_parser_and_parse_args` after the loaders ran -/
def parse (a : Args) : Except Fail (List Path) := do
  if a.inputs.isEmpty then throw .usage                        -- nargs="+"
  if a.inputs.any (fun i => !i.present) then throw .usage      -- type=check_exists
  if !validFormats.contains a.format then throw .usage         -- choices=valid_formats
  let outs ← deriveOutputs a.cmd.isStack (a.inputs.map (·.path)) a.format a.output a.isDir
  let valid := a.inputs.flatMap (·.laser.elements)
  match a.cmd.requested with
  | some els => if !els.all valid.contains then throw .usage
  | none => pure ()
  pure outs

/-- the loop of `main` over `zip(lasers, inputs, outputs)`; files written so far stay on a failure -/
def loop (cmd : Cmd) : List (Nat × Laser × Path) → List File → Result
  | [], acc => ⟨.ok, acc⟩
  | (k, l, out) :: rest, acc =>
    match cmd with
    | .convert cfg els =>
      match convertStep cfg els l with
      | none => loop cmd rest acc
      | some l' =>
        match save l' out with
        | .ok fs => loop cmd rest (acc ++ fs)
        | .error _ => ⟨.error, acc⟩
    | .filter f sel =>
      match save (filterStep (f k) sel l) out with
      | .ok fs => loop cmd rest (acc ++ fs)
      | .error _ => ⟨.error, acc⟩
    | .stack _ _ => ⟨.error, acc⟩

def enum {α} (l : List α) : List (Nat × α) := (List.range l.length).zip l

/-- `main` -/
def run (a : Args) : Result :=
  match parse a with
  | .error _ => ⟨.error, []⟩
  | .ok outs =>
    match a.cmd with
    | .stack o pad =>
      match stackLasers o pad (a.inputs.map (·.laser)), outs with
      | some l, out :: _ =>
        match save l out with
        | .ok fs => ⟨.ok, fs⟩
        | .error _ => ⟨.error, []⟩
      | _, _ => ⟨.error, []⟩
    | cmd => loop cmd (enum ((a.inputs.map (·.laser)).zip outs)) []

/-- what the property says a run leaves behind -/
def specRun (a : Args) : Result :=
  let paths := a.inputs.map (·.path)
  let known (els : Option (List String)) : Bool :=
    match els with
    | none => true
    | some els => els.all fun e => a.inputs.any fun i => i.laser.elements.contains e
  if a.inputs.isEmpty || a.inputs.any (fun i => !i.present) || !validFormats.contains a.format
      || !known a.cmd.requested then ⟨.error, []⟩
  else
    match specOutputs a.cmd.isStack paths a.format a.output a.isDir with
    | none => ⟨.error, []⟩
    | some outs =>
      match a.cmd with
      | .stack o pad =>
        match stackLasersSpec o pad (a.inputs.map (·.laser)), outs with
        | some l, out :: _ => ⟨.ok, specFiles a.format l out⟩
        | _, _ => ⟨.error, []⟩
      | .convert cfg els =>
        ⟨.ok, ((a.inputs.map (·.laser)).zip outs).flatMap fun (l, out) =>
          match restrictSpec cfg els l with
          | none => []
          | some l' => specFiles a.format l' out⟩
      | .filter f sel =>
        ⟨.ok, (enum ((a.inputs.map (·.laser)).zip outs)).flatMap fun (k, l, out) =>
          specFiles a.format (filterSpec (f k) sel l) out⟩

/-- file `f` is the output `out` itself or one of its per-element text images -/
def placedAt (f : File) (out : Path) : Prop :=
  f.path = out ∨ ∃ n, f.path = { out with stem := out.stem ++ "_" ++ n }

/-! ## sameness of results

Images are functions, so "the run leaves behind what the specification says" cannot be an equation
between `Result`s; it is stated with the relations below: the same files in the same order, each at
the same path, of the same kind, with the same element names, configuration and shape, and the same
value at every pixel of the image (every field name). -/

/-- same shape, same value at every pixel inside the shape -/
def GridEq {α} (g g' : Grid α) : Prop :=
  g.h = g'.h ∧ g.w = g'.w ∧ ∀ i j, i < g.h → j < g.w → g.get i j = g'.get i j

/-- same element names in the same order, same configuration, same shape, and at every pixel inside
the shape the same value of every field -/
def LaserEq (l l' : Laser) : Prop :=
  l.elements = l'.elements ∧ l.config = l'.config ∧ GridEq l.data l'.data

def ContentEq : Content → Content → Prop
  | .npz l, .npz l' => LaserEq l l'
  | .csv g, .csv g' => GridEq g g'
  | .vtk, .vtk => True
  | _, _ => False

def FileEq (f f' : File) : Prop := f.path = f'.path ∧ ContentEq f.content f'.content

/-- the same files, in the same order -/
def FilesEq : List File → List File → Prop
  | [], [] => True
  | f :: fs, f' :: fs' => FileEq f f' ∧ FilesEq fs fs'
  | _, _ => False

/-- same exit status, same files -/
def RunEq (r r' : Result) : Prop := r.status = r'.status ∧ FilesEq r.files r'.files

/-- what the property expects of one turn of the loop of `main` for input number `k`: the image the
library calls give (`none` = skipped), ... -/
def specStep (cmd : Cmd) (k : Nat) (l : Laser) : Option Laser :=
  match cmd with
  | .convert cfg els => restrictSpec cfg els l
  | .filter f sel => some (filterSpec (f k) sel l)
  | .stack _ _ => none

/-- ... and its files at output `out`, in the format the suffix of `out` names -/
def specItem (cmd : Cmd) (x : Nat × Laser × Path) : List File :=
  match specStep cmd x.1 x.2.1 with
  | none => []
  | some l' => specFiles (lower x.2.2.suffix) l' x.2.2

end Pew.Cli
