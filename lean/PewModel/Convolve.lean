/-!
# C18 — convolution, kernels, special-function approximations (`pewlib.process.convolve`) — partial

Exact arithmetic over `Rat`: the pad-mode convolution, the series division that the frequency-domain
deconvolution computes when nothing wraps, Python's slice `[: len c − len psf − 1]` (negative stops included),
`linspace`, normalisation by the sum and the stacking into (x, weight) rows, the rational error-function
approximation, the polynomial-with-recursion gamma approximation and the triangular density — these parts of
the code are rational functions of their inputs and are modelled as coded.

The other eight kernel generators are modelled as coded *around* `exp`, `log`, real powers and `sqrt(2π)`
(`Special`: these are parameters with values in any type with the field operations): the density formulas, the
axis, the evaluation of the density on it, the division by the sum, the stacking (`generatorWith`).  `erfinv` is modelled as coded around its transcendental pieces (`erfinvWith`: π, log1p
and sqrt are parameters, `Transc`).  The *accuracy* of the approximations against the true transcendental
functions is not modelled; the harness validates it numerically (see `harness/c18.py`).  Positivity of the
eight densities is proved from positivity of `exp` and of real powers (`PewTheorems/C18.lean`).
-/
namespace Pew.Convolve

def at0 (l : List Rat) (i : Nat) : Rat := l.getD i 0

/-! ## pad-mode convolution -/

/-- `np.pad(x, (l, r), mode="edge")` -/
def padEdge (x : List Rat) (l r : Nat) : List Rat :=
  List.replicate l (x.headD 0) ++ x ++ List.replicate r (x.getLastD 0)

/-- `np.convolve(a, v, mode="valid")` for `len a ≥ len v ≥ 1`:
`out[k] = Σ_j v[j] · a[k + m − 1 − j]`, `k = 0 .. len a − len v` -/
def convValidGe (a v : List Rat) : List Rat :=
  (List.range (a.length + 1 - v.length)).map (fun k =>
    ((List.range v.length).map (fun j => at0 v j * at0 a (k + v.length - 1 - j))).sum)

/-- numpy swaps the arguments when the second one is longer -/
def convValid (a v : List Rat) : List Rat :=
  if a.length < v.length then convValidGe v a else convValidGe a v

/-- `convolve(x, psf, mode="pad")` -/
def convolvePad (x psf : List Rat) : List Rat :=
  let m := psf.length
  convValid (padEdge x (m / 2) (m / 2 + m % 2 - 1)) psf

/-- specification: ordinary (full) convolution, entry `t` -/
def fullConvAt (x psf : List Rat) (t : Nat) : Rat :=
  ((List.range psf.length).map (fun j => if j ≤ t then at0 psf j * at0 x (t - j) else 0)).sum

def fullConv (x psf : List Rat) : List Rat :=
  (List.range (x.length + psf.length - 1)).map (fullConvAt x psf)

/-- specification of the whole pad-mode result, edges included: entry `k` is the ordinary convolution of the
kernel with the signal continued by its first / last sample (`np.pad(mode="edge")`), i.e. with the index clamped
into `0 .. n − 1`:  `Σ_j psf[j] · x[clamp(k + (m − 1 − m/2) − j)]` -/
def clampIdx (n : Nat) (i : Int) : Nat := if i < 0 then 0 else if (n : Int) ≤ i then n - 1 else i.toNat

def padConvAt (x psf : List Rat) (k : Nat) : Rat :=
  ((List.range psf.length).map (fun j =>
    at0 psf j * at0 x (clampIdx x.length ((k : Int) + ((psf.length - 1 - psf.length / 2 : Nat) : Int) - (j : Int))))).sum

def padConvSpec (x psf : List Rat) : List Rat := (List.range x.length).map (padConvAt x psf)

/-! ## deconvolution -/

/-- first `r` coefficients of the power-series quotient `c / psf` — what
`irfft(rfft(c, r) / rfft(psf, r), r)` equals when the quotient has fewer than `r` coefficients and the
spectrum of `psf` has no zero (trusted) -/
def seriesDiv (c psf : List Rat) : Nat → List Rat
  | 0 => []
  | r + 1 =>
    let q := seriesDiv c psf r
    q ++ [(at0 c r - ((List.range psf.length).map (fun j =>
      if 1 ≤ j ∧ j ≤ r then at0 psf j * at0 q (r - j) else 0)).sum) / at0 psf 0]

/-- `1 << (n - 1).bit_length()`: the smallest power of two ≥ n for n ≥ 1 (and 2 for n = 0, because
`(-1).bit_length() = 1`) -/
def nextPow2 (n : Nat) : Nat := if n = 0 then 2 else if n = 1 then 1 else 2 ^ (Nat.log2 (n - 1) + 1)

/-- Python's `l[:k]` for any integer `k`: the first `k` items when `k ≥ 0`, all but the last `−k` items when
`k < 0`, both clamped to the list -/
def pySliceTo {α : Type} (l : List α) (k : Int) : List α :=
  if 0 ≤ k then l.take k.toNat else l.take (l.length - (-k).toNat)

/-- `deconvolve(c, psf, mode="valid")`: `np.real(y)[: c.size - psf.size - 1]` with `y` the `r` coefficients of
the quotient (no `np.trim_zeros` since /repo 5e4648b: an exactly zero sample is part of the signal) -/
def deconvolve (c psf : List Rat) : List Rat :=
  let r := nextPow2 (max c.length psf.length)
  pySliceTo (seriesDiv c psf r) ((c.length : Int) - (psf.length : Int) - 1)

/-- `deconvolve(c, psf, mode="same")`: `np.hstack((rec, c[rec.size:]))` -/
def deconvolveSame (c psf : List Rat) : List Rat :=
  let rec_ := deconvolve c psf
  rec_ ++ c.drop rec_.length

/-- the quotient `c / psf` has fewer than `r` coefficients: the product of its first `r` coefficients with
`psf` is `c` again (trailing zeros aside).  Then, and only then, the trusted statement "the FFT quotient is the
series quotient" applies; the driver reports this for every case. -/
def quotientTerminates (c psf : List Rat) : Bool :=
  let r := nextPow2 (max c.length psf.length)
  let q := seriesDiv c psf r
  (List.range (r + psf.length)).all (fun t => fullConvAt q psf t == at0 c t)

/-! ## linspace and normalisation -/

/-- `np.linspace(a, b, n)`: `arange(n) * step + a` with the last entry overwritten by `b` -/
def linspace (a b : Rat) (n : Nat) : List Rat :=
  (List.range n).map (fun (i : Nat) =>
    if 1 < n ∧ i + 1 = n then b else a + (i : Rat) * ((b - a) / ((n : Rat) - 1)))

/-- `y / y.sum()` -/
def normalise (y : List Rat) : List Rat :=
  let s := y.sum      -- formed once, as in the code
  y.map (· / s)

/-- `y / y.sum()` for values in any type with `+`, `0`, `/` (the real-valued densities) -/
def normaliseK {K : Type} [Add K] [Zero K] [Div K] (y : List K) : List K :=
  let s := y.sum
  y.map (· / s)

/-- REGRESSION mechanism (seeded change C18-c2, not the code): `y / max(y.sum(), t)` — the divisor floored at a
positive constant `t` (`np.finfo(float).tiny`) "so that an all-zero density does not divide by zero".  Unlike
`normalise` it is not invariant under a change of the magnitude of the densities (`normaliseFloor_sum`). -/
def normaliseFloor (t : Rat) (y : List Rat) : List Rat := y.map (· / (if y.sum < t then t else y.sum))

/-- `np.stack((x, w), axis=1)`: one row `[x_i, w_i]` per axis point -/
def stackCols {K : Type} (x : List Rat) (w : List K) : List (Rat × K) := x.zip w

/-- the common body of the nine generators: `y = pdf(x); np.stack((x, y / y.sum()), axis=1)` -/
def kernelWith {K : Type} [Add K] [Zero K] [Div K] (axis : List Rat) (pdf : Rat → K) : List (Rat × K) :=
  stackCols axis (normaliseK (axis.map pdf))

/-! ## error function (Abramowitz–Stegun 7.1.27 as coded) -/

def sgn (x : Rat) : Rat := if 0 < x then 1 else if x < 0 then -1 else 0

def absR (x : Rat) : Rat := if 0 ≤ x then x else -x

/-- `Σ a_i x^i`, i = 1..4 -/
def erfSum (x : Rat) : Rat :=
  (278393 / 1000000 : Rat) * x + (230389 / 1000000 : Rat) * x ^ 2
    + (972 / 1000000 : Rat) * x ^ 3 + (78108 / 1000000 : Rat) * x ^ 4

/-- `sign * (1 - 1 / (1 + sum(|x|)) ** 4)` -/
def erfApprox (x : Rat) : Rat := sgn x * (1 - 1 / (1 + erfSum (absR x)) ^ 4)

/-! ## inverse error function (Winitzki, as coded, around its transcendental pieces) -/

/-- the pieces of `erfinv` that are not rational functions, as parameters: the embedding of the float
constants, π, `np.log1p` (applied to the rational `-x * x`) and `np.sqrt` -/
structure Transc (K : Type) where
  ofRat : Rat → K
  pi : K
  log1p : Rat → K
  sqrt : K → K

/-- `erfinv(x)` as coded:
`sign = np.sign(x); l = np.log1p(-x * x); tt1 = 2.0 / (np.pi * 0.14) + 0.5 * l; tt2 = 1.0 / 0.14 * l;`
`sign * np.sqrt(-tt2 / (tt1 + np.sqrt(tt1 * tt1 - tt2)))` -/
def erfinvWith {K : Type} [Add K] [Sub K] [Mul K] [Div K] [Neg K] (T : Transc K) (x : Rat) : K :=
  let sign := T.ofRat (sgn x)
  let l := T.log1p (-x * x)
  let tt1 := T.ofRat 2 / (T.pi * T.ofRat (14 / 100)) + T.ofRat (1 / 2) * l
  let tt2 := T.ofRat 1 / T.ofRat (14 / 100) * l
  sign * T.sqrt (-tt2 / (tt1 + T.sqrt (tt1 * tt1 - tt2)))

/-! ## gamma function (Abramowitz–Stegun 6.1.36 polynomial with recursion, as coded) -/

def gammaCoef : List Rat :=
  [1, -577191652 / 1000000000, 988205891 / 1000000000, -897056937 / 1000000000,
   918206857 / 1000000000, -756704078 / 1000000000, 482199394 / 1000000000,
   -193527818 / 1000000000, 35868343 / 1000000000]

/-- `np.sum(b * np.power(z, np.arange(9)))` -/
def gammaPoly (z : Rat) : Rat :=
  ((List.range 9).map (fun (i : Nat) => at0 gammaCoef i * z ^ i)).sum

/-- `np.prod(z + np.arange(1, k))` -/
def risingProd (z : Rat) (k : Nat) : Rat :=
  ((List.range (k - 1)).map (fun (i : Nat) => z + ((i + 1 : Nat) : Rat))).foldl (· * ·) 1

/-- `z = x % 1.0; n = 1 / x if x < 1 else prod(z + arange(1, int(x - z))); n * poly(z)` for x > 0 -/
def gammaApprox (x : Rat) : Rat :=
  let k := x.floor.toNat
  let z := x - (x.floor : Rat)
  (if x < 1 then 1 / x else risingProd z k) * gammaPoly z

/-- specification of the gamma function at the positive integers, Γ(n + 1) = n! — the value every integer
argument must give whatever type carries it (Python `int`, a numpy integer or float scalar, a 0-d array) -/
def fact : Nat → Nat
  | 0 => 1
  | n + 1 => (n + 1) * fact n

/-! ## triangular density (rational, modelled completely) -/

/-- `triangular_pdf(x, a, b)` on one point -/
def triangularPdf (a b x : Rat) : Rat :=
  if x < a ∨ b < x then 0
  else if x = 0 then 2 / (b - a)
  else if x < 0 then (2 * (x - a)) / (a * (a - b))
  else (2 * (b - x)) / (b * (b - a))

/-- axis used by the symmetric generators: `linspace(-size*0.5*scale + shift, size*0.5*scale + shift, size)` -/
def axisSym (size : Nat) (scale shift : Rat) : List Rat :=
  linspace (-(size : Rat) * (1 / 2) * scale + shift) ((size : Rat) * (1 / 2) * scale + shift) size

/-- axis used by the one-sided generators: `linspace(shift, size*scale + shift, size)` -/
def axisPos (size : Nat) (scale shift : Rat) : List Rat :=
  linspace shift ((size : Rat) * scale + shift) size

/-- axis of the beta generator: `linspace(shift, 1.0*scale + shift, size)` -/
def axisUnit (size : Nat) (scale shift : Rat) : List Rat :=
  linspace shift (1 * scale + shift) size

/-- which of the three axes a generator samples -/
inductive AxisKind where
  | unit | pos | sym
  deriving DecidableEq, Repr

def axisOf : AxisKind → Nat → Rat → Rat → List Rat
  | .unit => axisUnit
  | .pos => axisPos
  | .sym => axisSym

/-- a kernel generator around its density: the axis of its kind, the density on it, the division by the sum,
the (x, weight) rows -/
def generatorWith {K : Type} [Add K] [Zero K] [Div K] (kind : AxisKind) (pdf : Rat → K)
    (size : Nat) (scale shift : Rat) : List (Rat × K) :=
  kernelWith (axisOf kind size scale shift) pdf

/-- `triangular(size, a, b, scale, shift)`, modelled completely -/
def triangular (size : Nat) (a b scale shift : Rat) : List (Rat × Rat) :=
  generatorWith .sym (triangularPdf a b) size scale shift

/-! ## the other eight generators, as coded around `exp`, `log`, real powers and `sqrt(2π)`

The functions that are not rational are parameters (`Special`), with values in any type `K` that has the field
operations; everything else — which expression is handed to them, the constants, the gamma approximation
inside `beta_pdf` and `inversegamma_pdf`, the axis, the normalisation — is as coded.  Float expressions whose
operands are all rational (`-_lambda * x`, `(x - mu) / sigma`, …) stay rational and are embedded once. -/

structure Special (K : Type) where
  ofRat : Rat → K
  /-- `np.exp` -/
  exp : K → K
  /-- `np.log` -/
  log : K → K
  /-- `x ** y` for floats -/
  rpow : K → K → K
  /-- `np.abs` on a value that is not rational -/
  abs : K → K
  /-- `_s2pi = np.sqrt(2.0 * np.pi)` -/
  s2pi : K

section densities
variable {K : Type} [Add K] [Sub K] [Mul K] [Div K] [Neg K] (S : Special K)

/-- `_lambda * np.exp(-_lambda * x)` -/
def exponentialPdf (lam x : Rat) : K := S.ofRat lam * S.exp (S.ofRat (-lam * x))

/-- `(1.0 / (2.0 * b)) * np.exp(-np.abs(x - mu) / b)` -/
def laplacePdf (b mu x : Rat) : K := S.ofRat (1 / (2 * b)) * S.exp (S.ofRat (-absR (x - mu) / b))

/-- `1.0 / (sigma * _s2pi) * np.exp(-0.5 * ((x - mu) / sigma) ** 2)` -/
def normalPdf (sigma mu x : Rat) : K :=
  S.ofRat 1 / (S.ofRat sigma * S.s2pi) * S.exp (S.ofRat (-(1 / 2) * ((x - mu) / sigma) ^ 2))

/-- `1.0 / (sigma * _s2pi) * np.exp(-0.5 * ((x - mu) / sigma) ** (2 * power))` for an integer `power` -/
def superGaussianPdf (sigma mu : Rat) (power : Nat) (x : Rat) : K :=
  S.ofRat 1 / (S.ofRat sigma * S.s2pi) * S.exp (S.ofRat (-(1 / 2) * ((x - mu) / sigma) ^ (2 * power)))

/-- `1.0 / (x * sigma * _s2pi) * np.exp(-0.5 * ((np.log(x) - mu) / sigma) ** 2)` -/
def lognormalPdf (sigma mu x : Rat) : K :=
  let t := (S.log (S.ofRat x) - S.ofRat mu) / S.ofRat sigma
  S.ofRat 1 / (S.ofRat (x * sigma) * S.s2pi) * S.exp (-(S.ofRat (1 / 2)) * (t * t))

/-- `1.0 / (2.0 * b * x) * np.exp(-np.abs(np.log(x) - mu) / b)` -/
def loglaplacePdf (b mu x : Rat) : K :=
  S.ofRat (1 / (2 * b * x)) * S.exp (-(S.abs (S.log (S.ofRat x) - S.ofRat mu)) / S.ofRat b)

/-- `((beta**alpha) / gamma(alpha)) * x ** (-alpha - 1.0) * np.exp(-beta / x)`; `gamma` is pewlib's approximation -/
def inversegammaPdf (alpha beta x : Rat) : K :=
  (S.rpow (S.ofRat beta) (S.ofRat alpha) / S.ofRat (gammaApprox alpha))
    * S.rpow (S.ofRat x) (S.ofRat (-alpha - 1)) * S.exp (S.ofRat (-beta / x))

/-- `B = (gamma(alpha) * gamma(beta)) / gamma(alpha + beta); x ** (alpha - 1.0) * (1.0 - x) ** (beta - 1.0) / B` -/
def betaPdf (alpha beta x : Rat) : K :=
  S.rpow (S.ofRat x) (S.ofRat (alpha - 1)) * S.rpow (S.ofRat (1 - x)) (S.ofRat (beta - 1))
    / S.ofRat (gammaApprox alpha * gammaApprox beta / gammaApprox (alpha + beta))

end densities

section generators
variable {K : Type} [Add K] [Sub K] [Mul K] [Div K] [Neg K] [Zero K] (S : Special K)

def beta (size : Nat) (alpha beta_ scale shift : Rat) : List (Rat × K) :=
  generatorWith .unit (betaPdf S alpha beta_) size scale shift
def exponential (size : Nat) (lam scale shift : Rat) : List (Rat × K) :=
  generatorWith .pos (exponentialPdf S lam) size scale shift
def inversegamma (size : Nat) (alpha beta_ scale shift : Rat) : List (Rat × K) :=
  generatorWith .pos (inversegammaPdf S alpha beta_) size scale shift
def laplace (size : Nat) (b mu scale shift : Rat) : List (Rat × K) :=
  generatorWith .sym (laplacePdf S b mu) size scale shift
def loglaplace (size : Nat) (b mu scale shift : Rat) : List (Rat × K) :=
  generatorWith .pos (loglaplacePdf S b mu) size scale shift
def lognormal (size : Nat) (sigma mu scale shift : Rat) : List (Rat × K) :=
  generatorWith .pos (lognormalPdf S sigma mu) size scale shift
def normal (size : Nat) (sigma mu scale shift : Rat) : List (Rat × K) :=
  generatorWith .sym (normalPdf S sigma mu) size scale shift
def superGaussian (size : Nat) (sigma mu : Rat) (power : Nat) (scale shift : Rat) : List (Rat × K) :=
  generatorWith .sym (superGaussianPdf S sigma mu power) size scale shift

end generators

/-! ## the factors of the eight densities, and when a double-precision evaluation is trusted to be positive

Each density is a product of a few factors (`*_factors_prod`, `PewTheorems/C18.lean`).  A floating-point evaluation
multiplies them in some order; every intermediate value is the product of a sub-collection of the factors
(`subProducts`).  `robustFactors`: every such product lies between 8 steps of the subnormal grid and 2¹⁰⁰⁰ — then no
order of multiplication underflows to 0 or overflows, and the sampled density is a positive double however small
(normal or SUBNORMAL).  This is how the check decides "the float sum of the densities is positive" for kernels in
the far tail without looking at the implementation's intermediate values. -/

section factors
variable {K : Type} [Add K] [Sub K] [Mul K] [Div K] [Neg K] (S : Special K)

def exponentialFactors (lam x : Rat) : List K := [S.ofRat lam, S.exp (S.ofRat (-lam * x))]
def laplaceFactors (b mu x : Rat) : List K := [S.ofRat (1 / (2 * b)), S.exp (S.ofRat (-absR (x - mu) / b))]
def normalFactors (sigma mu x : Rat) : List K :=
  [S.ofRat 1 / (S.ofRat sigma * S.s2pi), S.exp (S.ofRat (-(1 / 2) * ((x - mu) / sigma) ^ 2))]
def superGaussianFactors (sigma mu : Rat) (power : Nat) (x : Rat) : List K :=
  [S.ofRat 1 / (S.ofRat sigma * S.s2pi), S.exp (S.ofRat (-(1 / 2) * ((x - mu) / sigma) ^ (2 * power)))]
def lognormalFactors (sigma mu x : Rat) : List K :=
  let t := (S.log (S.ofRat x) - S.ofRat mu) / S.ofRat sigma
  [S.ofRat 1 / (S.ofRat (x * sigma) * S.s2pi), S.exp (-(S.ofRat (1 / 2)) * (t * t))]
def loglaplaceFactors (b mu x : Rat) : List K :=
  [S.ofRat (1 / (2 * b * x)), S.exp (-(S.abs (S.log (S.ofRat x) - S.ofRat mu)) / S.ofRat b)]
/-- `beta**alpha / gamma(alpha)`, `x ** (-alpha - 1)`, `exp(-beta / x)`: the three multiplicands of the code -/
def inversegammaFactors (alpha beta x : Rat) : List K :=
  [S.rpow (S.ofRat beta) (S.ofRat alpha) / S.ofRat (gammaApprox alpha),
   S.rpow (S.ofRat x) (S.ofRat (-alpha - 1)), S.exp (S.ofRat (-beta / x))]
/-- `x ** (alpha - 1)`, `(1 - x) ** (beta - 1)`, `1 / B`: the multiplicands of the code (the division by `B` as a
multiplication by its reciprocal) -/
def betaFactors (alpha beta x : Rat) : List K :=
  [S.rpow (S.ofRat x) (S.ofRat (alpha - 1)), S.rpow (S.ofRat (1 - x)) (S.ofRat (beta - 1)),
   S.ofRat 1 / S.ofRat (gammaApprox alpha * gammaApprox beta / gammaApprox (alpha + beta))]

end factors

/-- the products of all sub-collections of a list of factors (the empty product 1 included) -/
def subProducts : List Rat → List Rat
  | [] => [1]
  | f :: fs => subProducts fs ++ (subProducts fs).map (f * ·)

/-- 8 steps of the subnormal grid of binary64 (`2⁻¹⁰⁷⁴` is the smallest positive double; a product of at most four
factors is off by at most four steps there, one per rounding) -/
def tailLo : Rat := 8 / 2 ^ 1074
/-- `2¹⁰⁰⁰`, a factor `2²⁴` below the overflow threshold of binary64 -/
def tailHi : Rat := 2 ^ 1000

/-- every product of a sub-collection of the factors is a positive double with room to spare -/
def robustFactors (fs : List Rat) : Bool := (subProducts fs).all (fun p => decide (tailLo ≤ p) && decide (p ≤ tailHi))

/-- some product of a sub-collection of the factors is (in magnitude) above `2¹⁰⁰⁰` -/
def overflowFactors (fs : List Rat) : Bool := (subProducts fs).any (fun p => decide (tailHi < absR p))

end Pew.Convolve
