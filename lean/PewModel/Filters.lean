/-!
# C13 — rolling mean / rolling median filters (`pewlib.process.filters`)

Mechanism (shaped like the code): `np.pad` in `mean` / `median` mode with `stat_length = half`
(axis by axis: the pad value of a line is the statistic of the `half` edge values of that line; the
second axis is padded on the already padded rows, so corners are statistics of statistics), the
stride-1 window view of `calc.view_as_blocks`, the window mean, the centre-masked mean and
population variance, the outlier test and `np.where`.  For the median filter: window medians,
absolute differences, their padded window median times 1.4826.

Specification: per pixel, written directly on the input image — the `2h+1` neighbours of an
interior pixel, the neighbours without the pixel itself; for border pixels the range of the real
pixels that lie in the window.

All values are exact `Rat`.  The outlier test of the mean filter `|x-m| > t·σ` is kept in squared
form `(x-m)² > t²·σ²` (equivalent for `t ≥ 0`), so no square root is needed.  An infinite threshold
is `none` and never flags a pixel (`inf·σ` is `inf` or NaN; both compare false).
-/
namespace Pew.Filters

/-! ## statistics -/

def mean (l : List Rat) : Rat := l.sum / (l.length : Rat)

/-- population variance (`np.std(...)**2`, ddof = 0) -/
def popvar (l : List Rat) : Rat := mean (l.map (fun v => (v - mean l) * (v - mean l)))

def sort (l : List Rat) : List Rat := l.mergeSort (fun a b => decide (a ≤ b))

/-- `np.median`: middle order statistic, or the mean of the two middle ones -/
def median (l : List Rat) : Rat :=
  let s := sort l
  if l.length % 2 = 1 then s.getD (l.length / 2) 0
  else (s.getD (l.length / 2 - 1) 0 + s.getD (l.length / 2) 0) / 2

def absR (q : Rat) : Rat := if q < 0 then -q else q

/-- 1.4826 as the float64 the code multiplies with -/
def madK : Rat := (6677036807539497 : Rat) / 4503599627370496

/-! ## padding and windows -/

/-- `l[i : i+b]` -/
def slice {α} (i b : Nat) (l : List α) : List α := (l.drop i).take b

def padEnds {α} (h : Nat) (a c : α) (x : List α) : List α :=
  List.replicate h a ++ x ++ List.replicate h c

/-- `np.pad(x, (h, h), mode=stat, stat_length=(h, h))` along one line -/
def pad1 (stat : List Rat → Rat) (h : Nat) (x : List Rat) : List Rat :=
  padEnds h (stat (x.take h)) (stat (x.drop (x.length - h))) x

def column (rows : List (List Rat)) (j : Nat) : List Rat := rows.map (fun r => r.getD j 0)

/-- the statistic of every column of a block of rows -/
def colStat (stat : List Rat → Rat) (n1 : Nat) (rows : List (List Rat)) : List Rat :=
  (List.range n1).map (fun j => stat (column rows j))

/-- 2-D `np.pad`: axis 0 first (on the original columns), then axis 1 on every row of the result -/
def pad2 (stat : List Rat → Rat) (h0 h1 : Nat) (x : List (List Rat)) : List (List Rat) :=
  let n1 := (x.headD []).length
  (padEnds h0 (colStat stat n1 (x.take h0)) (colStat stat n1 (x.drop (x.length - h0))) x).map
    (pad1 stat h1)

/-- `view_as_blocks(p, (b,), (1,))`: `(len - b) // 1 + 1 = len + 1 - b` windows (none when the line is shorter than `b`) -/
def windows1 (b : Nat) (p : List Rat) : List (List Rat) :=
  (List.range (p.length + 1 - b)).map (fun i => slice i b p)

def window2 (i j b0 b1 : Nat) (p : List (List Rat)) : List (List Rat) :=
  (slice i b0 p).map (slice j b1)

def windows2 (b0 b1 : Nat) (p : List (List Rat)) : List (List (List (List Rat))) :=
  (List.range (p.length + 1 - b0)).map (fun i =>
    (List.range ((p.headD []).length + 1 - b1)).map (fun j => window2 i j b0 b1 p))

/-- the window with the centre `mask[block // 2] = False` taken out, in row-major order -/
def maskCentre2 (h0 h1 : Nat) (w : List (List Rat)) : List Rat :=
  (w.modify h0 (fun r => r.eraseIdx h1)).flatten

/-! ## one pixel -/

/-- what is known about a pixel before the threshold is applied: its value, the deviation `d`
(mean filter: `x - mean`, median filter: `|x - median|`), the spread `s` (mean filter: variance
without the centre; median filter: MAD·1.4826) and the replacement -/
structure Cell where
  x : Rat
  d : Rat
  s : Rat
  repl : Rat
  deriving Repr, DecidableEq

/-- mean filter: `|d| > t·σ` in squared form -/
def Cell.outlierSq (c : Cell) : Option Rat → Bool
  | none => false
  | some t => decide (c.d * c.d > t * t * c.s)

/-- median filter: `d > t·s` -/
def Cell.outlierLin (c : Cell) : Option Rat → Bool
  | none => false
  | some t => decide (c.d > t * c.s)

def Cell.outSq (c : Cell) (t : Option Rat) : Rat := if c.outlierSq t then c.repl else c.x
def Cell.outLin (c : Cell) (t : Option Rat) : Rat := if c.outlierLin t then c.repl else c.x

def meanCell (xi : Rat) (w masked : List Rat) : Cell :=
  { x := xi, d := xi - mean w, s := popvar masked, repl := mean masked }

/-! ## mechanism: rolling mean -/

def meanCells1 (b : Nat) (x : List Rat) : List Cell :=
  List.zipWith (fun xi w => meanCell xi w (w.eraseIdx (b / 2))) x (windows1 b (pad1 mean (b / 2) x))

def rollingMean1 (b : Nat) (t : Option Rat) (x : List Rat) : List Rat :=
  (meanCells1 b x).map (fun c => c.outSq t)

def meanCells2 (b0 b1 : Nat) (x : List (List Rat)) : List (List Cell) :=
  List.zipWith (fun row wrow =>
      List.zipWith (fun xi w => meanCell xi w.flatten (maskCentre2 (b0 / 2) (b1 / 2) w)) row wrow)
    x (windows2 b0 b1 (pad2 mean (b0 / 2) (b1 / 2) x))

def rollingMean2 (b0 b1 : Nat) (t : Option Rat) (x : List (List Rat)) : List (List Rat) :=
  (meanCells2 b0 b1 x).map (fun r => r.map (fun c => c.outSq t))

/-! ## mechanism: rolling median -/

def medians1 (b : Nat) (x : List Rat) : List Rat :=
  (windows1 b (pad1 median (b / 2) x)).map median

def diffs1 (b : Nat) (x : List Rat) : List Rat :=
  List.zipWith (fun xi m => absR (xi - m)) x (medians1 b x)

def mads1 (b : Nat) (x : List Rat) : List Rat :=
  (windows1 b (pad1 median (b / 2) (diffs1 b x))).map (fun w => median w * madK)

def zip3With {α β γ δ} (f : α → β → γ → δ) : List α → List β → List γ → List δ
  | a :: as, b :: bs, c :: cs => f a b c :: zip3With f as bs cs
  | _, _, _ => []

def medianCells1 (b : Nat) (x : List Rat) : List Cell :=
  zip3With (fun xi m s => { x := xi, d := absR (xi - m), s := s, repl := m })
    x (medians1 b x) (mads1 b x)

def rollingMedian1 (b : Nat) (t : Option Rat) (x : List Rat) : List Rat :=
  (medianCells1 b x).map (fun c => c.outLin t)

def medians2 (b0 b1 : Nat) (x : List (List Rat)) : List (List Rat) :=
  (windows2 b0 b1 (pad2 median (b0 / 2) (b1 / 2) x)).map (fun r => r.map (fun w => median w.flatten))

def diffs2 (b0 b1 : Nat) (x : List (List Rat)) : List (List Rat) :=
  List.zipWith (fun row mrow => List.zipWith (fun xi m => absR (xi - m)) row mrow) x (medians2 b0 b1 x)

def mads2 (b0 b1 : Nat) (x : List (List Rat)) : List (List Rat) :=
  (windows2 b0 b1 (pad2 median (b0 / 2) (b1 / 2) (diffs2 b0 b1 x))).map
    (fun r => r.map (fun w => median w.flatten * madK))

def medianCells2 (b0 b1 : Nat) (x : List (List Rat)) : List (List Cell) :=
  zip3With (fun row mrow srow =>
      zip3With (fun xi m s => ({ x := xi, d := absR (xi - m), s := s, repl := m } : Cell)) row mrow srow)
    x (medians2 b0 b1 x) (mads2 b0 b1 x)

def rollingMedian2 (b0 b1 : Nat) (t : Option Rat) (x : List (List Rat)) : List (List Rat) :=
  (medianCells2 b0 b1 x).map (fun r => r.map (fun c => c.outLin t))

/-! ## specification, written on the input image only -/

def at1 (x : List Rat) (i : Nat) : Rat := x.getD i 0
def at2 (x : List (List Rat)) (i j : Nat) : Rat := (x.getD i []).getD j 0

/-- interior pixel of the mean filter: `h` neighbours on each side, the pixel itself left out of
spread and replacement -/
def specMeanCell1 (h : Nat) (x : List Rat) (i : Nat) : Cell :=
  let before := slice (i - h) h x
  let after := slice (i + 1) h x
  let xi := at1 x i
  { x := xi, d := xi - mean (before ++ xi :: after), s := popvar (before ++ after),
    repl := mean (before ++ after) }

/-- the `(2h0+1)×(2h1+1)` neighbourhood in row-major order, and the same without pixel `(i, j)` -/
def nbhd2 (h0 h1 : Nat) (x : List (List Rat)) (i j : Nat) : List Rat :=
  ((slice (i - h0) (2 * h0 + 1) x).map (slice (j - h1) (2 * h1 + 1))).flatten

def others2 (h0 h1 : Nat) (x : List (List Rat)) (i j : Nat) : List Rat :=
  ((slice (i - h0) h0 x).map (slice (j - h1) (2 * h1 + 1))).flatten
    ++ (slice (j - h1) h1 (x.getD i []) ++ slice (j + 1) h1 (x.getD i []))
    ++ ((slice (i + 1) h0 x).map (slice (j - h1) (2 * h1 + 1))).flatten

def specMeanCell2 (h0 h1 : Nat) (x : List (List Rat)) (i j : Nat) : Cell :=
  let xi := at2 x i j
  { x := xi, d := xi - mean (nbhd2 h0 h1 x i j), s := popvar (others2 h0 h1 x i j),
    repl := mean (others2 h0 h1 x i j) }

/-- interior pixel of the median filter (two half-windows from the border): the median of the
neighbourhood, and the MAD of the neighbours' deviations from *their* neighbourhood medians -/
def medAt1 (h : Nat) (x : List Rat) (k : Nat) : Rat := median (slice (k - h) (2 * h + 1) x)
def diffAt1 (h : Nat) (x : List Rat) (k : Nat) : Rat := absR (at1 x k - medAt1 h x k)

def specMedianCell1 (h : Nat) (x : List Rat) (i : Nat) : Cell :=
  { x := at1 x i, d := diffAt1 h x i,
    s := median ((List.range (2 * h + 1)).map (fun k => diffAt1 h x (i - h + k))) * madK,
    repl := medAt1 h x i }

def medAt2 (h0 h1 : Nat) (x : List (List Rat)) (r c : Nat) : Rat := median (nbhd2 h0 h1 x r c)
def diffAt2 (h0 h1 : Nat) (x : List (List Rat)) (r c : Nat) : Rat := absR (at2 x r c - medAt2 h0 h1 x r c)

def specMedianCell2 (h0 h1 : Nat) (x : List (List Rat)) (i j : Nat) : Cell :=
  { x := at2 x i j, d := diffAt2 h0 h1 x i j,
    s := median (((List.range (2 * h0 + 1)).map (fun r =>
            (List.range (2 * h1 + 1)).map (fun c => diffAt2 h0 h1 x (i - h0 + r) (j - h1 + c)))).flatten) * madK,
    repl := medAt2 h0 h1 x i j }

/-- the real pixels inside the window of pixel `i`: `x[max 0 (i-h) : i+h+1]` -/
def realWin1 (h : Nat) (x : List Rat) (i : Nat) : List Rat :=
  slice (i - h) (i + h + 1 - (i - h)) x

def realWin2 (h0 h1 : Nat) (x : List (List Rat)) (i j : Nat) : List Rat :=
  ((slice (i - h0) (i + h0 + 1 - (i - h0)) x).map (slice (j - h1) (j + h1 + 1 - (j - h1)))).flatten

def minL : List Rat → Rat
  | [] => 0
  | a :: l => l.foldl min a

def maxL : List Rat → Rat
  | [] => 0
  | a :: l => l.foldl max a

/-- "at least one full window from the border" (the property's wording; the theorems need less) -/
def interior (b n i : Nat) : Bool := decide (b ≤ i ∧ i + b < n)

/-- what the property says about one pixel: interior pixels are fully determined, border pixels
are either unchanged or lie within the range of the real pixels in their window -/
inductive SpecPx
  | exact (c : Cell)
  | range (x lo hi : Rat)

def specMean1 (b : Nat) (x : List Rat) (i : Nat) : SpecPx :=
  if interior b x.length i then .exact (specMeanCell1 (b / 2) x i)
  else .range (at1 x i) (minL (realWin1 (b / 2) x i)) (maxL (realWin1 (b / 2) x i))

def specMedian1 (b : Nat) (x : List Rat) (i : Nat) : SpecPx :=
  if interior b x.length i then .exact (specMedianCell1 (b / 2) x i)
  else .range (at1 x i) (minL (realWin1 (b / 2) x i)) (maxL (realWin1 (b / 2) x i))

def specMean2 (b0 b1 : Nat) (x : List (List Rat)) (i j : Nat) : SpecPx :=
  if interior b0 x.length i && interior b1 (x.headD []).length j then
    .exact (specMeanCell2 (b0 / 2) (b1 / 2) x i j)
  else .range (at2 x i j) (minL (realWin2 (b0 / 2) (b1 / 2) x i j)) (maxL (realWin2 (b0 / 2) (b1 / 2) x i j))

def specMedian2 (b0 b1 : Nat) (x : List (List Rat)) (i j : Nat) : SpecPx :=
  if interior b0 x.length i && interior b1 (x.headD []).length j then
    .exact (specMedianCell2 (b0 / 2) (b1 / 2) x i j)
  else .range (at2 x i j) (minL (realWin2 (b0 / 2) (b1 / 2) x i j)) (maxL (realWin2 (b0 / 2) (b1 / 2) x i j))

end Pew.Filters
