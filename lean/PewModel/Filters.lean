/-!
# C13 — rolling mean / rolling median filters (`pewlib.process.filters`)

Mechanism (shaped like the code): `np.pad` in `mean` / `median` mode with `stat_length = half`
(axis by axis: the pad value of a line is the statistic of the `half` edge values of that line; the
second axis is padded on the already padded rows, so corners are statistics of statistics), the
stride-1 window view of `calc.view_as_blocks`, the window mean, the centre-masked mean and
population variance, the outlier test and `np.where`.  For the median filter: window medians,
absolute differences, their padded window median times 1.4826.

Specification: per pixel, written directly on the input image — the `2h+1` neighbours of an
interior pixel, the neighbours without the pixel itself; for border pixels the range of the real
pixels that lie in the window.

All values are exact `Rat`.  The outlier test of the mean filter `|x-m| > t·σ` is kept in squared
form `(x-m)² > t²·σ²` (equivalent for `t ≥ 0`), so no square root is needed.  An infinite threshold
is `none` and never flags a pixel (`inf·σ` is `inf` or NaN; both compare false).
-/
namespace Pew.Filters

/-! ## statistics -/

def mean (l : List Rat) : Rat := l.sum / (l.length : Rat)

/-- population variance (`np.std(...)**2`, ddof = 0): the mean is computed once, then the squared
deviations from it are averaged -/
def popvar (l : List Rat) : Rat :=
  let m := mean l
  mean (l.map (fun v => (v - m) * (v - m)))

def sort (l : List Rat) : List Rat := l.mergeSort (fun a b => decide (a ≤ b))

/-- `np.median`: middle order statistic, or the mean of the two middle ones -/
def median (l : List Rat) : Rat :=
  let s := sort l
  if l.length % 2 = 1 then s.getD (l.length / 2) 0
  else (s.getD (l.length / 2 - 1) 0 + s.getD (l.length / 2) 0) / 2

def absR (q : Rat) : Rat := if q < 0 then -q else q

/-- 1.4826 as the float64 the code multiplies with -/
def madK : Rat := (6677036807539497 : Rat) / 4503599627370496

/-! ## padding and windows -/

/-- `l[i : i+b]` -/
def slice {α} (i b : Nat) (l : List α) : List α := (l.drop i).take b

def padEnds {α} (h : Nat) (a c : α) (x : List α) : List α :=
  List.replicate h a ++ x ++ List.replicate h c

/-- `np.pad(x, (h, h), mode=stat, stat_length=(h, h))` along one line -/
def pad1 (stat : List Rat → Rat) (h : Nat) (x : List Rat) : List Rat :=
  padEnds h (stat (x.take h)) (stat (x.drop (x.length - h))) x

def column (rows : List (List Rat)) (j : Nat) : List Rat := rows.map (fun r => r.getD j 0)

/-- the statistic of every column of a block of rows -/
def colStat (stat : List Rat → Rat) (n1 : Nat) (rows : List (List Rat)) : List Rat :=
  (List.range n1).map (fun j => stat (column rows j))

/-- 2-D `np.pad`: axis 0 first (on the original columns), then axis 1 on every row of the result -/
def pad2 (stat : List Rat → Rat) (h0 h1 : Nat) (x : List (List Rat)) : List (List Rat) :=
  let n1 := (x.headD []).length
  (padEnds h0 (colStat stat n1 (x.take h0)) (colStat stat n1 (x.drop (x.length - h0))) x).map
    (pad1 stat h1)

/-- `view_as_blocks(p, (b,), (1,))`: `(len - b) // 1 + 1 = len + 1 - b` windows (none when the line is shorter than `b`) -/
def windows1 (b : Nat) (p : List Rat) : List (List Rat) :=
  (List.range (p.length + 1 - b)).map (fun i => slice i b p)

def window2 (i j b0 b1 : Nat) (p : List (List Rat)) : List (List Rat) :=
  (slice i b0 p).map (slice j b1)

def windows2 (b0 b1 : Nat) (p : List (List Rat)) : List (List (List (List Rat))) :=
  (List.range (p.length + 1 - b0)).map (fun i =>
    (List.range ((p.headD []).length + 1 - b1)).map (fun j => window2 i j b0 b1 p))

/-- the window with the centre `mask[block // 2] = False` taken out, in row-major order -/
def maskCentre2 (h0 h1 : Nat) (w : List (List Rat)) : List Rat :=
  (w.modify h0 (fun r => r.eraseIdx h1)).flatten

/-! ## one pixel -/

/-- what is known about a pixel before the threshold is applied: its value, the deviation `d`
(mean filter: `x - mean`, median filter: `|x - median|`), the spread `s` (mean filter: variance
without the centre; median filter: MAD·1.4826) and the replacement -/
structure Cell where
  x : Rat
  d : Rat
  s : Rat
  repl : Rat
  deriving Repr, DecidableEq

/-- mean filter: `|d| > t·σ` in squared form -/
def Cell.outlierSq (c : Cell) : Option Rat → Bool
  | none => false
  | some t => decide (c.d * c.d > t * t * c.s)

/-- median filter: `d > t·s` -/
def Cell.outlierLin (c : Cell) : Option Rat → Bool
  | none => false
  | some t => decide (c.d > t * c.s)

def Cell.outSq (c : Cell) (t : Option Rat) : Rat := if c.outlierSq t then c.repl else c.x
def Cell.outLin (c : Cell) (t : Option Rat) : Rat := if c.outlierLin t then c.repl else c.x

def meanCell (xi : Rat) (w masked : List Rat) : Cell :=
  { x := xi, d := xi - mean w, s := popvar masked, repl := mean masked }

/-! ## mechanism: rolling mean -/

def meanCells1 (b : Nat) (x : List Rat) : List Cell :=
  List.zipWith (fun xi w => meanCell xi w (w.eraseIdx (b / 2))) x (windows1 b (pad1 mean (b / 2) x))

def rollingMean1 (b : Nat) (t : Option Rat) (x : List Rat) : List Rat :=
  (meanCells1 b x).map (fun c => c.outSq t)

def meanCells2 (b0 b1 : Nat) (x : List (List Rat)) : List (List Cell) :=
  List.zipWith (fun row wrow =>
      List.zipWith (fun xi w => meanCell xi w.flatten (maskCentre2 (b0 / 2) (b1 / 2) w)) row wrow)
    x (windows2 b0 b1 (pad2 mean (b0 / 2) (b1 / 2) x))

def rollingMean2 (b0 b1 : Nat) (t : Option Rat) (x : List (List Rat)) : List (List Rat) :=
  (meanCells2 b0 b1 x).map (fun r => r.map (fun c => c.outSq t))

/-! ## mechanism: rolling median -/

def medians1 (b : Nat) (x : List Rat) : List Rat :=
  (windows1 b (pad1 median (b / 2) x)).map median

def diffs1 (b : Nat) (x : List Rat) : List Rat :=
  List.zipWith (fun xi m => absR (xi - m)) x (medians1 b x)

def mads1 (b : Nat) (x : List Rat) : List Rat :=
  (windows1 b (pad1 median (b / 2) (diffs1 b x))).map (fun w => median w * madK)

def zip3With {α β γ δ} (f : α → β → γ → δ) : List α → List β → List γ → List δ
  | a :: as, b :: bs, c :: cs => f a b c :: zip3With f as bs cs
  | _, _, _ => []

def medianCells1 (b : Nat) (x : List Rat) : List Cell :=
  zip3With (fun xi m s => { x := xi, d := absR (xi - m), s := s, repl := m })
    x (medians1 b x) (mads1 b x)

def rollingMedian1 (b : Nat) (t : Option Rat) (x : List Rat) : List Rat :=
  (medianCells1 b x).map (fun c => c.outLin t)

def medians2 (b0 b1 : Nat) (x : List (List Rat)) : List (List Rat) :=
  (windows2 b0 b1 (pad2 median (b0 / 2) (b1 / 2) x)).map (fun r => r.map (fun w => median w.flatten))

def diffs2 (b0 b1 : Nat) (x : List (List Rat)) : List (List Rat) :=
  List.zipWith (fun row mrow => List.zipWith (fun xi m => absR (xi - m)) row mrow) x (medians2 b0 b1 x)

def mads2 (b0 b1 : Nat) (x : List (List Rat)) : List (List Rat) :=
  (windows2 b0 b1 (pad2 median (b0 / 2) (b1 / 2) (diffs2 b0 b1 x))).map
    (fun r => r.map (fun w => median w.flatten * madK))

def medianCells2 (b0 b1 : Nat) (x : List (List Rat)) : List (List Cell) :=
  zip3With (fun row mrow srow =>
      zip3With (fun xi m s => ({ x := xi, d := absR (xi - m), s := s, repl := m } : Cell)) row mrow srow)
    x (medians2 b0 b1 x) (mads2 b0 b1 x)

def rollingMedian2 (b0 b1 : Nat) (t : Option Rat) (x : List (List Rat)) : List (List Rat) :=
  (medianCells2 b0 b1 x).map (fun r => r.map (fun c => c.outLin t))

/-! ## specification, written on the input image only -/

def at1 (x : List Rat) (i : Nat) : Rat := x.getD i 0
def at2 (x : List (List Rat)) (i j : Nat) : Rat := (x.getD i []).getD j 0

/-- interior pixel of the mean filter: `h` neighbours on each side, the pixel itself left out of
spread and replacement -/
def specMeanCell1 (h : Nat) (x : List Rat) (i : Nat) : Cell :=
  let before := slice (i - h) h x
  let after := slice (i + 1) h x
  let xi := at1 x i
  { x := xi, d := xi - mean (before ++ xi :: after), s := popvar (before ++ after),
    repl := mean (before ++ after) }

/-- the `(2h0+1)×(2h1+1)` neighbourhood in row-major order, and the same without pixel `(i, j)` -/
def nbhd2 (h0 h1 : Nat) (x : List (List Rat)) (i j : Nat) : List Rat :=
  ((slice (i - h0) (2 * h0 + 1) x).map (slice (j - h1) (2 * h1 + 1))).flatten

def others2 (h0 h1 : Nat) (x : List (List Rat)) (i j : Nat) : List Rat :=
  ((slice (i - h0) h0 x).map (slice (j - h1) (2 * h1 + 1))).flatten
    ++ (slice (j - h1) h1 (x.getD i []) ++ slice (j + 1) h1 (x.getD i []))
    ++ ((slice (i + 1) h0 x).map (slice (j - h1) (2 * h1 + 1))).flatten

def specMeanCell2 (h0 h1 : Nat) (x : List (List Rat)) (i j : Nat) : Cell :=
  let xi := at2 x i j
  { x := xi, d := xi - mean (nbhd2 h0 h1 x i j), s := popvar (others2 h0 h1 x i j),
    repl := mean (others2 h0 h1 x i j) }

/-- interior pixel of the median filter (two half-windows from the border): the median of the
neighbourhood, and the MAD of the neighbours' deviations from *their* neighbourhood medians -/
def medAt1 (h : Nat) (x : List Rat) (k : Nat) : Rat := median (slice (k - h) (2 * h + 1) x)
def diffAt1 (h : Nat) (x : List Rat) (k : Nat) : Rat := absR (at1 x k - medAt1 h x k)

def specMedianCell1 (h : Nat) (x : List Rat) (i : Nat) : Cell :=
  { x := at1 x i, d := diffAt1 h x i,
    s := median ((List.range (2 * h + 1)).map (fun k => diffAt1 h x (i - h + k))) * madK,
    repl := medAt1 h x i }

def medAt2 (h0 h1 : Nat) (x : List (List Rat)) (r c : Nat) : Rat := median (nbhd2 h0 h1 x r c)
def diffAt2 (h0 h1 : Nat) (x : List (List Rat)) (r c : Nat) : Rat := absR (at2 x r c - medAt2 h0 h1 x r c)

def specMedianCell2 (h0 h1 : Nat) (x : List (List Rat)) (i j : Nat) : Cell :=
  { x := at2 x i j, d := diffAt2 h0 h1 x i j,
    s := median (((List.range (2 * h0 + 1)).map (fun r =>
            (List.range (2 * h1 + 1)).map (fun c => diffAt2 h0 h1 x (i - h0 + r) (j - h1 + c)))).flatten) * madK,
    repl := medAt2 h0 h1 x i j }

/-- the real pixels inside the window of pixel `i`: `x[max 0 (i-h) : i+h+1]` -/
def realWin1 (h : Nat) (x : List Rat) (i : Nat) : List Rat :=
  slice (i - h) (i + h + 1 - (i - h)) x

def realWin2 (h0 h1 : Nat) (x : List (List Rat)) (i j : Nat) : List Rat :=
  ((slice (i - h0) (i + h0 + 1 - (i - h0)) x).map (slice (j - h1) (j + h1 + 1 - (j - h1)))).flatten

def minL : List Rat → Rat
  | [] => 0
  | a :: l => l.foldl min a

def maxL : List Rat → Rat
  | [] => 0
  | a :: l => l.foldl max a

/-- "at least one full window from the border" (the property's wording; the theorems need less) -/
def interior (b n i : Nat) : Bool := decide (b ≤ i ∧ i + b < n)

/-- what the property says about one pixel: interior pixels are fully determined, border pixels
are either unchanged or lie within the range of the real pixels in their window -/
inductive SpecPx
  | exact (c : Cell)
  | range (x lo hi : Rat)

def specMean1 (b : Nat) (x : List Rat) (i : Nat) : SpecPx :=
  if interior b x.length i then .exact (specMeanCell1 (b / 2) x i)
  else .range (at1 x i) (minL (realWin1 (b / 2) x i)) (maxL (realWin1 (b / 2) x i))

def specMedian1 (b : Nat) (x : List Rat) (i : Nat) : SpecPx :=
  if interior b x.length i then .exact (specMedianCell1 (b / 2) x i)
  else .range (at1 x i) (minL (realWin1 (b / 2) x i)) (maxL (realWin1 (b / 2) x i))

def specMean2 (b0 b1 : Nat) (x : List (List Rat)) (i j : Nat) : SpecPx :=
  if interior b0 x.length i && interior b1 (x.headD []).length j then
    .exact (specMeanCell2 (b0 / 2) (b1 / 2) x i j)
  else .range (at2 x i j) (minL (realWin2 (b0 / 2) (b1 / 2) x i j)) (maxL (realWin2 (b0 / 2) (b1 / 2) x i j))

def specMedian2 (b0 b1 : Nat) (x : List (List Rat)) (i j : Nat) : SpecPx :=
  if interior b0 x.length i && interior b1 (x.headD []).length j then
    .exact (specMedianCell2 (b0 / 2) (b1 / 2) x i j)
  else .range (at2 x i j) (minL (realWin2 (b0 / 2) (b1 / 2) x i j)) (maxL (realWin2 (b0 / 2) (b1 / 2) x i j))

/-! ## the two "comes back unchanged" clauses as one decidable condition

`constant_unchanged*` and `inf_threshold_unchanged*` (PewTheorems/C13) say that under this condition
both filters return the input, every pixel of it, border included.  The correspondence check reads the
condition from here and then demands the input back bit for bit. -/

def allEq : List Rat → Bool
  | [] => true
  | a :: l => l.all (fun v => v == a)

/-- the image (row-major) is constant, or the threshold is infinite -/
def mustBeUnchanged (t : Option Rat) (data : List Rat) : Bool := t.isNone || allEq data

/-! ## float level (1): what a rounded evaluation can do to a constant image

Every number the mean filter computes from a constant image `c` before the outlier test — a pad
value, a window mean, a masked window mean — is built from copies of `c` by rounded additions and
rounded divisions by a count, in whatever order the summation routine chooses.  `FExpr` is such a
computation, `eval fl c` its value under the rounding function `fl`, `weight · c` its exact value
(a mean has weight 1) and `depth` the number of roundings on its longest path.  A mean over the
`b0·b1` values of a window whose pad values are means (axis 0, `h0` values) of means (axis 1, `h1`
values) has depth at most `h0 + h1 + b0·b1` for every summation order. -/

inductive FExpr where
  | c : FExpr
  | add (a b : FExpr) : FExpr
  | divn (a : FExpr) (n : Nat) : FExpr
  deriving Repr

namespace FExpr

def eval (fl : Rat → Rat) (c : Rat) : FExpr → Rat
  | .c => c
  | .add a b => fl (a.eval fl c + b.eval fl c)
  | .divn a n => fl (a.eval fl c / (n : Rat))

def weight : FExpr → Rat
  | .c => 1
  | .add a b => a.weight + b.weight
  | .divn a n => a.weight / (n : Rat)

def depth : FExpr → Nat
  | .c => 0
  | .add a b => max a.depth b.depth + 1
  | .divn a _ => a.depth + 1

/-- `q` is one of the naturals `0..N` -/
def natUpTo (N : Nat) (q : Rat) : Bool := q.den == 1 && decide (0 ≤ q.num) && decide (q.num.toNat ≤ N)

/-- every intermediate result is (exactly) a multiple `j·c` with `j ≤ N`, no division by zero -/
def wf (N : Nat) : FExpr → Bool
  | .c => decide (1 ≤ N)
  | .add a b => a.wf N && b.wf N && natUpTo N (a.weight + b.weight)
  | .divn a n => a.wf N && n != 0 && natUpTo N (a.weight / (n : Rat))

/-- `n` copies added left to right (n ≥ 1) -/
def seqSum : Nat → FExpr
  | 0 => .c
  | 1 => .c
  | n + 1 => .add (seqSum n) .c

end FExpr

/-- bound on `|value − c|` of a weight-1 computation of depth at most `E` under unit roundoff `u` -/
def constBound (u : Rat) (E : Nat) (c : Rat) : Rat := ((1 + u) ^ E - 1) * absR c

def stripTwos : Nat → Nat → Nat
  | 0, m => m
  | f + 1, m => if m ≠ 0 ∧ m % 2 = 0 then stripTwos f (m / 2) else m

/-- `q` is a number of the binary floating-point format with `p` significand bits whose smallest
positive number is `2^emin` (binary64: 53, −1074; binary32: 24, −149); overflow is not modelled -/
def isBin (p : Nat) (emin : Int) (q : Rat) : Bool :=
  let k := Nat.log2 q.den
  q.den == 2 ^ k && decide ((k : Int) ≤ -emin) &&
    decide (stripTwos q.num.natAbs.log2 q.num.natAbs < 2 ^ p) &&
    -- an integer multiple of 2^emin when emin > 0 never occurs for the formats used; keep it total
    decide (0 ≤ -emin)

/-- every partial sum `j·c`, `j ≤ N`, of a window of `N` copies of `c` is a number of the format:
then any summation order, the pads and the divisions by the counts are exact -/
def sumsExact (p : Nat) (emin : Int) (N : Nat) (c : Rat) : Bool :=
  (List.range (N + 1)).all (fun j => isBin p emin ((j : Rat) * c))

/-! ## the mean filter with its arithmetic left open

`π` is the pad statistic, `μm` the masked mean a flagged pixel is replaced by, `dec` the outlier
decision — any function of the pixel and its (padded) window, so any threshold and any way of
computing means and spread.  `rollingMean1/2` are the instances with exact arithmetic
(`rollingMean*_is_G`); an evaluation in rounded arithmetic is another instance (`flMean`). -/

def cellsG1 {β} (π : List Rat → Rat) (g : Rat → List Rat → β) (b : Nat) (x : List Rat) : List β :=
  List.zipWith g x (windows1 b (pad1 π (b / 2) x))

def cellsG2 {β} (π : List Rat → Rat) (g : Rat → List (List Rat) → β) (b0 b1 : Nat)
    (x : List (List Rat)) : List (List β) :=
  List.zipWith (fun row wrow => List.zipWith g row wrow) x (windows2 b0 b1 (pad2 π (b0 / 2) (b1 / 2) x))

def rollingG1 (π μm : List Rat → Rat) (dec : Rat → List Rat → Bool) (b : Nat) (x : List Rat) : List Rat :=
  cellsG1 π (fun xi w => if dec xi w then μm (w.eraseIdx (b / 2)) else xi) b x

def rollingG2 (π μm : List Rat → Rat) (dec : Rat → List (List Rat) → Bool) (b0 b1 : Nat)
    (x : List (List Rat)) : List (List Rat) :=
  cellsG2 π (fun xi w => if dec xi w then μm (maskCentre2 (b0 / 2) (b1 / 2) w) else xi) b0 b1 x

/-- `np.round` (half to even): what `np.pad` applies to a pad statistic of an integer image before
it casts the value to the image's dtype -/
def rint (q : Rat) : Rat :=
  let f := q.floor
  let r := q - (f : Rat)
  if r < 1 / 2 then (f : Rat)
  else if 1 / 2 < r then ((f + 1 : Int) : Rat)
  else if f % 2 = 0 then (f : Rat) else ((f + 1 : Int) : Rat)

/-- the mean-filter cells with pad statistic `π` (`meanCells*` are the instances `π = mean`; an
integer image is padded with `π = rint ∘ mean`) -/
def meanCellsP1 (π : List Rat → Rat) (b : Nat) (x : List Rat) : List Cell :=
  cellsG1 π (fun xi w => meanCell xi w (w.eraseIdx (b / 2))) b x

def meanCellsP2 (π : List Rat → Rat) (b0 b1 : Nat) (x : List (List Rat)) : List (List Cell) :=
  cellsG2 π (fun xi w => meanCell xi w.flatten (maskCentre2 (b0 / 2) (b1 / 2) w)) b0 b1 x

/-- the median-filter cells with pad statistic `π1` for the image and `π2` for the deviations
(`medianCells*` are the instances `π1 = π2 = median`; an integer image is padded with
`π1 = rint ∘ median`, its float deviations with `π2 = median`) -/
def medianCellsP1 (π1 π2 : List Rat → Rat) (b : Nat) (x : List Rat) : List Cell :=
  let med := (windows1 b (pad1 π1 (b / 2) x)).map median
  let diff := List.zipWith (fun xi m => absR (xi - m)) x med
  let mad := (windows1 b (pad1 π2 (b / 2) diff)).map (fun w => median w * madK)
  zip3With (fun xi m s => { x := xi, d := absR (xi - m), s := s, repl := m }) x med mad

def medianCellsP2 (π1 π2 : List Rat → Rat) (b0 b1 : Nat) (x : List (List Rat)) : List (List Cell) :=
  let med := (windows2 b0 b1 (pad2 π1 (b0 / 2) (b1 / 2) x)).map (fun r => r.map (fun w => median w.flatten))
  let diff := List.zipWith (fun row mrow => List.zipWith (fun xi m => absR (xi - m)) row mrow) x med
  let mad := (windows2 b0 b1 (pad2 π2 (b0 / 2) (b1 / 2) diff)).map
    (fun r => r.map (fun w => median w.flatten * madK))
  zip3With (fun row mrow srow =>
      zip3With (fun xi m s => ({ x := xi, d := absR (xi - m), s := s, repl := m } : Cell)) row mrow srow)
    x med mad

/-- a mean in rounded arithmetic: the values added left to right, every addition and the division
by the count rounded by `fl` -/
def flMean (fl : Rat → Rat) : List Rat → Rat
  | [] => 0
  | a :: r => fl (r.foldl (fun s v => fl (s + v)) a / ((r.length + 1 : Nat) : Rat))

/-! ## float level (3): a rounded mean of arbitrary values

The replacement of a flagged pixel is the mean of the *other* values of its window.  In floating point
that mean is a tree of rounded additions over those values (any order: pairwise, by rows, left to
right) and a rounded division by their count; the values of a padded window are themselves such trees
over real pixels.  `SExpr` is such a computation over the values `v` (a leaf may occur more than once:
a pad value enters every window row it pads), `eval fl v` its value under the rounding function `fl`,
`exact v` its value in exact arithmetic, and `exact (v.map absR)` — the same computation on the absolute
values — the magnitude the rounding error is proportional to: the error of a mean of `m` neighbours is
measured against the mean of *their* magnitudes, not against the pixel that is being replaced (which is
not among them) and not against the largest value of the image. -/

inductive SExpr where
  | leaf (i : Nat) : SExpr
  | add (a b : SExpr) : SExpr
  | divn (a : SExpr) (n : Nat) : SExpr
  deriving Repr

namespace SExpr

def eval (fl : Rat → Rat) (v : List Rat) : SExpr → Rat
  | .leaf i => v.getD i 0
  | .add a b => fl (a.eval fl v + b.eval fl v)
  | .divn a n => fl (a.eval fl v / (n : Rat))

/-- the value in exact arithmetic -/
def exact (v : List Rat) : SExpr → Rat
  | .leaf i => v.getD i 0
  | .add a b => a.exact v + b.exact v
  | .divn a n => a.exact v / (n : Rat)

def depth : SExpr → Nat
  | .leaf _ => 0
  | .add a b => max a.depth b.depth + 1
  | .divn a _ => a.depth + 1

/-- the leaves from left to right -/
def leaves : SExpr → List Nat
  | .leaf i => [i]
  | .add a b => a.leaves ++ b.leaves
  | .divn a _ => a.leaves

/-- additions only (a sum in some order) -/
def sumOnly : SExpr → Bool
  | .leaf _ => true
  | .add a b => a.sumOnly && b.sumOnly
  | .divn _ _ => false

/-- `v[0] + v[1] + … + v[n]` added left to right -/
def seqSum : Nat → SExpr
  | 0 => .leaf 0
  | n + 1 => .add (seqSum n) (.leaf (n + 1))

end SExpr

/-- the image of the absolute values: the mean filter's replacement computed on it is the magnitude
the rounding error of the replacement is measured against (`c13.filter` returns it as `rabs`) -/
def abs1 (x : List Rat) : List Rat := x.map absR

def abs2 (x : List (List Rat)) : List (List Rat) := x.map (fun r => r.map absR)

/-- the bound the check applies to a replaced value: `2·E·u·A`, `E` roundings on the longest path,
`u` the unit roundoff, `A` the mean magnitude of the values averaged (`≥ ((1+u)^E − 1)·A` while
`2·E·u ≤ 1`, theorem `rounded_mean_any_order`) -/
def replBound (u : Rat) (E : Nat) (A : Rat) : Rat := 2 * (E : Rat) * u * A

/-! ## decisions a float evaluation takes exactly

"Exactly when it deviates by MORE than the threshold times the spread": a pixel exactly on the boundary is
kept.  Floating point can only be held to that where it computes the boundary exactly, i.e. where every
number the evaluation of `|x − mean w| > t · std masked` produces is a number of the format: all partial
sums of the window and of the neighbours in ANY order (values on a common binary grid, sum of magnitudes
below `2^p` grid units), the two means, the deviations from the neighbours' mean, their squares and the
partial sums of those, the variance, its square root (the variance is the square of a number of the
format) and `t` times it.  Correctly rounded operations return such results unchanged, so every
implementation that evaluates the definition — whatever its order of summation — decides such a pixel as
exact arithmetic does.  `c13.filter` reports the condition per pixel (`fexact`); the check then demands
the exact decision, also for a pixel exactly on the boundary. -/

def dyadic (q : Rat) : Bool := q.den == 2 ^ Nat.log2 q.den

/-- the values lie on the grid `2^-K` (`K` the largest denominator exponent) and the sum of their
magnitudes is below `2^p` grid units: every partial sum, in any order, is a number of the format -/
def sumsAnyOrderExact (p : Nat) (l : List Rat) : Bool :=
  let K := (l.map (fun q => Nat.log2 q.den)).foldl max 0
  l.all dyadic && decide (K ≤ 900) && decide ((l.map absR).sum * (2 : Rat) ^ K < (2 : Rat) ^ p)

/-- the non-negative rational whose square is `q`, if there is one -/
def ratSqrt? (q : Rat) : Option Rat :=
  if q < 0 then none
  else
    let n := q.num.toNat
    let rn := Nat.sqrt n
    let rd := Nat.sqrt q.den
    if rn * rn == n && rd * rd == q.den then some ((rn : Rat) / (rd : Rat)) else none

def meanDecisionExact (p : Nat) (emin : Int) (t : Option Rat) (xi : Rat) (w masked : List Rat) : Bool :=
  -- nested so that the compiled code stops at the first failing condition
  if !(sumsAnyOrderExact p w && sumsAnyOrderExact p masked) then false
  else
    let m := mean w
    let mm := mean masked
    if !(isBin p emin m && isBin p emin mm && isBin p emin (xi - m)) then false
    else
      let dev := masked.map (fun v => v - mm)
      if !(dev.all (isBin p emin)) then false
      else
        let sq := dev.map (fun v => v * v)
        if !(sumsAnyOrderExact p sq && isBin p emin (mean sq)) then false
        else
          match ratSqrt? (mean sq), t with
          | some r, some t => isBin p emin r && isBin p emin t && isBin p emin (t * r)
          | some r, none => isBin p emin r
          | none, _ => false

/-- the spread of the neighbours is exactly 0 also in floating point: they are all equal to one value `c`
whose multiples `j·c`, `j ≤ N` (the window's size), are numbers of the format — every sum of copies of `c` in
any order, their mean, the deviations from it (all 0), the variance and its root are computed exactly, and a
finite threshold times 0 is 0: the pixel is an outlier exactly when its computed deviation is not 0.  (Also the
window mean of a pixel equal to `c` is `c` exactly.)  `c13.filter` reports it per pixel as `flat0`. -/
def flatSpreadExact (p : Nat) (emin : Int) (w masked : List Rat) : Bool :=
  allEq masked && sumsExact p emin w.length (masked.headD 0)

/-! ## float level (2): the mean and median filters in binary64, in NumPy's order of evaluation

Lean's `Float` is IEEE binary64 with a software model the kernel can evaluate, so statements about
concrete images are checked by `decide +kernel`.  The order of the additions is the one NumPy 2.x uses
for these calls (observed: the correspondence check compares the result bit for bit with pewlib and
reports agreement as a feature; it is not part of the verdict, the property does not fix an order):
`np.add.reduce` over a contiguous run is `DOUBLE_pairwise_sum` (fewer than 8 values left to right
from −0.0, up to 128 values eight running sums combined as a tree and the rest added at the end);
a reduction over the two window axes adds the pairwise sums of the window rows one after the other;
`where=mask` starts from +0.0 and splits the centre row into the runs before and after the centre;
`np.std` subtracts its own masked mean, squares, sums the same way, divides and takes the root. -/
namespace F64

def seqAdd (init : Float) (a : List Float) : Float := a.foldl (· + ·) init

/-- `r[j] += a[8k + j]` for `k` further blocks of eight -/
def lanes : Nat → List Float → List Float → List Float × List Float
  | 0, r, a => (r, a)
  | k + 1, r, a => lanes k (List.zipWith (· + ·) r (a.take 8)) (a.drop 8)

/-- `DOUBLE_pairwise_sum` for at most 128 values -/
def pwBlock (a : List Float) : Float :=
  if a.length < 8 then seqAdd (-0.0) a
  else
    match lanes (a.length / 8 - 1) (a.take 8) (a.drop 8) with
    | ([r0, r1, r2, r3, r4, r5, r6, r7], rest) =>
      seqAdd (((r0 + r1) + (r2 + r3)) + ((r4 + r5) + (r6 + r7))) rest
    | _ => 0.0

/-- `DOUBLE_pairwise_sum`: above 128 values the halves (the first a multiple of 8) are summed recursively -/
def pwFuel : Nat → List Float → Float
  | 0, a => pwBlock a
  | f + 1, a =>
    if a.length ≤ 128 then pwBlock a
    else
      let n2 := a.length / 2 - (a.length / 2) % 8
      pwFuel f (a.take n2) + pwFuel f (a.drop n2)

def pw (a : List Float) : Float := pwFuel a.length a

/-- `np.mean` of a contiguous run -/
def npMean (a : List Float) : Float := pw a / a.length.toFloat

def insertSorted (a : Float) : List Float → List Float
  | [] => [a]
  | b :: l => if a ≤ b then a :: b :: l else b :: insertSorted a l

/-- insertion sort (structural recursion: the kernel evaluates it) -/
def fsort (l : List Float) : List Float := l.foldr insertSorted []

/-- `np.median` (no NaN): the middle order statistic, or the mean of the two middle ones -/
def npMedian (l : List Float) : Float :=
  let s := fsort l
  if l.length % 2 = 1 then s.getD (l.length / 2) 0.0
  else (-0.0 + s.getD (l.length / 2 - 1) 0.0 + s.getD (l.length / 2) 0.0) / 2.0

def pad1 (stat : List Float → Float) (h : Nat) (x : List Float) : List Float :=
  padEnds h (stat (x.take h)) (stat (x.drop (x.length - h))) x

def column (rows : List (List Float)) (j : Nat) : List Float := rows.map (fun r => r.getD j 0.0)

def colStat (stat : List Float → Float) (n1 : Nat) (rows : List (List Float)) : List Float :=
  (List.range n1).map (fun j => stat (column rows j))

def pad2 (stat : List Float → Float) (h0 h1 : Nat) (x : List (List Float)) : List (List Float) :=
  let n1 := (x.headD []).length
  (padEnds h0 (colStat stat n1 (x.take h0)) (colStat stat n1 (x.drop (x.length - h0))) x).map
    (pad1 stat h1)

/-- all windows of the padded image; a 1-D signal is an image of one row with `b0 = 1`, `h0 = 0` -/
def windows (b0 b1 : Nat) (p : List (List Float)) : List (List (List (List Float))) :=
  (List.range (p.length + 1 - b0)).map (fun i =>
    (List.range ((p.headD []).length + 1 - b1)).map (fun j => (slice i b0 p).map (slice j b1)))

/-- the sum of the pairwise sums of the rows (runs), one after the other -/
def rowsSum (init : Float) (w : List (List Float)) : Float := w.foldl (fun s r => s + pw r) init

/-- the runs `where=mask` leaves: rows before the centre row, the centre row before and after the
centre, rows after it -/
def maskedRuns (h0 h1 : Nat) (w : List (List Float)) : List (List Float) :=
  w.take h0 ++ [(w.getD h0 []).take h1, (w.getD h0 []).drop (h1 + 1)] ++ w.drop (h0 + 1)

structure Cell where
  x : Float
  /-- `np.mean(blocks)` -/
  m : Float
  /-- `np.mean(blocks, where=mask)` -/
  mm : Float
  /-- `np.std(blocks, where=mask)` -/
  sd : Float

def meanCell (x : Float) (h0 h1 : Nat) (w : List (List Float)) : Cell :=
  let n := (w.map List.length).sum
  let runs := maskedRuns h0 h1 w
  let mm := rowsSum 0.0 runs / (n - 1).toFloat
  let sq := runs.map (fun r => r.map (fun v => (v - mm) * (v - mm)))
  { x := x, m := rowsSum (-0.0) w / n.toFloat, mm := mm,
    sd := Float.sqrt (rowsSum 0.0 sq / (n - 1).toFloat) }

/-- `np.where(np.abs(x - means) > threshold * masked_stds, masked_means, x)` -/
def Cell.out (t : Float) (c : Cell) : Float :=
  if Float.abs (c.x - c.m) > t * c.sd then c.mm else c.x

/-- NOT what pewlib computes: the mean of the neighbours derived from the window sum,
`(Σ window − x) / (n − 1)`.  Equal to `meanCell.mm` in exact arithmetic; in binary64 the neighbours are
absorbed by a large centre value before it is subtracted again (witness `f64_subtracted_mean_cancels`). -/
def subtractedMean (x : Float) (w : List (List Float)) : Float :=
  let n := (w.map List.length).sum
  (rowsSum (-0.0) w - x) / (n - 1).toFloat

def zip2With {α β γ} (f : α → β → γ) (a : List (List α)) (b : List (List β)) : List (List γ) :=
  List.zipWith (fun r s => List.zipWith f r s) a b

def meanCells2 (b0 b1 : Nat) (x : List (List Float)) : List (List Cell) :=
  zip2With (fun xi w => meanCell xi (b0 / 2) (b1 / 2) w) x (windows b0 b1 (pad2 npMean (b0 / 2) (b1 / 2) x))

def rollingMean2 (b0 b1 : Nat) (t : Float) (x : List (List Float)) : List (List Float) :=
  (meanCells2 b0 b1 x).map (fun r => r.map (fun c => c.out t))

def meanCells1 (b : Nat) (x : List Float) : List Cell :=
  List.zipWith (fun xi w => meanCell xi 0 (b / 2) w) x
    ((windows 1 b [pad1 npMean (b / 2) x]).headD [])

def rollingMean1 (b : Nat) (t : Float) (x : List Float) : List Float :=
  (meanCells1 b x).map (fun c => c.out t)

/-- window medians of the padded image -/
def medians2 (b0 b1 : Nat) (x : List (List Float)) : List (List Float) :=
  (windows b0 b1 (pad2 npMedian (b0 / 2) (b1 / 2) x)).map (fun r => r.map (fun w => npMedian w.flatten))

/-- `rolling_median`: `diff = |x − medians|`, `mad = median(windows of padded diff) · 1.4826`,
`where(diff > threshold · mad, medians, x)` -/
def rollingMedian2 (b0 b1 : Nat) (t : Float) (x : List (List Float)) : List (List Float) :=
  let med := medians2 b0 b1 x
  let diff := zip2With (fun xi m => Float.abs (xi - m)) x med
  let mad := (medians2 b0 b1 diff).map (fun r => r.map (fun v => v * 1.4826))
  zip2With (fun (xm : Float × Float) (ds : Float × Float) => if ds.1 > t * ds.2 then xm.2 else xm.1)
    (zip2With Prod.mk x med) (zip2With Prod.mk diff mad)

def medians1 (b : Nat) (x : List Float) : List Float :=
  ((windows 1 b [pad1 npMedian (b / 2) x]).headD []).map (fun w => npMedian w.flatten)

def rollingMedian1 (b : Nat) (t : Float) (x : List Float) : List Float :=
  let med := medians1 b x
  let diff := List.zipWith (fun xi m => Float.abs (xi - m)) x med
  let mad := (medians1 b diff).map (fun v => v * 1.4826)
  List.zipWith (fun (xm : Float × Float) (ds : Float × Float) => if ds.1 > t * ds.2 then xm.2 else xm.1)
    (List.zip x med) (List.zip diff mad)

def bits (l : List Float) : List UInt64 := l.map Float.toBits

end F64

end Pew.Filters
