import PewModel.Srr
/-!
# C10 — extents, pixel sizes and extent-based reads
(`pewlib.config.Config / SpotConfig`, `pewlib.laser.Laser.extent / get(extent=…)`,
`pewlib.srr.config.SRRConfig.get_pixel_* / data_extent`, `pewlib.srr.srr.SRRLaser.extent`)

Exact arithmetic over `Rat`.  Mechanism: `Cfg.pixelWidth/pixelHeight/dataExtent`, `laserExtent`,
`toRec/fromRec` (the structured arrays), the index conversion `toIndex = int(round(q, 6))` and `getQ/get`
(Python slicing of the four converted indices), `srrPixelWidth/…/srrDataExtent`, `srrLaserExtent`.
Specification: `extentSpec`, `rectSpec`, and the shape of the reconstruction (`Srr.reconRows/Cols`).

Floating point enters only through the quotients `x / px`: `getQ` takes the four quotients as
given, the theorems hold for every perturbation of the exact quotient smaller than 5·10⁻⁷.
-/
namespace Pew.Extent
open Pew

/-! ## configurations -/

inductive Cfg
  | raster (spotsize speed scantime : Rat)   -- `Config`
  | spot (sx sy : Rat)                       -- `SpotConfig` (`spotsize`, `spotsize_y`)
  deriving DecidableEq, Repr

inductive Kind | raster | spot
  deriving DecidableEq, Repr

def Cfg.kind : Cfg → Kind
  | .raster .. => .raster
  | .spot .. => .spot

/-- `get_pixel_width` -/
def Cfg.pixelWidth : Cfg → Rat
  | .raster _ speed scantime => speed * scantime
  | .spot sx _ => sx

/-- `get_pixel_height` -/
def Cfg.pixelHeight : Cfg → Rat
  | .raster spotsize _ _ => spotsize
  | .spot _ sy => sy

structure Ext where
  x0 : Rat
  x1 : Rat
  y0 : Rat
  y1 : Rat
  deriving DecidableEq, Repr

/-- `data_extent(shape)`: `(0.0, px * shape[1], 0.0, py * shape[0])` -/
def Cfg.dataExtent (c : Cfg) (shape : List Nat) : Ext :=
  let px := c.pixelWidth
  let py := c.pixelHeight
  { x0 := 0, x1 := px * ((shape.getD 1 0 : Nat) : Rat), y0 := 0, y1 := py * ((shape.getD 0 0 : Nat) : Rat) }

/-- `Laser.extent`: `config.data_extent(self.shape[:2])` -/
def laserExtent {α : Type} (c : Cfg) (data : Arr2 α) : Ext := c.dataExtent [data.rows, data.cols]

/-- the specification: `(0, columns × pixel width, 0, rows × pixel height)` -/
def extentSpec (pw ph : Rat) (rows cols : Nat) : Ext :=
  { x0 := 0, x1 := (cols : Rat) * pw, y0 := 0, y1 := (rows : Rat) * ph }

/-- the specification for a configuration: pixel width = speed × scan time and pixel height = spot
size (raster); the x and y spot spacing (spot) -/
def Cfg.specExtent (c : Cfg) (rows cols : Nat) : Ext :=
  match c with
  | .raster spotsize speed scantime => extentSpec (speed * scantime) spotsize rows cols
  | .spot sx sy => extentSpec sx sy rows cols

/-! ### the array form (`to_array` / `from_array`), as NumPy builds it

`Config.to_array`: a 0-d structured array with the float64 fields `spotsize, speed, scantime`.
`SpotConfig.to_array`: `np.array([spotsize, spotsize_y], dtype=[("spotsize", f8)])`, i.e. shape `(2,)` with ONE field:
element 0 holds the x spacing and element 1 the y spacing.  `from_array` reads by field name (`Srr.RecArr`, shared
with `SRRConfig`), so it also answers for arrays of the other classes. -/
open Pew.Srr (RecArr FVal ArrErr)

def Cfg.toRec : Cfg → RecArr
  | .raster spotsize speed scantime =>
    { names := ["spotsize", "speed", "scantime"], dim := none, recs := [[.num spotsize, .num speed, .num scantime]] }
  | .spot sx sy => { names := ["spotsize"], dim := some 2, recs := [[.num sx], [.num sy]] }

/-- the dtype of each field of the array form (`np.float64`, little endian) -/
def Cfg.arrayDtypes : Cfg → List String
  | .raster .. => ["<f8", "<f8", "<f8"]
  | .spot .. => ["<f8"]

/-- `array["spotsize"][i]` of a 1-d array -/
def spotElem (col : List FVal) (i : Nat) : Except ArrErr Rat :=
  match col[i]? with
  | some (.num v) => pure v
  | some (.table _) => throw .unmodelled
  | none => throw .indexError

/-- `from_array` of the class `k`.
`Config.from_array`: `float(array["spotsize"])`, `float(array["speed"])`, `float(array["scantime"])` in this order
(a missing field is a ValueError, an array that is not 0-d a TypeError; further fields are ignored).
`SpotConfig.from_array`: `array["spotsize"][0]`, then `[1]` (a 0-d array cannot be indexed: IndexError). -/
def Cfg.fromRec (k : Kind) (a : RecArr) : Except ArrErr Cfg :=
  match k with
  | .raster => do
    let spotsize ← a.floatField "spotsize"
    let speed ← a.floatField "speed"
    let scantime ← a.floatField "scantime"
    pure (.raster spotsize speed scantime)
  | .spot => do
    let col ← a.field "spotsize"
    match a.dim with
    | none => throw .indexError
    | some _ =>
      let sx ← spotElem col 0
      let sy ← spotElem col 1
      pure (.spot sx sy)

/-! ## extent → index conversion and `Laser.get(extent=…)` -/

/-- `round(q, 6)`: half-to-even at the sixth decimal -/
def round6 (q : Rat) : Rat := (roundHalfEven (q * 1000000) : Rat) / 1000000

/-- the same with round-half-up, `⌊q·10⁶ + 1/2⌋ / 10⁶` -/
def round6Up (q : Rat) : Rat := (roundHalfUp (q * 1000000) : Rat) / 1000000

/-- `int(q)`: truncation toward zero -/
def trunc (q : Rat) : Int := if 0 ≤ q then q.floor else q.ceil

/-- the repaired conversion `int(round(q, 6))` -/
def toIndex (q : Rat) : Int := trunc (round6 q)

/-- the conversion before the repair: `int(q)` -/
def toIndexOld (q : Rat) : Int := trunc q

/-- `data[y0:y1, x0:x1]` for the converted quotients `x0/px, x1/px, y0/py, y1/py` -/
def getQ {α : Type} (data : Arr2 α) (qx0 qx1 qy0 qy1 : Rat) : Arr2 α :=
  data.slice (some (toIndex qy0)) (some (toIndex qy1)) (some (toIndex qx0)) (some (toIndex qx1))

/-- `Laser.get(extent=e)` in exact arithmetic -/
def get {α : Type} (c : Cfg) (data : Arr2 α) (e : Ext) : Arr2 α :=
  getQ data (e.x0 / c.pixelWidth) (e.x1 / c.pixelWidth) (e.y0 / c.pixelHeight) (e.y1 / c.pixelHeight)

/-- the specification of an aligned read: `data[r0:r1, c0:c1]` -/
def rectSpec {α : Type} (data : Arr2 α) (r0 r1 c0 c1 : Nat) : Arr2 α :=
  { rows := r1 - r0, cols := c1 - c0, get := fun r c => data.get (r0 + r) (c0 + c) }

/-- distance of `q` from the nearest jump of `toIndex` (the points `k + 1/2` of `q·10⁶`),
in units of 10⁻⁶: the harness treats a case with a tiny margin as undetermined -/
def tieMargin (q : Rat) : Rat :=
  let x := q * 1000000
  let r := x - (x.floor : Rat)
  if r < 1 / 2 then 1 / 2 - r else r - 1 / 2

/-! ## the same pipeline in float64 (`fl` = nearest binary64, `PewModel/Srr.lean`)

What CPython evaluates: `get_pixel_width` is one float product (raster) or an attribute (spot); `data_extent` is one
product `px * shape[1]` per bound (the integer converts exactly); `Laser.get` divides each bound by the pixel size (one
float division), then `int(round(q, 6))`.  Inputs are the exact values of the floats. -/

/-- `get_pixel_width()` as evaluated in float64 -/
def Cfg.pixelWidthF : Cfg → Rat
  | .raster _ speed scantime => fl (speed * scantime)
  | .spot sx _ => sx

/-- `get_pixel_height()` (no arithmetic) -/
def Cfg.pixelHeightF : Cfg → Rat
  | .raster spotsize _ _ => spotsize
  | .spot _ sy => sy

/-- `data_extent(shape)` in float64 -/
def Cfg.dataExtentF (c : Cfg) (shape : List Nat) : Ext :=
  { x0 := 0, x1 := fl (c.pixelWidthF * ((shape.getD 1 0 : Nat) : Rat)),
    y0 := 0, y1 := fl (c.pixelHeightF * ((shape.getD 0 0 : Nat) : Rat)) }

/-- `Laser.extent` in float64 -/
def laserExtentF {α : Type} (c : Cfg) (data : Arr2 α) : Ext := c.dataExtentF [data.rows, data.cols]

/-- `Laser.get(extent=e)` in float64: each bound divided by the float pixel size (one rounding), then `int(round(q, 6))` -/
def getF {α : Type} (c : Cfg) (data : Arr2 α) (e : Ext) : Arr2 α :=
  getQ data (fl (e.x0 / c.pixelWidthF)) (fl (e.x1 / c.pixelWidthF)) (fl (e.y0 / c.pixelHeightF)) (fl (e.y1 / c.pixelHeightF))

/-- all parameters positive (the property's quantifier) -/
def Cfg.Positive : Cfg → Prop
  | .raster spotsize speed scantime => 0 < spotsize ∧ 0 < speed ∧ 0 < scantime
  | .spot sx sy => 0 < sx ∧ 0 < sy

/-- a float bound `b` counts as "the pixel boundary `k`" of pixel size `p` when it is within `k·p / 2⁵⁰` of `k·p`
(the caller's product `k * p`, the correctly rounded exact product, either of them one ulp up or down, and the extent
pewlib reports itself all are; see `PewTheorems/C10.lean`) -/
def NearBoundary (b p : Rat) (k : Nat) : Prop :=
  (if b - (k : Rat) * p < 0 then (k : Rat) * p - b else b - (k : Rat) * p) ≤ (k : Rat) * p / 1125899906842624

instance (b p : Rat) (k : Nat) : Decidable (NearBoundary b p k) := by unfold NearBoundary; exact inferInstance

/-- the variant of the seeded change C10-c1: `int(round(q, 12))` -/
def round12 (q : Rat) : Rat := (roundHalfEven (q * 1000000000000) : Rat) / 1000000000000
def toIndex12 (q : Rat) : Int := trunc (round12 q)

/-! ## histories: configuration objects, and lasers that hold (and may share) them

Python objects: a `Config` / `SpotConfig` object is a store of attributes (`SpotConfig.__init__` also sets
`speed = scantime = 0.0`); a `Laser` holds a reference to one configuration object and an array.  Operations: create a
configuration, copy one (`copy.copy`, what `Laser.__init__` does with its argument), create a laser, `laser.config = obj`
(a shared reference), `obj.attr = v` (seen by every laser that holds `obj`), `laser.data = array`.
Mechanism: `Heap.run`, a left fold of `Heap.step`.  Specification: `viewSpec`, last write wins, read off the history
from its end without building any state. -/

inductive Attr | spotsize | speed | scantime | spotsizeY
  deriving DecidableEq, Repr

structure CfgObj where
  kind : Kind
  spotsize : Rat
  speed : Rat
  scantime : Rat
  spotsizeY : Rat
  deriving DecidableEq, Repr

def CfgObj.getAttr (o : CfgObj) : Attr → Rat
  | .spotsize => o.spotsize
  | .speed => o.speed
  | .scantime => o.scantime
  | .spotsizeY => o.spotsizeY

def CfgObj.setAttr (o : CfgObj) (a : Attr) (v : Rat) : CfgObj :=
  match a with
  | .spotsize => { o with spotsize := v }
  | .speed => { o with speed := v }
  | .scantime => { o with scantime := v }
  | .spotsizeY => { o with spotsizeY := v }

/-- the configuration an object stands for: which attributes the getters of its class read -/
def cfgOf (k : Kind) (spotsize speed scantime spotsizeY : Rat) : Cfg :=
  match k with
  | .raster => .raster spotsize speed scantime
  | .spot => .spot spotsize spotsizeY

def CfgObj.toCfg (o : CfgObj) : Cfg := cfgOf o.kind o.spotsize o.speed o.scantime o.spotsizeY

/-- the object a constructor call makes -/
def CfgObj.ofCfg : Cfg → CfgObj
  | .raster spotsize speed scantime => { kind := .raster, spotsize := spotsize, speed := speed, scantime := scantime, spotsizeY := 0 }
  | .spot sx sy => { kind := .spot, spotsize := sx, speed := 0, scantime := 0, spotsizeY := sy }

structure LaserObj where
  cfg : Nat
  rows : Nat
  cols : Nat
  deriving DecidableEq, Repr

structure Heap where
  cfgs : List CfgObj
  lasers : List LaserObj

inductive HOp
  | newCfg (o : CfgObj)                        -- object number `cfgs.length`
  | copyCfg (src : Nat)                        -- `copy.copy(cfgs[src])`: a new object with the same attributes
  | newLaser (cfg rows cols : Nat)             -- laser number `lasers.length`, holding object `cfg`
  | setCfg (laser cfg : Nat)                   -- `laser.config = cfgs[cfg]`
  | setAttr (cfg : Nat) (a : Attr) (v : Rat)   -- `cfgs[cfg].a = v`
  | setData (laser rows cols : Nat)            -- `laser.data = array of that shape`

def Heap.step (h : Heap) : HOp → Heap
  | .newCfg o => { h with cfgs := h.cfgs ++ [o] }
  | .copyCfg src =>
    match h.cfgs[src]? with
    | some o => { h with cfgs := h.cfgs ++ [o] }
    | none => h
  | .newLaser cfg rows cols => { h with lasers := h.lasers ++ [{ cfg := cfg, rows := rows, cols := cols }] }
  | .setCfg laser cfg => { h with lasers := h.lasers.modify laser (fun l => { l with cfg := cfg }) }
  | .setAttr cfg a v => { h with cfgs := h.cfgs.modify cfg (fun o => o.setAttr a v) }
  | .setData laser rows cols => { h with lasers := h.lasers.modify laser (fun l => { l with rows := rows, cols := cols }) }

def Heap.run (ops : List HOp) : Heap := ops.foldl Heap.step { cfgs := [], lasers := [] }

/-- what a laser shows: the configuration its object stands for now, and its shape -/
def Heap.view (h : Heap) (laser : Nat) : Option (Cfg × Nat × Nat) :=
  match h.lasers[laser]? with
  | some l =>
    match h.cfgs[l.cfg]? with
    | some o => some (o.toCfg, l.rows, l.cols)
    | none => none
  | none => none

/-- `Laser.extent` of laser number `laser` -/
def Heap.extent (h : Heap) (laser : Nat) : Option Ext :=
  (h.view laser).map (fun v => v.1.dataExtent [v.2.1, v.2.2])

/-! ### the specification: read the history backwards (`rev` = newest operation first) -/

/-- the number of configuration objects a history made (`copy.copy` of an object that does not exist makes none) -/
def countCfgs : List HOp → Nat
  | [] => 0
  | .newCfg _ :: earlier => countCfgs earlier + 1
  | .copyCfg src :: earlier => if src < countCfgs earlier then countCfgs earlier + 1 else countCfgs earlier
  | _ :: earlier => countCfgs earlier

def countLasers : List HOp → Nat
  | [] => 0
  | .newLaser .. :: earlier => countLasers earlier + 1
  | _ :: earlier => countLasers earlier

/-- attribute `a` of object `id`: the value of the newest assignment to it, else what it was made with
(for a copy: what the original held at that moment) -/
def attrSpec : List HOp → Nat → Attr → Option Rat
  | [], _, _ => none
  | .setAttr id' a' v :: earlier, id, a =>
    if id' = id ∧ a' = a ∧ id < countCfgs earlier then some v else attrSpec earlier id a
  | .newCfg o :: earlier, id, a => if id = countCfgs earlier then some (o.getAttr a) else attrSpec earlier id a
  | .copyCfg src :: earlier, id, a =>
    if id = countCfgs earlier ∧ src < countCfgs earlier then attrSpec earlier src a else attrSpec earlier id a
  | _ :: earlier, id, a => attrSpec earlier id a

/-- the class of object `id` never changes -/
def kindSpec : List HOp → Nat → Option Kind
  | [], _ => none
  | .newCfg o :: earlier, id => if id = countCfgs earlier then some o.kind else kindSpec earlier id
  | .copyCfg src :: earlier, id =>
    if id = countCfgs earlier ∧ src < countCfgs earlier then kindSpec earlier src else kindSpec earlier id
  | _ :: earlier, id => kindSpec earlier id

/-- the object laser `l` holds: the newest `laser.config = …`, else the one it was made with -/
def heldSpec : List HOp → Nat → Option Nat
  | [], _ => none
  | .setCfg l' cfg :: earlier, l => if l' = l ∧ l < countLasers earlier then some cfg else heldSpec earlier l
  | .newLaser cfg _ _ :: earlier, l => if l = countLasers earlier then some cfg else heldSpec earlier l
  | _ :: earlier, l => heldSpec earlier l

/-- the shape of laser `l`: the newest `laser.data = …`, else the one it was made with -/
def shapeSpec : List HOp → Nat → Option (Nat × Nat)
  | [], _ => none
  | .setData l' rows cols :: earlier, l => if l' = l ∧ l < countLasers earlier then some (rows, cols) else shapeSpec earlier l
  | .newLaser _ rows cols :: earlier, l => if l = countLasers earlier then some (rows, cols) else shapeSpec earlier l
  | _ :: earlier, l => shapeSpec earlier l

/-- what laser `l` must show after the history `rev` (newest first) -/
def viewSpec (rev : List HOp) (l : Nat) : Option (Cfg × Nat × Nat) :=
  match heldSpec rev l, shapeSpec rev l with
  | some id, some (rows, cols) =>
    match kindSpec rev id, attrSpec rev id .spotsize, attrSpec rev id .speed, attrSpec rev id .scantime, attrSpec rev id .spotsizeY with
    | some k, some s, some v, some t, some y => some (cfgOf k s v t y, rows, cols)
    | _, _, _, _, _ => none
  | _, _ => none

/-- the extent laser `l` must report after the history: `(0, columns × pixel width, 0, rows × pixel height)` of the
configuration and shape that are current then -/
def extentHistSpec (rev : List HOp) (l : Nat) : Option Ext :=
  (viewSpec rev l).map (fun v => v.1.specExtent v.2.1 v.2.2)

/-! ## SRR (`SRRConfig`, `SRRLaser.extent`) -/
open Pew.Srr

/-- `SRRConfig.get_pixel_width(layer)`; `m` is the value of `magnification` -/
def srrPixelWidth (c : SrrConfig) (m : Rat) (layer : Option Nat) : Rat :=
  match layer with
  | none => c.speed * c.scantime / (subpixelsPerPixel c.size m : Rat)
  | some l => if l % 2 = 0 then c.speed * c.scantime else c.spotsize

/-- `SRRConfig.get_pixel_height(layer)` -/
def srrPixelHeight (c : SrrConfig) (m : Rat) (layer : Option Nat) : Rat :=
  match layer with
  | none => c.speed * c.scantime / (subpixelsPerPixel c.size m : Rat)
  | some l => if l % 2 = 0 then c.spotsize else c.speed * c.scantime

/-- `SRRConfig.data_extent(shape, layer)`; the shape entries are numbers (NumPy floats in
`SRRLaser.extent`) -/
def srrDataExtent (c : SrrConfig) (m : Rat) (rows cols : Rat) (layer : Option Nat) : Ext :=
  let px := srrPixelWidth c m layer
  let py := srrPixelHeight c m layer
  match layer with
  | none => { x0 := px * (c.warmup : Rat), x1 := px * ((c.warmup : Rat) + cols),
              y0 := py * (c.warmup : Rat), y1 := py * ((c.warmup : Rat) + rows) }
  | some _ => { x0 := 0, x1 := px * cols, y0 := 0, y1 := py * rows }

/-- `SRRLaser.shape[:2]`: `(data[0].shape[0], data[1].shape[0])` -/
def srrShape {α : Type} (layers : List (Arr2 α)) : Option (Nat × Nat) :=
  match layers[0]?, layers[1]? with
  | some d0, some d1 => some (d0.rows, d1.rows)
  | _, _ => none

/-- `SRRLaser.extent` -/
def srrLaserExtent {α : Type} (c : SrrConfig) (m : Rat) (layers : List (Arr2 α)) : Option Ext :=
  match srrShape layers with
  | some (s0, s1) =>
    let pixelsize : Rat := (subpixelsPerPixel c.size m : Nat)
    let offset : Rat := (maxList c.offs : Nat)
    let n0 := (s0 : Rat) * m * pixelsize + offset
    let n1 := (s1 : Rat) * m * pixelsize + offset
    some (srrDataExtent c m n0 n1 none)
  | none => none

end Pew.Extent
