import PewModel.Srr
/-!
# C10 — extents, pixel sizes and extent-based reads
(`pewlib.config.Config / SpotConfig`, `pewlib.laser.Laser.extent / get(extent=…)`,
`pewlib.srr.config.SRRConfig.get_pixel_* / data_extent`, `pewlib.srr.srr.SRRLaser.extent`)

Exact arithmetic over `Rat`.  Mechanism: `Cfg.pixelWidth/pixelHeight/dataExtent`, `laserExtent`,
`toRec/fromRec` (the structured arrays), the index conversion `toIndex = int(round(q, 6))` and `getQ/get`
(Python slicing of the four converted indices), `srrPixelWidth/…/srrDataExtent`, `srrLaserExtent`.
Specification: `extentSpec`, `rectSpec`, and the shape of the reconstruction (`Srr.reconRows/Cols`).

Floating point enters only through the quotients `x / px`: `getQ` takes the four quotients as
given, the theorems hold for every perturbation of the exact quotient smaller than 5·10⁻⁷.
-/
namespace Pew.Extent
open Pew

/-! ## configurations -/

inductive Cfg
  | raster (spotsize speed scantime : Rat)   -- `Config`
  | spot (sx sy : Rat)                       -- `SpotConfig` (`spotsize`, `spotsize_y`)
  deriving DecidableEq, Repr

inductive Kind | raster | spot
  deriving DecidableEq, Repr

def Cfg.kind : Cfg → Kind
  | .raster .. => .raster
  | .spot .. => .spot

/-- `get_pixel_width` -/
def Cfg.pixelWidth : Cfg → Rat
  | .raster _ speed scantime => speed * scantime
  | .spot sx _ => sx

/-- `get_pixel_height` -/
def Cfg.pixelHeight : Cfg → Rat
  | .raster spotsize _ _ => spotsize
  | .spot _ sy => sy

structure Ext where
  x0 : Rat
  x1 : Rat
  y0 : Rat
  y1 : Rat
  deriving DecidableEq, Repr

/-- `data_extent(shape)`: `(0.0, px * shape[1], 0.0, py * shape[0])` -/
def Cfg.dataExtent (c : Cfg) (shape : List Nat) : Ext :=
  let px := c.pixelWidth
  let py := c.pixelHeight
  { x0 := 0, x1 := px * ((shape.getD 1 0 : Nat) : Rat), y0 := 0, y1 := py * ((shape.getD 0 0 : Nat) : Rat) }

/-- `Laser.extent`: `config.data_extent(self.shape[:2])` -/
def laserExtent {α : Type} (c : Cfg) (data : Arr2 α) : Ext := c.dataExtent [data.rows, data.cols]

/-- the specification: `(0, columns × pixel width, 0, rows × pixel height)` -/
def extentSpec (pw ph : Rat) (rows cols : Nat) : Ext :=
  { x0 := 0, x1 := (cols : Rat) * pw, y0 := 0, y1 := (rows : Rat) * ph }

/-- the specification for a configuration: pixel width = speed × scan time and pixel height = spot
size (raster); the x and y spot spacing (spot) -/
def Cfg.specExtent (c : Cfg) (rows cols : Nat) : Ext :=
  match c with
  | .raster spotsize speed scantime => extentSpec (speed * scantime) spotsize rows cols
  | .spot sx sy => extentSpec sx sy rows cols

/-! ### the array form (`to_array` / `from_array`), as NumPy builds it

`Config.to_array`: a 0-d structured array with the float64 fields `spotsize, speed, scantime`.
`SpotConfig.to_array`: `np.array([spotsize, spotsize_y], dtype=[("spotsize", f8)])`, i.e. shape `(2,)` with ONE field:
element 0 holds the x spacing and element 1 the y spacing.  `from_array` reads by field name (`Srr.RecArr`, shared
with `SRRConfig`), so it also answers for arrays of the other classes. -/
open Pew.Srr (RecArr FVal ArrErr)

def Cfg.toRec : Cfg → RecArr
  | .raster spotsize speed scantime =>
    { names := ["spotsize", "speed", "scantime"], dim := none, recs := [[.num spotsize, .num speed, .num scantime]] }
  | .spot sx sy => { names := ["spotsize"], dim := some 2, recs := [[.num sx], [.num sy]] }

/-- `array["spotsize"][i]` of a 1-d array -/
def spotElem (col : List FVal) (i : Nat) : Except ArrErr Rat :=
  match col[i]? with
  | some (.num v) => pure v
  | some (.table _) => throw .unmodelled
  | none => throw .indexError

/-- `from_array` of the class `k`.
`Config.from_array`: `float(array["spotsize"])`, `float(array["speed"])`, `float(array["scantime"])` in this order
(a missing field is a ValueError, an array that is not 0-d a TypeError; further fields are ignored).
`SpotConfig.from_array`: `array["spotsize"][0]`, then `[1]` (a 0-d array cannot be indexed: IndexError). -/
def Cfg.fromRec (k : Kind) (a : RecArr) : Except ArrErr Cfg :=
  match k with
  | .raster => do
    let spotsize ← a.floatField "spotsize"
    let speed ← a.floatField "speed"
    let scantime ← a.floatField "scantime"
    pure (.raster spotsize speed scantime)
  | .spot => do
    let col ← a.field "spotsize"
    match a.dim with
    | none => throw .indexError
    | some _ =>
      let sx ← spotElem col 0
      let sy ← spotElem col 1
      pure (.spot sx sy)

/-! ## extent → index conversion and `Laser.get(extent=…)` -/

/-- `round(q, 6)`: half-to-even at the sixth decimal -/
def round6 (q : Rat) : Rat := (roundHalfEven (q * 1000000) : Rat) / 1000000

/-- the same with round-half-up, `⌊q·10⁶ + 1/2⌋ / 10⁶` -/
def round6Up (q : Rat) : Rat := (roundHalfUp (q * 1000000) : Rat) / 1000000

/-- `int(q)`: truncation toward zero -/
def trunc (q : Rat) : Int := if 0 ≤ q then q.floor else q.ceil

/-- the repaired conversion `int(round(q, 6))` -/
def toIndex (q : Rat) : Int := trunc (round6 q)

/-- the conversion before the repair: `int(q)` -/
def toIndexOld (q : Rat) : Int := trunc q

/-- `data[y0:y1, x0:x1]` for the converted quotients `x0/px, x1/px, y0/py, y1/py` -/
def getQ {α : Type} (data : Arr2 α) (qx0 qx1 qy0 qy1 : Rat) : Arr2 α :=
  data.slice (some (toIndex qy0)) (some (toIndex qy1)) (some (toIndex qx0)) (some (toIndex qx1))

/-- `Laser.get(extent=e)` in exact arithmetic -/
def get {α : Type} (c : Cfg) (data : Arr2 α) (e : Ext) : Arr2 α :=
  getQ data (e.x0 / c.pixelWidth) (e.x1 / c.pixelWidth) (e.y0 / c.pixelHeight) (e.y1 / c.pixelHeight)

/-- the specification of an aligned read: `data[r0:r1, c0:c1]` -/
def rectSpec {α : Type} (data : Arr2 α) (r0 r1 c0 c1 : Nat) : Arr2 α :=
  { rows := r1 - r0, cols := c1 - c0, get := fun r c => data.get (r0 + r) (c0 + c) }

/-- distance of `q` from the nearest jump of `toIndex` (the points `k + 1/2` of `q·10⁶`),
in units of 10⁻⁶: the harness treats a case with a tiny margin as undetermined -/
def tieMargin (q : Rat) : Rat :=
  let x := q * 1000000
  let r := x - (x.floor : Rat)
  if r < 1 / 2 then 1 / 2 - r else r - 1 / 2

/-! ## SRR (`SRRConfig`, `SRRLaser.extent`) -/
open Pew.Srr

/-- `SRRConfig.get_pixel_width(layer)`; `m` is the value of `magnification` -/
def srrPixelWidth (c : SrrConfig) (m : Rat) (layer : Option Nat) : Rat :=
  match layer with
  | none => c.speed * c.scantime / (subpixelsPerPixel c.size m : Rat)
  | some l => if l % 2 = 0 then c.speed * c.scantime else c.spotsize

/-- `SRRConfig.get_pixel_height(layer)` -/
def srrPixelHeight (c : SrrConfig) (m : Rat) (layer : Option Nat) : Rat :=
  match layer with
  | none => c.speed * c.scantime / (subpixelsPerPixel c.size m : Rat)
  | some l => if l % 2 = 0 then c.spotsize else c.speed * c.scantime

/-- `SRRConfig.data_extent(shape, layer)`; the shape entries are numbers (NumPy floats in
`SRRLaser.extent`) -/
def srrDataExtent (c : SrrConfig) (m : Rat) (rows cols : Rat) (layer : Option Nat) : Ext :=
  let px := srrPixelWidth c m layer
  let py := srrPixelHeight c m layer
  match layer with
  | none => { x0 := px * (c.warmup : Rat), x1 := px * ((c.warmup : Rat) + cols),
              y0 := py * (c.warmup : Rat), y1 := py * ((c.warmup : Rat) + rows) }
  | some _ => { x0 := 0, x1 := px * cols, y0 := 0, y1 := py * rows }

/-- `SRRLaser.shape[:2]`: `(data[0].shape[0], data[1].shape[0])` -/
def srrShape {α : Type} (layers : List (Arr2 α)) : Option (Nat × Nat) :=
  match layers[0]?, layers[1]? with
  | some d0, some d1 => some (d0.rows, d1.rows)
  | _, _ => none

/-- `SRRLaser.extent` -/
def srrLaserExtent {α : Type} (c : SrrConfig) (m : Rat) (layers : List (Arr2 α)) : Option Ext :=
  match srrShape layers with
  | some (s0, s1) =>
    let pixelsize : Rat := (subpixelsPerPixel c.size m : Nat)
    let offset : Rat := (maxList c.offs : Nat)
    let n0 := (s0 : Rat) * m * pixelsize + offset
    let n1 := (s1 : Rat) * m * pixelsize + offset
    some (srrDataExtent c m n0 n1 none)
  | none => none

end Pew.Extent
