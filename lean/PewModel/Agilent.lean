/-!
# C02 — Agilent '.b' batch import (`pewlib.io.agilent`)

Mechanism (shaped like the code) and specification of

* data-file collection: `batch_xml_read_datafiles`, `batch_csv_read_datafiles`,
  `acq_method_xml_read_datafiles`, `find_datafiles_alphabetical`, `collect_datafiles`;
* binary decoding: `binary_read_datafile` (`SpectrumOffset // ByteCount`, flattened profile index,
  clip), `mass_info_datafile`, the stacking / counts-per-second / scan-time part of `load_binary`;
* CSV import: `csv_valid_lines`, `read_datafile_csvs`, `acq_method_xml_read_elements`, `load_csv`;
* `load` (binary first, CSV on any exception).

Text is `List Char` (`Name`).  Pixel values are an arbitrary type `α` on the placement path (the
driver instantiates bit tokens) and `Rat` wherever the code does arithmetic.
Core Lean only.
-/
namespace Pew.Agilent

abbrev Name := List Char

/-! ## 1. names -/

/-- `str.rfind(c)`: index of the last occurrence, `-1` if there is none -/
def rfind (c : Char) : Name → Int
  | [] => -1
  | x :: xs =>
    let r := rfind c xs
    if 0 ≤ r then r + 1 else if x = c then 0 else -1

/-- `datafile[max(map(datafile.rfind, "\\/")) + 1 :]` -/
def basename (s : Name) : Name :=
  s.drop (max (rfind '\\' s) (rfind '/' s) + 1).toNat

def isSep (c : Char) : Bool := c = '\\' || c = '/'

/-- specification: the longest separator-free suffix -/
def basenameSpec (s : Name) : Name :=
  (s.reverse.takeWhile (fun c => !isSep c)).reverse

/-! ## 2. batch logs -/

def pass : Name := ['P', 'a', 's', 's']

/-- `if p in datafiles: datafiles.remove(p)` then `datafiles.append(p)` -/
def appendLast {α : Type} [DecidableEq α] (acc : List α) (p : α) : List α :=
  (if p ∈ acc then acc.erase p else acc) ++ [p]

/-- one `BatchLogInfo` element: text of `AcqResult`, text of `DataFileName` (`none`: element absent) -/
structure LogEntry where
  result : Name
  file : Option Name
  deriving Repr

def xmlStep (acc : List Name) (e : LogEntry) : List Name :=
  if e.result = pass then
    match e.file with
    | some f => appendLast acc (basename f)
    | none => acc
  else acc

/-- `batch_xml_read_datafiles` (names relative to the batch directory) -/
def batchXml (log : List LogEntry) : List Name := log.foldl xmlStep []

/-- one row of BatchLog.csv as genfromtxt delivers it: columns 0, 5, 6 -/
structure CsvRow where
  id : Nat
  file : Name
  result : Name
  deriving Repr

/-- the dtype is `[uint32, "U264", "U4"]`: the strings are truncated to the field width -/
def csvStep (acc : List Name) (r : CsvRow) : List Name :=
  if r.result.take 4 = pass then appendLast acc (basename (r.file.take 264)) else acc

/-- `batch_csv_read_datafiles` -/
def batchCsv (rows : List CsvRow) : List Name := rows.foldl csvStep []

/-- specification of "keep only the last entry of each": `x` survives iff it does not occur later -/
def keepLast {α : Type} [DecidableEq α] : List α → List α
  | [] => []
  | x :: xs => if x ∈ xs then keepLast xs else x :: keepLast xs

/-- names of the acquisitions logged as passed, in log order -/
def passNames (log : List LogEntry) : List Name :=
  log.filterMap (fun e => if e.result = pass then e.file.map basenameSpec else none)

/-- specification of both log readers -/
def logSpec (log : List LogEntry) : List Name := keepLast (passNames log)

def LogEntry.toRow (i : Nat) (e : LogEntry) : CsvRow :=
  { id := i, file := e.file.getD [], result := e.result }

/-! ## 3. method file and directory scan -/

/-- `sorted(l, key=key)`: a stable sort -/
def sortByInt {α : Type} (key : α → Int) (l : List α) : List α :=
  l.mergeSort (fun a b => decide (key a ≤ key b))

def sortByNat {α : Type} (key : α → Nat) (l : List α) : List α :=
  l.mergeSort (fun a b => decide (key a ≤ key b))

/-- one `SampleParameter` element: `SampleID` (`none`: absent or empty → `-1`), `DataFileName` -/
structure Sample where
  id : Option Int
  file : Option Name
  deriving Repr

def sampleKey (s : Sample) : Int := s.id.getD (-1)

/-- `acq_method_xml_read_datafiles` -/
def acqMethod (samples : List Sample) : List Name :=
  (sortByInt sampleKey samples).filterMap (·.file)

/-- executable form of the method-file specification (an insertion sort, read from the end of the
document: each `SampleParameter` element is put in front of the first element whose SampleID is
not smaller, so elements with equal SampleID keep their document order).  What this list *is* is
stated without any algorithm by `StableSortedBy` below. -/
def insertSample (s : Sample) : List Sample → List Sample
  | [] => [s]
  | t :: ts => if sampleKey s ≤ sampleKey t then s :: t :: ts else t :: insertSample s ts

def acqSorted (samples : List Sample) : List Sample := samples.foldr insertSample []

/-- specification of `acq_method_xml_read_datafiles`: the `DataFileName` texts of the
`SampleParameter` elements that have one, by ascending SampleID (absent/empty = -1), elements with
the same SampleID in document order; the names are taken as written (no path is stripped) -/
def acqSpec (samples : List Sample) : List Name := (acqSorted samples).filterMap (·.file)

/-- declarative meaning of "`sorted` is `l` stably sorted by `key`": the same elements, ascending
keys, and for every key value the elements carrying it are in their original order -/
def StableSortedBy {α : Type} (key : α → Int) (l sorted : List α) : Prop :=
  sorted.Perm l ∧ sorted.Pairwise (fun a b => key a ≤ key b) ∧
  ∀ v : Int, sorted.filter (fun a => key a = v) = l.filter (fun a => key a = v)

/-- a directory entry of the batch directory -/
structure Entry where
  name : Name
  isDir : Bool
  deriving Repr

/-- `PurePath.suffix` (CPython 3.12): from the last dot, unless it is the first or last character -/
def suffix (n : Name) : Name :=
  let i := rfind '.' n
  if 0 < i ∧ i < (n.length : Int) - 1 then n.drop i.toNat else []

/-- `entry.suffix.lower().endswith(".d")` -/
def isDataName (n : Name) : Bool :=
  (['.', 'd'] : Name).isSuffixOf ((suffix n).map Char.toLower)

/-- `int("".join(filter(str.isdigit, name)))` for names containing an ASCII digit -/
def digitsVal (n : Name) : Nat :=
  (n.filter Char.isDigit).foldl (fun a c => 10 * a + (c.toNat - 48)) 0

/-- a name without any digit makes the sort key `int("")`, which raises ValueError -/
def hasDigit (n : Name) : Bool := n.any Char.isDigit

/-- the data directories of a listing, in listing order -/
def dataDirs (listing : List Entry) : List Name :=
  (listing.filter (fun e => isDataName e.name && e.isDir)).map (·.name)

/-- `find_datafiles_alphabetical`; `none` = ValueError: `list.sort(key=...)` evaluates the key of
every data directory, and `int("")` raises for a name without digit -/
def byNumber (listing : List Entry) : Option (List Name) :=
  if (dataDirs listing).all hasDigit then some (sortByNat digitsVal (dataDirs listing)) else none

/-- specification of the directory scan: insertion of every data directory into an ascending list -/
def insertByNum (x : Name) : List Name → List Name
  | [] => [x]
  | y :: ys => if digitsVal x < digitsVal y then x :: y :: ys else y :: insertByNum x ys

def byNumberSpec (listing : List Entry) : Option (List Name) :=
  if (dataDirs listing).any (fun n => !hasDigit n) then none
  else some ((dataDirs listing).foldl (fun acc x => insertByNum x acc) [])

/-! ## 4. `collect_datafiles` -/

inductive Method | batchXml | batchCsv | acqMethod | alphabetical
  deriving DecidableEq, Repr

/-- what the collection looks at: the directory listing and the optional metadata files -/
structure Meta where
  listing : List Entry
  xml : Option (List LogEntry)
  csv : Option (List CsvRow)
  acq : Option (List Sample)

def Meta.exists (m : Meta) (n : Name) : Bool := m.listing.any (fun e => e.name = n)

def Meta.source (m : Meta) (spc : Bool) : Method → Option (List Name)
  | .batchXml => m.xml.map (fun l => if spc then logSpec l else batchXml l)
  | .batchCsv => m.csv.map (fun rows =>
      if spc then keepLast ((rows.filter (fun r => r.result = pass)).map (fun r => basenameSpec r.file))
      else batchCsv rows)
  | .acqMethod => m.acq.map (fun l => if spc then acqSpec l else acqMethod l)
  | .alphabetical => none

/-- the directory scan, mechanism or specification -/
def Meta.scan (m : Meta) (spc : Bool) : Option (List Name) :=
  if spc then byNumberSpec m.listing else byNumber m.listing

/-- `collect_datafiles`: the first method whose expected files all exist; `none` = ValueError (no
method left, or the directory scan met a name without digit).
`spc = true` evaluates the specification of every reader instead of its mechanism. -/
def collect (m : Meta) (spc : Bool) : List Method → Option (List Name)
  | [] => none
  | .alphabetical :: _ => m.scan spc
  | meth :: rest =>
    match m.source spc meth with
    | some files => if files.all m.exists then some files else collect m spc rest
    | none => collect m spc rest

/-- a listing method is passed over when its metadata file is absent or names a data file that
does not exist (`src`: what each method's metadata file lists, `none` = file absent) -/
def Meta.Fails (m : Meta) (src : Method → Option (List Name)) (meth : Method) : Prop :=
  meth ≠ .alphabetical ∧ ∀ files, src meth = some files → ∃ f ∈ files, m.exists f = false

/-- declarative specification of `collect_datafiles`, independent of the loop: the result is what
the FIRST method of the list that does not fail gives — for `alphabetical` the directory scan
(`scan`, which may itself raise), for a listing method the data files its metadata file names, all
of which exist — every method before it having failed; `none` (ValueError) when every method fails
(or the scan raised). -/
def Selected (m : Meta) (src : Method → Option (List Name)) (scan : Option (List Name))
    (methods : List Method) (r : Option (List Name)) : Prop :=
  (∃ pre meth post, methods = pre ++ meth :: post ∧ (∀ x ∈ pre, m.Fails src x) ∧
    ((meth = .alphabetical ∧ r = scan) ∨
     (meth ≠ .alphabetical ∧ ∃ files, src meth = some files ∧ (∀ f ∈ files, m.exists f = true) ∧ r = some files)))
  ∨ ((∀ x ∈ methods, m.Fails src x) ∧ r = none)

/-! ## 5. mass table -/

/-- one `Masses` element of MSTS_XSpecific.xml -/
structure XMass where
  name : Name
  mass : Int
  acctime : Rat

/-- one `MSTS_XAddition_IndexedMasses` element -/
structure XAdd where
  index : Nat
  precursor : Int
  product : Int

structure MassInfo where
  id : Nat
  name : Name
  acctime : Rat
  mz : Int
  mz2 : Option Int

def intText (i : Int) : Name := (toString i).toList

/-- `XSpecificMass.__str__` -/
def MassInfo.str (m : MassInfo) : Name :=
  match m.mz2 with
  | none => m.name ++ intText m.mz
  | some p => m.name ++ intText m.mz ++ ['-', '>'] ++ intText p

def xspecific (xs : List XMass) : List MassInfo :=
  xs.zipIdx.map (fun (x, i) => { id := i + 1, name := x.name, acctime := x.acctime, mz := x.mass, mz2 := none })

def applyAdd (msms : Bool) (tbl : List MassInfo) (a : XAdd) : List MassInfo :=
  tbl.map (fun m => if m.id = a.index then { m with mz := a.precursor, mz2 := if msms then some a.product else m.mz2 } else m)

/-- `mass_info_datafile`: `xadd = some (scanTypeIsMSMS, rows)` when MSTS_XAddition.xml exists.
`none` = KeyError (an index that is not in the mass table). -/
def massInfo (xs : List XMass) (xadd : Option (Bool × List XAdd)) : Option (List MassInfo) :=
  let tbl := xspecific xs
  match xadd with
  | none => some tbl
  | some (msms, rows) =>
    if rows.all (fun a => tbl.any (fun m => m.id = a.index)) then some (rows.foldl (applyAdd msms) tbl) else none

/-- specification: entry `i` (1-based) takes the last XAddition row with that index -/
def massInfoSpec (xs : List XMass) (xadd : Option (Bool × List XAdd)) : List MassInfo :=
  (xspecific xs).map (fun m =>
    match xadd with
    | none => m
    | some (msms, rows) =>
      match rows.reverse.find? (fun a => a.index = m.id) with
      | none => m
      | some a => { m with mz := a.precursor, mz2 := if msms then some a.product else none })

/-! ## 6. binary decoding -/

/-- the fields of one MSScan.bin record that the code reads -/
structure ScanRec where
  off : Nat        -- SpectrumParamValues.SpectrumOffset
  bc : Nat         -- SpectrumParamValues.ByteCount
  time : Rat       -- ScanTime, minutes

/-- `data["Analog"].flat` of `binary_read_msprofile`: records × k, row-major -/
def flat {α : Type} (profile : List (List α)) : List α := profile.flatten

/-- NumPy indexing with a possibly negative index -/
def pyIndex {α : Type} (l : List α) (i : Int) : Option α :=
  if 0 ≤ i then l[i.toNat]? else if 0 ≤ (l.length : Int) + i then l[((l.length : Int) + i).toNat]? else none

/-- size of the MSProfile.bin header, which `SpectrumOffset` includes -/
def profileHeader : Int := 68

/-- one field of `binary_read_datafile` (as repaired by 0904cc9):
`offsets = (SpectrumOffset - 68) // ByteCount`, `msprofile[min(offsets*k + (id-1), size-1)]["Analog"]` -/
def decodeMass {α : Type} (k : Nat) (scans : List ScanRec) (profile : List (List α)) (id : Nat) :
    List (Option α) :=
  scans.map (fun s =>
    pyIndex (flat profile)
      (min ((((s.off : Int) - profileHeader) / (s.bc : Int)) * (k : Int) + ((id : Int) - 1))
           (((profile.length * k : Nat) : Int) - 1)))

/-- the mechanism before 0904cc9 (`SpectrumOffset // ByteCount`), kept for the regression witnesses -/
def decodeMassUnrepaired {α : Type} (k : Nat) (scans : List ScanRec) (profile : List (List α)) (id : Nat) :
    List (Option α) :=
  scans.map (fun s => (flat profile)[min (s.off / s.bc * k + (id - 1)) (profile.length * k - 1)]?)

/-- all fields, `[mass][scan]` -/
def decode {α : Type} (ids : List Nat) (scans : List ScanRec) (profile : List (List α)) :
    List (List (Option α)) :=
  ids.map (decodeMass ids.length scans profile)

/-- a well laid out data file: `R` scan records pointing at `R` profile records of `k` values,
`SpectrumOffset = 68 + r·ByteCount` (the byte position of record `r` behind the 68-byte header) -/
structure Layout {α : Type} (R k bc : Nat) (scans : List ScanRec) (profile : List (List α)) : Prop where
  nprofile : profile.length = R
  nscans : scans.length = R
  width : ∀ row ∈ profile, row.length = k
  offs : ∀ r (hr : r < scans.length), scans[r].off = 68 + r * bc ∧ scans[r].bc = bc
  pos : 0 < bc

/-- decidable form of `∃ bc, Layout scans.length k bc scans profile` (the driver reports it; files
outside it — clipped, negative or misaligned offsets — are compared mechanism-vs-pewlib only) -/
def layoutB {α : Type} (k : Nat) (scans : List ScanRec) (profile : List (List α)) : Bool :=
  let bc := (scans.head?.map (·.bc)).getD 0
  profile.length == scans.length && profile.all (fun row => row.length == k) && decide (0 < bc) &&
    scans.zipIdx.all (fun (s, r) => s.off == 68 + r * bc && s.bc == bc)

/-- the per-line CSV export, field by field: preamble lines, header fields (the first one starts
with `Time`), data rows, footer lines; `eol` is what is left of the line terminator (`\r` or nothing) -/
structure CsvFile where
  pre : List Name
  header : List Name
  rows : List (List Name)
  foot : List Name
  eol : Name

def joinFields : List Name → Name
  | [] => []
  | [f] => f
  | f :: fs => f ++ ',' :: joinFields fs

/-- the text lines of the file as `for line in fp` yields them (without the final `\n`) -/
def CsvFile.lines (c : CsvFile) : List Name :=
  (c.pre ++ [joinFields c.header] ++ c.rows.map joinFields ++ c.foot).map (· ++ c.eol)

/-- a data directory on disk -/
structure DataFile (α : Type) where
  name : Name
  hasBinary : Bool                 -- MSScan.bin, MSProfile.bin and MSTS_XSpecific.xml are present
  scans : List ScanRec
  profile : List (List α)          -- MSProfile.bin: records × k Analog values
  csv : Option CsvFile             -- <name>.d/<name>.csv when it exists

def findFile {α : Type} (files : List (DataFile α)) (n : Name) : Option (DataFile α) :=
  files.find? (fun f => f.name = n)

/-- result of an import: element names, `img[line][element][scan]`, `times[line][scan]` -/
structure Image (β : Type) where
  names : List Name
  img : List (List (List β))
  times : List (List Rat)

inductive Err | value | notFound | key | other
  deriving DecidableEq, Repr

def allSome {β : Type} : List (Option β) → Option (List β)
  | [] => some []
  | none :: _ => none
  | some x :: xs => (allSome xs).map (x :: ·)

def orErr {β : Type} (e : Err) : Option β → Except Err β
  | some b => .ok b
  | none => .error e

/-- lines to import: `collect_datafiles`, falling back to the directory scan when it is empty -/
def linesOf (m : Meta) (spc : Bool) (methods : List Method) : Except Err (List Name) :=
  match collect m spc methods with
  | none => .error .value
  | some [] =>
    match m.scan spc with
    | none => .error .value
    | some [] => .error .notFound
    | some l => .ok l
  | some l => .ok l

/-- `load_binary` up to (not including) the counts-per-second division.
`masses` is the mass table (`none`: reading it raised KeyError). -/
def loadBinary {α : Type} (m : Meta) (files : List (DataFile α)) (masses : Option (List MassInfo))
    (methods : List Method) : Except Err (Image α) := do
  let lines ← linesOf m false methods
  let dfs ← orErr .notFound (allSome (lines.map (findFile files)))
  if !(dfs.all (·.hasBinary)) then throw .notFound
  let ms ← orErr .key masses
  let ids := ms.map (·.id)
  let dec := dfs.map (fun f => decode ids f.scans f.profile)
  -- an index into an empty profile raises
  let img ← orErr .other (allSome (dec.map (fun line => allSome (line.map allSome))))
  -- np.stack: every line must have the same number of scans
  let n0 := (dfs.head?.map (·.scans.length)).getD 0
  if !(dfs.all (fun f => f.scans.length = n0)) then throw .value
  pure { names := ms.map (·.str), img := img, times := dfs.map (fun f => f.scans.map (fun s => s.time * 60)) }

/-- column `j` of a profile: the value recorded for element `j` in every scan -/
def column {α : Type} (profile : List (List α)) (j : Nat) : List α :=
  profile.filterMap (fun rec => rec[j]?)

/-- specification of the binary import: pixel `[line][element][scan]` is the Analog value of that
element in that scan's record of that line's file, lines in the specified collection order, names
from the specified mass table -/
def loadBinarySpec {α : Type} (m : Meta) (files : List (DataFile α)) (masses : List MassInfo)
    (methods : List Method) : Except Err (Image α) := do
  let lines ← linesOf m true methods
  let dfs ← orErr .notFound (allSome (lines.map (findFile files)))
  if !(dfs.all (·.hasBinary)) then throw .notFound
  pure { names := masses.map (·.str),
         img := dfs.map (fun f => (List.range masses.length).map (column f.profile)),
         times := dfs.map (fun f => f.scans.map (fun s => s.time * 60)) }

/-- `data[str(mass)] /= mass.acctime` -/
def cps (masses : List MassInfo) (im : Image Rat) : Image Rat :=
  { im with img := im.img.map (fun line => (line.zip masses).map (fun (col, ms) => col.map (· / ms.acctime))) }

/-- `np.mean(np.diff(times, axis=1))` (before rounding to 4 places) -/
def diffs : List Rat → List Rat
  | a :: b :: rest => (b - a) :: diffs (b :: rest)
  | _ => []

def meanDiff (times : List (List Rat)) : Rat :=
  let d := (times.map diffs).flatten
  d.sum / d.length

/-- specification of the scan time: total span over the number of intervals -/
def meanDiffSpec (times : List (List Rat)) (m : Nat) : Rat :=
  (times.map (fun row => row.getLastD 0 - row.headD 0)).sum / ((times.length * (m - 1) : Nat) : Rat)

/-! ## 7. CSV import -/

def countCommas (l : Name) : Nat := l.count ','

def startsWithTime (l : Name) : Bool := (['T', 'i', 'm', 'e'] : Name).isPrefixOf l

/-- `csv_valid_lines`: state = (past_header, delimiter_count) -/
def validLines : Bool → Nat → List Name → List Name
  | _, _, [] => []
  | ph, n, l :: ls =>
    if ph && countCommas l == n then l :: validLines ph n ls
    else if startsWithTime l then l :: validLines true (countCommas l) ls
    else validLines ph n ls

def splitOn (c : Char) : Name → List Name
  | [] => [[]]
  | x :: xs =>
    match splitOn c xs with
    | [] => [[]]   -- unreachable
    | f :: fs => if x = c then [] :: f :: fs else (x :: f) :: fs

def stripChars (p : Char → Bool) (s : Name) : Name :=
  ((s.dropWhile p).reverse.dropWhile p).reverse

/-- genfromtxt's line splitter: strip `" \r\n"`, split on the delimiter -/
def fields (l : Name) : List Name :=
  splitOn ',' (stripChars (fun c => c = ' ' || c = '\r' || c = '\n') l)

/-- NameValidator with `deletechars=""`: strip, spaces → `_`, the double quote is deleted -/
def validName (f : Name) : Name :=
  ((stripChars Char.isWhitespace f).map (fun c => if c = ' ' then '_' else c)).filter (· ≠ '"')

def digitsNat (ds : Name) : Nat := ds.foldl (fun a c => 10 * a + (c.toNat - 48)) 0

/-- plain decimal text `[+-]ddd[.ddd]` → exact value (what a correctly rounding `float()` rounds) -/
def parseDec (s : Name) : Option Rat :=
  let s := stripChars Char.isWhitespace s
  let (neg, body) := match s with
    | '-' :: r => (true, r)
    | '+' :: r => (false, r)
    | r => (false, r)
  let ip := body.takeWhile Char.isDigit
  let rest := body.dropWhile Char.isDigit
  let fp? : Option Name := match rest with
    | [] => some []
    | '.' :: fr => if fr.all Char.isDigit then some fr else none
    | _ => none
  match fp? with
  | none => none
  | some fp =>
    if ip.isEmpty && fp.isEmpty then none else
    let v : Rat := (digitsNat (ip ++ fp) : Rat) / ((10 ^ fp.length : Nat) : Rat)
    some (if neg then -v else v)

/-- white space at the ends of a line as genfromtxt's splitter strips it -/
def lineWs (c : Char) : Bool := c = ' ' || c = '\r' || c = '\n'

/-- a per-line CSV export that `csv_valid_lines` + `genfromtxt` read field by field -/
structure CsvWF (c : CsvFile) : Prop where
  eol_blank : ∀ ch ∈ c.eol, lineWs ch = true
  header_ne : c.header ≠ []
  nocomma : ∀ fs ∈ c.header :: c.rows, ∀ f ∈ fs, ',' ∉ f
  width : ∀ r ∈ c.rows, r.length = c.header.length
  ends : ∀ fs ∈ c.header :: c.rows, ∃ h : joinFields fs ≠ [],
    lineWs ((joinFields fs).head h) = false ∧ lineWs ((joinFields fs).getLast h) = false
  pre : ∀ l ∈ c.pre, startsWithTime (l ++ c.eol) = false
  head : startsWithTime (joinFields c.header ++ c.eol) = true
  foot : ∀ l ∈ c.foot, countCommas (l ++ c.eol) ≠ c.header.length - 1 ∧ startsWithTime (l ++ c.eol) = false
  parse : ∀ r ∈ c.rows, ∀ f ∈ r, ∃ q, parseDec f = some q

structure Table where
  names : List Name
  rows : List (List Rat)      -- [scan][column]

/-- `np.genfromtxt(csv_valid_lines(csv), delimiter=",", names=True, dtype=float64, deletechars="")`
on the generated class of files (plain decimal fields, no comment characters, distinct names) -/
def readCsv (lines : List Name) : Option Table :=
  match validLines false 0 lines with
  | [] => none
  | h :: data =>
    let names := (fields h).map validName
    let rows := (data.filter (fun l => !(stripChars (fun c => c = ' ' || c = '\r' || c = '\n') l).isEmpty)).map
      (fun l => allSome ((fields l).map parseDec))
    match allSome rows with
    | none => none
    | some rows => if rows.all (fun r => r.length = names.length) then some { names := names, rows := rows } else none

/-- one `IcpmsElement` of AcqMethod.xml -/
structure AcqElement where
  name : Name
  mz : Int         -- <MZ>
  selected : Int   -- <SelectedMZ>

/-- stable sort by the pair `(mz, selected)` -/
def sortElements (es : List AcqElement) : List AcqElement :=
  es.mergeSort (fun a b => decide (a.mz < b.mz ∨ (a.mz = b.mz ∧ a.selected ≤ b.selected)))

/-- `acq_method_xml_read_elements` -/
def acqElements (msms : Bool) (es : List AcqElement) : List Name :=
  (sortElements es).map (fun e =>
    if msms then e.name ++ intText e.selected ++ ['-', '>'] ++ intText e.mz else e.name ++ intText e.mz)

/-- `rfn.rename_fields(data, dict(zip(names[1:], new)))` -/
def renameFields (names : List Name) (new : List Name) : List Name :=
  match names with
  | [] => []
  | t :: rest => t :: (List.range rest.length).map (fun i => (new[i]?).getD (rest.getD i []))

def timeName : Name := "Time_[Sec]".toList

def transpose (ncol : Nat) (rows : List (List Rat)) : List (List Rat) :=
  (List.range ncol).map (fun j => rows.map (fun r => r.getD j 0))

/-- `data[i, :] = line`: a table of `nscan` rows is stored as it is; a table with a single data row
(genfromtxt returns a 0-d record) is broadcast over all `nscan` scans -/
def csvRows (nscan : Nat) (t : Table) : List (List Rat) :=
  if t.rows.length = nscan then t.rows else List.replicate nscan (t.rows.headD [])

/-- one line of `load_csv`'s array, `[column][scan]`: zeros when the CSV is missing (`line is None`) -/
def csvCols (ncol nscan : Nat) : Option Table → List (List Rat)
  | none => List.replicate ncol (List.replicate nscan 0)
  | some t => transpose ncol (csvRows nscan t)

/-- `read_datafile_csvs` for one data file: `some none` = csv missing (line blanked); `none` = the
csv exists but cannot be read (raises) -/
def readLine (csv : Option CsvFile) : Option (Option Table) :=
  match csv with
  | none => some none
  | some c => (readCsv c.lines).map some

/-- every present line has the shape of the first present one, or a single data row (which NumPy
broadcasts); `data[i, :] = line` raises otherwise -/
def shapeOk (nscan ncol : Nat) (t : Option Table) : Bool :=
  match t with
  | none => true
  | some t => decide ((t.rows.length = nscan ∨ t.rows.length = 1) ∧ t.names.length = ncol)

/-- the field names after the optional renaming from the method file -/
def csvNames? (acqNames : Option (List Name)) (names : List Name) : List Name :=
  match acqNames with
  | none => names
  | some new => renameFields names new

/-- `load_csv`: `acqNames = some names` when `use_acq_for_names` and AcqMethod.xml exists.
`img[line][column][scan]` without the time column; `times` = the time column (named `Time_[Sec]`). -/
def loadCsv {α : Type} (m : Meta) (files : List (DataFile α)) (acqNames : Option (List Name))
    (methods : List Method) : Except Err (Image Rat) :=
  match linesOf m false methods with
  | .error e => .error e
  | .ok lines =>
    match allSome (lines.map (findFile files)) with
    | none => .error .notFound
    | some dfs =>
      match allSome (dfs.map (fun f => readLine f.csv)) with
      | none => .error .other
      | some tabs =>
        match tabs.filterMap id with
        | [] => .error .other          -- StopIteration
        | t0 :: _ =>
          -- a single data row gives a 0-d array (`data_shape[0]`: IndexError); no data row at all gives
          -- an array of shape (0,): an image without scans
          if t0.rows.length = 1 then .error .other
          else if !(tabs.all (shapeOk t0.rows.length t0.names.length)) then .error .value
          else
            let cols : List (List (List Rat)) := tabs.map (csvCols t0.names.length t0.rows.length)
            let names := csvNames? acqNames t0.names
            if names.head? ≠ some timeName then .error .other   -- other header layouts are not generated
            else .ok { names := names.drop 1, img := cols.map (·.drop 1), times := cols.map (·.headD []) }

/-- specification of one line of the CSV import: column `j+1` of every data row, zeros when the
line's CSV is missing -/
def csvLineSpec (ncol nscan : Nat) : Option CsvFile → Option (List (List Rat))
  | none => some (List.replicate ncol (List.replicate nscan 0))
  | some c => allSome ((List.range ncol).map (fun j => allSome (c.rows.map (fun r => (r[j]?).bind parseDec))))

/-- specification of the CSV import.  `specNames = some names`: the element names of the batch's own
mass table (used when the method file supplies the names), otherwise the header's names. -/
def loadCsvSpec {α : Type} (m : Meta) (files : List (DataFile α)) (specNames : Option (List Name))
    (methods : List Method) : Except Err (Image Rat) :=
  match linesOf m true methods with
  | .error e => .error e
  | .ok lines =>
    match allSome (lines.map (findFile files)) with
    | none => .error .notFound
    | some dfs =>
      match dfs.filterMap (·.csv) with
      | [] => .error .other
      | c0 :: _ =>
        match allSome (dfs.map (fun f => csvLineSpec c0.header.length c0.rows.length f.csv)) with
        | none => .error .other
        | some cols =>
          .ok { names := (match specNames with
                  | none => (c0.header.drop 1).map validName
                  | some ns => ns),
                img := cols.map (·.drop 1), times := cols.map (·.headD []) }

/-- the part of `csv_pixel`'s hypotheses that the generator varies, decidably: every export has as
many data rows (at least 2) and header fields as the first one -/
def csvShapeB {α : Type} (files : List (DataFile α)) : Bool :=
  match files.filterMap (·.csv) with
  | [] => true
  | c0 :: rest => decide (2 ≤ c0.rows.length) &&
      rest.all (fun c => c.rows.length == c0.rows.length && c.header.length == c0.header.length)

/-! ## 8. binary-vs-CSV agreement, method file vs log -/

def absRat (q : Rat) : Rat := if q < 0 then -q else q

/-- `x` and `y` are equal to `tol` (half a unit of the last printed place) up to a relative `slack`
for the floating-point roundings on the way (the counts-per-second division the text was printed
from, the decimal-to-binary conversion when it is read back) -/
def agreePx (tol slack x y : Rat) : Bool := decide (absRat (x - y) ≤ tol + slack * (absRat x + absRat y))

def agreeLine (tol slack : Rat) (a b : List (List Rat)) : Bool :=
  a.length == b.length && (a.zip b).all (fun (ca, cb) =>
    ca.length == cb.length && (ca.zip cb).all (fun (x, y) => agreePx tol slack x y))

/-- every pixel of every line whose CSV is present agrees to `tol` -/
def agree (tol slack : Rat) (present : List Bool) (bin csv : Image Rat) : Bool :=
  bin.img.length == csv.img.length && bin.img.length == present.length &&
    ((bin.img.zip csv.img).zip present).all (fun ((a, b), p) => !p || agreeLine tol slack a b)

/-- slack under which the exact values of a batch count as "the CSV was printed from the binary
values": one correctly rounded float64 division (relative error ≤ 2⁻⁵³) fits twice -/
def printSlack : Rat := 1 / 2 ^ 52

/-- slack under which the two float64 imports are compared (theorem `agree_transfer`: it follows
from `printSlack` on the exact values when each imported float is within 2⁻⁵³ of its exact value) -/
def agreeSlack : Rat := 1 / 2 ^ 50

/-- half a unit of the `d`-th decimal place -/
def halfUnit (d : Nat) : Rat := 1 / (2 * (10 ^ d : Nat) : Rat)

/-- round-half-up to `d` decimals: an instance of a printer that meets the hypothesis of `agree_of_printed` -/
def roundDec (d : Nat) (q : Rat) : Rat := ((q * (10 ^ d : Nat) + 1 / 2).floor : Int) / ((10 ^ d : Nat) : Rat)

/-- pixel `[line][element][scan]` of an image -/
def px {β : Type} (img : List (List (List β))) (i j r : Nat) : Option β :=
  ((img[i]?).bind (·[j]?)).bind (·[r]?)

/-- the lines marked present have the same number of elements and of scans in both images -/
def SameShape {β : Type} (present : List Bool) (a b : List (List (List β))) : Prop :=
  a.length = b.length ∧ a.length = present.length ∧
  ∀ (i : Nat) la lb, present[i]? = some true → a[i]? = some la → b[i]? = some lb →
    la.length = lb.length ∧ ∀ (j : Nat) ca cb, la[j]? = some ca → lb[j]? = some cb → ca.length = cb.length

/-- `b` is `a` with every pixel replaced by a number within relative distance `eps` of it -/
def Near (eps : Rat) (a b : List (List (List Rat))) : Prop :=
  a.length = b.length ∧
  ∀ (i : Nat) la lb, a[i]? = some la → b[i]? = some lb →
    la.length = lb.length ∧ ∀ (j : Nat) ca cb, la[j]? = some ca → lb[j]? = some cb →
      ca.length = cb.length ∧ ∀ (r : Nat) x y, ca[r]? = some x → cb[r]? = some y → absRat (y - x) ≤ eps * absRat x

def logName (e : LogEntry) : Option Name := e.file.map basename

/-- decidable form of "nothing failed or was repeated, and the SampleIDs increase in acquisition
order": `planned` is the sample list in acquisition order -/
def acqLogHyp (log : List LogEntry) (planned : List Sample) : Bool :=
  log.all (fun e => e.result = pass && e.file.isSome) &&
  decide ((log.map logName).Nodup) &&
  decide (planned.Pairwise (fun a b => sampleKey a < sampleKey b)) &&
  decide (planned.map (·.file) = log.map logName)

/-- `load`: binary first, CSV import on any exception -/
def load {γ : Type} (bin : Except Err γ) (csv : Except Err γ) : Except Err γ :=
  match bin with
  | .ok r => .ok r
  | .error _ => csv

/-! ## 9. the entry points with their options

`load_binary(path, collection_methods=None, counts_per_second=False, drop_names=None, full=False)`,
`load_csv(path, collection_methods=None, use_acq_for_names=True, drop_names=None, full=False)` and
`load(path, collection_methods=None, use_acq_for_names=True, counts_per_second=False, drop_names=None,
full=False)`: an option the caller omits takes the default of the signature (`drop_names`: the time
field only).  With `full` the functions return `(data, params)`,
otherwise `data` alone. -/

/-- what an entry point returns: the image, and `params["times"]` when `full` (`none`: the bare
array was returned; `params["scantime"]` is derived from the times) -/
structure Returned (β : Type) where
  names : List Name
  img : List (List (List β))
  params : Option (List (List Rat))
  /-- the time field, when `drop_names` was given and does not name it: it stays in the returned array (as the last
  field of `load_binary`'s array, the first of `load_csv`'s) -/
  timeField : Option (List (List Rat)) := none

/-- the image part of a return value -/
def Returned.image {β : Type} (r : Returned β) : List Name × List (List (List β)) := (r.names, r.img)

/-- the options of a call; `none` = the caller omitted the argument -/
structure CallOpts where
  methods : Option (List Method)
  cps : Option Bool
  useAcq : Option Bool
  full : Option Bool
  /-- `drop_names`: `none` = omitted (the default drops the time field only) -/
  drop : Option (List Name) := none

/-- `if collection_methods is None: collection_methods = ["batch_xml", "batch_csv"]` -/
def defaultMethods : List Method := [.batchXml, .batchCsv]

def CallOpts.methodsV (o : CallOpts) : List Method := o.methods.getD defaultMethods
def CallOpts.cpsV (o : CallOpts) : Bool := o.cps.getD false
def CallOpts.useAcqV (o : CallOpts) : Bool := o.useAcq.getD true
def CallOpts.fullV (o : CallOpts) : Bool := o.full.getD false

/-- the name of the time field in `load_binary`'s array -/
def binTimeName : Name := "Time".toList

/-- `rfn.drop_fields(data, drop_names)` on the element fields: a field whose name is listed goes, with its column;
names that are no field are ignored; the other fields keep their order and their columns.  `none`: `drop_names`
omitted (only the time field is dropped, which `Image` holds apart). -/
def dropElems {β : Type} (drop : Option (List Name)) (im : Image β) : Image β :=
  match drop with
  | none => im
  | some d =>
    { im with names := im.names.filter (fun n => !d.contains n),
              img := im.img.map (fun line => ((im.names.zip line).filter (fun p => !d.contains p.1)).map (·.2)) }

/-- the time field stays in the array when `drop_names` is given and does not list it -/
def keptTime (timeNm : Name) (drop : Option (List Name)) (times : List (List Rat)) : Option (List (List Rat)) :=
  match drop with
  | none => none
  | some d => if d.contains timeNm then none else some times

/-- specification of the return shape: the fields `drop_names` leaves; the times as params only when `full` -/
def retOf {β : Type} (timeNm : Name) (drop : Option (List Name)) (full : Bool) (im : Image β) : Returned β :=
  { names := (dropElems drop im).names, img := (dropElems drop im).img,
    params := if full then some im.times else none, timeField := keptTime timeNm drop im.times }

/-- `load_binary` with its options, in the order of the code: the lines are stacked; `if full:` the
params are read from the stacked array; `if counts_per_second:` every mass field is divided
(`divide`, `cps` for rational values); the time field is dropped; `(data, params)` or `data` is returned. -/
def loadBinaryCall {α : Type} (m : Meta) (files : List (DataFile α)) (masses : Option (List MassInfo))
    (divide : List MassInfo → Image α → Image α) (o : CallOpts) : Except Err (Returned α) := do
  let data ← loadBinary m files masses o.methodsV
  let params := if o.fullV then some data.times else none
  let data := if o.cpsV then divide (masses.getD []) data else data
  -- `data = rfn.drop_fields(data, drop_names)`: after the division, on the fields by NAME
  let kept := dropElems o.drop data
  let tf := keptTime binTimeName o.drop data.times
  if o.fullV then pure { names := kept.names, img := kept.img, params := params, timeField := tf }
  else pure { names := kept.names, img := kept.img, params := none, timeField := tf }

/-- specification: the specified image, divided when counts per second are asked for, in the return
shape `full` asks for -/
def loadBinaryCallSpec {α : Type} (m : Meta) (files : List (DataFile α)) (masses : List MassInfo)
    (divide : List MassInfo → Image α → Image α) (o : CallOpts) : Except Err (Returned α) :=
  (loadBinarySpec m files masses o.methodsV).map
    (fun im => retOf binTimeName o.drop o.fullV (if o.cpsV then divide masses im else im))

/-- `load_csv` with its options; `acq = some names` when AcqMethod.xml exists (its element names) -/
def loadCsvCall {α : Type} (m : Meta) (files : List (DataFile α)) (acq : Option (List Name))
    (o : CallOpts) : Except Err (Returned Rat) := do
  let data ← loadCsv m files (if o.useAcqV then acq else none) o.methodsV
  let params := if o.fullV then some data.times else none
  let kept := dropElems o.drop data
  let tf := keptTime timeName o.drop data.times
  if o.fullV then pure { names := kept.names, img := kept.img, params := params, timeField := tf }
  else pure { names := kept.names, img := kept.img, params := none, timeField := tf }

/-- specification: `tbl` = the names of the batch's own mass table, used when the method file
supplies the names -/
def loadCsvCallSpec {α : Type} (m : Meta) (files : List (DataFile α)) (acq : Option (List Name))
    (tbl : List Name) (o : CallOpts) : Except Err (Returned Rat) :=
  (loadCsvSpec m files (if o.useAcqV && acq.isSome then some tbl else none) o.methodsV).map (retOf timeName o.drop o.fullV)

/-! ## 10. a process: several imports one after another

`pewlib.io.agilent` assigns no module global after import, memoises nothing and has no mutable default
argument: what a call returns depends on its arguments and on the files as they are on disk when it is
made, and on nothing that an earlier call (or the caller, editing what an earlier call returned) left
behind.  A process is therefore modelled as the list of its calls, each evaluated on the `Disk` of its
moment. -/

def Returned.map {β γ : Type} (f : β → γ) (r : Returned β) : Returned γ :=
  { names := r.names, img := r.img.map (·.map (·.map f)), params := r.params, timeField := r.timeField }

inductive EntryPoint | loadBinary | loadCsv | load
  deriving DecidableEq, Repr

/-- what an import reads: the batch as it is on disk at the moment of the call -/
structure Disk (α : Type) where
  mt : Meta                          -- directory listing, BatchLog.xml, BatchLog.csv, sample list of AcqMethod.xml
  files : List (DataFile α)          -- the data directories
  xs : List XMass                    -- MSTS_XSpecific.xml of the first data file
  xadd : Option (Bool × List XAdd)   -- MSTS_XAddition.xml, when it exists
  acq : Option (List Name)           -- the element names of AcqMethod.xml (`acqElements`), when it exists

/-- one call of an entry point with the options `o` on the disk `d`.  Pixel values are encoded into one type `γ`
(`load` returns either import): `enc` for the binary import's values, `encQ` for the CSV import's. -/
def callOn {α γ : Type} (enc : α → γ) (encQ : Rat → γ) (divide : List MassInfo → Image α → Image α)
    (d : Disk α) (fn : EntryPoint) (o : CallOpts) : Except Err (Returned γ) :=
  let bin := (loadBinaryCall d.mt d.files (massInfo d.xs d.xadd) divide o).map (Returned.map enc)
  let csv := (loadCsvCall d.mt d.files d.acq o).map (Returned.map encQ)
  match fn with
  | .loadBinary => bin
  | .loadCsv => csv
  | .load => load bin csv

/-- its specification -/
def callOnSpec {α γ : Type} (enc : α → γ) (encQ : Rat → γ) (divide : List MassInfo → Image α → Image α)
    (d : Disk α) (fn : EntryPoint) (o : CallOpts) : Except Err (Returned γ) :=
  let tbl := massInfoSpec d.xs d.xadd
  let bin := (loadBinaryCallSpec d.mt d.files tbl divide o).map (Returned.map enc)
  let csv := (loadCsvCallSpec d.mt d.files d.acq (tbl.map (·.str)) o).map (Returned.map encQ)
  match fn with
  | .loadBinary => bin
  | .loadCsv => csv
  | .load => load bin csv

/-- the calls of a process, in order, each on the disk as it is at that call -/
def process {α γ : Type} (enc : α → γ) (encQ : Rat → γ) (divide : List MassInfo → Image α → Image α)
    (calls : List (Disk α × EntryPoint × CallOpts)) : List (Except Err (Returned γ)) :=
  calls.map (fun c => callOn enc encQ divide c.1 c.2.1 c.2.2)

def processSpec {α γ : Type} (enc : α → γ) (encQ : Rat → γ) (divide : List MassInfo → Image α → Image α)
    (calls : List (Disk α × EntryPoint × CallOpts)) : List (Except Err (Returned γ)) :=
  calls.map (fun c => callOnSpec enc encQ divide c.1 c.2.1 c.2.2)

/-- the hypotheses under which an import of the disk `d` with the collection methods `methods` is described by
its specification: the instrument layout in every data file that has its binaries (`R` scans, `k` masses),
XAddition indices inside the mass table, BatchLog.csv texts that fit their columns, distinct numbers in the
data-directory names, well-formed exports of the batch's shape, and a method file that lists the batch's own
mass table -/
structure Disk.Ok {α : Type} (d : Disk α) (methods : List Method) (R k : Nat) : Prop where
  hk : d.xs.length = k
  hidx : ∀ msms rows, d.xadd = some (msms, rows) → ∀ a ∈ rows, 1 ≤ a.index ∧ a.index ≤ d.xs.length
  hbin : ∀ f ∈ d.files, f.hasBinary = true → ∃ bc, Layout R k bc f.scans f.profile
  hcsvlog : ∀ rows, d.mt.csv = some rows →
    ∀ r ∈ rows, (r.result.take 4 = pass → r.result = pass) ∧ r.file.length ≤ 264
  hnum : ∀ a ∈ dataDirs d.mt.listing, ∀ b ∈ dataDirs d.mt.listing, digitsVal a = digitsVal b → a = b
  hscan : 2 ≤ R
  hexp : ∀ f ∈ d.files, ∀ c, f.csv = some c →
    CsvWF c ∧ c.header.length = k + 1 ∧ c.rows.length = R ∧ (c.header.head?).map validName = some timeName
  hacq : ∀ ns, d.acq = some ns → ns = (massInfoSpec d.xs d.xadd).map (·.str)

/-- two directory states that differ only in the ORDER in which the directory is listed -/
structure Meta.SameUpToListing (m₁ m₂ : Meta) : Prop where
  perm : m₁.listing.Perm m₂.listing
  xml : m₁.xml = m₂.xml
  csv : m₁.csv = m₂.csv
  acq : m₁.acq = m₂.acq

/-! ### what state kept between calls would do (regression model for the seeded change C02-c3) -/

def memoGet {κ β : Type} [DecidableEq κ] (k : κ) : List (κ × β) → Option β
  | [] => none
  | (k', v) :: rest => if k' = k then some v else memoGet k rest

/-- a process whose `load_binary` keeps the mass table it has read, per `key` of the disk (C02-c3: the key is
the path of MSTS_XSpecific.xml — every batch written to one path has the same key): a later import whose key
was seen before decodes and names its image with the remembered table -/
def processMemo {α κ : Type} [DecidableEq κ] (key : Disk α → κ) (divide : List MassInfo → Image α → Image α) :
    List (κ × Option (List MassInfo)) → List (Disk α × CallOpts) → List (Except Err (Returned α))
  | _, [] => []
  | cache, (d, o) :: rest =>
    let tbl := (memoGet (key d) cache).getD (massInfo d.xs d.xadd)
    loadBinaryCall d.mt d.files tbl divide o :: processMemo key divide ((key d, tbl) :: cache) rest

end Pew.Agilent
