/-!
# C11 — merging images by offset (`pewlib.process.register.overlap_arrays`)

Mechanism (shaped like the code): offsets are normalised by the per-axis minimum, the canvas has
the bounding-box shape, is initialised with the fill (replace) or zero (mean/sum), every input is
folded into it in list order, visits are counted, and the fill / mean division is applied at the
end.  Specification: per output pixel, the list of non-NaN contributions in input order.

Values are `Option Rat` (`none` = NaN).  Indices are `List Int` (one entry per axis).
-/
namespace Pew.Overlap

abbrev Idx := List Int
abbrev V := Option Rat

inductive Mode | replace | mean | sum
  deriving DecidableEq, Repr

/-- an input image placed at `off`; `get` is indexed by the local (array) index -/
structure Arr where
  off : List Int
  shape : List Nat
  get : Idx → V

def sub (p q : List Int) : List Int := List.zipWith (· - ·) p q

def inRange : List Int → List Nat → Bool
  | [], [] => true
  | q :: qs, s :: ss => decide (0 ≤ q) && decide (q < (s : Int)) && inRange qs ss
  | _, _ => false

/-- does array `a` cover canvas pixel `p` -/
def Arr.inside (a : Arr) (p : Idx) : Bool :=
  p.length == a.off.length && inRange (sub p a.off) a.shape

/-- `none`: `a` does not cover `p`; `some none`: covers with NaN; `some (some x)`: covers with x -/
def Arr.at (a : Arr) (p : Idx) : Option V :=
  if a.inside p then some (a.get (sub p a.off)) else none

/-! ## mechanism -/

structure Cell where
  acc : V
  visits : Nat
  deriving Repr

/-- `np.nansum([canvas, array], axis=0)` on one pixel: NaN counts as zero, the result is never NaN -/
def nansum2 (x y : V) : V := some (x.getD 0 + y.getD 0)

def step (m : Mode) (c : Idx → Cell) (a : Arr) : Idx → Cell := fun p =>
  match a.at p with
  | none => c p
  | some v =>
    let visits := (c p).visits + (if v.isSome then 1 else 0)
    match m with
    | .replace => { acc := if v.isSome then v else (c p).acc, visits := visits }
    | _ => { acc := nansum2 (c p).acc v, visits := visits }

def init (m : Mode) (fill : V) : Idx → Cell := fun _ =>
  { acc := if m = .replace then fill else some 0, visits := 0 }

def finish (m : Mode) (fill : V) (c : Cell) : V :=
  match m with
  | .replace => c.acc
  | .sum => if c.visits = 0 then fill else c.acc
  | .mean =>
    if c.visits = 0 then fill
    else if c.visits > 1 then c.acc.map (· / (c.visits : Rat)) else c.acc

/-- the canvas pixel computed by the code, for already normalised offsets -/
def mech (m : Mode) (fill : V) (arrs : List Arr) (p : Idx) : V :=
  finish m fill (arrs.foldl (step m) (init m fill) p)

/-! ## specification -/

/-- non-NaN values the inputs place at `p`, in input order -/
def contribs (arrs : List Arr) (p : Idx) : List Rat :=
  arrs.filterMap (fun a => (a.at p).join)

def spec (m : Mode) (fill : V) (arrs : List Arr) (p : Idx) : V :=
  match contribs arrs p with
  | [] => fill
  | c :: cs =>
    match m with
    | .replace => some ((c :: cs).getLast (by simp))
    | .sum => some (c :: cs).sum
    | .mean => some ((c :: cs).sum / ((c :: cs).length : Rat))

/-! ## offset normalisation and bounding box -/

def minList : List Int → Int
  | [] => 0
  | x :: xs => xs.foldl min x

def maxList : List Int → Int
  | [] => 0
  | x :: xs => xs.foldl max x

def axis (k : Nat) (l : List Int) : Int := l.getD k 0

/-- per-axis minimum of the offsets (`np.amin(offsets, axis=0)`) -/
def minOffset (ndim : Nat) (arrs : List Arr) : List Int :=
  (List.range ndim).map (fun k => minList (arrs.map (fun a => axis k a.off)))

def normalise (ndim : Nat) (arrs : List Arr) : List Arr :=
  let mo := minOffset ndim arrs
  arrs.map (fun a => { a with off := sub a.off mo })

/-- `np.amax([offset + a.shape ...], axis=0)` -/
def newShape (ndim : Nat) (arrs : List Arr) : List Int :=
  (List.range ndim).map (fun k =>
    maxList (arrs.map (fun a => axis k a.off + ((a.shape.getD k 0 : Nat) : Int))))

/-- all indices of a box, row-major (last axis fastest) -/
def allIdx : List Nat → List Idx
  | [] => [[]]
  | s :: ss => (List.range s).flatMap (fun (i : Nat) => (allIdx ss).map (fun r => (i : Int) :: r))

/-- the whole function: shape of the result and its values in row-major order -/
def overlap (spc : Bool) (m : Mode) (fill : V) (ndim : Nat) (arrs : List Arr) : List Int × List V :=
  let n := normalise ndim arrs
  let sh := newShape ndim n
  (sh, (allIdx (sh.map Int.toNat)).map (fun p => if spc then spec m fill n p else mech m fill n p))

/-! ## structured variant (`overlap_structured_arrays`) -/

structure SArr where
  off : List Int
  shape : List Nat
  fields : List (String × (Idx → V))

def SArr.field (a : SArr) (name : String) : Arr :=
  match a.fields.lookup name with
  | some g => { off := a.off, shape := a.shape, get := g }
  | none => { off := a.off, shape := a.shape, get := fun _ => none }   -- NaN stand-in

/-- merged field list: the first array's names, then every new name in order of appearance -/
def mergedNames (arrs : List SArr) : List String :=
  arrs.foldl (fun acc a => acc ++ (a.fields.map (·.1)).filter (fun n => !acc.contains n)) []

def overlapStructured (spc : Bool) (m : Mode) (fill : V) (ndim : Nat) (arrs : List SArr) :
    List (String × (List Int × List V)) :=
  (mergedNames arrs).map (fun n => (n, overlap spc m fill ndim (arrs.map (·.field n))))

/-- specification of one field: only the arrays that have the field contribute -/
def specField (m : Mode) (fill : V) (arrs : List SArr) (name : String) (p : Idx) : V :=
  spec m fill ((arrs.filter (fun a => (a.fields.lookup name).isSome)).map (·.field name)) p

end Pew.Overlap

namespace Pew.Overlap

/-- specification of the structured merge: bounding box of all inputs; per field only the arrays
that have the field contribute -/
def overlapStructuredSpec (m : Mode) (fill : V) (ndim : Nat) (arrs : List SArr) :
    List (String × (List Int × List V)) :=
  let view : List Arr := arrs.map (fun a => { off := a.off, shape := a.shape, get := fun _ => none })
  let mo := minOffset ndim view
  let n : List SArr := arrs.map (fun a => { a with off := sub a.off mo })
  let sh := newShape ndim (normalise ndim view)
  (mergedNames arrs).map (fun nm => (nm, (sh, (allIdx (sh.map Int.toNat)).map (specField m fill n nm))))

end Pew.Overlap

namespace Pew.Overlap

/-! ## the mechanism before the repair (regression documentation only)

The canvas was initialised with the fill for every mode, `nansum` accumulated on top of it, and
nothing was reset where no value had been counted. -/

def initOld (fill : V) : Idx → Cell := fun _ => { acc := fill, visits := 0 }

def finishOld (m : Mode) (c : Cell) : V :=
  match m with
  | .mean => if c.visits > 1 then c.acc.map (· / (c.visits : Rat)) else c.acc
  | _ => c.acc

def mechOld (m : Mode) (fill : V) (arrs : List Arr) (p : Idx) : V :=
  finishOld m (arrs.foldl (step m) (initOld fill) p)

end Pew.Overlap

namespace Pew.Overlap

/-! ## field dtypes in the structured variant

`overlap_structured_arrays` builds the merged dtype from `array.dtype.descr`, i.e. from
**(name, dtype) pairs**: a name carried with two different dtypes enters the merged list twice and
`np.empty(new_shape, dtype=new_dtype)` raises `ValueError: field 'A' occurs more than once`.
The per-field canvas of `overlap_arrays` takes the dtype of `name_arrays[0]`: the first array's
field, or `float64` when the first array lacks the field (the NaN stand-in `np.full(shape, nan)`).
The finished canvas is then assigned into the field of the merged array, which casts to the
field's dtype.  Three dtype classes are modelled: `f8`, `f4` (every generated value and sum is
exactly representable, the mean's division is rounded by the harness's canonicaliser) and `i8`
(`b1`, boolean images, occurs in the plain variant `overlapD` below only; the driver rejects it in a field):

* integer canvas (the first array has the field): `overlap[visits == 0] = nan` raises `ValueError`
  (mean/sum, whatever the mask holds); otherwise the mean's in-place true division raises
  `UFuncTypeError` (a `TypeError`, which is what the model names); `np.full(shape, fill, dtype=int)` and the fill assignment truncate a finite fill;
* float canvas assigned into an integer field: truncation toward zero;
* NaN cast to an integer is platform dependent (NumPy warns "invalid value encountered in cast"):
  the model marks such a pixel as undefined (`none`) and the harness does not compare it. -/

inductive DT | f8 | f4 | i8 | b1
  deriving DecidableEq, Repr

structure DArr where
  off : List Int
  shape : List Nat
  fields : List (String × DT × (Idx → V))

def DArr.descr (a : DArr) : List (String × DT) := a.fields.map (fun f => (f.1, f.2.1))

/-- the same array with the dtypes forgotten -/
def DArr.toS (a : DArr) : SArr :=
  { off := a.off, shape := a.shape, fields := a.fields.map (fun f => (f.1, f.2.2)) }

/-- `new_dtype`: the first array's descr, then every (name, dtype) pair not yet in the list -/
def mergedDescr (arrs : List DArr) : List (String × DT) :=
  arrs.foldl (fun acc a => acc ++ a.descr.filter (fun d => !acc.contains d)) []

def hasDup : List String → Bool
  | [] => false
  | x :: xs => xs.contains x || hasDup xs

/-- dtype of `name_arrays[0]`, which `overlap_arrays` gives the canvas -/
def canvasDT (arrs : List DArr) (name : String) : DT :=
  match arrs with
  | [] => .f8
  | a :: _ =>
    match a.fields.lookup name with
    | some f => f.1
    | none => .f8

/-- C cast of a finite double to an integer: truncation toward zero -/
def truncR (x : Rat) : Rat := if 0 ≤ x then (x.floor : Rat) else (x.ceil : Rat)

/-- assignment of a float pixel into a field of dtype `dt`; outer `none`: NaN cast to an integer
(platform dependent, not compared) -/
def castTo (dt : DT) (v : V) : Option V :=
  match dt, v with
  | .i8, none => none
  | .i8, some x => some (some (truncR x))
  | _, v => some v

/-- one field of the structured merge: an exception class name, or shape and pixels -/
def fieldOutcome (spc : Bool) (m : Mode) (fill : V) (ndim : Nat) (arrs : List DArr) (name : String) (dt : DT) :
    Except String (List Int × List (Option V)) :=
  let r := overlap spc m fill ndim (arrs.map (fun a => a.toS.field name))
  if canvasDT arrs name = .i8 then
    if m ≠ .replace ∧ fill = none then .error "ValueError"
    else if m = .mean then .error "TypeError"  -- numpy's UFuncTypeError, a TypeError
    else .ok (r.1, r.2.map (castTo .i8))
  else .ok (r.1, r.2.map (castTo dt))

/-- `overlap_structured_arrays` with dtypes: the exception class it raises, or the fields of the
result in the order of the merged dtype -/
def overlapStructuredD (spc : Bool) (m : Mode) (fill : V) (ndim : Nat) (arrs : List DArr) :
    Except String (List (String × DT × (List Int × List (Option V)))) :=
  let descr := mergedDescr arrs
  if hasDup (descr.map (·.1)) then .error "ValueError"
  else descr.mapM (fun d => (fieldOutcome spc m fill ndim arrs d.1 d.2).map (fun r => (d.1, d.2, r)))

end Pew.Overlap

namespace Pew.Overlap

/-! ## the plain merge with image dtypes and infinite pixel values (`overlapD`)

`overlap_arrays` accepts a list that mixes `float64`, `float32`, integer and boolean images.  The
canvas takes the dtype of `arrays[0]`; every write into it casts: `np.full(new_shape, fill, dtype)`,
`overlap[slice][~nans] = array[~nans]` (replace), `overlap[slice] = np.nansum([overlap[slice], array])`
(mean / sum: the stacked pair is promoted to `float64` unless both are integer / boolean, the sum is
exact for the values the harness produces, the assignment casts it back into the canvas),
`overlap[visits == 0] = fill`.  `np.isnan` of an integer or boolean image is `False` everywhere: only
floating-point images can withhold a pixel.  Integer dtypes are one class `i8` (the harness uses a
concrete integer dtype only where every value and partial sum lies in its range).

Values are `EV`: NaN, +∞, −∞ or an exact finite number.  Casting NaN or ±∞ into an integer canvas is
platform dependent (NumPy warns, here `INT64_MIN`); inside an integer canvas the constructor `nan`
stands for that undefined content (a real NaN cannot be there) and the driver prints it as `undef`.
Arithmetic on it is NOT modelled: the harness does not judge a case with an integer canvas and an
infinite value or fill (an undefined pixel is only ever overwritten, in replace mode).

Integer canvas: `overlap[visits == 0] = nan` raises `ValueError` (mean / sum, whatever the mask
holds), `= ±inf` raises `OverflowError`, the mean's in-place true division raises `UFuncTypeError`
(a `TypeError`); boolean canvas: only the division raises. -/

inductive EV | nan | pinf | ninf | fin (x : Rat)
  deriving DecidableEq

namespace EV

def isNan : EV → Bool
  | nan => true
  | _ => false

/-- IEEE addition, exact on finite values -/
def add : EV → EV → EV
  | nan, _ => nan
  | _, nan => nan
  | pinf, ninf => nan
  | ninf, pinf => nan
  | pinf, _ => pinf
  | _, pinf => pinf
  | ninf, _ => ninf
  | _, ninf => ninf
  | fin x, fin y => fin (x + y)

/-- what `np.nansum` makes of one operand: NaN counts as zero -/
def nz : EV → EV
  | nan => fin 0
  | v => v

/-- division by a visit count -/
def divNat : EV → Nat → EV
  | fin x, n => fin (x / (n : Rat))
  | v, _ => v

end EV

/-- `np.nansum([canvas, array], axis=0)` on one pixel -/
def nansum2E (x y : EV) : EV := x.nz.add y.nz

/-- assignment of a value into a canvas of dtype `dt` -/
def castC : DT → EV → EV
  | .i8, .fin x => .fin (truncR x)
  | .i8, _ => .nan                                   -- undefined content (NaN / ±∞ cast to an integer)
  | .b1, .fin x => .fin (if x = 0 then 0 else 1)
  | .b1, _ => .fin 1                                 -- NaN and ±∞ are truthy
  | _, v => v

/-- an input image with its dtype -/
structure ArrE where
  off : List Int
  shape : List Nat
  dt : DT
  get : Idx → EV

/-- footprint of the image (values forgotten) -/
def ArrE.bare (a : ArrE) : Arr := { off := a.off, shape := a.shape, get := fun _ => none }

def ArrE.at (a : ArrE) (p : Idx) : Option EV :=
  if a.bare.inside p then some (a.get (sub p a.off)) else none

structure CellE where
  acc : EV
  visits : Nat

def stepD (cdt : DT) (m : Mode) (c : Idx → CellE) (a : ArrE) : Idx → CellE := fun p =>
  match a.at p with
  | none => c p
  | some v =>
    let visits := (c p).visits + (if v.isNan then 0 else 1)
    match m with
    | .replace => { acc := if v.isNan then (c p).acc else castC cdt v, visits := visits }
    | _ => { acc := castC cdt (nansum2E (c p).acc v), visits := visits }

def initD (cdt : DT) (m : Mode) (fill : EV) : Idx → CellE := fun _ =>
  { acc := castC cdt (if m = .replace then fill else .fin 0), visits := 0 }

def finishD (cdt : DT) (m : Mode) (fill : EV) (c : CellE) : EV :=
  match m with
  | .replace => c.acc
  | .sum => if c.visits = 0 then castC cdt fill else c.acc
  | .mean =>
    if c.visits = 0 then castC cdt fill
    else if c.visits > 1 then c.acc.divNat c.visits else c.acc

/-- the canvas pixel computed by the code on a canvas of dtype `cdt`, for normalised offsets -/
def mechD (cdt : DT) (m : Mode) (fill : EV) (arrs : List ArrE) (p : Idx) : EV :=
  finishD cdt m fill (arrs.foldl (stepD cdt m) (initD cdt m fill) p)

/-! ### specification -/

/-- non-NaN values the inputs place at `p`, in input order (±∞ are values) -/
def contribsE (arrs : List ArrE) (p : Idx) : List EV :=
  arrs.filterMap (fun a => match a.at p with
    | some v => if v.isNan then none else some v
    | none => none)

/-- the sum of a list of values in IEEE arithmetic (exact on finite values: the order does not matter, `sumE_perm`) -/
def sumE : List EV → EV
  | [] => .fin 0
  | v :: l => v.add (sumE l)

/-- what the property demands of one pixel -/
def specE (m : Mode) (fill : EV) (arrs : List ArrE) (p : Idx) : EV :=
  match contribsE arrs p with
  | [] => fill
  | c :: cs =>
    match m with
    | .replace => (c :: cs).getLast (by simp)
    | .sum => sumE (c :: cs)
    | .mean => (sumE (c :: cs)).divNat (c :: cs).length

/-- the demanded value as a canvas of dtype `cdt` holds it -/
def specD (cdt : DT) (m : Mode) (fill : EV) (arrs : List ArrE) (p : Idx) : EV :=
  castC cdt (specE m fill arrs p)

/-- a finite integer -/
def EV.intVal : EV → Bool
  | .fin x => x.den == 1
  | _ => false

/-- a finite number that is not negative -/
def EV.nonnegVal : EV → Bool
  | .fin x => decide (0 ≤ x)
  | _ => false

/-- the hypothesis of theorem `pixel_specD` at one pixel (the driver evaluates it): replace mode: none;
mean / sum on a floating-point canvas: the IEEE sum of the contributions is not NaN (+∞ and −∞ do not
meet); sum on an integer canvas: every contribution is a finite integer (no truncation on the way); sum
on a boolean canvas: every contribution is finite and not negative; mean on an integer or boolean canvas
raises -/
def hypD (cdt : DT) (m : Mode) (arrs : List ArrE) (p : Idx) : Bool :=
  let cs := contribsE arrs p
  match m, cdt with
  | .replace, _ => true
  | .sum, .i8 => cs.all EV.intVal
  | .sum, .b1 => cs.all EV.nonnegVal
  | .mean, .i8 => false
  | .mean, .b1 => false
  | _, _ => !(sumE cs).isNan

/-! ### the whole function -/

/-- dtype of `arrays[0]` -/
def canvasOf : List ArrE → DT
  | [] => .f8
  | a :: _ => a.dt

/-- the exception class an integer / boolean canvas makes the code raise, if any -/
def raisesD (cdt : DT) (m : Mode) (fill : EV) : Option String :=
  match cdt with
  | .i8 =>
    if m ≠ .replace ∧ fill = .nan then some "ValueError"
    else if m ≠ .replace ∧ (fill = .pinf ∨ fill = .ninf) then some "OverflowError"
    else if m = .mean then some "TypeError"
    else none
  | .b1 => if m = .mean then some "TypeError" else none
  | _ => none

def normaliseE (ndim : Nat) (arrs : List ArrE) : List ArrE :=
  let mo := minOffset ndim (arrs.map ArrE.bare)
  arrs.map (fun a => { a with off := sub a.off mo })

/-- `overlap_arrays` on images with dtypes: the exception class, or the dtype, the shape and the pixels
(row-major) of the result; `spc`: the specification `specD` instead of the mechanism -/
def overlapD (spc : Bool) (m : Mode) (fill : EV) (ndim : Nat) (arrs : List ArrE) :
    Except String (DT × List Int × List EV) :=
  let cdt := canvasOf arrs
  match raisesD cdt m fill with
  | some e => .error e
  | none =>
    let n := normaliseE ndim arrs
    let sh := newShape ndim (n.map ArrE.bare)
    .ok (cdt, sh, (allIdx (sh.map Int.toNat)).map
      (fun p => if spc then specD cdt m fill n p else mechD cdt m fill n p))

/-- the value of the plain model as an extended value -/
def embed : V → EV
  | none => .nan
  | some x => .fin x

/-- an image of the plain model as an image of dtype `dt` -/
def Arr.toE (dt : DT) (a : Arr) : ArrE := { off := a.off, shape := a.shape, dt := dt, get := fun i => embed (a.get i) }

end Pew.Overlap
