import PewModel.Imzml
/-!
# C17 — the fast imzML parser against the XML parser (`pewlib.io.imzml.fast_parse_imzml`)

A document in the line-oriented layout is described structurally (`Doc`); `render` turns it into
the abstract lines the text parser sees, `xmlView` is what the ElementTree queries of
`ImzML.from_etree` read from the same document.

The fast parser is a set of nested `while not line.startswith(…): line = fp.readline()` loops over
one shared stream.  It is modelled as the equivalent state machine over the list of lines: the
`Mode` says which loop is running, `step` is "read one line and run the loop body", the prefix tests
are the code's (`"<spectrum"` also matches `"<spectrumList"`, `"</scanSettings"` also matches
`"</scanSettingsList>"`, `"<referenceableParamGroup"` also matches the `…Ref` element, …), the
dictionaries are "last accession wins".  Reaching the end of the lines inside a sub-parser is an
error (`eof`): the real loop would spin on `""` forever.

Numbers stay text: both parsers hand the selected attribute text to the same `int` / `float`.
-/
namespace Pew.FastParse

/-! ## accessions read by the parsers -/

def accMzArray := "MS:1000514"
def accIntensityArray := "MS:1000515"
def accNoCompression := "MS:1000568"
def accExternal := "IMS:1000101"
def accSizeX := "IMS:1000042"
def accSizeY := "IMS:1000043"
def accPixelX := "IMS:1000046"
def accPixelY := "IMS:1000047"
def accPosX := "IMS:1000050"
def accPosY := "IMS:1000051"
def accTic := "MS:1000285"
def accOffset := "IMS:1000102"
def accLength := "IMS:1000104"

/-- `CV_BINARYDATA.values()` in dictionary order -/
def binTypes : List String :=
  ["IMS:1100000", "IMS:1100001", "MS:1000519", "MS:1000522", "MS:1000521", "MS:1000523"]

/-! ## documents -/

inductive Item
  | cv (acc : String) (val : Option String)   -- `<cvParam … accession="acc" … value="val"/>`
  | ref (r : String)                          -- `<referenceableParamGroupRef ref="r"/>`
  | misc                                      -- `<userParam …/>`, `<binary/>`, comments
  deriving DecidableEq, Repr

structure Group where
  id : String
  items : List Item
  deriving DecidableEq

structure Settings where
  items : List Item
  deriving DecidableEq

structure Arr where
  items : List Item
  deriving DecidableEq

structure Spec where
  items : List Item            -- children of `<spectrum>` before `<scanList>`
  scanlist : List Item         -- children of `<scanList>` before the first `<scan>`
  scans : List (List Item)     -- children of every `<scan>`
  arrays : List Arr
  tail : List Item             -- children of `<spectrum>` after `<binaryDataArrayList>`
  deriving DecidableEq

/-- a section the parsers do not look into (`<fileDescription>`, `<softwareList>`, …) -/
structure Sect where
  items : List Item
  deriving DecidableEq

structure Doc where
  decl : Bool
  pre : List Sect
  mid1 : List Sect
  mid2 : List Sect
  post : List Sect
  settingsFirst : Bool
  groups : List Group
  settings : List Settings
  spectra : List Spec
  deriving DecidableEq

/-! ## what both parsers build -/

structure PGroup where
  id : String
  dtype : String        -- accession of the binary type
  external : Bool
  deriving DecidableEq, Repr

structure ScanSet where
  size : Option (String × String)
  pixel : String × String
  deriving DecidableEq, Repr

structure SpecInfo where
  x : String
  y : String
  tic : Option String
  arrays : List (String × String × String)   -- (group id, offset, length) in document order
  deriving DecidableEq, Repr

structure Model where
  scan : ScanSet
  mz : PGroup
  inten : PGroup
  spectra : List SpecInfo                    -- in document order (the dictionary is built from it)
  deriving DecidableEq, Repr

/-! ## abstract lines -/

inductive Tag
  | groupList | group | settingsList | settings | spectrumList | spectrum
  | arrayList | array | other
  deriving DecidableEq, Repr

inductive Line
  | opn (t : Tag) (id : String)               -- `<tag …>`; `id` = the id attribute ("" when absent)
  | cls (t : Tag)                             -- `</tag>`
  | cv (acc : String) (val : Option String)   -- a line the regular expression matches: groups 1 and 2
  | ref (r : String)
  | misc
  deriving DecidableEq, Repr

/-- group 2 of `accession="(I?MS:\d+)(?:.*value="(CLASS+)")?`: the value if every character is in
the class (and it is non-empty), else `None`.  `cls` is the class as a predicate on whole values. -/
def reVal (cls : String → Bool) (v : Option String) : Option String :=
  match v with
  | some s => if cls s then some s else none
  | none => none

/-- the current class `[^"]+`: any non-empty text (attribute values never contain a quote) -/
def clsAny (s : String) : Bool := s != ""

/-- the class before `fix: accept signed and exponent values` : `[\w.]+` -/
def clsWord (s : String) : Bool := s != "" && s.toList.all (fun c => c.isAlphanum || c == '_' || c == '.')

def renderItem (cls : String → Bool) : Item → Line
  | .cv a v => .cv a (reVal cls v)
  | .ref r => .ref r
  | .misc => .misc

def renderItems (cls : String → Bool) (l : List Item) : List Line := l.map (renderItem cls)

def renderSect (cls : String → Bool) (s : Sect) : List Line :=
  [.opn .other ""] ++ renderItems cls s.items ++ [.cls .other]

def renderGroup (cls : String → Bool) (g : Group) : List Line :=
  [.opn .group g.id] ++ renderItems cls g.items ++ [.cls .group]

def renderSettings (cls : String → Bool) (s : Settings) : List Line :=
  [.opn .settings ""] ++ renderItems cls s.items ++ [.cls .settings]

def renderScan (cls : String → Bool) (s : List Item) : List Line :=
  [.opn .other ""] ++ renderItems cls s ++ [.cls .other]

def renderArr (cls : String → Bool) (a : Arr) : List Line :=
  [.opn .array ""] ++ renderItems cls a.items ++ [.cls .array]

/-- the lines between `<spectrum …>` and `</spectrum>` -/
def renderSpecBody (cls : String → Bool) (s : Spec) : List Line :=
  renderItems cls s.items ++ [.opn .other ""] ++ renderItems cls s.scanlist
    ++ s.scans.flatMap (renderScan cls) ++ [.cls .other]
    ++ [.opn .arrayList ""] ++ s.arrays.flatMap (renderArr cls) ++ [.cls .arrayList]
    ++ renderItems cls s.tail

def renderSpec (cls : String → Bool) (s : Spec) : List Line :=
  [.opn .spectrum ""] ++ renderSpecBody cls s ++ [.cls .spectrum]

def renderGroups (cls : String → Bool) (d : Doc) : List Line :=
  [.opn .groupList ""] ++ d.groups.flatMap (renderGroup cls) ++ [.cls .groupList]

def renderSettingsList (cls : String → Bool) (d : Doc) : List Line :=
  [.opn .settingsList ""] ++ d.settings.flatMap (renderSettings cls) ++ [.cls .settingsList]

def renderSpectra (cls : String → Bool) (d : Doc) : List Line :=
  [.opn .other "", .opn .spectrumList ""] ++ d.spectra.flatMap (renderSpec cls)
    ++ [.cls .spectrumList, .cls .other]

/-- everything before the `<run>` line: declaration, `<mzML>`, noise sections, the two lists -/
def renderHead (cls : String → Bool) (d : Doc) : List Line :=
  (if d.decl then [.misc] else []) ++ [.opn .other ""] ++ d.pre.flatMap (renderSect cls)
    ++ (if d.settingsFirst
        then renderSettingsList cls d ++ d.mid1.flatMap (renderSect cls) ++ renderGroups cls d
        else renderGroups cls d ++ d.mid1.flatMap (renderSect cls) ++ renderSettingsList cls d)
    ++ d.mid2.flatMap (renderSect cls)

/-- everything after `</run>` -/
def renderTail (cls : String → Bool) (d : Doc) : List Line :=
  d.post.flatMap (renderSect cls) ++ [.cls .other]

def render (cls : String → Bool) (d : Doc) : List Line :=
  renderHead cls d ++ (renderSpectra cls d ++ renderTail cls d)

/-! ## the XML parser: tree queries -/

/-- `element.find("mz:cvParam[@accession='k']")` over the direct children: `none` = no such child,
`some none` = child without a value attribute -/
def firstVal (k : String) : List Item → Option (Option String)
  | [] => none
  | .cv a v :: r => if a = k then some v else firstVal k r
  | _ :: r => firstVal k r

def firstRef : List Item → Option String
  | [] => none
  | .ref r :: _ => some r
  | _ :: r => firstRef r

def hasAcc (k : String) (items : List Item) : Bool := (firstVal k items).isSome

/-- `ParamGroup.from_xml_element` (`none` = raises) -/
def xmlGroup (g : Group) : Option PGroup :=
  match binTypes.find? (fun t => hasAcc t g.items) with
  | none => none
  | some dt =>
    if hasAcc accNoCompression g.items then none   -- NotImplementedError
    else some { id := g.id, dtype := dt, external := hasAcc accExternal g.items }

/-- `ScanSettings.from_xml_element` -/
def xmlSettings (s : Settings) : Option ScanSet :=
  let size : Option (Option (String × String)) :=
    match firstVal accSizeX s.items, firstVal accSizeY s.items with
    | some vx, some vy =>
      match vx, vy with
      | some x, some y => some (some (x, y))
      | _, _ => none                                -- KeyError: 'value'
    | _, _ => some none
  match size, firstVal accPixelX s.items, firstVal accPixelY s.items with
  | some sz, some (some px), some (some py) => some { size := sz, pixel := (px, py) }
  | _, _, _ => none

def xmlArr (a : Arr) : Option (String × String × String) :=
  match firstRef a.items, firstVal accOffset a.items, firstVal accLength a.items with
  | some k, some (some o), some (some l) => some (k, o, l)
  | _, _, _ => none

/-- `Spectrum.from_xml_element` (scan number 1) -/
def xmlSpec (s : Spec) : Option SpecInfo :=
  match s.scans.head? with
  | none => none
  | some sc =>
    match firstVal accPosX sc, firstVal accPosY sc, s.arrays.mapM xmlArr with
    | some (some x), some (some y), some arrs =>
      some { x := x, y := y,
             tic := (firstVal accTic (s.items ++ s.tail)).map (fun v => v.getD "0.0"),
             arrays := arrs }
    | _, _, _ => none

/-- `ImzML.from_etree` -/
def xmlView (d : Doc) : Option Model :=
  match d.groups.find? (fun g => hasAcc accMzArray g.items),
        d.groups.find? (fun g => hasAcc accIntensityArray g.items),
        d.spectra.mapM xmlSpec, d.settings.head? with
  | some gm, some gi, some sp, some st =>
    match xmlSettings st, xmlGroup gm, xmlGroup gi with
    | some sc, some m, some i => some { scan := sc, mz := m, inten := i, spectra := sp }
    | _, _, _ => none
  | _, _, _, _ => none

/-! ## the fast parser: the nested line loops as a state machine -/

inductive Err
  | eof            -- a sub-parser ran off the end of the file (the real loop never terminates)
  | keyError
  | typeError      -- `int(None)` / `float(None)`: the regular expression found no value
  | valueError
  | indexError     -- `scan_settings[0]`
  | aborted        -- `UserWarning("callback returned False")`
  deriving DecidableEq, Repr

/-- the `cvs` dictionaries: newest first, lookup finds the newest ("last accession wins") -/
abbrev Dict := List (String × Option String)

structure SpecAcc where
  cvs : Dict
  arrays : List (String × String × String)
  deriving Repr

inductive Mode
  | top
  | groupList
  | group (isMz : Bool) (id : String) (cvs : Dict)
  | settingsList
  | settings (cvs : Dict)
  | spectrum (acc : SpecAcc)
  | arrayList (acc : SpecAcc)
  | array (acc : SpecAcc) (cvs : Dict) (id : Option String)
  deriving Repr

/-- everything the loops keep, apart from the file position and the callback -/
structure Core where
  mode : Mode
  mz : Option PGroup
  inten : Option PGroup
  scans : List ScanSet
  spectra : List SpecInfo
  err : Option Err
  deriving Repr

def Core.init : Core :=
  { mode := .top, mz := none, inten := none, scans := [], spectra := [], err := none }

/-! prefix tests of the code on the tag alphabet -/

def startsGroupList : Line → Bool | .opn .groupList _ => true | _ => false
def endsGroupList : Line → Bool | .cls .groupList => true | _ => false
/-- `"<referenceableParamGroup"` -/
def startsGroup : Line → Bool
  | .opn .group _ => true | .opn .groupList _ => true | .ref _ => true | _ => false
/-- `"</referenceableParamGroup"` -/
def endsGroup : Line → Bool | .cls .group => true | .cls .groupList => true | _ => false
def startsSettingsList : Line → Bool | .opn .settingsList _ => true | _ => false
def endsSettingsList : Line → Bool | .cls .settingsList => true | _ => false
/-- `"<scanSettings"` -/
def startsSettings : Line → Bool | .opn .settings _ => true | .opn .settingsList _ => true | _ => false
/-- `"</scanSettings"` -/
def endsSettings : Line → Bool | .cls .settings => true | .cls .settingsList => true | _ => false
/-- `"<spectrum"` -/
def startsSpectrum : Line → Bool | .opn .spectrum _ => true | .opn .spectrumList _ => true | _ => false
/-- `"</spectrum"` -/
def endsSpectrum : Line → Bool | .cls .spectrum => true | .cls .spectrumList => true | _ => false
def startsArrayList : Line → Bool | .opn .arrayList _ => true | _ => false
def endsArrayList : Line → Bool | .cls .arrayList => true | _ => false
/-- `"<binaryDataArray"` -/
def startsArray : Line → Bool | .opn .array _ => true | .opn .arrayList _ => true | _ => false
/-- `"</binaryDataArray"` -/
def endsArray : Line → Bool | .cls .array => true | .cls .arrayList => true | _ => false

/-- text between `id="` and the next quote (some garbage that is neither group name when absent) -/
def idAttr : Line → String | .opn _ id => id | _ => ""

/-- `m = re_accession.search(line); if m is not None: cvs[m.group(1)] = m.group(2)` -/
def addCv (d : Dict) : Line → Dict
  | .cv a v => (a, v) :: d
  | _ => d

/-- `cvs[k]` then `int(…)`/`float(…)` of it -/
def need (d : Dict) (k : String) : Except Err String :=
  match d.lookup k with
  | none => .error .keyError
  | some none => .error .typeError
  | some (some v) => .ok v

/-- end of `parse_param_group`: the LAST binary type of the table that is in the dictionary -/
def finishGroup (id : String) (cvs : Dict) : Except Err PGroup :=
  match (binTypes.filter (fun t => (cvs.lookup t).isSome)).getLast? with
  | none => .error .valueError
  | some dt => .ok { id := id, dtype := dt, external := (cvs.lookup accExternal).isSome }

/-- end of `parse_scan_settings` -/
def finishSettings (cvs : Dict) : Except Err ScanSet :=
  let size : Except Err (Option (String × String)) :=
    match cvs.lookup accSizeX with
    | none => .ok none                              -- except KeyError: size = None
    | some none => .error .typeError
    | some (some x) =>
      match cvs.lookup accSizeY with
      | none => .ok none
      | some none => .error .typeError
      | some (some y) => .ok (some (x, y))
  match size, need cvs accPixelX, need cvs accPixelY with
  | .error e, _, _ => .error e
  | .ok _, .error e, _ => .error e
  | .ok _, .ok _, .error e => .error e
  | .ok sz, .ok px, .ok py => .ok { size := sz, pixel := (px, py) }

/-- end of `parse_binary_data_array` -/
def finishArray (cvs : Dict) (id : Option String) : Except Err (String × String × String) :=
  match id, need cvs accOffset, need cvs accLength with
  | none, _, _ => .error .keyError
  | some _, .error e, _ => .error e
  | some _, .ok _, .error e => .error e
  | some k, .ok o, .ok l => .ok (k, o, l)

/-- end of `parse_spectrum` -/
def finishSpectrum (acc : SpecAcc) : Except Err SpecInfo :=
  let tic : Except Err (Option String) :=
    match acc.cvs.lookup accTic with
    | none => .ok none
    | some none => .error .typeError
    | some (some t) => .ok (some t)
  match need acc.cvs accPosX, need acc.cvs accPosY, tic with
  | .error e, _, _ => .error e
  | .ok _, .error e, _ => .error e
  | .ok _, .ok _, .error e => .error e
  | .ok x, .ok y, .ok t => .ok { x := x, y := y, tic := t, arrays := acc.arrays }

def Core.fail (s : Core) (e : Err) : Core := { s with err := some e }

/-- `line = fp.readline().strip()`, then the body of the loop that is running -/
def stepCore (s : Core) (l : Line) : Core :=
  if s.err.isSome then s else
  match s.mode with
  | .top =>
    if startsGroupList l then { s with mode := .groupList }
    else if startsSettingsList l then { s with mode := .settingsList }
    else if startsSpectrum l then { s with mode := .spectrum { cvs := [], arrays := [] } }
    else s
  | .groupList =>
    if startsGroup l then
      if idAttr l = "mzArray" then { s with mode := .group true "mzArray" [] }
      else if idAttr l = "intensities" then { s with mode := .group false "intensities" [] }
      else s
    else if endsGroupList l then { s with mode := .top }
    else s
  | .group isMz id cvs =>
    if endsGroup l then
      match finishGroup id (addCv cvs l) with
      | .error e => s.fail e
      | .ok g => if isMz then { s with mode := .groupList, mz := some g }
                 else { s with mode := .groupList, inten := some g }
    else { s with mode := .group isMz id (addCv cvs l) }
  | .settingsList =>
    if startsSettings l then { s with mode := .settings [] }
    else if endsSettingsList l then { s with mode := .top }
    else s
  | .settings cvs =>
    if endsSettings l then
      match finishSettings (addCv cvs l) with
      | .error e => s.fail e
      | .ok x => { s with mode := .settingsList, scans := s.scans ++ [x] }
    else { s with mode := .settings (addCv cvs l) }
  | .spectrum acc =>
    match l with
    | .cv a v => { s with mode := .spectrum { acc with cvs := (a, v) :: acc.cvs } }
    | _ =>
      if startsArrayList l then { s with mode := .arrayList acc }
      else if endsSpectrum l then
        match finishSpectrum acc with
        | .error e => s.fail e
        | .ok x => { s with mode := .top, spectra := s.spectra ++ [x] }
      else s
  | .arrayList acc =>
    if startsArray l then { s with mode := .array acc [] none }
    else if endsArrayList l then { s with mode := .spectrum acc }
    else s
  | .array acc cvs id =>
    let cvs' := addCv cvs l
    let id' := match l with | .ref r => some r | _ => id
    if endsArray l then
      match finishArray cvs' id' with
      | .error e => s.fail e
      | .ok x => { s with mode := .arrayList { acc with arrays := acc.arrays ++ [x] } }
    else { s with mode := .array acc cvs' id' }

/-- after the last line: `""` ends the main loop; inside a sub-parser it never ends -/
def finishCore (s : Core) : Except Err Model :=
  match s.err with
  | some e => .error e
  | none =>
    match s.mode with
    | .top =>
      match s.mz, s.inten, s.scans.head? with
      | none, _, _ => .error .valueError
      | some _, none, _ => .error .valueError
      | some _, some _, none => .error .indexError
      | some m, some i, some sc => .ok { scan := sc, mz := m, inten := i, spectra := s.spectra }
    | _ => .error .eof

/-- the parser without a callback -/
def coreRun (ls : List Line) : Core := ls.foldl stepCore Core.init

/-! ### file positions and the progress callback -/

/-- the main loop is about to start a spectrum on this line: `callback(fp.tell())` is evaluated -/
def isCall (s : Core) (l : Line) : Bool :=
  s.err.isNone && (match s.mode with | .top => true | _ => false) &&
  !startsGroupList l && !startsSettingsList l && startsSpectrum l

structure St where
  core : Core
  pos : Nat                      -- `fp.tell()`
  calls : List Nat               -- positions handed to the callback so far
  aborted : Bool                 -- `raise UserWarning("callback returned False")`
  deriving Repr

def St.init : St := { core := Core.init, pos := 0, calls := [], aborted := false }

/-- one line of `len` bytes -/
def step (cb : Nat → Bool) (s : St) (ln : Line × Nat) : St :=
  if s.aborted then s else
  let pos := s.pos + ln.2
  if isCall s.core ln.1 then
    if cb pos then { s with core := stepCore s.core ln.1, pos := pos, calls := s.calls ++ [pos] }
    else { s with pos := pos, calls := s.calls ++ [pos], aborted := true }
  else { s with core := stepCore s.core ln.1, pos := pos }

def run (cb : Nat → Bool) (ls : List (Line × Nat)) : St := ls.foldl (step cb) St.init

def fastParse (cb : Nat → Bool) (ls : List (Line × Nat)) : Except Err Model :=
  let s := run cb ls
  if s.aborted then .error .aborted else finishCore s.core

/-! ## the layout -/

/-- accessions of the cvParam children, in order -/
def accs : List Item → List String
  | [] => []
  | .cv a _ :: r => a :: accs r
  | _ :: r => accs r

def refs : List Item → List String
  | [] => []
  | .ref r :: t => r :: refs t
  | _ :: t => refs t

def valOk (cls : String → Bool) (k : String) (items : List Item) : Bool :=
  match firstVal k items with
  | some (some v) => cls v
  | _ => false

/-- the accession occurs exactly once and carries a value of the regular expression's class -/
def oneVal (cls : String → Bool) (k : String) (items : List Item) : Prop :=
  (accs items).count k = 1 ∧ valOk cls k items = true

/-- the accession does not occur, or exactly once with an accepted value -/
def optVal (cls : String → Bool) (k : String) (items : List Item) : Prop :=
  (accs items).count k = 0 ∨ oneVal cls k items

def GroupOk (g : Group) : Prop :=
  (binTypes.filter (fun t => t ∈ accs g.items)).length = 1 ∧ accNoCompression ∉ accs g.items

def SettingsOk (cls : String → Bool) (s : Settings) : Prop :=
  optVal cls accSizeX s.items ∧ optVal cls accSizeY s.items ∧
  oneVal cls accPixelX s.items ∧ oneVal cls accPixelY s.items

def ArrOk (cls : String → Bool) (a : Arr) : Prop :=
  (refs a.items).length = 1 ∧ oneVal cls accOffset a.items ∧ oneVal cls accLength a.items

/-- everything the fast parser's spectrum dictionary sees (not the binary arrays) -/
def Spec.seen (s : Spec) : List Item := s.items ++ s.scanlist ++ s.scans.flatten ++ s.tail

def SpecOk (cls : String → Bool) (s : Spec) : Prop :=
  s.scans.isEmpty = false ∧
  oneVal cls accPosX (s.scans.headD []) ∧ oneVal cls accPosY (s.scans.headD []) ∧
  (accs s.seen).count accPosX = 1 ∧ (accs s.seen).count accPosY = 1 ∧
  (accs s.seen).count accTic = (accs (s.items ++ s.tail)).count accTic ∧
  optVal cls accTic (s.items ++ s.tail) ∧
  ∀ a ∈ s.arrays, ArrOk cls a

/-! ### attribute text: what ElementTree decodes and the regular expression does not -/

/-- characters an attribute text of the layout does not contain: `&` starts an entity or character
reference (ElementTree decodes it, the regular expression sees the raw text), `"` ends the attribute,
`<` is not well-formed XML, and a literal tab / line break is turned into a blank by the XML parser's
attribute-value normalisation (and a line break ends the line for the text parser) -/
def badChar (c : Char) : Bool :=
  c == '&' || c == '"' || c == '<' || c == '\t' || c == '\n' || c == '\r'

def textOk (s : String) : Bool := s.toList.all (fun c => !badChar c)

/-- the accession is matched completely by `I?MS:\d+` (ASCII digits; `\d` also accepts other Unicode
decimal digits, which both parsers would read alike) -/
def accOk (a : String) : Bool :=
  match a.toList with
  | 'M' :: 'S' :: ':' :: ds => !ds.isEmpty && ds.all Char.isDigit
  | 'I' :: 'M' :: 'S' :: ':' :: ds => !ds.isEmpty && ds.all Char.isDigit
  | _ => false

def itemOk : Item → Bool
  | .cv a v => accOk a && (match v with | some s => textOk s | none => true)
  | .ref r => textOk r
  | .misc => true

def itemsOk (l : List Item) : Bool := l.all itemOk

def specTextOk (s : Spec) : Bool :=
  itemsOk s.items && itemsOk s.scanlist && s.scans.all itemsOk && s.arrays.all (fun a => itemsOk a.items)
    && itemsOk s.tail

def sectsOk (l : List Sect) : Bool := l.all (fun s => itemsOk s.items)

def textOkDoc (d : Doc) : Bool :=
  sectsOk d.pre && sectsOk d.mid1 && sectsOk d.mid2 && sectsOk d.post
    && d.groups.all (fun g => textOk g.id && itemsOk g.items)
    && d.settings.all (fun s => itemsOk s.items) && d.spectra.all specTextOk

/-- every cv value, every ref and every group id of the document is free of `&`, `"`, `<`, tab and line
breaks, and every accession has the shape `MS:digits` / `IMS:digits` -/
def TextOk (d : Doc) : Prop := textOkDoc d = true

instance (d : Doc) : Decidable (TextOk d) := by unfold TextOk; infer_instance

def hexVal (c : Char) : Option Nat :=
  if '0' ≤ c ∧ c ≤ '9' then some (c.toNat - 48)
  else if 'a' ≤ c ∧ c ≤ 'f' then some (c.toNat - 87)
  else if 'A' ≤ c ∧ c ≤ 'F' then some (c.toNat - 55)
  else none

def decVal (c : Char) : Option Nat := if '0' ≤ c ∧ c ≤ '9' then some (c.toNat - 48) else none

/-- value of a digit string in the given base; `none` when empty or a character is not a digit -/
def digitsVal (base : Nat) (dig : Char → Option Nat) : List Char → Option Nat
  | [] => none
  | c :: r => r.foldl (fun acc c => match acc, dig c with
                                    | some a, some v => some (a * base + v)
                                    | _, _ => none) (dig c)

/-- the text between `&` and `;`: the five predefined entities, decimal and hexadecimal character
references.  `none`: not a reference ElementTree knows (it raises ParseError there) -/
def decodeRef : List Char → Option Char
  | ['a', 'm', 'p'] => some '&'
  | ['l', 't'] => some '<'
  | ['g', 't'] => some '>'
  | ['q', 'u', 'o', 't'] => some '"'
  | ['a', 'p', 'o', 's'] => some '\''
  | '#' :: 'x' :: h => (digitsVal 16 hexVal h).map Char.ofNat
  | '#' :: ds => (digitsVal 10 decVal ds).map Char.ofNat
  | _ => none

/-- attribute-value normalisation of a literal character -/
def normWs (c : Char) : Char := if c == '\t' || c == '\n' || c == '\r' then ' ' else c

/-- the decoder: `pend = some acc` while the name of a reference is being collected (reversed).
A reference that is unknown or not terminated is kept as raw text (ElementTree raises ParseError on
such a document; it is outside what is modelled) -/
def xmlDecodeL : Option (List Char) → List Char → List Char
  | none, [] => []
  | some acc, [] => '&' :: acc.reverse
  | none, c :: r => if c = '&' then xmlDecodeL (some []) r else normWs c :: xmlDecodeL none r
  | some acc, c :: r =>
    if c = ';' then
      match decodeRef acc.reverse with
      | some ch => ch :: xmlDecodeL none r
      | none => ('&' :: acc.reverse ++ [';']) ++ xmlDecodeL none r
    else xmlDecodeL (some (c :: acc)) r

/-- the attribute text ElementTree hands to `from_xml_element` for the raw text `s` of the file -/
def xmlDecode (s : String) : String := String.ofList (xmlDecodeL none s.toList)

def xmlItem : Item → Item
  | .cv a v => .cv a (v.map xmlDecode)
  | .ref r => .ref (xmlDecode r)
  | .misc => .misc

def xmlItems (l : List Item) : List Item := l.map xmlItem

def xmlSect (s : Sect) : Sect := { items := xmlItems s.items }

def xmlSpecDoc (s : Spec) : Spec :=
  { items := xmlItems s.items, scanlist := xmlItems s.scanlist, scans := s.scans.map xmlItems,
    arrays := s.arrays.map (fun a => { items := xmlItems a.items }), tail := xmlItems s.tail }

/-- the document as the XML parser sees it: entity and character references in every cv value, ref and
group id decoded (accessions are left alone: `TextOk` fixes their shape) -/
def xmlDoc (d : Doc) : Doc :=
  { decl := d.decl, settingsFirst := d.settingsFirst,
    pre := d.pre.map xmlSect, mid1 := d.mid1.map xmlSect, mid2 := d.mid2.map xmlSect, post := d.post.map xmlSect,
    groups := d.groups.map (fun g => { id := xmlDecode g.id, items := xmlItems g.items }),
    settings := d.settings.map (fun s => { items := xmlItems s.items }),
    spectra := d.spectra.map xmlSpecDoc }

/-- the structural part of the layout (DESIGN.md §5.17): the two array groups are named
`mzArray` / `intensities` and declare exactly one binary type; every accession a parser reads occurs
at most once inside its enclosing element, where the XML parser looks for it, with a value the
regular expression accepts; at least one `<scanSettings>` and one `<spectrum>` -/
def LayoutCore (cls : String → Bool) (d : Doc) : Prop :=
  (d.groups.filter (fun g => g.id = "mzArray")).length = 1 ∧
  (d.groups.filter (fun g => g.id = "intensities")).length = 1 ∧
  (∀ g ∈ d.groups, (g.id = "mzArray" ↔ accMzArray ∈ accs g.items)) ∧
  (∀ g ∈ d.groups, (g.id = "intensities" ↔ accIntensityArray ∈ accs g.items)) ∧
  (∀ g ∈ d.groups, g.id = "mzArray" ∨ g.id = "intensities" → GroupOk g) ∧
  d.settings.isEmpty = false ∧
  (∀ s ∈ d.settings, SettingsOk cls s) ∧
  d.spectra.isEmpty = false ∧
  (∀ s ∈ d.spectra, SpecOk cls s)

instance (cls : String → Bool) (d : Doc) : Decidable (LayoutCore cls d) := by
  unfold LayoutCore SpecOk ArrOk SettingsOk GroupOk optVal oneVal
  infer_instance

/-- the layout as a predicate on documents: `LayoutCore`, and the attribute texts are plain
(`TextOk`: no entity or character references, no quote, no `<`; accessions of the shape the regular
expression matches completely), so that the raw text the regular expression reads is the text
ElementTree decodes -/
def Layout (cls : String → Bool) (d : Doc) : Prop := LayoutCore cls d ∧ TextOk d

instance (cls : String → Bool) (d : Doc) : Decidable (Layout cls d) := by
  unfold Layout
  infer_instance

/-! ## where the progress callback is invoked -/

/-- 0-based index, in `render cls d`, of the line whose reading is followed by invocation `k` of the
callback: the `<spectrumList …>` line for the first spectrum (the main loop's `"<spectrum"` prefix
test matches it; the first `<spectrum …>` line is then swallowed inside `parse_spectrum`), the
`<spectrum …>` line of spectrum `k` for every later one -/
def callLine (cls : String → Bool) (d : Doc) (k : Nat) : Nat :=
  (renderHead cls d).length + 1 +
    (if k = 0 then 0 else 1 + ((d.spectra.take k).map (fun s => (renderSpec cls s).length)).sum)

/-- the file positions handed to the callback, from the byte lengths of the lines: invocation `k` gets
the offset just after line `callLine k` -/
def callPositions (cls : String → Bool) (d : Doc) (lens : List Nat) : List Nat :=
  (List.range d.spectra.length).map (fun k => (lens.take (callLine cls d k + 1)).sum)

/-! the same lists in one pass (what the driver evaluates for documents with thousands of spectra;
equal to the definitions above: `callPositionsFast_eq`) -/

/-- index of the `<spectrum …>` line of every spectrum of `ss` when the first one sits at index `i` -/
def specStarts (cls : String → Bool) (i : Nat) : List Spec → List Nat
  | [] => []
  | s :: r => i :: specStarts cls (i + (renderSpec cls s).length) r

def callLinesFast (cls : String → Bool) (d : Doc) : List Nat :=
  match d.spectra with
  | [] => []
  | s0 :: rest =>
    let h := (renderHead cls d).length
    (h + 1) :: specStarts cls (h + 2 + (renderSpec cls s0).length) rest

/-- running totals: entry `i` is `acc` plus the sum of the first `i + 1` lengths -/
def prefixSums : Nat → List Nat → List Nat
  | _, [] => []
  | acc, n :: r => (acc + n) :: prefixSums (acc + n) r

def callPositionsFast (cls : String → Bool) (d : Doc) (lens : List Nat) : List Nat :=
  let ps := (prefixSums 0 lens).toArray
  let total := lens.sum
  (callLinesFast cls d).map (fun i => (ps[i]?).getD total)

/-! ## the images both models give -/

/-- the conversions between the parsed text and the numbers the extraction works on, left opaque:
`int(…)`, `float(…)` and `spec.get_binary_data(params.id, params.dtype, fp)` (the array of group `g`
read at `offsets[g.id]`, `lengths[g.id]` of the spectrum) -/
structure Bin where
  int : String → Nat
  float : String → Rat
  read : PGroup → SpecInfo → List Rat

def toSpectrum (B : Bin) (m : Model) (s : SpecInfo) : Pew.Imzml.Spectrum :=
  { x := (B.int s.x : Int), y := (B.int s.y : Int), tic := s.tic.map B.float, mz := B.read m.mz s, it := B.read m.inten s }

/-- the spectra in document order; the parsers' dictionary keeps the last one per position, which is
what the placement loop (`Pew.Imzml.place`) does with the list -/
def spectraOf (B : Bin) (m : Model) : List Pew.Imzml.Spectrum := m.spectra.map (toSpectrum B m)

/-- the `scan_settings.image_size` pair as given in the document, if any -/
def sizeArg (B : Bin) (m : Model) : Option (Int × Int) :=
  m.scan.size.map (fun p => ((B.int p.1 : Int), (B.int p.2 : Int)))

/-- `ImzML.image_size` as `(X, Y)`; `(0, 0)` when there is neither a declared size nor a spectrum -/
def imageSizeOf (B : Bin) (m : Model) : Nat × Nat :=
  match Pew.Imzml.imageSize (sizeArg B m) (spectraOf B m) with
  | some (x, y) => (x.toNat, y.toNat)
  | none => (0, 0)

/-- `ImzML.extract_tic()` as a table of shape `(Y, X)`; `none` = NaN; `[]` when the call raises -/
def ticImageOf (B : Bin) (m : Model) : List (List (Option Rat)) :=
  match Pew.Imzml.ticImage (sizeArg B m) (spectraOf B m) with
  | some (shape, img) => Pew.Imzml.tabulate shape img
  | none => []

/-- `ImzML.extract_masses(masses, width)` as a table of shape `(Y, X)` of window sums -/
def massImageOf (B : Bin) (m : Model) (masses : List Rat) (w : Pew.Imzml.Width) : List (List (Option (List Rat))) :=
  match Pew.Imzml.extractImage (sizeArg B m) (spectraOf B m) masses w with
  | some (shape, img) => Pew.Imzml.tabulate shape img
  | none => []

/-! ## the conversions, concretely

`Bin` above is opaque; here it is realised the way the code realises it: `int(text)`, `float(text)` and
`Spectrum.get_binary_data` (C05's byte-level model `Pew.Imzml.readValues` on the bytes of the `.ibd`). -/

/-- `int(s)` for a text of ASCII digits (what exporters write; leading zeros allowed).  `none` for
everything else — Python accepts more (sign, blanks, underscores, other Unicode digits); such texts are
outside what the exact image comparison covers -/
def pyNat (s : String) : Option Nat :=
  if s.isEmpty || !s.toList.all Char.isDigit then none
  else some (s.toList.foldl (fun n c => 10 * n + (c.toNat - 48)) 0)

def digitsNat (l : List Char) : Nat := l.foldl (fun n c => 10 * n + (c.toNat - 48)) 0

/-- `10^e` as a rational, `e` any integer -/
def pow10 (e : Int) : Rat := if 0 ≤ e then ((10 ^ e.toNat : Nat) : Rat) else 1 / ((10 ^ (-e).toNat : Nat) : Rat)

/-- sign and rest of a decimal text -/
def splitSign : List Char → Bool × List Char
  | '-' :: r => (true, r)
  | '+' :: r => (false, r)
  | r => (false, r)

/-- the exact value of a decimal text `[+-] digits [. digits] [e|E [+-] digits]` (at least one digit in the
mantissa, at least one in an exponent that is present), white space around it ignored.  `none`: not of that
shape (`inf`, `nan`, underscores … are left to Python) -/
def decimalValue (s : String) : Option Rat :=
  -- `float()` strips leading and trailing white space
  let isWs := fun (c : Char) => c == ' ' || c == '\t' || c == '\n' || c == '\r' || c == '\x0b' || c == '\x0c'
  let cs := ((s.toList.dropWhile isWs).reverse.dropWhile isWs).reverse
  let (neg, r) := splitSign cs
  let ip := r.takeWhile Char.isDigit
  let r1 := r.dropWhile Char.isDigit
  let (fp, r2) : List Char × List Char :=
    match r1 with
    | '.' :: t => (t.takeWhile Char.isDigit, t.dropWhile Char.isDigit)
    | _ => ([], r1)
  if ip.isEmpty && fp.isEmpty then none else
  let mant : Rat := ((digitsNat (ip ++ fp) : Nat) : Rat) * pow10 (-(fp.length : Int))
  let ex : Option Int :=
    match r2 with
    | [] => some 0
    | c :: t =>
      if c == 'e' || c == 'E' then
        let (eneg, ds) := splitSign t
        if ds.isEmpty || !ds.all Char.isDigit then none
        else some (if eneg then -(digitsNat ds : Int) else (digitsNat ds : Int))
      else none
  match ex with
  | none => none
  | some e => some ((if neg then -1 else 1) * mant * pow10 e)

/-- `⌊log₂ (n/d)⌋` for positive `n`, `d` -/
def floorLog2 (n d : Nat) : Int :=
  let e0 : Int := (Nat.log2 n : Int) - (Nat.log2 d : Int)
  -- 2^e0 ≤ n/d·2 and n/d < 2^(e0+1): e0 or e0 - 1
  let ge : Bool := if 0 ≤ e0 then d * 2 ^ e0.toNat ≤ n else d ≤ n * 2 ^ (-e0).toNat
  if ge then e0 else e0 - 1

/-- round half to even of a non-negative rational -/
def roundHalfEvenNat (q : Rat) : Nat :=
  let f := q.floor.toNat
  let r := q - (f : Rat)
  if r < 1 / 2 then f else if 1 / 2 < r then f + 1 else if f % 2 = 0 then f else f + 1

/-- the binary64 nearest to `x` (ties to even), for `x = 0` or `2^-1022 ≤ |x| < 2^1024 − 2^970`
(normal range, no overflow); `none` outside -/
def nearestF64 (x : Rat) : Option Rat :=
  if x = 0 then some 0 else
  let a := if x < 0 then -x else x
  let e := floorLog2 a.num.natAbs a.den
  if e < -1022 then none else
  -- significand scaled to [2^52, 2^53)
  let k : Int := e - 52
  let q : Rat := if 0 ≤ k then a / ((2 ^ k.toNat : Nat) : Rat) else a * ((2 ^ (-k).toNat : Nat) : Rat)
  let m := roundHalfEvenNat q
  let r : Rat := if 0 ≤ k then (m : Rat) * ((2 ^ k.toNat : Nat) : Rat) else (m : Rat) / ((2 ^ (-k).toNat : Nat) : Rat)
  if (2 : Rat) ^ 1024 ≤ r then none else some (if x < 0 then -r else r)

/-- `float(s)`: CPython converts a decimal text with correct rounding (David Gay's algorithm) -/
def pyFloat (s : String) : Option Rat := (decimalValue s).bind nearestF64

/-- the element type an accession of `CV_BINARYDATA` declares -/
def dtypeOf (acc : String) : Option Pew.Imzml.DType :=
  if acc = "IMS:1100000" then some .u8 else if acc = "IMS:1100001" then some .u16
  else if acc = "MS:1000519" then some .u32 else if acc = "MS:1000522" then some .u64
  else if acc = "MS:1000521" then some .f32 else if acc = "MS:1000523" then some .f64 else none

/-- `offsets[id]`, `lengths[id]`: the dictionary keeps the last array with that reference -/
def arrayOf (s : SpecInfo) (id : String) : Option (String × String) :=
  (s.arrays.reverse.find? (fun a => a.1 == id)).map (fun a => a.2)

/-- `spec.get_binary_data(g.id, g.dtype, fp)` on the bytes of the external binary; `none` when an offset or
length is not a digit text, the group declares no known type, NumPy rejects the buffer or an element is
not finite -/
def readOf (ibd : List UInt8) (g : PGroup) (s : SpecInfo) : Option (List Rat) :=
  match arrayOf s g.id, dtypeOf g.dtype with
  | some (o, l), some dt =>
    match pyNat o, pyNat l with
    | some off, some len => Pew.Imzml.readValues .little ibd off len dt
    | _, _ => none
  | _, _ => none

/-- the conversions for one external binary (unreadable texts and arrays count as 0 / empty: the cases
where that matters are excluded by `convertible`) -/
def binOfBytes (ibd : List UInt8) : Bin :=
  { int := fun s => (pyNat s).getD 0, float := fun s => (pyFloat s).getD 0,
    read := fun g s => (readOf ibd g s).getD [] }

/-- every text and array the extraction touches converts (so `binOfBytes` is what Python computes) -/
def convertible (ibd : List UInt8) (m : Model) : Bool :=
  (match m.scan.size with
    | some (x, y) => (pyNat x).isSome && (pyNat y).isSome
    | none => true) &&
  m.spectra.all (fun s =>
    (pyNat s.x).isSome && (pyNat s.y).isSome &&
    (match s.tic with | some t => (pyFloat t).isSome | none => true) &&
    (readOf ibd m.mz s).isSome && (readOf ibd m.inten s).isSome)

/-! ## from text lines to abstract lines

The state machine above works on abstract lines; here is how the code's string tests classify a text
line (`str.startswith`, `str.find`, the regular expression at the top of `fast_parse_imzml`).  `tokenise`
is defined for lines on which the classification does not depend on the loop that reads them (a line
that begins like one of the eight tags does not also match the regular expression, and the garbage the
`id="` scan yields on a `…List` or `…Ref` line is not a group name); every line of a rendered document is
such a line, which the driver checks for every generated file. -/

/-- `str.strip()` (ASCII white space; Python also strips other Unicode spaces) -/
def isSpaceChar (c : Char) : Bool :=
  c == ' ' || c == '\t' || c == '\n' || c == '\r' || c == '\x0b' || c == '\x0c' ||
  c == '\x1c' || c == '\x1d' || c == '\x1e' || c == '\x1f'

def pyStrip (l : List Char) : List Char := ((l.dropWhile isSpaceChar).reverse.dropWhile isSpaceChar).reverse

/-- index of the first occurrence of `pat` in `s`, counting from `i` for the head of `s` -/
def findIdxFrom (pat : List Char) : List Char → Nat → Option Nat
  | [], i => if pat.isEmpty then some i else none
  | c :: r, i => if pat.isPrefixOf (c :: r) then some i else findIdxFrom pat r (i + 1)

/-- `s.find(pat, start)`; `-1` when there is none -/
def pyFind (s pat : List Char) (start : Nat) : Int :=
  match findIdxFrom pat (s.drop start) start with
  | some i => (i : Int)
  | none => -1

/-- `s[a:b]` for `a ≥ 0` and any `b` (a negative `b` counts from the end) -/
def pySlice (s : List Char) (a : Nat) (b : Int) : List Char :=
  let e : Nat := if b < 0 then (s.length : Int) + b |>.toNat else min b.toNat s.length
  (s.take e).drop a

/-- `k = line.find(attr + '="', len(tag)) + len(attr) + 2; line[k : line.find('"', k)]` -/
def attrScan (line : List Char) (tagLen : Nat) (attr : String) : String :=
  let pat := attr.toList ++ ['=', '"']
  let k : Nat := (pyFind line pat tagLen + (pat.length : Int)).toNat
  String.ofList (pySlice line k (pyFind line ['"'] k))

/-- `\d` restricted to ASCII (Python's also accepts other Unicode decimal digits) -/
def reDigit (c : Char) : Bool := c.isDigit

/-- after `accession="`: `(I?MS:\d+)`; the accession and what follows it -/
def matchAcc (r : List Char) : Option (List Char × List Char) :=
  let (pre, r1) : List Char × List Char :=
    match r with
    | 'I' :: t => (['I'], t)
    | _ => ([], r)
  match r1 with
  | 'M' :: 'S' :: ':' :: t =>
    let ds := t.takeWhile reDigit
    if ds.isEmpty then none else some (pre ++ ['M', 'S', ':'] ++ ds, t.dropWhile reDigit)
  | _ =>
    -- `I?` may also match nothing in front of a text that starts with `I`: then `MS:` must follow at once, which it does not
    none

/-- `(?:.*value="([^"]+)")?` on the rest of the line: greedy `.*`, so the LAST place where `value="`
is followed by at least one character other than a quote and then a quote -/
def matchValue (cls : List Char → Bool) : List Char → Option (List Char)
  | [] => none
  | c :: r =>
    match matchValue cls r with
    | some v => some v
    | none =>
      if ("value=\"".toList).isPrefixOf (c :: r) then
        let body := (c :: r).drop 7
        let v := body.takeWhile cls'
        if !v.isEmpty && (body.dropWhile cls').head? == some '"' then some v else none
      else none
where cls' (c : Char) : Bool := c != '"' && cls [c]

/-- `re_accession.search(line)`: the leftmost `accession="` that is followed by an accession, and the
value group.  `cls` is the character class of the value (`[^"]` now, `[\w.]` before 91b0006), given on
one-character strings -/
def reSearch (cls : List Char → Bool) : List Char → Option (String × Option String)
  | [] => none
  | c :: r =>
    if ("accession=\"".toList).isPrefixOf (c :: r) then
      match matchAcc ((c :: r).drop 11) with
      | some (acc, rest) => some (String.ofList acc, (matchValue cls rest).map String.ofList)
      | none => reSearch cls r
    else reSearch cls r

def clsAnyC (_ : List Char) : Bool := true
def clsWordC (l : List Char) : Bool := l.all (fun c => c.isAlphanum || c == '_' || c == '.')

/-- the tags the loops test for, longest first where one is a prefix of another -/
def tagTable : List (String × Tag) :=
  [("referenceableParamGroupList", .groupList), ("referenceableParamGroup", .group),
   ("scanSettingsList", .settingsList), ("scanSettings", .settings),
   ("spectrumList", .spectrumList), ("spectrum", .spectrum),
   ("binaryDataArrayList", .arrayList), ("binaryDataArray", .array)]

def startsWith (line : List Char) (p : String) : Bool := p.toList.isPrefixOf line

/-- a text line as the abstract line the state machine reads; `none` when the classification would depend
on which loop reads the line -/
def tokenise (cls : List Char → Bool) (text : String) : Option Line :=
  let line := pyStrip text.toList
  let re := reSearch cls line
  let isRef := startsWith line "<referenceableParamGroupRef"
  let opn := tagTable.find? (fun (n, _) => startsWith line ("<" ++ n))
  let clo := tagTable.find? (fun (n, _) => startsWith line ("</" ++ n))
  if isRef then
    -- inside an array: the regular expression is tried first, then the reference; in the group list the
    -- line passes the `<referenceableParamGroup` test and its `id="` scan must not give a group name
    let gid := attrScan line 24 "id"
    if re.isSome || gid == "mzArray" || gid == "intensities" then none
    else some (.ref (attrScan line 27 "ref"))
  else
    match opn, clo with
    | some (_, t), _ =>
      if re.isSome then none else
      match t with
      | .group => some (.opn .group (attrScan line 24 "id"))
      | .groupList =>
        let gid := attrScan line 24 "id"
        if gid == "mzArray" || gid == "intensities" then none else some (.opn .groupList "")
      | t => some (.opn t "")
    | none, some (_, t) => if re.isSome then none else some (.cls t)
    | none, none =>
      match re with
      | some (a, v) => some (.cv a v)
      | none => some .misc

/-- lines no loop reacts to are all alike: an opening or closing tag the parser does not know, and
anything else without an accession -/
def Line.norm : Line → Line
  | .opn .other _ => .misc
  | .cls .other => .misc
  | l => l

/-- the text of a file, line by line, as the abstract lines of the state machine -/
def tokeniseAll (cls : List Char → Bool) (texts : List String) : Option (List Line) := texts.mapM (tokenise cls)

/-! ## what the callback hands back

`fast_parse_imzml` tests `if not callback(fp.tell())`: the truth value of whatever object the callback
returns.  The property speaks of "a callback returning False"; a Python callback can return any object. -/

/-- the object `callback(fp.tell())` evaluates to, as far as the parser can tell objects apart:
`bool`, `numpy.bool_` (what a comparison with a NumPy scalar gives: `pos < np.int64(limit)`), `int`,
`None`, and `other`: any other object (string, list, float, NumPy integer, plain object) with its truth
value -/
inductive PyVal
  | bool (b : Bool)
  | npBool (b : Bool)
  | int (n : Int)
  | none
  | other (truth : Bool)
  deriving DecidableEq, Repr

/-- `bool(v)`, the mechanism: `if not callback(…): raise UserWarning` -/
def PyVal.truthy : PyVal → Bool
  | .bool b => b
  | .npBool b => b
  | .int n => n != 0
  | .none => false
  | .other t => t

/-- specification, "the callback returned False": `False`, `numpy.False_` and the integer `0` (all
three are equal to `False`; `bool` is a subclass of `int`) -/
def PyVal.isFalse : PyVal → Bool
  | .bool b => !b
  | .npBool b => !b
  | .int n => n == 0
  | _ => false

/-- specification, "the callback returned True": `True`, `numpy.True_` and the integer `1` -/
def PyVal.isTrue : PyVal → Bool
  | .bool b => b
  | .npBool b => b
  | .int n => n == 1
  | _ => false

/-- the callback of the state machine for a Python callback `f` -/
def cbOf (f : Nat → PyVal) : Nat → Bool := fun p => (f p).truthy

/-- what the property allows for a callback that hands back `vals[j]` at invocation `j`.
`a = some j`: invocation `j` aborted the import (it was the last one); `none`: the import ran to the
end.  An invocation that returned False must abort, one that returned True must not; for any other
object (`None`, `2`, a string …) the text demands neither -/
def outcomeOk (vals : List PyVal) : Option Nat → Bool
  | .none => vals.all (fun v => !v.isFalse)
  | .some j => (vals.take j).all (fun v => !v.isFalse) &&
      (match vals[j]? with
       | some v => !v.isTrue
       | .none => false)

/-- the mechanism's choice: the first invocation whose result is falsy -/
def firstFalsy (vals : List PyVal) : Option Nat := vals.findIdx? (fun v => !v.truthy)

/-- every outcome the property allows, in the order "never", 0, 1, … -/
def okOutcomes (vals : List PyVal) : List (Option Nat) :=
  (Option.none :: (List.range vals.length).map Option.some).filter (outcomeOk vals)

/-! ## histories: several imports in one process

The same document is imported two or three times in one process, through either parser, with different
external binaries, and the caller edits the objects it got back in between.  The parsers keep nothing
between calls: every import reads the document again and builds a new object. -/

/-- an object an import returned: the parsed model and `external_binary` (an index into the binaries
of the history) -/
structure Obj where
  model : Model
  bin : Nat
  deriving DecidableEq, Repr

def setAt {α} (l : List α) (i : Nat) (f : α → α) : List α :=
  match l[i]? with
  | some a => l.set i (f a)
  | none => l

/-- what a caller can do to an object it holds: every attribute is assignable and the dictionaries are
mutable -/
inductive Edit
  | setSize (s : Option (String × String))                   -- `imz.scan_settings.image_size = …`
  | setPixel (p : String × String)                           -- `imz.scan_settings.pixel_size = …`
  | dropSpectrum (i : Nat)                                   -- `del imz.spectra[key]`
  | clearSpectra                                             -- `imz.spectra.clear()`
  | addSpectrum (s : SpecInfo)                               -- `imz.spectra[pos] = Spectrum(…)`
  | setTic (i : Nat) (t : Option String)                     -- `spectrum.tic = …`
  | setPos (i : Nat) (x y : String)                          -- `spectrum.pos = …`
  | setArrays (i : Nat) (a : List (String × String × String)) -- `spectrum.offsets[…] = …`, `spectrum.lengths…`
  | setMz (g : PGroup)                                       -- `imz.mz_params.id / .dtype / .external = …`
  | setInten (g : PGroup)
  | setBin (b : Nat)                                         -- `imz.external_binary = …`
  deriving DecidableEq, Repr

def Edit.apply (o : Obj) : Edit → Obj
  | .setSize s => { o with model := { o.model with scan := { o.model.scan with size := s } } }
  | .setPixel p => { o with model := { o.model with scan := { o.model.scan with pixel := p } } }
  | .dropSpectrum i => { o with model := { o.model with spectra := o.model.spectra.eraseIdx i } }
  | .clearSpectra => { o with model := { o.model with spectra := [] } }
  | .addSpectrum s => { o with model := { o.model with spectra := o.model.spectra ++ [s] } }
  | .setTic i t => { o with model := { o.model with spectra := setAt o.model.spectra i (fun s => { s with tic := t }) } }
  | .setPos i x y => { o with model := { o.model with spectra := setAt o.model.spectra i (fun s => { s with x := x, y := y }) } }
  | .setArrays i a => { o with model := { o.model with spectra := setAt o.model.spectra i (fun s => { s with arrays := a }) } }
  | .setMz g => { o with model := { o.model with mz := g } }
  | .setInten g => { o with model := { o.model with inten := g } }
  | .setBin b => { o with bin := b }

/-- which parser an import uses; the fast parser with `callback=None` or with a callback -/
inductive Parser
  | fast (cb : Option (Nat → Bool))
  | xml

/-- one call of `ImzML.from_file(path, external_binary, use_fast_parse)` / `fast_parse_imzml(path,
external_binary, callback)` on the document -/
structure Import where
  parser : Parser
  bin : Nat

inductive Op
  | imp (i : Import)
  | edit (obj : Nat) (e : Edit)     -- the caller edits the `obj`-th object it holds

/-- what an import hands to its caller -/
inductive Result
  | ok (o : Obj)
  | fastErr (e : Err)
  | xmlErr
  deriving DecidableEq, Repr

/-- one import on its own: the parser reads the document and wraps the model with the binary it was given -/
def importOnce (d : Doc) (ls : List (Line × Nat)) (i : Import) : Result :=
  match i.parser with
  | .fast cb =>
    match fastParse (cb.getD (fun _ => true)) ls with
    | .ok m => .ok { model := m, bin := i.bin }
    | .error e => .fastErr e
  | .xml =>
    match xmlView (xmlDoc d) with
    | some m => .ok { model := m, bin := i.bin }
    | none => .xmlErr

/-- the process: the objects the caller holds (as edited so far) and what each import returned -/
structure Session where
  heap : List Obj
  results : List Result
  deriving Repr

def Session.init : Session := { heap := [], results := [] }

/-- an import reads the file, never the objects handed out earlier; a successful one adds a new object -/
def Session.step (d : Doc) (ls : List (Line × Nat)) (s : Session) : Op → Session
  | .imp i =>
    match importOnce d ls i with
    | .ok o => { heap := s.heap ++ [o], results := s.results ++ [.ok o] }
    | r => { s with results := s.results ++ [r] }
  | .edit k e => { s with heap := setAt s.heap k (fun o => e.apply o) }

def runOps (d : Doc) (ls : List (Line × Nat)) (ops : List Op) : Session :=
  ops.foldl (Session.step d ls) Session.init

/-- the imports of a history, in order -/
def importsOf : List Op → List Import
  | [] => []
  | .imp i :: r => i :: importsOf r
  | .edit _ _ :: r => importsOf r

/-- the images of a returned object: the binary it reads is the one given to ITS import -/
def objImages (Bs : Nat → Bin) (masses : List Rat) (w : Pew.Imzml.Width) (o : Obj) :
    (Nat × Nat) × List (List (Option Rat)) × List (List (Option (List Rat))) :=
  (imageSizeOf (Bs o.bin) o.model, ticImageOf (Bs o.bin) o.model, massImageOf (Bs o.bin) o.model masses w)

end Pew.FastParse
