/-!
# C04 — per-line CSV directory import (`pewlib.io.csv.load`)

Mechanism (shaped like the code): a directory is a list of entries in *listing order*; hidden and
non-file entries are removed, the vendor's file-name pattern is applied (`re.match`, i.e. anchored
at the start only, `IGNORECASE`), the survivors are stably sorted by the vendor's sort key (Nu: the
number made of all digits of the stem; LDR: the pair lower-cased sample name, integer line index;
TOFWERK: `calendar.timegm ∘ time.strptime` of the stamp, `ValueError` when `strptime` rejects it;
generic: the name), one reader task per file is submitted to an executor, the tasks complete in an arbitrary order `π`,
the results are gathered future by future in submission order, all lines are cut to the shortest
one and stacked, all-NaN sample positions / columns are removed (LDR), the laser parameters are
read, and only then the helper columns are dropped.

Specification: row `k` of the image is the line of the accepted file with exactly `k` accepted
files of smaller *acquisition key* (numeric line index / LDR: lower-cased sample name, then numeric
line index / time stamp fields / file name); the image is written pointwise (`specImage`): the sample
positions and fields that survive are listed by index and every cell is looked up in the table of
its own file - no mask, no `zip`, nothing shared with the mechanism's `stack` / `post`.

`np.genfromtxt` is external: an entry carries the table it parses to (`Line`).
The value type `α` is a parameter of everything except the parameter extraction (exact `Rat`).
-/
namespace Pew.CsvDir

/-! ## data -/

/-- what `np.genfromtxt(path, names=True, …)` returns for one file: field names, sample rows -/
structure Line (α : Type) where
  names : List String
  rows : List (List α)
  deriving Repr, DecidableEq

/-- directory entry -/
structure Entry (α : Type) where
  name : String
  isFile : Bool
  line : Line α
  deriving Repr, DecidableEq

/-- stacked structured array: `lines[k][j][c]` = line `k`, sample `j`, field `c` -/
structure Image (α : Type) where
  names : List String
  lines : List (List (List α))
  deriving Repr, DecidableEq

inductive Vendor | nu | ldr | tofwerk | generic
  deriving DecidableEq, Repr

/-! ## file-name patterns (hand-written matchers for the four regular expressions)

All work on `List Char`, ASCII semantics (`\w` = `[A-Za-z0-9_]`, `\d` = `[0-9]`). -/

def isDigit (c : Char) : Bool := c.isDigit
def isWord (c : Char) : Bool := c.isAlphanum || c == '_'

/-- literal (given in lower case) at the start of `s`, ignoring case; returns the remainder -/
def lit : List Char → List Char → Option (List Char)
  | [], s => some s
  | _ :: _, [] => none
  | p :: ps, c :: cs => if p == c.toLower then lit ps cs else none

/-- `\d+` (greedy; what follows in every pattern is not a digit, so no backtracking) -/
def digits1 (s : List Char) : Option (List Char × List Char) :=
  let d := s.takeWhile isDigit
  if d.isEmpty then none else some (d, s.dropWhile isDigit)

/-- `(\d+)\.csv` at the start of `s`: the digit group and what follows the match -/
def numCsvR (s : List Char) : Option (List Char × List Char) :=
  match digits1 s with
  | none => none
  | some (d, r) => (lit ".csv".toList r).map (fun rest => (d, rest))

/-- `(\d+)\.csv` at the start of `s`: the digit group -/
def numCsv (s : List Char) : Option (List Char) := (numCsvR s).map (·.1)

/-- `line_(\d+)\.csv` -/
def nuGroup (s : List Char) : Option (List Char) :=
  match lit "line_".toList s with
  | none => none
  | some r => numCsv r

/-- the whole name is `line_<digits>.csv` (any letter case): `re.fullmatch` instead of `re.match` -/
def nuFull (s : List Char) : Bool :=
  match lit "line_".toList s with
  | none => false
  | some r =>
    match numCsvR r with
    | some (_, []) => true
    | _ => false

/-- `_ldr_(\d+)\.csv` at the start of `s` -/
def ldrTail (s : List Char) : Option (List Char) :=
  match lit "_ldr_".toList s with
  | none => none
  | some r => numCsv r

/-- candidate split points of a greedy `\w*`: longest first -/
def wordSplitsGreedy (s : List Char) : List Nat :=
  (List.range ((s.takeWhile isWord).length + 1)).reverse

/-- `(\w*)_ldr_(\d+)\.csv`, `IGNORECASE`: greedy `\w*` with backtracking, the two groups of the first
success (sample name, line index digits).  The filter pattern and the pattern of the sort key are
this same expression. -/
def ldrParts (s : List Char) : Option (List Char × List Char) :=
  (wordSplitsGreedy s).findSome? (fun p => (ldrTail (s.drop p)).map (fun d => (s.take p, d)))

/-- `\w*_ldr_(\d+)\.csv`: the digit group -/
def ldrGroup (s : List Char) : Option (List Char) := (ldrParts s).map (·.2)

/-- `.*\.csv` at the start of `s` (names contain no newline) -/
def containsCsv (s : List Char) : Bool :=
  (List.range (s.length + 1)).any (fun p => (lit ".csv".toList (s.drop p)).isSome)

/-- `\d\d` -/
def two (s : List Char) : Option (List Char × List Char) :=
  match s with
  | a :: b :: r => if isDigit a && isDigit b then some ([a, b], r) else none
  | _ => none

def isDateChar (c : Char) : Bool := isDigit c || c == '.'

/-- `([0-9.]+-\d\dh\d\dm\d\ds).*\.csv` at the start of `s`; returns date part, hh, mm, ss.
`[0-9.]+` is greedy and must be followed by `-`, which is not in the class: no backtracking. -/
def stampAt (s : List Char) : Option (List Char × List Char × List Char × List Char) :=
  let d := s.takeWhile isDateChar
  if d.isEmpty then none else
  match s.dropWhile isDateChar with
  | '-' :: r1 =>
    match two r1 with
    | none => none
    | some (hh, r2) =>
      match lit ['h'] r2 with
      | none => none
      | some r3 =>
        match two r3 with
        | none => none
        | some (mm, r4) =>
          match lit ['m'] r4 with
          | none => none
          | some r5 =>
            match two r5 with
            | none => none
            | some (ss, r6) =>
              match lit ['s'] r6 with
              | none => none
              | some r7 => if containsCsv r7 then some (d, hh, mm, ss) else none
  | _ => none

/-- `\w+?(…)`: lazy, at least one character: shortest prefix first -/
def tofwerkGroup (s : List Char) : Option (List Char × List Char × List Char × List Char) :=
  ((List.range ((s.takeWhile isWord).length + 1)).drop 1).findSome? (fun p => stampAt (s.drop p))

/-- `option.regex.match(name) is not None` -/
def matchesV (v : Vendor) (name : String) : Bool :=
  match v with
  | .nu => (nuGroup name.toList).isSome
  | .ldr => (ldrGroup name.toList).isSome
  | .tofwerk => (tofwerkGroup name.toList).isSome
  | .generic => containsCsv name.toList

/-! ## sort keys -/

def digitVal (c : Char) : Nat := c.toNat - '0'.toNat

/-- `int(digits)` -/
def digitsNat (d : List Char) : Nat := d.foldl (fun acc c => acc * 10 + digitVal c) 0

/-- `PurePath.stem`: the name without its last suffix (`i = name.rfind('.')`, cut if `0 < i < len-1`) -/
def stem (s : List Char) : List Char :=
  let after := (s.reverse.takeWhile (· != '.')).length   -- characters after the last dot
  if after == s.length then s                             -- no dot
  else
    let i := s.length - 1 - after
    if 0 < i && 0 < after then s.take i else s

/-- `int("".join(filter(str.isdigit, path.stem)) or -1)` -/
def stemDigitsKey (s : List Char) : Int :=
  let d := (stem s).filter isDigit
  if d.isEmpty then -1 else (digitsNat d : Int)

/-- split on '.' -/
def splitDots (s : List Char) : List (List Char) :=
  s.foldr (fun c acc =>
    if c == '.' then [] :: acc
    else match acc with
      | [] => [[c]]
      | h :: t => (c :: h) :: t) [[]]

/-- the six numbers `time.strptime(group(1), "%Y.%m.%d-%Hh%Mm%Ss")` reads: `%Y` is exactly four
digits, `%m` and `%d` one or two digits (`1[0-2]|0[1-9]|[1-9]`, `3[01]|[12]\d|0[1-9]|[1-9]`; the value
ranges are checked by `strptimeOk`), the three time fields are the two-digit groups of the file-name
pattern.  Anything else gives `[]` (`strptime` raises). -/
def stampFields (s : List Char) : List Nat :=
  match tofwerkGroup s with
  | none => []
  | some (d, hh, mm, ss) =>
    match splitDots d with
    | [y, m, dd] =>
      if y.length == 4 && (m.length == 1 || m.length == 2) && (dd.length == 1 || dd.length == 2)
          && (y ++ m ++ dd).all isDigit then
        [digitsNat y, digitsNat m, digitsNat dd, digitsNat hh, digitsNat mm, digitsNat ss]
      else []
    | _ => []

/-- the stamp is written the way the instrument writes it: `YYYY.MM.DD`, every field zero-padded
(`time.strptime` also reads one-digit months and days) -/
def stampStrict (s : List Char) : Bool :=
  match tofwerkGroup s with
  | none => false
  | some (d, _, _, _) =>
    match splitDots d with
    | [y, m, dd] => y.length == 4 && m.length == 2 && dd.length == 2
    | _ => false

/-- keys are compared as Python compares ints / strings: lexicographic, a proper prefix first -/
def keyLe : List Int → List Int → Bool
  | [], _ => true
  | _ :: _, [] => false
  | a :: as, b :: bs => if a < b then true else if a = b then keyLe as bs else false

def keyLt (a b : List Int) : Bool := !keyLe b a

/-- a Python tuple `(str, int)` as a comparison key: the code points of the string, a terminator
below every code point, the integer.  `keyLe` on these lists is the tuple order (string first, by
code points with a proper prefix first, then the integer): theorem `tupleKey_order`. -/
def tupleKey (p : List Char) (i : Int) : List Int := p.map (fun c => (c.toNat : Int)) ++ [-1, i]

/-- `str.lower()` on ASCII names -/
def lower (p : List Char) : List Char := p.map Char.toLower

/-- `ThermoLDROption.sortkey`: `(group(1).lower(), int(group(2)))` of
`re.match(r"(\w*)_ldr_(\d+)\.csv", name, re.IGNORECASE)`, else `("", int(all digits of the stem) or -1)` -/
def ldrKey (s : List Char) : List Int :=
  match ldrParts s with
  | some (p, d) => tupleKey (lower p) (digitsNat d)
  | none => tupleKey [] (stemDigitsKey s)

/-- the key `option.sortkey(path)` of the code; `tkey` is the stamp → seconds conversion
(`calendar.timegm ∘ time.strptime`), a parameter -/
def sortKey (v : Vendor) (tkey : List Nat → Int) (name : String) : List Int :=
  match v with
  | .nu => [stemDigitsKey name.toList]
  | .ldr => ldrKey name.toList
  | .tofwerk => [tkey (stampFields name.toList)]
  | .generic => name.toList.map (fun c => (c.toNat : Int))

/-- the acquisition key the property speaks of: numeric line index (LDR directories that hold the
lines of several samples: the sample name as the code documents it - lower-cased, compared as a
string - and then the numeric line index), the time stamp fields in the file name, plain file name -/
def acqKey (v : Vendor) (name : String) : List Int :=
  match v with
  | .nu => [(((nuGroup name.toList).map digitsNat).getD 0 : Nat)]
  | .ldr =>
    match ldrParts name.toList with
    | some (p, d) => tupleKey (lower p) ((digitsNat d : Nat) : Int)
    | none => []
  | .tofwerk => (stampFields name.toList).map (fun (n : Nat) => (n : Int))
  | .generic => name.toList.map (fun c => (c.toNat : Int))

/-- days since 1970-01-01 as `datetime.date(y, m, 1).toordinal() - EPOCH + d - 1` -/
def daysBeforeYear (y : Nat) : Int :=
  let y1 : Int := (y : Int) - 1
  y1 * 365 + y1 / 4 - y1 / 100 + y1 / 400

def isLeap (y : Nat) : Bool := y % 4 == 0 && (y % 100 != 0 || y % 400 == 0)

def daysBeforeMonth (y m : Nat) : Int :=
  ([0, 0, 31, 59, 90, 120, 151, 181, 212, 243, 273, 304, 334].getD m 0 : Nat) + (if m > 2 && isLeap y then 1 else 0)

/-- `calendar.timegm` on the six stamp fields -/
def timegm (f : List Nat) : Int :=
  match f with
  | [y, m, d, hh, mm, ss] =>
    let days : Int := daysBeforeYear y + daysBeforeMonth y m + 1 - 719163 + (d : Int) - 1
    ((days * 24 + hh) * 60 + mm) * 60 + ss
  | _ => 0

def daysInMonth (y m : Nat) : Nat :=
  if m = 2 then (if isLeap y then 29 else 28)
  else if m = 4 ∨ m = 6 ∨ m = 9 ∨ m = 11 then 30 else 31

/-- what `time.strptime` accepts: a real calendar date, a time of day, seconds up to 61 -/
def strptimeOk : List Nat → Bool
  | [y, m, d, hh, mm, ss] =>
    decide (1 ≤ y) && decide (1 ≤ m) && decide (m ≤ 12) && decide (1 ≤ d) && decide (d ≤ daysInMonth y m)
      && decide (hh < 24) && decide (mm < 60) && decide (ss < 62)
  | _ => false

/-- a valid stamp: accepted by `time.strptime` and not a leap second -/
def validStampB : List Nat → Bool
  | [y, m, d, hh, mm, ss] =>
    decide (1 ≤ y) && decide (1 ≤ m) && decide (m ≤ 12) && decide (1 ≤ d) && decide (d ≤ daysInMonth y m)
      && decide (hh < 24) && decide (mm < 60) && decide (ss < 60)
  | _ => false

/-- `option.sortkey(path)` returns for every name (TOFWERK: `time.strptime` does not raise) -/
def keysDefined (v : Vendor) (names : List String) : Bool :=
  match v with
  | .tofwerk => names.all (fun n => strptimeOk (stampFields n.toList))
  | _ => true

/-! ## the executor -/

/-- `submit` appends a future per task (future `i` ↔ task `i`); the tasks complete in the order
`π`, each delivering the result of its *own* task into the store -/
def complete {β : Type} (tasks : List β) (π : List Nat) : List (Nat × β) :=
  π.filterMap (fun i => (tasks[i]?).map (fun r => (i, r)))

/-- `[future.result() for future in futures]`: futures are read in list order -/
def gather {β : Type} (n : Nat) (store : List (Nat × β)) : List β :=
  (List.range n).filterMap (fun i => store.lookup i)

/-! ## stacking and post-processing -/

def minLen {α : Type} (lines : List (Line α)) : Nat :=
  match lines.map (·.rows.length) with
  | [] => 0
  | x :: xs => xs.foldl min x

/-- `np.stack([line[:length] for line in lines])` -/
def stack {α : Type} (lines : List (Line α)) : Image α :=
  { names := (lines.head?.map (·.names)).getD [],
    lines := lines.map (fun l => l.rows.take (minLen lines)) }

/-- keep the elements of `l` whose position is not flagged in `mask` -/
def dropMasked {β : Type} (mask : List Bool) (l : List β) : List β :=
  ((l.zip mask).filter (fun p => !p.2)).map (·.1)

/-- sample position `j` is NaN in every field of every line -/
def nanPos {α : Type} (isNan : α → Bool) (img : Image α) (j : Nat) : Bool :=
  img.lines.all (fun l => ((l[j]?).getD []).all isNan)

def imgLength {α : Type} (img : Image α) : Nat := (img.lines.head?.map (·.length)).getD 0

/-- `np.delete(data, flatnonzero(all(isnan(unstructured), axis=(0, 2))), 1)` -/
def dropNanRows {α : Type} (isNan : α → Bool) (img : Image α) : Image α :=
  let mask := (List.range (imgLength img)).map (nanPos isNan img)
  { img with lines := img.lines.map (dropMasked mask) }

/-- field `c` is NaN everywhere -/
def nanCol {α : Type} (isNan : α → Bool) (img : Image α) (c : Nat) : Bool :=
  img.lines.all (fun l => l.all (fun row => ((row[c]?).map isNan).getD true))

/-- drop the fields flagged in `mask` from names and from every cell row -/
def dropCols {α : Type} (mask : List Bool) (img : Image α) : Image α :=
  { names := dropMasked mask img.names,
    lines := img.lines.map (fun l => l.map (dropMasked mask)) }

def dropNanCols {α : Type} (isNan : α → Bool) (img : Image α) : Image α :=
  dropCols ((List.range img.names.length).map (nanCol isNan img)) img

/-- `rfn.drop_fields(data, drop_names)` -/
def dropFields {α : Type} (drop : List String) (img : Image α) : Image α :=
  dropCols (img.names.map (fun n => drop.contains n)) img

def dropNames : Vendor → List String
  | .nu => ["Cycle_time_(ms)", "x_[um]", "y_[um]"]
  | .ldr => ["Time"]
  | .tofwerk => ["t_elapsed_Buf"]
  | .generic => []

def dropsNan : Vendor → Bool
  | .ldr => true
  | _ => false

/-- everything after the stack: NaN dropping, `readParams` *before* `drop_fields` -/
def post {α P : Type} (isNan : α → Bool) (rp : Vendor → Image α → P) (v : Vendor) (img : Image α) : Image α × P :=
  let d1 := if dropsNan v then dropNanCols isNan (dropNanRows isNan img) else img
  (dropFields (dropNames v) d1, rp v d1)

/-! ## the mechanism -/

def hidden (name : String) : Bool := name.toList.head? == some '.'

def visible {α : Type} (listing : List (Entry α)) : List (Entry α) :=
  listing.filter (fun e => e.isFile && !hidden e.name)

/-- `option.filter(paths)` after the hidden / non-file filter -/
def accepted {α : Type} (v : Vendor) (listing : List (Entry α)) : List (Entry α) :=
  (visible listing).filter (fun e => matchesV v e.name)

/-- `option.sort(paths)`: Python's `sorted` is a stable sort, so is `List.mergeSort` -/
def sortBy {β : Type} (key : β → List Int) (l : List β) : List β :=
  l.mergeSort (fun a b => keyLe (key a) (key b))

/-- the lines as the code obtains them: sort, submit, complete in order `π`, gather -/
def readLines {α : Type} (v : Vendor) (tkey : List Nat → Int) (listing : List (Entry α)) (π : List Nat) :
    List (Line α) :=
  let paths := sortBy (fun e => sortKey v tkey e.name) (accepted v listing)
  let tasks := paths.map (·.line)         -- what each reader task returns: its own file's table
  gather tasks.length (complete tasks π)

/-- `load(path, option, full=True)`; `none` = `ValueError` (no files / a TOFWERK stamp that
`time.strptime` rejects / `min()` of nothing) -/
def load {α P : Type} (isNan : α → Bool) (rp : Vendor → Image α → P) (v : Vendor) (tkey : List Nat → Int)
    (listing : List (Entry α)) (π : List Nat) : Option (Image α × P) :=
  if (visible listing).isEmpty then none else
  if !keysDefined v ((accepted v listing).map (·.name)) then none else
  let lines := readLines v tkey listing π
  if lines.isEmpty then none else
  some (post isNan rp v (stack lines))

/-- `option_for_path(dir)`: the first of Nu, LDR, TOFWERK whose pattern matches some *file*
(hidden ones included, as in `validForPath`), else generic -/
def autodetect {α : Type} (listing : List (Entry α)) : Vendor :=
  ([Vendor.nu, .ldr, .tofwerk].find? (fun v => listing.any (fun e => e.isFile && matchesV v e.name))).getD .generic

/-! ## the specification -/

/-- number of accepted files acquired before `e` -/
def rank {β : Type} (key : β → List Int) (l : List β) (e : β) : Nat :=
  l.countP (fun x => keyLt (key x) (key e))

/-- the files in acquisition order: position `k` holds the file of rank `k` -/
def byRank {β : Type} (key : β → List Int) (l : List β) : List β :=
  (List.range l.length).filterMap (fun k => l.find? (fun e => rank key l e == k))

/-! ### the image, pointwise

Nothing here uses `stack`, `post`, masks or `zip`: the surviving sample positions and fields are
listed by index, and a cell of the result is looked up in the table of its own file. -/

/-- the header of a directory: the field names of the first line -/
def hdrOf {α : Type} (lines : List (Line α)) : List String := (lines.head?.map (·.names)).getD []

/-- what `np.genfromtxt(names=True)` and `np.stack` grant: every sample row of every line has one
cell per field of the header -/
def Rect {α : Type} (lines : List (Line α)) : Prop :=
  ∀ l ∈ lines, ∀ row ∈ l.rows, row.length = (hdrOf lines).length

/-- the common length: the least line length -/
def cutLen {α : Type} (lines : List (Line α)) : Nat := ((lines.map (·.rows.length)).min?).getD 0

/-- sample position `j` holds NaN in every field of every line -/
def specNanPos {α : Type} (isNan : α → Bool) (lines : List (Line α)) (j : Nat) : Bool :=
  lines.all (fun l => (l.rows[j]?).all (fun row => row.all isNan))

/-- field `c` holds NaN at every sample position below `L` of every line -/
def specNanCol {α : Type} (isNan : α → Bool) (lines : List (Line α)) (L c : Nat) : Bool :=
  lines.all (fun l => (List.range L).all (fun j => (l.rows[j]?).all (fun row => (row[c]?).all isNan)))

/-- the sample positions of the result, increasing: below the common length and (when all-NaN data
is dropped) not NaN everywhere -/
def specPos {α : Type} (isNan : α → Bool) (dropNan : Bool) (lines : List (Line α)) : List Nat :=
  (List.range (cutLen lines)).filter (fun j => !(dropNan && specNanPos isNan lines j))

/-- the fields of the result, in header order: name wanted and (when all-NaN data is dropped) not
NaN everywhere -/
def specCols {α : Type} (isNan : α → Bool) (dropNan : Bool) (keep : String → Bool) (hdr : List String)
    (lines : List (Line α)) : List Nat :=
  (List.range hdr.length).filter (fun c =>
    (hdr[c]?).any keep && !(dropNan && specNanCol isNan lines (cutLen lines) c))

/-- cell `(k, j, i)` of the result is cell `(pos[j], cols[i])` of line `k` -/
def specImage {α : Type} (isNan : α → Bool) (dropNan : Bool) (keep : String → Bool) (lines : List (Line α)) :
    Image α :=
  let hdr := hdrOf lines
  let pos := specPos isNan dropNan lines
  let cols := specCols isNan dropNan keep hdr lines
  { names := cols.filterMap (fun c => hdr[c]?),
    lines := lines.map (fun l => pos.filterMap (fun j => (l.rows[j]?).map (fun row => cols.filterMap (fun c => row[c]?)))) }

/-- the returned image has no helper column; the parameters are read from the image that still
has them (all-NaN positions and fields already removed, for LDR) -/
def specPost {α P : Type} (isNan : α → Bool) (rp : Vendor → Image α → P) (v : Vendor) (lines : List (Line α)) :
    Image α × P :=
  (specImage isNan (dropsNan v) (fun n => !(dropNames v).contains n) lines,
   rp v (specImage isNan (dropsNan v) (fun _ => true) lines))

def specLoad {α P : Type} (isNan : α → Bool) (rp : Vendor → Image α → P) (v : Vendor)
    (listing : List (Entry α)) : Option (Image α × P) :=
  let acc := listing.filter (fun e => e.isFile && !hidden e.name && matchesV v e.name)
  if acc.isEmpty then none else
  some (specPost isNan rp v ((byRank (fun e => acqKey v e.name) acc).map (·.line)))

/-! ## option objects and histories of calls

`load` has no state of its own: `option_for_path` builds new option objects on every call, `load` reads
`option.drop_names`, `option.drop_nan_rows`, `option.drop_nan_columns` (and the methods of the option's
class) and assigns to none of them.  What exists between two calls is the file system and the option
objects the CALLER holds.  `World` is exactly that; `step` runs one call of the caller. -/

/-- the attributes of an option object that `load` reads; the class fixes `regex`, `sortkey`,
`readParams` and `kw_genfromtxt` -/
structure Opt where
  cls : Vendor
  dropNames : List String
  dropNanRows : Bool
  dropNanCols : Bool
  deriving DecidableEq, Repr

/-- `NuOption()`, `ThermoLDROption()`, `TofwerkOption()`, `GenericOption()` -/
def mkOpt (v : Vendor) : Opt :=
  { cls := v, dropNames := dropNames v, dropNanRows := dropsNan v, dropNanCols := dropsNan v }

/-- the tail of `load` as written: `if option.drop_nan_rows`, `if option.drop_nan_columns`,
`option.readParams(data)`, `rfn.drop_fields(data, option.drop_names)` -/
def postO {α P : Type} (isNan : α → Bool) (rp : Vendor → Image α → P) (o : Opt) (img : Image α) : Image α × P :=
  let d0 := if o.dropNanRows then dropNanRows isNan img else img
  let d1 := if o.dropNanCols then dropNanCols isNan d0 else d0
  (dropFields o.dropNames d1, rp o.cls d1)

/-- `load(path, option, full=True)` on an option OBJECT: the result, and the object after the call
(no attribute of it is assigned anywhere in `load`) -/
def loadO {α P : Type} (isNan : α → Bool) (rp : Vendor → Image α → P) (tkey : List Nat → Int) (o : Opt)
    (listing : List (Entry α)) (π : List Nat) : Option (Image α × P) × Opt :=
  let res :=
    if (visible listing).isEmpty then none else
    if !keysDefined o.cls ((accepted o.cls listing).map (·.name)) then none else
    let lines := readLines o.cls tkey listing π
    if lines.isEmpty then none else
    some (postO isNan rp o (stack lines))
  (res, o)

/-- `option_for_path(dir)`: a NEW object of the detected class -/
def optionForPath {α : Type} (listing : List (Entry α)) : Opt := mkOpt (autodetect listing)

/-- what persists between calls: the directories (by path) and the option objects the caller holds -/
structure World (α : Type) where
  fs : Nat → List (Entry α)
  opts : List Opt

/-- one action of the caller -/
inductive Call (α : Type) where
  /-- the directory at path `p` is (re)written -/
  | write (p : Nat) (listing : List (Entry α))
  /-- `o = NuOption()` …: a new object, kept -/
  | newOpt (v : Vendor)
  /-- `o = option_for_path(p)`: kept -/
  | detect (p : Nat)
  /-- the caller changes attributes of an object it holds -/
  | editOpt (i : Nat) (f : Opt → Opt)
  /-- `load(p, full=True)` -/
  | importAuto (p : Nat) (π : List Nat)
  /-- `load(p, option=opts[i], full=True)` -/
  | importWith (i : Nat) (p : Nat) (π : List Nat)

/-- one call: the world after it and, for an import, what it returned -/
def step {α P : Type} (isNan : α → Bool) (rp : Vendor → Image α → P) (tkey : List Nat → Int) (w : World α) :
    Call α → World α × Option (Option (Image α × P))
  | .write p l => ({ w with fs := fun q => if q = p then l else w.fs q }, none)
  | .newOpt v => ({ w with opts := w.opts ++ [mkOpt v] }, none)
  | .detect p => ({ w with opts := w.opts ++ [optionForPath (w.fs p)] }, none)
  | .editOpt i f => ({ w with opts := w.opts.modify i f }, none)
  | .importAuto p π =>
    -- `option = option_for_path(path)`: an object no one else holds
    (w, some (loadO isNan rp tkey (optionForPath (w.fs p)) (w.fs p) π).1)
  | .importWith i p π =>
    match w.opts[i]? with
    | none => (w, none)
    | some o =>
      let r := loadO isNan rp tkey o (w.fs p) π
      ({ w with opts := w.opts.set i r.2 }, some r.1)

/-- the world after a sequence of calls -/
def exec {α P : Type} (isNan : α → Bool) (rp : Vendor → Image α → P) (tkey : List Nat → Int) (w : World α) :
    List (Call α) → World α
  | [] => w
  | c :: cs => exec isNan rp tkey (step isNan rp tkey w c).1 cs

/-- what each call returned (`none` for a call that is no import) -/
def trace {α P : Type} (isNan : α → Bool) (rp : Vendor → Image α → P) (tkey : List Nat → Int) (w : World α) :
    List (Call α) → List (Option (Option (Image α × P)))
  | [] => []
  | c :: cs => (step isNan rp tkey w c).2 :: trace isNan rp tkey (step isNan rp tkey w c).1 cs

/-- the directory at path `p` as it is on disk when call number `k` is made -/
def dirAt {α P : Type} (isNan : α → Bool) (rp : Vendor → Image α → P) (tkey : List Nat → Int) (w : World α)
    (cs : List (Call α)) (k p : Nat) : List (Entry α) :=
  (exec isNan rp tkey w (cs.take k)).fs p

/-- the listing the last `write` to path `p` among `cs` left there -/
def lastWrite {α : Type} (p : Nat) : List (Call α) → Option (List (Entry α))
  | [] => none
  | c :: cs =>
    match lastWrite p cs with
    | some l => some l
    | none => match c with
      | .write q l => if q = p then some l else none
      | _ => none

/-! ## parameter extraction (exact rationals; `none` = NaN) -/

abbrev V := Option Rat

/-- a parameter value with the distance of the unrounded exact value from a rounding tie -/
structure PVal where
  val : V
  margin : V
  deriving Repr

abbrev Params := List (String × List PVal)

def colIndex {α : Type} (img : Image α) (name : String) : Option Nat :=
  let i := img.names.findIdx (· == name)
  if i < img.names.length then some i else none

/-- `data[name].flat` -/
def flatCol (img : Image V) (c : Nat) : List V :=
  img.lines.flatMap (fun l => l.map (fun row => ((row[c]?).getD none)))

/-- `np.diff` -/
def diff : List V → List V
  | a :: b :: r => (match a, b with | some x, some y => some (y - x) | _, _ => none) :: diff (b :: r)
  | _ => []

/-- `np.median`: NaN if any NaN or empty, mean of the two middle values for even sizes -/
def median (l : List V) : V :=
  if l.isEmpty || l.any (·.isNone) then none else
  let s := (l.filterMap id).mergeSort (fun a b => decide (a ≤ b))
  let n := s.length
  if n % 2 == 1 then s[n / 2]? else
    match s[n / 2 - 1]?, s[n / 2]? with
    | some a, some b => some ((a + b) / 2)
    | _, _ => none

/-- round half to even -/
def roundHE (q : Rat) : Int :=
  let f := q.floor
  let r := q - f
  if r < 1 / 2 then f else if r > 1 / 2 then f + 1 else if f % 2 == 0 then f else f + 1

def absRat (q : Rat) : Rat := if q < 0 then -q else q

/-- `np.round(x, d)` = `rint(x · 10^d) / 10^d`, with the distance of `x · 10^d` from a tie -/
def npRound (d : Nat) (x : V) : PVal :=
  match x with
  | none => { val := none, margin := none }
  | some q =>
    let s := q * (10 : Rat) ^ d
    { val := some ((roundHE s : Rat) / (10 : Rat) ^ d), margin := some (absRat (s - s.floor - 1 / 2)) }

def pabs (p : PVal) : PVal := { p with val := p.val.map absRat }

def scale (k : Rat) (x : V) : V := x.map (· * k)

def nonzero (l : List V) : List V := l.filter (fun x => x != some 0)

/-- `option.readParams(data)` of the four options -/
def readParams (v : Vendor) (img : Image V) : Params :=
  match v with
  | .generic => []
  | .nu =>
    (match colIndex img "Cycle_time_(ms)" with
      | some c => [("scantime", [npRound 4 (scale (1 / 1000) (median (diff (flatCol img c))))])]
      | none => []) ++
    (match colIndex img "x_[um]", colIndex img "y_[um]" with
      | some cx, some cy =>
        [("spotsize", [pabs (npRound 2 (median (nonzero (diff (flatCol img cx))))),
                       pabs (npRound 2 (median (nonzero (diff (flatCol img cy)))))])]
      | _, _ => [])
  | .ldr =>
    match colIndex img "Time" with
    | some c => [("scantime", [npRound 4 (median (diff (flatCol img c)))])]
    | none => []
  | .tofwerk =>
    match colIndex img "t_elapsed_Buf" with
    | some c => [("scantime", [npRound 4 (median (diff (flatCol img c)))])]
    | none => []

end Pew.CsvDir
