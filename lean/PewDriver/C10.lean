import PewDriver.Util
import PewModel.Extent
import PewDriver.C09
open Lean
namespace PewDriver.C10
open PewDriver Pew Pew.Extent Pew.Srr
open PewDriver.C09 (parseSrrCfg parseRec jRec jErr jCfg)

def parseCfg (j : Json) : R Cfg := do
  let k ← getStr j "kind"
  match k with
  | "raster" => pure (.raster (← getRat j "spotsize") (← getRat j "speed") (← getRat j "scantime"))
  | "spot" => pure (.spot (← getRat j "sx") (← getRat j "sy"))
  | _ => throw s!"bad config kind {k}"

def jExt (e : Ext) : Json := jList jRat [e.x0, e.x1, e.y0, e.y1]

/-- the token grid: pixel `(r, c)` of a `rows × cols` image carries `r * cols + c + 1` -/
def grid (rows cols : Nat) : Arr2 Int :=
  { rows := rows, cols := cols, get := fun r c => ((r * cols + c + 1 : Nat) : Int) }

def jArr2 (a : Arr2 Int) (full : Bool) : Json :=
  let first := if a.rows = 0 ∨ a.cols = 0 then Json.null else jInt (a.get 0 0)
  let last := if a.rows = 0 ∨ a.cols = 0 then Json.null else jInt (a.get (a.rows - 1) (a.cols - 1))
  let base := [("shape", jList jNat [a.rows, a.cols]), ("first", first), ("last", last)]
  if full then
    jObj (base ++ [("data", jList (fun r => jList (fun c => jInt (a.get r c)) (List.range a.cols)) (List.range a.rows))])
  else jObj base

def jCfgState (c : Cfg) : Json :=
  match c with
  | .raster s v t => jObj [("kind", jStr "raster"), ("spotsize", jRat s), ("speed", jRat v), ("scantime", jRat t)]
  | .spot x y => jObj [("kind", jStr "spot"), ("sx", jRat x), ("sy", jRat y)]

def jView (v : Option (Cfg × Nat × Nat)) : Json :=
  match v with
  | some (c, rows, cols) => jObj [("cfg", jCfgState c), ("rows", jNat rows), ("cols", jNat cols)]
  | none => Json.null

def parseAttr (s : String) : R Attr :=
  match s with
  | "spotsize" => pure .spotsize
  | "speed" => pure .speed
  | "scantime" => pure .scantime
  | "spotsize_y" => pure .spotsizeY
  | _ => throw s!"unknown attribute {s}"

/-- one entry of a history: an operation, or an observation of a laser -/
def parseHOp (j : Json) : R (Sum HOp Nat) := do
  match (← getStr j "op") with
  | "newCfg" => pure (.inl (.newCfg (.ofCfg (← fld j "cfg" >>= parseCfg))))
  | "copyCfg" => pure (.inl (.copyCfg (← getNat j "src")))
  | "newLaser" => pure (.inl (.newLaser (← getNat j "cfg") (← getNat j "rows") (← getNat j "cols")))
  | "setCfg" => pure (.inl (.setCfg (← getNat j "laser") (← getNat j "cfg")))
  | "setAttr" => pure (.inl (.setAttr (← getNat j "cfg") (← getStr j "attr" >>= parseAttr) (← getRat j "value")))
  | "setData" => pure (.inl (.setData (← getNat j "laser") (← getNat j "rows") (← getNat j "cols")))
  | "obs" => pure (.inr (← getNat j "laser"))
  | o => throw s!"unknown history op {o}"

def handle (op : String) (req : Json) : R Json := do
  match op with
  | "c10.heap" =>
    -- a history on configuration objects and lasers; at every observation: what the laser shows according to the
    -- mechanism (`Heap.run` of the operations so far) and to the specification (`viewSpec`, the history read backwards)
    let entries ← getList parseHOp req "ops"
    let (_, _, out) := entries.foldl (fun (acc : Heap × List HOp × List Json) e =>
      let (h, rev, out) := acc
      match e with
      | .inl o => (h.step o, o :: rev, out)
      | .inr l => (h, rev, out ++ [jObj [("model", jView (h.view l)), ("spec", jView (viewSpec rev l)),
                                        ("model_extent", match h.extent l with | some e => jExt e | none => Json.null),
                                        ("spec_extent", match extentHistSpec rev l with | some e => jExt e | none => Json.null)]]))
      (({ cfgs := [], lasers := [] } : Heap), [], [])
    pure (jObj [("obs", Json.arr out.toArray)])
  | "c10.extent" =>
    let c ← fld req "cfg" >>= parseCfg
    let rows ← getNat req "rows"
    let cols ← getNat req "cols"
    let data := grid rows cols
    let jc := fun (c' : Cfg) => jObj [("kind", jStr (match c'.kind with | .raster => "raster" | .spot => "spot")),
      ("values", jList jRat (match c' with | .raster a b t => [a, b, t] | .spot x y => [x, y])),
      ("pw", jRat c'.pixelWidth), ("ph", jRat c'.pixelHeight), ("extent", jExt (laserExtent c' data))]
    let jr := fun (r : Except ArrErr Cfg) => match r with
      | .ok c' => jc c'
      | .error e => jErr e
    let rt := jr (Cfg.fromRec c.kind c.toRec)
    -- `from_array` of both classes on the REAL arrays the harness encoded (own class and the other classes)
    let given ← getList parseRec req "arrays"
    let fromReal := given.map (fun a => jObj [("raster", jr (Cfg.fromRec .raster a)), ("spot", jr (Cfg.fromRec .spot a)),
      ("srr", match SrrConfig.fromRec a with | .ok sc => jCfg sc | .error e => jErr e)])
    let sp := c.specExtent rows cols
    pure (jObj [
      ("model", jObj [("pw", jRat c.pixelWidth), ("ph", jRat c.pixelHeight),
                      ("extent", jExt (laserExtent c data)), ("data_extent", jExt (c.dataExtent [rows, cols])),
                      ("array", jRec c.toRec), ("dtypes", jList jStr c.arrayDtypes), ("roundtrip", rt),
                      ("from_arrays", Json.arr fromReal.toArray)]),
      -- the same in float64 (`fl`): what CPython evaluates when no intermediate leaves the normal exponent range
      ("modelF", jObj [("pw", jRat c.pixelWidthF), ("ph", jRat c.pixelHeightF), ("extent", jExt (laserExtentF c data))]),
      ("positive", jBool (match c with | .raster s v t => decide (0 < s ∧ 0 < v ∧ 0 < t) | .spot x y => decide (0 < x ∧ 0 < y))),
      ("spec", jObj [("extent", jExt sp),
                     ("pw", jRat (match c with | .raster _ v t => v * t | .spot sx _ => sx)),
                     ("ph", jRat (match c with | .raster s _ _ => s | .spot _ sy => sy))])])
  | "c10.get" =>
    let c ← fld req "cfg" >>= parseCfg
    let rows ← getNat req "rows"
    let cols ← getNat req "cols"
    let full ← getBool req "full"
    let e ← getList asRat req "extent"
    let rect ← getList asNat req "rect"
    match e, rect with
    | [x0, x1, y0, y1], [r0, r1, c0, c1] =>
      let data := grid rows cols
      let ext : Ext := { x0 := x0, x1 := x1, y0 := y0, y1 := y1 }
      let qs := [x0 / c.pixelWidth, x1 / c.pixelWidth, y0 / c.pixelHeight, y1 / c.pixelHeight]
      pure (jObj [
        ("model", jArr2 (get c data ext) full),
        -- the float64 pipeline, and whether each bound counts as "near its pixel boundary" (hypotheses of `get_float_config`)
        ("modelF", jArr2 (getF c data ext) full),
        ("indicesF", jList (fun q => jInt (toIndex (fl q))) [x0 / c.pixelWidthF, x1 / c.pixelWidthF, y0 / c.pixelHeightF, y1 / c.pixelHeightF]),
        ("near", jList jBool [decide (NearBoundary x0 c.pixelWidthF c0), decide (NearBoundary x1 c.pixelWidthF c1),
                              decide (NearBoundary y0 c.pixelHeightF r0), decide (NearBoundary y1 c.pixelHeightF r1)]),
        ("pwF", jRat c.pixelWidthF), ("phF", jRat c.pixelHeightF),
        ("indices", jList (fun q => jInt (toIndex q)) qs),
        ("indices_old", jList (fun q => jInt (toIndexOld q)) qs),
        ("margins", jList (fun q => jRat (tieMargin q)) qs),
        ("quotients", jList jRat qs),
        ("spec", jArr2 (rectSpec data r0 r1 c0 c1) full)])
    | _, _ => throw "extent/rect need four entries"
  | "c10.srr" =>
    -- the configuration is computed from the constructor / setter inputs (`cfg` + `ops`), the magnification is the
    -- model's float64 value of `spotsize / (speed * scantime)`
    let c ← fld req "cfg" >>= parseSrrCfg
    let m := c.magnification
    let shapes ← getList (asList asNat) req "shapes"
    let layers : List (Arr2 Int) ← shapes.mapM (fun s => match s with
      | [r, k] => pure (grid r k)
      | _ => throw "shape pair expected")
    let obs ← getList asRat req "observed"   -- x0, x1, y0, y1, px, py as observed on the implementation
    let p := subpixelsPerPixel c.size m
    let mexact := magInt m
    let modelRatio := match srrLaserExtent c m layers with
      | some e => jList jRat [(e.x1 - e.x0) / srrPixelWidth c m none, (e.y1 - e.y0) / srrPixelHeight c m none]
      | none => Json.null
    let modelExtent := match srrLaserExtent c m layers with
      | some e => jExt e
      | none => Json.null
    let modelShape := match krisskross 0 c m layers with
      | some a => jList jNat [a.rows, a.cols]
      | none => Json.null
    let specShape := match layers[0]?, layers[1]? with
      | some d0, some d1 => jList jNat [reconRows d0.rows mexact p c.offs, reconCols d1.rows mexact p c.offs]
      | _, _ => Json.null
    let obsRatio := match obs with
      | [x0, x1, y0, y1, px, py] => if px = 0 ∨ py = 0 then Json.null else jList jRat [(x1 - x0) / px, (y1 - y0) / py]
      | _ => Json.null
    pure (jObj [("model_ratio", modelRatio), ("model_shape", modelShape), ("spec_shape", specShape),
                ("model_extent", modelExtent),
                ("model_px", jRat (srrPixelWidth c m none)), ("model_py", jRat (srrPixelHeight c m none)),
                ("valid", jOpt jBool (validForData c m layers)),
                ("observed_ratio", obsRatio), ("config", jCfg c), ("spp", jNat p), ("warmup", jInt c.warmup),
                ("size", jNat c.size), ("offs", jList jNat c.offs)])
  | _ => throw s!"unknown op {op}"

end PewDriver.C10
