import PewDriver.Util
import PewModel.Effects
open Lean
namespace PewDriver.C19
open PewDriver Pew.Effects

def parseSrc (j : Json) : R Src := do
  let a ← asArr j
  match a with
  | [.str "param", i] => do pure (.param (← asNat i))
  | [.str "fresh", k] => do pure (.fresh (← asNat k))
  | [.str "alias", ys] => do pure (.alias (← asList asNat ys))
  | [.str "load", ys, l, k] => do pure (.load (← asList asNat ys) (← asNat l) (← asNat k))
  | [.str "reach", ys] => do pure (.reach (← asList asNat ys))
  | [.str "unknown"] => pure .unknown
  | _ => throw s!"bad src {j.compress}"

partial def parseStmt (j : Json) : R Stmt := do
  let a ← asArr j
  match a with
  | [.str "skip"] => pure .skip
  | [.str "bind", x, s] => do pure (.bind (← asNat x) (← parseSrc s))
  | [.str "write", x] => do pure (.write (← asNat x))
  | [.str "ret", x] => do pure (.ret (← asNat x))
  | [.str "kill", xs] => do pure (.kill (← asList asNat xs))
  | [.str "store", x, l, y] => do pure (.store (← asNat x) (← asNat l) (← asNat y))
  | [.str "seq", ss] => do
      let l ← asArr ss
      let l ← l.mapM parseStmt
      pure (l.foldr (fun s acc => Stmt.seq s acc) .skip)
  | [.str "branch", s, t] => do pure (.branch (← parseStmt s) (← parseStmt t))
  | [.str "loop", b] => do pure (.loop (← parseStmt b))
  | _ => throw s!"bad stmt {j.compress.take 80}"

def dedupSort (l : List Nat) : List Nat := (l.eraseDups.toArray.qsort (· < ·)).toList

def handle (op : String) (req : Json) : R Json := do
  match op with
  | "c19.analyse" =>
    let np ← getNat req "np"
    let prog ← fld req "prog" >>= parseStmt
    let a := ana np prog A.empty
    pure (jObj [("write", jList jNat (dedupSort (a.report np))),
                ("ret", jList jNat (dedupSort (a.reportRet np))),
                ("top", jBool a.top)])
  | "c19.history" =>
    -- the per-class obligation: `ana` on `history c ms` (all call histories on one object; theorem `history_write_sound`)
    let np ← getNat req "np"
    let c ← fld req "ctor" >>= parseStmt
    let ms ← fld req "methods" >>= asArr
    let ms ← ms.mapM parseStmt
    let a := ana np (history c ms) A.empty
    pure (jObj [("write", jList jNat (dedupSort (a.report np))), ("top", jBool a.top)])
  | "c19.two_call" =>
    -- names the method of a broken history obligation: `ana` on each `c; m` (theorem `twoCall_write_sound`)
    let np ← getNat req "np"
    let c ← fld req "ctor" >>= parseStmt
    let ms ← fld req "methods" >>= asArr
    let ms ← ms.mapM parseStmt
    pure (jObj [("two_call", jList (jList jNat) (ms.map (fun m => dedupSort ((ana np (.seq c m) A.empty).report np))))])
  | "c19.retained" =>
    -- the parameters the object built by `c` (receiver variable `x`) may retain (theorem `retention_sound`)
    let np ← getNat req "np"
    let c ← fld req "ctor" >>= parseStmt
    let x ← getNat req "x"
    let t ← getNat req "t"
    let a := ana np (retProg c x t) A.empty
    pure (jObj [("retained", jList jNat (dedupSort (a.reportRet np))), ("top", jBool a.top)])
  | _ => throw s!"unknown op {op}"

end PewDriver.C19
