import PewDriver.Util
open Lean
namespace PewDriver.C02
open PewDriver

def handle (op : String) (_req : Json) : R Json := do
  match op with
  | _ => throw s!"unknown op {op}"

end PewDriver.C02
