import PewDriver.Util
import PewModel.Agilent
open Lean
namespace PewDriver.C02
open PewDriver Pew.Agilent
abbrev Nm := Pew.Agilent.Name

def getName (j : Json) (k : String) : R Nm := do pure (← getStr j k).toList
def asName (j : Json) : R Nm := do pure (← asStr j).toList
def jName (n : Nm) : Json := jStr (String.ofList n)

def getOptField {α} (f : Json → R α) (j : Json) (k : String) : R (Option α) := fld j k >>= asOpt f

def parseMethod (j : Json) : R Method := do
  match ← asStr j with
  | "batch_xml" => pure .batchXml
  | "batch_csv" => pure .batchCsv
  | "acq_method_xml" => pure .acqMethod
  | "alphabetical" => pure .alphabetical
  | s => throw s!"bad method {s}"

def parseEntry (j : Json) : R Entry := do
  pure { name := ← getName j "name", isDir := ← getBool j "dir" }

def parseLog (j : Json) : R LogEntry := do
  pure { result := ← getName j "result", file := ← getOptField asName j "file" }

def parseRow (j : Json) : R CsvRow := do
  pure { id := ← getNat j "id", file := ← getName j "file", result := ← getName j "result" }

def parseSample (j : Json) : R Sample := do
  pure { id := ← getOptField asInt j "id", file := ← getOptField asName j "file" }

def parseElement (j : Json) : R AcqElement := do
  pure { name := ← getName j "name", mz := ← getInt j "mz", selected := ← getInt j "selected" }

def parseXMass (j : Json) : R XMass := do
  pure { name := ← getName j "name", mass := ← getInt j "mass", acctime := ← getRat j "acctime" }

def parseXAdd (j : Json) : R XAdd := do
  pure { index := ← getNat j "index", precursor := ← getInt j "precursor", product := ← getInt j "product" }

def parseScan (j : Json) : R ScanRec := do
  pure { off := ← getNat j "off", bc := ← getNat j "bc", time := ← getRat j "time" }

def parseCsvFile (j : Json) : R CsvFile := do
  pure { pre := ← getList asName j "pre", header := ← getList asName j "header",
         rows := ← getList (asList asName) j "rows", foot := ← getList asName j "foot", eol := ← getName j "eol" }

def parseFile {α} (val : Json → R α) (key : String) (j : Json) : R (DataFile α) := do
  pure { name := ← getName j "name", hasBinary := ← getBool j "binary", scans := ← getList parseScan j "scans",
         profile := ← getList (asList val) j key, csv := ← getOptField parseCsvFile j "csv" }

def jErr : Err → Json
  | .value => jObj [("raises", jStr "ValueError")]
  | .notFound => jObj [("raises", jStr "FileNotFoundError")]
  | .key => jObj [("raises", jStr "KeyError")]
  | .other => jObj [("raises", jStr "other")]

def jTimes (t : List (List Rat)) : Json := jList (jList jRat) t

def jImage {β} (enc : β → Json) (st : List (List Rat) → Json) : Except Err (Image β) → Json
  | .error e => jErr e
  | .ok im => jObj [("names", jList jName im.names), ("img", jList (jList (jList enc)) im.img),
                    ("times", jTimes im.times), ("scantime", st im.times)]

def stModel (t : List (List Rat)) : Json :=
  if ((t.map diffs).flatten).isEmpty then Json.null else jRat (meanDiff t)

def stSpec (t : List (List Rat)) : Json :=
  let m := (t.head?.map (·.length)).getD 0
  if t.isEmpty || m < 2 then Json.null else jRat (meanDiffSpec t m)

def jOptNames : Option (List Nm) → Json
  | none => jObj [("raises", jStr "ValueError")]
  | some l => jList jName l

def mapImage {β γ} (f : β → γ) (im : Image β) : Image γ :=
  { names := im.names, img := im.img.map (·.map (·.map f)), times := im.times }

/-- a return value: `params` is `null` when the bare array was returned -/
def jReturned (st : List (List Rat) → Json) : Except Err (Returned Json) → Json
  | .error e => jErr e
  | .ok r => jObj [("names", jList jName r.names), ("img", jList (jList (jList id)) r.img),
                   ("params", match r.params with
                     | none => Json.null
                     | some t => jObj [("times", jTimes t), ("scantime", st t)]),
                   ("time_field", match r.timeField with
                     | none => Json.null
                     | some t => jTimes t)]

/-- one call of an entry point: the function and the options the caller passes (`null` = omitted) -/
def parseCall (j : Json) : R (String × CallOpts) := do
  pure (← getStr j "fn",
        { methods := ← getOptField (asList parseMethod) j "methods", cps := ← getOptField asBool j "cps",
          useAcq := ← getOptField asBool j "use_acq", full := ← getOptField asBool j "full",
          drop := ← getOptField (asList asName) j "drop" })

def handle (op : String) (req : Json) : R Json := do
  match op with
  | "c02.import" =>
    let listing ← getList parseEntry req "listing"
    let xml ← getOptField (asList parseLog) req "xml"
    let csv ← getOptField (asList parseRow) req "csv"
    let acqj ← fld req "acq"
    let (samples, acqNames) ← match acqj with
      | .null => pure ((none : Option (List Sample)), (none : Option (List Nm)))
      | j => do
        let s ← getList parseSample j "samples"
        let es ← getList parseElement j "elements"
        let msms ← getBool j "msms"
        pure (some s, some (acqElements msms es))
    let m : Meta := { listing := listing, xml := xml, csv := csv, acq := samples }
    let xs ← getList parseXMass req "xspecific"
    let xadd ← getOptField (fun j => do
      pure ((← getBool j "msms"), (← getList parseXAdd j "rows"))) req "xadd"
    let methods ← getList parseMethod req "methods"
    let useAcq ← getBool req "use_acq"
    let cpsOn ← getBool req "cps"
    let filesT ← getList (parseFile asInt "vals") req "files"
    -- collection: every single method and the given list
    let singles : List (String × List Method) :=
      [("batch_xml", [.batchXml]), ("batch_csv", [.batchCsv]), ("acq_method_xml", [.acqMethod]),
       ("alphabetical", [.alphabetical]), ("methods", methods)]
    let coll (spc : Bool) := jObj (singles.map (fun (n, ms) => (n, jOptNames (collect m spc ms))))
    -- mass table
    let mi := massInfo xs xadd
    let miSpec := massInfoSpec xs xadd
    let jMass (l : List MassInfo) := jList (fun (x : MassInfo) =>
      jObj [("id", jNat x.id), ("str", jName x.str), ("acctime", jRat x.acctime)]) l
    -- binary, bit tokens
    let binM := loadBinary m filesT mi methods
    let binS := loadBinarySpec m filesT miSpec methods
    -- binary, rationals, counts per second
    let rv ← getBool req "rational"
    if cpsOn && !rv then throw "cps needs rational values"
    let filesR ← if rv then getList (parseFile asRat "rvals") req "files" else pure []
    let cpsM := (loadBinary m filesR mi methods).map (fun im => if cpsOn then cps (mi.getD []) im else im)
    let cpsS := (loadBinarySpec m filesR miSpec methods).map (fun im => if cpsOn then cps miSpec im else im)
    -- csv
    let acqN := if useAcq then acqNames else none
    let csvM := loadCsv m filesT acqN methods
    let specNames := if useAcq && acqNames.isSome then some (miSpec.map (·.str)) else none
    let csvS := loadCsvSpec m filesT specNames methods
    -- load: binary (counts per second when requested), else csv
    let binJM : Except Err (Image Json) := if cpsOn then cpsM.map (mapImage jRat) else binM.map (mapImage jInt)
    let binJS : Except Err (Image Json) := if cpsOn then cpsS.map (mapImage jRat) else binS.map (mapImage jInt)
    let loadM := load binJM (csvM.map (mapImage jRat))
    let loadS := load binJS (csvS.map (mapImage jRat))
    -- binary-vs-CSV agreement: "the CSV text was printed from the recorded counts per second", decided on the
    -- exact values with `printSlack` (the hypothesis of `agree_of_printed` / `agree_transfer`)
    let decimals ← getNat req "decimals"
    let tol : Rat := halfUnit decimals
    let presentOf (spc : Bool) : Option (List Bool) :=
      match linesOf m spc methods with
      | .ok lines => some (lines.map (fun n => ((findFile filesT n).bind (·.csv)).isSome))
      | .error _ => none
    let agreeOf (spc : Bool) (bin : Except Err (Image Rat)) (tbl : List MassInfo) (csvI : Except Err (Image Rat)) : Json :=
      match presentOf spc, bin, csvI with
      | some present, .ok b, .ok c =>
        if rv then jBool (agree tol printSlack present (cps tbl b) c) else Json.null
      | _, _, _ => Json.null
    let agM := agreeOf false (loadBinary m filesR mi methods) (mi.getD []) csvM
    let agS := agreeOf true (loadBinarySpec m filesR miSpec methods) miSpec csvS
    -- hypotheses of the pixel theorems that the generator varies
    let k := xs.length
    let r0 := (filesT.head?.map (·.scans.length)).getD 0
    let hypIdx := match xadd with
      | none => true
      | some (_, rows) => rows.all (fun a => decide (1 ≤ a.index ∧ a.index ≤ k))      -- hypothesis of `massInfo_spec`
    let hypLayout := hypIdx && filesT.all (fun f => layoutB k f.scans f.profile && f.scans.length == r0)
    let hypCsv := csvShapeB filesT
    -- method file vs log
    let acqEq : Json := match xml, samples with
      | some l, some s => jBool (acqLogHyp l (sortByInt sampleKey s))
      | _, _ => Json.null
    let jNull (b : Bool) (j : Json) : Json := if b then j else Json.null
    -- the entry points called with explicit / omitted options (PewModel/Agilent.lean, section 9)
    let calls ← getList parseCall req "calls"
    let evalCall (c : String × CallOpts) : R Json := do
      let (fn, o) := c
      if o.cpsV && !rv then throw "cps needs rational values"
      -- the call on the disk as it is (PewModel/Agilent.lean, section 10): bit tokens for counts, exact rationals for
      -- counts per second and for the CSV text
      let dT : Disk Int := { mt := m, files := filesT, xs := xs, xadd := xadd, acq := acqNames }
      let dR : Disk Rat := { mt := m, files := filesR, xs := xs, xadd := xadd, acq := acqNames }
      let run (spc : Bool) (ep : EntryPoint) : Except Err (Returned Json) :=
        if o.cpsV then (if spc then callOnSpec jRat jRat cps dR ep o else callOn jRat jRat cps dR ep o)
        else (if spc then callOnSpec jInt jRat (fun _ im => im) dT ep o else callOn jInt jRat (fun _ im => im) dT ep o)
      let side (spc : Bool) : R Json := do
        let st := if spc then stSpec else stModel
        match fn with
        | "load_binary" => pure (jObj [("ret", jReturned st (run spc .loadBinary)), ("via", jStr "binary")])
        | "load_csv" => pure (jObj [("ret", jReturned st (run spc .loadCsv)), ("via", jStr "csv")])
        | "load" =>
          let viaCsv := match run spc .loadBinary with | .ok _ => false | .error _ => true
          pure (jObj [("ret", jReturned st (run spc .load)), ("via", jStr (if viaCsv then "csv" else "binary"))])
        | "collect_datafiles" =>
          match o.methods with
          | none => throw "collect_datafiles needs methods"
          | some ms => pure (jObj [("ret", jOptNames (collect m spc ms)), ("via", jStr "collect")])
        | s => throw s!"bad fn {s}"
      pure (jObj [("model", ← side false), ("spec", ← side true)])
    let callsJ ← calls.mapM evalCall
    pure (jObj [
      ("calls", Json.arr callsJ.toArray),
      ("collect", jObj [("model", coll false), ("spec", coll true)]),
      ("masses", jObj [("model", (mi.map jMass).getD (jErr .key)), ("spec", jMass miSpec)]),
      ("binary", jObj [("model", jImage jInt stModel binM), ("spec", jImage jInt stSpec binS)]),
      ("cps", jObj [("model", jNull rv (jImage jRat stModel cpsM)), ("spec", jNull rv (jImage jRat stSpec cpsS))]),
      ("csv", jObj [("model", jImage jRat stModel csvM), ("spec", jImage jRat stSpec csvS)]),
      ("load", jObj [("model", jImage id stModel loadM), ("spec", jImage id stSpec loadS)]),
      ("agree", jObj [("model", agM), ("spec", agS),
        ("present", match presentOf true with | some p => jList jBool p | none => Json.null)]),
      ("hyp", jObj [("layout", jBool hypLayout), ("csv_shape", jBool hypCsv)]),
      ("acq_eq_log", acqEq)])
  | "c02.agree" =>
    -- the Lean verdict `agree … agreeSlack` on two images handed over as exact rationals of the float64 values
    -- (`null` = a non-finite value: no agreement)
    let decimals ← getNat req "decimals"
    let present ← getList asBool req "present"
    let getImg (key : String) : R (Option (List (List (List Rat)))) := do
      let raw ← getList (asList (asList (asOpt asRat))) req key
      pure (allSome (raw.map (fun line => allSome (line.map allSome))))
    let b ← getImg "bin"
    let c ← getImg "csv"
    match b, c with
    | some bi, some ci =>
      pure (jObj [("agree", jBool (agree (halfUnit decimals) agreeSlack present
        { names := [], img := bi, times := [] } { names := [], img := ci, times := [] }))])
    | _, _ => pure (jObj [("agree", jBool false)])
  | _ => throw s!"unknown op {op}"

end PewDriver.C02
