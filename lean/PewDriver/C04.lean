import PewDriver.Util
import PewModel.CsvDir
open Lean
namespace PewDriver.C04
open PewDriver Pew.CsvDir

def parseVendor (s : String) : R Vendor :=
  match s with
  | "nu" => pure .nu
  | "ldr" => pure .ldr
  | "tofwerk" => pure .tofwerk
  | "generic" => pure .generic
  | _ => throw s!"bad vendor {s}"

def vendorName : Vendor → String
  | .nu => "nu" | .ldr => "ldr" | .tofwerk => "tofwerk" | .generic => "generic"

def parseEntry (j : Json) : R (Entry V) := do
  let name ← getStr j "name"
  let isFile ← getBool j "isFile"
  let names ← getList asStr j "names"
  let rows ← getList (asList (asOpt asRat)) j "rows"
  pure { name := name, isFile := isFile, line := { names := names, rows := rows } }

def jV : V → Json := jOpt jRat

def jImage (img : Image V) : Json :=
  jObj [("names", jList jStr img.names), ("lines", jList (jList (jList jV)) img.lines)]

def jParams (p : Params) : Json :=
  jList (fun (x : String × List PVal) =>
    jObj [("name", jStr x.1),
          ("vals", jList (fun (v : PVal) => jObj [("val", jV v.val), ("margin", jV v.margin)]) x.2)]) p

def jResult : Option (Image V × Params) → Json
  | none => jObj [("raises", jStr "ValueError")]
  | some (img, p) => jObj [("image", jImage img), ("params", jParams p)]

def isNanV (x : V) : Bool := x.isNone

def pairwiseDistinct (l : List (List Int)) : Bool :=
  match l with
  | [] => true
  | x :: xs => !xs.contains x && pairwiseDistinct xs

def jChars (l : List Char) : Json := jStr (String.ofList l)

/-- one call of a history (`PewModel.CsvDir.Call`) -/
def parseCall (j : Json) : R (Call V) := do
  let c ← getStr j "c"
  match c with
  | "write" => pure (.write (← getNat j "p") (← getList parseEntry j "entries"))
  | "new" => pure (.newOpt (← parseVendor (← getStr j "vendor")))
  | "detect" => pure (.detect (← getNat j "p"))
  | "edit" =>
    -- what the harness does to an option object it holds: names appended to `drop_names`, the two NaN flags flipped
    let extra ← getList asStr j "drop"
    let i ← getNat j "i"
    pure (.editOpt i (fun o =>
      { cls := o.cls, dropNames := o.dropNames ++ extra, dropNanRows := !o.dropNanRows, dropNanCols := !o.dropNanCols }))
  | "auto" => pure (.importAuto (← getNat j "p") (← getList asNat j "pi"))
  | "with" => pure (.importWith (← getNat j "i") (← getNat j "p") (← getList asNat j "pi"))
  | _ => throw s!"bad call {c}"

def handle (op : String) (req : Json) : R Json := do
  match op with
  | "c04.load" =>
    let vs ← getStr req "vendor"
    let entries ← getList parseEntry req "entries"
    let pi ← getList asNat req "pi"
    let v ← if vs == "auto" then pure (autodetect entries) else parseVendor vs
    let acc := accepted v entries
    let mech := load isNanV readParams v timegm entries pi
    let spec := specLoad isNanV readParams v entries
    -- hypotheses of the theorems: distinct keys, every task completes, valid stamps, one header,
    -- one cell per field in every row, vendor name form
    let injective := pairwiseDistinct (acc.map (fun e => sortKey v timegm e.name))
      && pairwiseDistinct (acc.map (fun e => acqKey v e.name))
    let covers := (List.range acc.length).all (fun i => pi.contains i)
    let stamps := v != .tofwerk || acc.all (fun e => validStampB (stampFields e.name.toList))
    let nameform := v != .nu || acc.all (fun e => nuFull e.name.toList)
    let hkey := acc.all (fun p => acc.all (fun q =>
      keyLe (sortKey v timegm p.name) (sortKey v timegm q.name) == keyLe (acqKey v p.name) (acqKey v q.name)))
    let header := match acc with
      | [] => true
      | e :: es => es.all (fun x => x.line.names == e.line.names)
    let rect := acc.all (fun e => e.line.rows.all (fun r => r.length == e.line.names.length))
    pure (jObj [("vendor", jStr (vendorName v)), ("model", jResult mech), ("spec", jResult spec),
                ("accepted", jList jStr (acc.map (·.name))),
                ("order", jList jStr ((byRank (fun e => acqKey v e.name) acc).map (·.name))),
                ("keys_defined", jBool (keysDefined v (acc.map (·.name)))),
                ("valid_stamps", jBool stamps),
                ("strict_stamps", jBool (v != .tofwerk || acc.all (fun e => stampStrict e.name.toList))),
                ("hkey", jBool hkey),
                ("hyp", jBool (injective && covers && stamps && nameform && header && rect && hkey))])
  | "c04.history" =>
    -- the mechanism with its world (directories by path, option objects the caller holds): what every call returns
    let calls ← getList parseCall req "calls"
    let w : World V := { fs := fun _ => [], opts := [] }
    let tr := trace isNanV readParams timegm w calls
    pure (jObj [("results", jList (jOpt jResult) tr),
                ("options", jNat (exec isNanV readParams timegm w calls).opts.length)])
  | "c04.cells" =>
    -- the specification and the mechanism on CELL IDENTITIES (every written non-NaN cell carries its own number, NaN
    -- cells are null): which written cell stands at each position of the result
    let vs ← getStr req "vendor"
    let entries ← getList parseEntry req "entries"
    let pi ← getList asNat req "pi"
    let v ← parseVendor vs
    let img := fun (r : Option (Image V × Unit)) => match r with
      | none => jObj [("raises", jStr "ValueError")]
      | some (im, _) => jObj [("image", jImage im)]
    pure (jObj [("model", img (load isNanV (fun _ _ => ()) v timegm entries pi)),
                ("spec", img (specLoad isNanV (fun _ _ => ()) v entries))])
  | "c04.sort" =>
    -- `option.sort(option.filter(paths))` of the four options on a list of names
    let names ← getList asStr req "names"
    let one := fun (v : Vendor) =>
      let acc := names.filter (matchesV v)
      (vendorName v, jObj [("filter", jList jStr acc),
        ("sort", if keysDefined v acc then jList jStr (sortBy (fun n => sortKey v timegm n) acc)
                 else jObj [("raises", jStr "ValueError")])])
    pure (jObj [("model", jObj [one .nu, one .ldr, one .tofwerk, one .generic])])
  | "c04.names" =>
    let names ← getList asStr req "names"
    pure (jObj [("model", jList (fun (n : String) =>
      let s := n.toList
      jObj [("name", jStr n),
            ("nu", jOpt jChars (nuGroup s)),
            ("ldr", jOpt jChars (ldrGroup s)),
            ("tofwerk", jOpt (fun (g : List Char × List Char × List Char × List Char) =>
                jChars (g.1 ++ '-' :: g.2.1 ++ 'h' :: g.2.2.1 ++ 'm' :: g.2.2.2 ++ ['s'])) (tofwerkGroup s)),
            ("generic", jBool (containsCsv s)),
            ("hidden", jBool (hidden n)),
            ("stem", jChars (stem s)),
            ("numkey", jInt (stemDigitsKey s)),
            ("nufull", jBool (nuFull s)),
            ("ldrparts", jOpt (fun (g : List Char × List Char) =>
                jObj [("sample", jChars (lower g.1)), ("index", jNat (digitsNat g.2))]) (ldrParts s)),
            ("ldrkey", jList jInt (ldrKey s)),
            ("stamp", jList jNat (stampFields s)),
            ("strptime_ok", jBool (strptimeOk (stampFields s))),
            ("valid_stamp", jBool (validStampB (stampFields s))),
            ("strict_stamp", jBool (stampStrict s)),
            ("timegm", jInt (timegm (stampFields s)))]) names)])
  | _ => throw s!"unknown op {op}"

end PewDriver.C04
