import PewDriver.Util
import PewModel.FastParse
import Std.Data.HashMap
open Lean
namespace PewDriver.C17
open PewDriver Pew.FastParse

def parseItem (j : Json) : R Item := do
  let t ← getStr j "t"
  match t with
  | "cv" => pure (.cv (← getStr j "acc") (← fld j "value" >>= asOpt asStr))
  | "ref" => pure (.ref (← getStr j "ref"))
  | "user" => pure .misc
  | "misc" => pure .misc
  | _ => throw s!"bad item kind {t}"

def items (j : Json) (k : String) : R (List Item) := getList parseItem j k

def parseSpec (j : Json) : R Spec := do
  pure { items := ← items j "items", scanlist := ← items j "scanlist",
         scans := ← getList (asList parseItem) j "scans",
         arrays := ← getList (fun a => do pure ({ items := ← items a "items" } : Arr)) j "arrays",
         tail := ← items j "tail" }

def sects (j : Json) (k : String) : R (List Sect) :=
  getList (fun s => do pure ({ items := ← items s "items" } : Sect)) j k

def parseDoc (j : Json) : R Doc := do
  pure { decl := ← getBool j "decl", pre := ← sects j "pre", mid1 := ← sects j "mid1",
         mid2 := ← sects j "mid2", post := ← sects j "post",
         settingsFirst := ← getBool j "settings_first",
         groups := ← getList (fun g => do pure ({ id := ← getStr g "id", items := ← items g "items" } : Group)) j "groups",
         settings := ← getList (fun s => do pure ({ items := ← items s "items" } : Settings)) j "settings",
         spectra := ← getList parseSpec j "spectra" }

def jPGroup (g : PGroup) : Json :=
  jObj [("id", jStr g.id), ("dtype", jStr g.dtype), ("external", jBool g.external)]

def jModel (m : Model) : Json :=
  jObj [("size", jOpt (fun (p : String × String) => jList jStr [p.1, p.2]) m.scan.size),
        ("pixel", jList jStr [m.scan.pixel.1, m.scan.pixel.2]),
        ("mz", jPGroup m.mz), ("inten", jPGroup m.inten),
        ("spectra", jList (fun (s : SpecInfo) =>
          jObj [("x", jStr s.x), ("y", jStr s.y), ("tic", jOpt jStr s.tic),
                ("arrays", jList (fun (a : String × String × String) => jList jStr [a.1, a.2.1, a.2.2]) s.arrays)]) m.spectra)]

def errName : Err → String
  | .eof => "eof" | .keyError => "KeyError" | .typeError => "TypeError" | .valueError => "ValueError"
  | .indexError => "IndexError" | .aborted => "UserWarning"

def jResult : Except Err Model → Json
  | .ok m => jObj [("ok", jModel m)]
  | .error e => jObj [("raises", jStr (errName e))]

/-! the conversions of `Bin`, realised from tables the harness sends: attribute text ↦ the value
`int()` / `float()` give for it, (group id, offset text, length text) ↦ the numbers stored there -/

def lookupD {β} (tbl : List (String × β)) (k : String) (dflt : β) : β :=
  match tbl.lookup k with
  | some v => v
  | none => dflt

/-- `offsets[id]`, `lengths[id]`: the dictionary keeps the last array with that reference -/
def arrayOf (s : SpecInfo) (id : String) : Option (String × String) :=
  (s.arrays.reverse.find? (fun a => a.1 == id)).map (fun a => a.2)

def mkBin (ints : List (String × Nat)) (floats : List (String × Rat))
    (reads : Std.HashMap (String × String × String) (List Rat)) : Bin :=
  { int := fun s => lookupD ints s 0, float := fun s => lookupD floats s 0,
    read := fun g s => match arrayOf s g.id with
      | some (o, l) => reads.getD (g.id, o, l) []
      | none => [] }

/-- every text the extraction converts is in the tables, every spectrum has both arrays with strictly
increasing non-empty m/z axes of the intensities' length, 1-based positions inside the image:
the class on which `Pew.Imzml`'s placement and window sums are the NumPy ones -/
def imagesHyp (B : Bin) (ints : List (String × Nat)) (floats : List (String × Rat))
    (reads : Std.HashMap (String × String × String) (List Rat)) (m : Model) : Bool :=
  let size := imageSizeOf B m
  (match m.scan.size with
    | some (x, y) => (ints.lookup x).isSome && (ints.lookup y).isSome
    | none => true) &&
  m.spectra.all (fun s =>
    (ints.lookup s.x).isSome && (ints.lookup s.y).isSome &&
    (match s.tic with | some t => (floats.lookup t).isSome | none => true) &&
    (match arrayOf s m.mz.id, arrayOf s m.inten.id with
      | some (o1, l1), some (o2, l2) => reads.contains (m.mz.id, o1, l1) && reads.contains (m.inten.id, o2, l2)
      | _, _ => false) &&
    (let t := toSpectrum B m s
     Pew.Imzml.incrB t.mz && t.mz.length == t.it.length && !t.mz.isEmpty &&
     decide (1 ≤ t.x) && decide (1 ≤ t.y) && decide (t.x ≤ size.1) && decide (t.y ≤ size.2)))

def jImages (B : Bin) (m : Model) (masses : List Rat) (w : Pew.Imzml.Width) : Json :=
  let size := imageSizeOf B m
  jObj [("size", jList jNat [size.1, size.2]),
        ("tic", jList (jList (jOpt jRat)) (ticImageOf B m)),
        ("mass", jList (jList (jOpt (jList jRat))) (massImageOf B m masses w))]

def handle (op : String) (req : Json) : R Json := do
  match op with
  | "c17.parse" =>
    let d ← fld req "doc" >>= parseDoc
    let lens ← getList asNat req "lens"
    let cname ← getStr req "cls"
    let cls ← match cname with
      | "any" => pure clsAny
      | "word" => pure clsWord
      | _ => throw s!"bad class {cname}"
    -- index of the callback invocation that returns False (null: the callback always returns True)
    let abortAt ← fld req "abort_call" >>= asOpt asNat
    let lines := render cls d
    if lines.length ≠ lens.length then throw s!"{lines.length} lines rendered, {lens.length} lengths given"
    let ls := lines.zip lens
    let free := run (fun _ => true) ls
    let cb : Nat → Bool := match abortAt with
      | none => fun _ => true
      | some k => match free.calls[k]? with
        | some p => fun q => q != p
        | none => fun _ => true
    let s := run cb ls
    -- specification of the callback positions: the formula over the line lengths; for an aborting
    -- callback the first `abort + 1` of them
    -- (`callPositionsFast` = `callPositions`, `callLinesFast` = the list of `callLine k`: theorems `callPositionsFast_eq`,
    -- `callLinesFast_eq`)
    let positions := callPositionsFast cls d lens
    let specCalls := match abortAt with
      | none => positions
      | some k => positions.take (k + 1)
    let xd := xmlDoc d
    let xml := xmlView xd
    let fastFree := fastParse (fun _ => true) ls
    -- the images of both models, when the harness sent the conversion tables
    let bin ← fld req "bin"
    let images ← match bin with
      | .null => pure Json.null
      | b => do
        let ints ← getList (fun j => do pure ((← getStr j "text"), (← getNat j "value"))) b "ints"
        let floats ← getList (fun j => do pure ((← getStr j "text"), (← getRat j "value"))) b "floats"
        let reads ← getList (fun j => do
          pure (((← getStr j "id"), (← getStr j "offset"), (← getStr j "length")), (← getList asRat j "data"))) b "reads"
        let masses ← getList asRat b "masses"
        let width ← getRat b "width_mz"
        let tbl : Std.HashMap (String × String × String) (List Rat) := Std.HashMap.ofList reads
        let B := mkBin ints floats tbl
        let one (m : Option Model) : Json := match m with
          | some m => if imagesHyp B ints floats tbl m then jImages B m masses (.mz width) else Json.null
          | none => Json.null
        pure (jObj [("xml", one xml), ("fast", one fastFree.toOption)])
    pure (jObj [("fast", jResult (fastParse cb ls)), ("calls", jList jNat s.calls),
                ("fast_free", jResult fastFree), ("calls_free", jList jNat free.calls),
                ("xml", jOpt jModel xml),
                ("call_positions", jList jNat positions), ("spec_calls", jList jNat specCalls),
                ("call_lines", jList jNat (callLinesFast cls d)),
                ("layout", jBool (decide (Layout cls d))),
                ("text_ok", jBool (decide (TextOk d))),
                ("layout_core_decoded", jBool (decide (LayoutCore cls xd))),
                ("images", images),
                ("nlines", jNat lines.length)])
  | _ => throw s!"unknown op {op}"

end PewDriver.C17
